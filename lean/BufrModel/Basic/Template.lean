/-
  Template views and table selection (`pybufrkit/descriptors.py`, `pybufrkit/tables.py`).

  * `originalIds`      — `BufrTemplate.original_descriptor_ids`: the ids a template was built from.
                         Python keeps a work queue (`members.pop(0)`; the members of a replication
                         are pushed back *in front* of the queue; sequences are NOT opened).
                         `originalIdsQ` is that queue algorithm literally, `originalIds` the
                         structural pre-order walk; `originalIdsQ_eq` shows they coincide.
  * `flatMemberIds`    — `descriptors.flat_member_ids`: sequences are opened (their own id vanishes),
                         a replication contributes its id (+ factor id) and then its members.
  * `leaves`           — every Table B position of a tree (element leaves, factors), sequences opened.
  * `normalizeTablesSn` / `getTablesSn` — `tables.normalize_tables_sn` / `get_tables_sn` over an
                         abstract directory-existence predicate.
  * `walkSkel`         — the dispatch skeleton of `coder.py process_members`: the only thing it
                         knows about an undefined descriptor is that it raises `UnknownDescriptor`.
-/
import BufrModel.Basic.Desc
namespace Bufr

/-- Every Table B entry carries the id it is filed under (`ElementDescriptor(id_, *fields)` in
    `TableB.__init__`; true by construction of every table the driver loads). -/
def Tables.Keyed (T : Tables) : Prop := ∀ id e, T.b id = some e → e.id = id

/-! ### original_descriptor_ids -/

mutual
/-- ids one member contributes to `original_descriptor_ids` -/
def Desc.originalIds : Desc → List Nat
  | .elem e => [e.id]
  | .undefElem i => [i]
  | .undefSeq i => [i]
  | .op i => [i]
  | .seq i _ => [i]                                     -- sequences are not opened
  | .fixedRep i ms => i :: originalIds ms
  | .delayedRep i f ms => i :: f.id :: originalIds ms   -- `ret.append(member.factor.id)`
/-- `BufrTemplate.original_descriptor_ids` of a member list (structural form) -/
def originalIds : List Desc → List Nat
  | [] => []
  | d :: ds => d.originalIds ++ originalIds ds
end

mutual
def Desc.size : Desc → Nat
  | .fixedRep _ ms => 1 + sizeL ms
  | .delayedRep _ _ ms => 1 + sizeL ms
  | .seq _ ms => 1 + sizeL ms
  | _ => 1
def sizeL : List Desc → Nat
  | [] => 0
  | d :: ds => d.size + sizeL ds
end

theorem sizeL_append (a b : List Desc) : sizeL (a ++ b) = sizeL a + sizeL b := by
  induction a with
  | nil => simp [sizeL]
  | cons d ds ih => simp [sizeL, ih]; omega

/-- `original_descriptor_ids` exactly as written: a work queue; `members = member.members + members`. -/
def originalIdsQ (queue : List Desc) : List Nat :=
  match queue with
  | [] => []
  | .fixedRep i ms :: q => i :: originalIdsQ (ms ++ q)
  | .delayedRep i f ms :: q => i :: f.id :: originalIdsQ (ms ++ q)
  | .elem e :: q => e.id :: originalIdsQ q
  | .undefElem i :: q => i :: originalIdsQ q
  | .undefSeq i :: q => i :: originalIdsQ q
  | .op i :: q => i :: originalIdsQ q
  | .seq i _ :: q => i :: originalIdsQ q
termination_by sizeL queue
decreasing_by
  all_goals simp only [sizeL, Desc.size, sizeL_append]
  all_goals omega

/-! ### flat_member_ids -/

mutual
def Desc.flatIds : Desc → List Nat
  | .elem e => [e.id]
  | .undefElem i => [i]
  | .undefSeq i => [i]                                  -- not a SequenceDescriptor: `ret.append(member.id)`
  | .op i => [i]
  | .seq _ ms => flatMemberIds ms                       -- opened, own id dropped
  | .fixedRep i ms => i :: flatMemberIds ms
  | .delayedRep i f ms => i :: f.id :: flatMemberIds ms
/-- `flat_member_ids(descriptor)` where `descriptor.members = ds` -/
def flatMemberIds : List Desc → List Nat
  | [] => []
  | d :: ds => d.flatIds ++ flatMemberIds ds
end

/-! ### Table B positions -/

mutual
/-- the Table B positions of one member: element leaves and replication factors, sequences opened -/
def Desc.leaves : Desc → List Desc
  | .elem e => [.elem e]
  | .undefElem i => [.undefElem i]
  | .undefSeq _ => []
  | .op _ => []
  | .seq _ ms => leaves ms
  | .fixedRep _ ms => leaves ms
  | .delayedRep _ f ms => f :: leaves ms
def leaves : List Desc → List Desc
  | [] => []
  | d :: ds => d.leaves ++ leaves ds
end

/-! ### table selection -/

/-- one table directory `root/<mtn>/<centre>_<sub>/<ver>` -/
structure TablesSn where
  mtn : Nat
  centre : Nat
  sub : Nat
  ver : Nat
  deriving DecidableEq, Repr, Inhabited

def defaultMasterTableNumber : Nat := 0
def defaultSubcentre : Nat := 0
def defaultMasterTableVersion : Nat := 33

/-- `get_tables_sn`: no look at the file system at all. -/
def getTablesSn (mtn centre sub mtv ltv : Nat) : TablesSn × Option TablesSn :=
  (⟨mtn, 0, 0, mtv⟩, if ltv ≠ 0 then some ⟨mtn, centre, sub, ltv⟩ else none)

/-- `normalize_tables_sn` below the (possibly replaced) master table number `m`:
    WMO version, then the local candidates `centre_sub`, `centre_0`. -/
def normalizeUnder (isDir : TablesSn → Bool) (m centre sub mtv ltv : Nat) : TablesSn × Option TablesSn :=
  let wmo : TablesSn := if isDir ⟨m, 0, 0, mtv⟩ then ⟨m, 0, 0, mtv⟩ else ⟨m, 0, 0, defaultMasterTableVersion⟩
  let loc : Option TablesSn :=
    if ltv ≠ 0 then
      if isDir ⟨m, centre, sub, ltv⟩ then some ⟨m, centre, sub, ltv⟩
      else if isDir ⟨m, centre, defaultSubcentre, ltv⟩ then some ⟨m, centre, defaultSubcentre, ltv⟩
      else none
    else none
  (wmo, loc)

/-- `normalize_tables_sn`.  `isMaster n` : `isdir(root/n)`; `isDir sn` : `isdir(root/n/c_s/v)`.
    Order of the checks as in the code: master table number first, everything else under the
    (possibly replaced) master number. -/
def normalizeTablesSn (isMaster : Nat → Bool) (isDir : TablesSn → Bool)
    (mtn centre sub mtv ltv : Nat) : TablesSn × Option TablesSn :=
  normalizeUnder isDir (if isMaster mtn then mtn else defaultMasterTableNumber) centre sub mtv ltv

/-! ### dispatch skeleton of the coder's template walk

`coder.py process_members` tests the *exact* type of every member and raises `UnknownDescriptor`
for anything that is not one of the five known descriptor classes; `UndefinedElementDescriptor`
and `UndefinedSequenceDescriptor` are the only other classes `build` can produce.  Everything the
real coder does with a known member is abstract here (`Steps`); the full coder model refines it. -/

structure Steps (σ : Type) where
  elem : σ → Elem → Except Err σ
  op : σ → Nat → Except Err σ
  /-- processing of the factor of a delayed replication: new state and the decoded count -/
  factor : σ → Desc → Except Err (σ × Nat)
  /-- prelude executed for every member before the dispatch (bitmap definition etc.) -/
  pre : σ → Desc → Except Err σ

/-- `for _ in range(n): body` over an error-propagating state transformer -/
def iterE {σ : Type} (body : σ → Except Err σ) : Nat → σ → Except Err σ
  | 0, s => .ok s
  | n + 1, s =>
    match body s with
    | .error e => .error e
    | .ok s' => iterE body n s'

mutual
def walkSkel {σ : Type} (S : Steps σ) : σ → Desc → Except Err σ
  | s, .elem e => S.elem s e
  | _, .undefElem _ => .error .unknownDescr
  | _, .undefSeq _ => .error .unknownDescr
  | s, .op i => S.op s i
  | s, .seq _ ms => walkSkelL S s ms
  | s, .fixedRep i ms => iterE (fun s => walkSkelL S s ms) (yOf i) s
  | s, .delayedRep _ f ms =>
    match f with
    | .elem _ =>                                   -- `type(descriptor.factor) is ElementDescriptor` (fix 2a17649)
      match S.factor s f with
      | .error e => .error e
      | .ok (s', n) => iterE (fun s => walkSkelL S s ms) n s'
    | _ => .error .unknownDescr
def walkSkelL {σ : Type} (S : Steps σ) : σ → List Desc → Except Err σ
  | s, [] => .ok s
  | s, d :: ds =>
    match S.pre s d with
    | .error e => .error e
    | .ok s1 =>
      match walkSkel S s1 d with
      | .error e => .error e
      | .ok s2 => walkSkelL S s2 ds
end

end Bufr
