/-
  Descriptors and tables (`pybufrkit/descriptors.py`, `pybufrkit/tables.py`).

  * `Elem` is a Table B entry as the coder uses it: id, unit *kind* (the coder only distinguishes
    `CCITT IA5`, `FLAG TABLE`/`CODE TABLE`, and everything else), scale, reference, width.
  * `Desc` is the template tree built by `_descriptors_from_ids_iter`.  Python shares descriptor
    objects (sequences are cached); the model copies by value.
  * `Tables` is abstract in theorems (two lookup functions); the driver instantiates it from the
    JSON table files streamed by the harness.
-/
import BufrModel.Basic.Bits
namespace Bufr

inductive Kind where
  | numeric | codeflag | string
  deriving DecidableEq, Repr, Inhabited

structure Elem where
  id : Nat
  kind : Kind
  nbits : Nat
  scale : Int
  ref : Int
  deriving DecidableEq, Repr, Inhabited

inductive Desc where
  | elem (e : Elem)
  | undefElem (id : Nat)                 -- UndefinedElementDescriptor
  | undefSeq (id : Nat)                  -- UndefinedSequenceDescriptor
  | fixedRep (id : Nat) (members : List Desc)
  | delayedRep (id : Nat) (factor : Desc) (members : List Desc)
  | op (id : Nat)
  | seq (id : Nat) (members : List Desc)
  deriving Repr, Inhabited

def Desc.id : Desc → Nat
  | .elem e => e.id | .undefElem i => i | .undefSeq i => i | .fixedRep i _ => i
  | .delayedRep i _ _ => i | .op i => i | .seq i _ => i

def fOf (id : Nat) : Nat := id / 100000
def xOf (id : Nat) : Nat := id / 1000 % 100
def yOf (id : Nat) : Nat := id % 1000

structure Tables where
  b : Nat → Option Elem
  d : Nat → Option (List Nat)

def Tables.lookupB (T : Tables) (id : Nat) : Desc :=
  match T.b id with
  | some e => .elem e
  | none => .undefElem id

/-- `_descriptors_from_ids_iter` (+ `TableD` construction, by value).

    A replication descriptor `1XXYYY` owns the next `X` ids of *its own* iterator (fewer when the
    iterator runs out: `generate_quiet`), after its factor when `YYY = 0`; a missing factor is a
    `StopIteration` escaping to the caller (`Err.other`).  `depth` bounds the nesting of Table D
    references (Python would build a cyclic object graph and recurse for ever while walking it). -/
def buildD (T : Tables) (depth : Nat) (ids : List Nat) : Except Err (List Desc) :=
  match ids with
  | [] => .ok []
  | id :: rest =>
    if 300000 ≤ id then
      match T.d id with
      | none => do
          let tl ← buildD T depth rest
          pure (.undefSeq id :: tl)
      | some ms =>
        match depth with
        | 0 => .error .other
        | depth' + 1 => do
          let members ← buildD T depth' ms
          let tl ← buildD T (depth' + 1) rest
          pure (.seq id members :: tl)
    else if 200000 ≤ id then do
      let tl ← buildD T depth rest
      pure (.op id :: tl)
    else if 100000 ≤ id then
      if id % 1000 = 0 then
        match rest with
        | [] => .error .other
        | f :: rest' => do
          let members ← buildD T depth (rest'.take (xOf id))
          let tl ← buildD T depth (rest'.drop (xOf id))
          pure (.delayedRep id (T.lookupB f) members :: tl)
      else do
        let members ← buildD T depth (rest.take (xOf id))
        let tl ← buildD T depth (rest.drop (xOf id))
        pure (.fixedRep id members :: tl)
    else do
      let tl ← buildD T depth rest
      pure (T.lookupB id :: tl)
termination_by (depth, ids.length)
decreasing_by
  all_goals simp_wf
  all_goals first
    | exact Prod.Lex.left _ _ (by omega)
    | exact Prod.Lex.right _ (by omega)

/-- depth used by the driver: more than any bundled Table D nests -/
def defaultDepth : Nat := 64

def build (T : Tables) (ids : List Nat) : Except Err (List Desc) := buildD T defaultDepth ids

end Bufr
