/-
  Compiled-code replacement for `readBits` (the model definition tests `bs.length < n`, which walks
  the whole remaining stream on every read).  `@[csimp]` needs — and gets — a proof that the two
  functions are equal, so nothing is trusted beyond the kernel.
-/
import BufrModel.Basic.Bits
namespace Bufr

def splitExact : Nat → Bits → Option (Bits × Bits)
  | 0, bs => some ([], bs)
  | _ + 1, [] => none
  | n + 1, b :: bs => match splitExact n bs with
    | none => none
    | some (x, r) => some (b :: x, r)

def readBitsFast (n : Nat) : R Bits := fun bs =>
  match splitExact n bs with
  | none => .error .bitRead
  | some p => .ok p

theorem splitExact_eq (n : Nat) (bs : Bits) :
    splitExact n bs = if bs.length < n then none else some (bs.take n, bs.drop n) := by
  induction n generalizing bs with
  | zero => simp [splitExact]
  | succ n ih =>
    cases bs with
    | nil => simp [splitExact]
    | cons b bs =>
      simp only [splitExact, ih, List.length_cons, List.take_succ_cons, List.drop_succ_cons]
      by_cases h : bs.length < n
      · simp [h]
      · simp [h]

@[csimp] theorem readBits_eq_fast : @readBits = @readBitsFast := by
  funext n bs
  simp only [readBits, readBitsFast, splitExact_eq]
  by_cases h : bs.length < n <;> simp [h]

end Bufr
