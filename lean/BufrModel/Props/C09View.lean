/-
  C09 — the hierarchical view of COMPRESSED data, without side hypothesis (after the repair of finding F24: a compressed
  delayed replication factor must be present and identical in every subset).

  * `C09_decode_compressed_links_same_counts_partial`, `C09_decode_compressed_links_all_subsets_partial` — class
    `wireLinksOK`: `Spec.sameCountsList` is derived for decoded output (`Lemmas/CompFactorsLinks.lean`), so EVERY subset
    of a successful compressed decode is rendered on the shared tree and converted back to its own values.
  * `C09_decode_hierarchical_view_compressed` — the statement of `C09_decode_hierarchical_view` for compressed data over
    the union class `C09.viewClass`, every subset, no hypothesis besides the class and the success of the decode.
-/
import BufrModel.Props.C09Factors
import BufrModel.Lemmas.CompFactorsLinks
namespace Bufr
open Bufr.C09

/-- class `wireLinksOK`, compressed: every subset carries the counts of subset 0 on the raw tree of subset 0 -/
theorem C09_decode_compressed_links_same_counts_partial (t : List Desc) (hq : wireLinksOK t = true) (n : Nat)
    (bits rest : Bits) (outs : List SubsetOut) (o0 : SubsetOut)
    (h : decodeCompressed t n bits = .ok (outs, rest)) (h0 : outs.head? = some o0) :
    ∃ w, Linked t o0 w ∧ (∀ o ∈ outs, o.descs = o0.descs ∧ o.links = o0.links ∧ o.vals.length = o.descs.length) ∧
      ∀ o ∈ outs, Spec.sameCountsList o0 o w.nodes = true := by
  obtain ⟨w, hl, hall⟩ := C09_decode_compressed_links_linked t hq n bits rest outs o0 h h0
  have hmem : o0 ∈ outs := List.mem_of_mem_head? h0
  have hsound := C09_links_of_sound
    (C07_links_sound_message_partial t true n bits outs rest (by simp only [decodeData, if_true]; exact h) o0 hmem)
  exact ⟨w, hl, hall, decodeCompressed_links_sameCounts hq h h0 hl.wired hsound⟩

/-- class `wireLinksOK`, compressed, EVERY subset, no hypothesis on the counts: `wireAll` succeeds with the tree of subset
    0 shared by all subsets, rendering succeeds and nested JSON -> flat returns each subset's own values.
    MISSING for the full statement: templates outside the class. -/
theorem C09_decode_compressed_links_all_subsets_partial (t : List Desc) (hq : wireLinksOK t = true) (n : Nat)
    (bits rest : Bits) (outs : List SubsetOut) (o0 : SubsetOut)
    (h : decodeCompressed t n bits = .ok (outs, rest)) (h0 : outs.head? = some o0) :
    ∃ w tree, wireRaw t o0 = .ok w ∧ wire t o0 = .ok tree ∧ wireAll t true outs = .ok (outs.map fun _ => tree) ∧
      ∀ o ∈ outs, w.st.next = o.vals.length ∧ idxList w.nodes = List.range o.vals.length ∧
        (∀ p ∈ w.st.tab, ∃ k i own, p.2 = .value k i own ∧ p.1 < i ∧ lookupLink o.links i = some p.1) ∧
        (renderNested o tree >>= nestedJsonToFlat) = .ok o.vals := by
  obtain ⟨w, hl, hall, hsame⟩ := C09_decode_compressed_links_same_counts_partial t hq n bits rest outs o0 h h0
  obtain ⟨tree, js0, ht, _⟩ := hl.core.tree_renders
  have hwire : wire t o0 = .ok tree := by unfold wire; rw [hl.wired]; exact ht
  refine ⟨w, tree, hl.wired, hwire, ?_, fun o ho => ?_⟩
  · unfold wireAll
    simp only [if_true]
    cases outs with
    | nil => cases h0
    | cons o1 os =>
      simp only [List.head?_cons, Option.some.injEq] at h0
      subst h0
      simp only [hwire]
  · obtain ⟨hd, hlk, hlen⟩ := hall o ho
    have hn : w.st.next = o.vals.length := by rw [hl.next, hlen, hd, hl.len]
    obtain ⟨tree', js, h1, h2, h3⟩ := C09_core_chain hl.wired (hl.core.shared hd hlk hlen (hsame o ho))
    rw [ht] at h1
    injection h1 with h1
    subst h1
    refine ⟨hn, by rw [C09_wire_indices_consecutive t o0 w hl.wired, hn], fun p hp => ?_, ?_⟩
    · obtain ⟨k, i, own, e, h1, _, h3, _, _⟩ := hl.owners p hp
      exact ⟨k, i, own, e, h1, by rw [hlk]; exact h3⟩
    · show (renderNested o tree >>= nestedJsonToFlat) = _
      rw [h2]
      exact h3

/-- **C09, hierarchical view, COMPRESSED data** - for every template of `C09.viewClass`, EVERY bit string and every
    number of subsets: if the compressed decode succeeds then the single wiring pass (on the flat lists of subset 0)
    succeeds, `wireAll` gives every subset that tree, and for EVERY subset `o`
    (1) the pass consumed exactly as many indices as `o` has values;
    (2) the tree holds every value of `o` exactly once, the tree order being the flat order;
    (3) every attribute attached through a bit-map sits under the element the (shared) link names, which precedes it;
    (4) rendering `o` on the tree succeeds and nested JSON -> flat returns the values of `o`.
    No side hypothesis: that every subset carries the delayed replication counts of subset 0 is what the repaired
    factor check (`decFactorC`, finding F24) guarantees (`Lemmas/CompFactorsWire.lean`, `Lemmas/CompFactorsLinks.lean`).
    Outside the class: as for `C09_decode_hierarchical_view`. -/
theorem C09_decode_hierarchical_view_compressed (t : List Desc) (hq : C09.viewClass t = true) (n : Nat)
    (bits rest : Bits) (outs : List SubsetOut) (o0 : SubsetOut)
    (h : decodeCompressed t n bits = .ok (outs, rest)) (h0 : outs.head? = some o0) :
    ∃ w tree, wireRaw t o0 = .ok w ∧ wire t o0 = .ok tree ∧ wireAll t true outs = .ok (outs.map fun _ => tree) ∧
      ∀ o ∈ outs, w.st.next = o.vals.length ∧ idxList w.nodes = List.range o.vals.length ∧
        (∀ p ∈ w.st.tab, ∃ k i own, p.2 = .value k i own ∧ p.1 < i ∧ lookupLink o.links i = some p.1) ∧
        (renderNested o tree >>= nestedJsonToFlat) = .ok o.vals := by
  unfold C09.viewClass at hq
  rw [Bool.or_eq_true, Bool.or_eq_true] at hq
  have quiet : ∀ a, quietList a t = true →
      ∃ w tree, wireRaw t o0 = .ok w ∧ wire t o0 = .ok tree ∧ wireAll t true outs = .ok (outs.map fun _ => tree) ∧
        ∀ o ∈ outs, w.st.next = o.vals.length ∧ idxList w.nodes = List.range o.vals.length ∧
          (∀ p ∈ w.st.tab, ∃ k i own, p.2 = .value k i own ∧ p.1 < i ∧ lookupLink o.links i = some p.1) ∧
          (renderNested o tree >>= nestedJsonToFlat) = .ok o.vals := by
    intro a hqa
    obtain ⟨w, hw, hnext⟩ := C09_decode_compressed_wire_consumes_all_partial a t hqa n bits rest outs o0 h h0
    obtain ⟨tree, hwire, hall, hr⟩ :=
      C09_decode_compressed_nested_json_to_flat_all_subsets_partial a t hqa n bits rest outs o0 h h0
    obtain ⟨w', hw', hn', _, htab', _⟩ := decodeCompressed_wire hqa h h0
    have : w' = w := by rw [hw] at hw'; injection hw' with e; exact e.symm
    subst this
    refine ⟨w', tree, hw, hwire, hall, fun o ho => ⟨hnext o ho, ?_, fun p hp => ?_, hr o ho⟩⟩
    · rw [C09_wire_indices_consecutive t o0 w' hw, hnext o ho]
    · rw [htab'] at hp; cases hp
  rcases hq with (hq | hq) | hq
  · exact quiet false hq
  · exact quiet true hq
  · exact C09_decode_compressed_links_all_subsets_partial t hq n bits rest outs o0 h h0

/-- non-vacuity: `exA` (204 stretch + 222000 / 223000 constructs, class `wireLinksOK` only) as compressed data of two
    subsets (all-zero bits: every column all-equal), every subset converted back -/
example : C09.viewClass exA = true ∧
    ((decodeCompressed exA 2 (zeros' 400)).toOption.map fun r =>
      r.1.length == 2 && (match wireAll exA true r.1 with
      | .ok trees => (r.1.zip trees).all fun p =>
          ((renderNested p.1 p.2 >>= nestedJsonToFlat).toOption == some p.1.vals)
      | _ => false)) = some true := by decide +kernel

end Bufr
