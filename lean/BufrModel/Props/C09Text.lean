/-
  C09, the two TEXT formats — flat text and nested text of the template data convert back to the flat values.

  Model: View/Text.lean (renderers and converters character by character, as coded).  PARAMETERS of every
  statement: the repr of values (`env.reprV`, `env.reprFlag`), `ast.literal_eval` (`ev`), the element and
  sequence names of the tables (`env.name`) and the set of flag-table elements (`env.isFlag`).  The theorems hold
  for EVERY name function - names that are empty, longer than the descriptor column, or that contain the very
  character sequences the converters key on (` b'`, `->`, `#`, `<<<<<<`, quotes, blanks) - and for every
  `reprV` / `ev` that satisfy, on the values of the message, the hypotheses `ReprOK` (Lemmas/TextBasic.lean;
  the harness tests each of them on every value it meets against Python's own repr / ast.literal_eval).

  * `C09_flat_text_to_flat` — for ALL flat lists (labels, values, links; any number of subsets, whether the lists
    are shared between the subsets as for compressed data or not): `subsets_flat_text_to_flat_json` run over the
    lines of `FlatTextRenderer` (followed by a section header) stops at that header and returns, per subset, the
    values that were printed.  `C09_flat_text_to_flat_values`: these are the flat values when the descriptor and
    value lists have the same length (the renderer zips them).
  * layout: `C09_flat_text_value_column` (the token starts at column 81 in both layouts, whatever the descriptor
    text), `C09_flat_text_value_line_not_header`.
  * `C09_nested_text_subset_partial`, `C09_nested_text_to_flat_partial` — for every template and all flat lists
    for which the wiring pass succeeds: `subsets_nested_text_to_flat_json` run over the lines of
    `NestedTextRenderer` returns the flat values, under the decidable side conditions `Wired.sideOK` (those of
    `C09_nested_json_to_flat_partial`) and `textOKList` (View/Text.lean: the descriptor string of a value line
    does not start with `3`, that of a sequence header does, no `A` label below the first attribute layer).
    `_partial`: as for nested JSON the link "every successful decode satisfies the side conditions" is not proved
    (it is evaluated on every case by the driver, op `text`).
  * layout: `C09_nested_text_value_line_appended`, `C09_nested_text_virtual_attribute_skipped`,
    `C09_nested_text_associated_field_inserted`, `C09_nested_text_structure_lines_skipped`.
  * the side conditions are needed: `example`s at the end evaluate the model on flat lists that violate one of
    them and show that the conversion then loses or misplaces a value (no decoder produces such lists).

  * `C09_text_lines_roundtrip` — `'\n'.join(lines)` followed by `splitlines()` gives the lines back under the
    decidable condition `linesOK` (no line boundary inside a line, last line not empty);
    `C09_flat_text_line_no_linebreak`: in a flat text line a boundary can only come from the name or the token.
    An `example` shows the condition is needed: an element NAME with a line feed (potential finding, real-code
    reproduction notes/C09Text_repro_name_linebreak.py).

  Not part of the model (section level, `section_text_to_flat_json`): the lines of the other sections and the case
  of ZERO subsets (the template data then renders as one empty line that the section loop cannot parse;
  potential finding, notes/C09Text_repro_zero_subsets.py).
-/
import BufrModel.Lemmas.TextFlat
import BufrModel.Lemmas.TextTree
import BufrModel.Lemmas.TextSplit
import BufrModel.Props.C09
namespace Bufr
open Bufr.C09T

/-! ### flat text -/

/-- layout: in both layouts (with and without the `-> N` link column) the value token starts exactly at the
    column the converter slices at (`line[81:]`), for every descriptor text - in particular every name -/
theorem C09_flat_text_value_column (env : TextEnv) (links : List (Nat × Nat)) (idx : Nat) (d : DDesc) (v : Val) :
    (flatLine env links idx d v).drop 81 = flatTok env d v ∧ 81 ≤ (flatLine env links idx d v).length := by
  refine ⟨flatLine_drop env links idx d v, ?_⟩
  obtain ⟨pre, hl, h⟩ := flatLine_split env links idx d v
  rw [h, List.length_append, hl]
  omega

/-- a value line is never taken for a subset or section header -/
theorem C09_flat_text_value_line_not_header (env : TextEnv) (links : List (Nat × Nat)) (idx : Nat) (d : DDesc) (v : Val) :
    startsWith sectionMark (flatLine env links idx d v) = false ∧
    startsWith subsetMark (flatLine env links idx d v) = false :=
  flatLine_not_header env links idx d v

/-- flat text -> flat, all flat lists: the converter stops at the section header that follows the template
    data and returns per subset the printed values (`zip(descriptors, values)` prints `min` of the two lengths) -/
theorem C09_flat_text_to_flat (env : TextEnv) (ev : Line → Option PyLit) (outs : List SubsetOut)
    (hdr : Line) (rest : List Line) (hhdr : startsWith sectionMark hdr = true)
    (hrepr : ∀ o ∈ outs, ∀ v ∈ o.vals, ReprOK env ev v) :
    flatTextToFlat ev PyLit.untuple (flatTextLines env outs ++ hdr :: rest) =
      .ok (hdr :: rest, outs.map fun o => (o.vals.take o.descs.length).map PyLit.val) := by
  unfold flatTextToFlat flatTextLines
  rw [ftLoop_subsets env ev outs.length hdr rest hhdr outs 0 [] hrepr]
  rfl

/-- hence, with as many descriptors as values in every subset (decidable; `len_ok` of the driver), the flat
    text converts back to exactly the flat values -/
theorem C09_flat_text_to_flat_values (env : TextEnv) (ev : Line → Option PyLit) (outs : List SubsetOut)
    (hdr : Line) (rest : List Line) (hhdr : startsWith sectionMark hdr = true)
    (hrepr : ∀ o ∈ outs, ∀ v ∈ o.vals, ReprOK env ev v)
    (hlen : ∀ o ∈ outs, o.descs.length = o.vals.length) :
    flatTextToFlat ev PyLit.untuple (flatTextLines env outs ++ hdr :: rest) =
      .ok (hdr :: rest, outs.map fun o => o.vals.map PyLit.val) := by
  rw [C09_flat_text_to_flat env ev outs hdr rest hhdr hrepr]
  congr 2
  apply List.map_congr_left
  intro o ho
  rw [hlen o ho, List.take_length]

/-! ### nested text: what the converter does with each kind of line -/

/-- a member or replication-factor line `indent descriptor description value`: the value is appended, whatever
    the description (name) is -/
theorem C09_nested_text_value_line_appended (env : TextEnv) (ev : Line → Option PyLit) (indent : Line) (k : VKind)
    (d : DDesc) (v : Val) (hi : IndentOK indent) (h3 : (descStr d).head? ≠ some '3') (h : ReprCore env ev v) :
    ntClassify ev (ntValueLine env indent false k d v) = .append (.val v) :=
  classify_value_line env ev indent k d v hi h3 h

/-- an attribute line `indent -> descriptor ...` whose descriptor is not an associated field is skipped -/
theorem C09_nested_text_virtual_attribute_skipped (env : TextEnv) (ev : Line → Option PyLit) (indent : Line) (k : VKind)
    (d : DDesc) (v : Val) (hi : IndentOK indent) (hd : d.isAssoc = false) (h : ReprCore env ev v) :
    ntClassify ev (ntValueLine env indent true k d v) = .skip :=
  classify_attr_skip env ev indent k d v hi hd h

/-- the attribute line of an associated field `indent -> A..... ...`: its value is inserted before the owner's -/
theorem C09_nested_text_associated_field_inserted (env : TextEnv) (ev : Line → Option PyLit) (indent : Line) (k : VKind)
    (d : DDesc) (v : Val) (hi : IndentOK indent) (hd : d.isAssoc = true) (h : ReprCore env ev v) :
    ntClassify ev (ntValueLine env indent true k d v) = .insert (.val v) :=
  classify_attr_insert env ev indent k d v hi hd h

/-- bare descriptors (replications, operators, 221-suppressed elements), replication headers and sequence
    headers (id starting with `3`, any name) are skipped -/
theorem C09_nested_text_structure_lines_skipped (ev : Line → Option PyLit) (indent name : Line) (id ir k : Nat)
    (hi : IndentOK indent) :
    ntClassify ev (indent ++ zpad 6 id) = .skip ∧ ntClassify ev (repHeader indent ir k) = .skip ∧
    ((zpad 6 id).head? = some '3' → ntClassify ev (indent ++ zpad 6 id ++ ' ' :: name) = .skip) :=
  ⟨classify_bare ev indent id hi, classify_rep_header ev indent ir k hi, classify_seq ev indent name id hi⟩

/-- the side condition on sequence headers in terms of the id: a Table D descriptor `3XXYYY` -/
theorem C09_sequence_id_starts_with_3 (id : Nat) (h : id / 100000 = 3) : (zpad 6 id).head? = some '3' := by
  have e : ∀ n, 10 ≤ n → natStr n = natStr (n / 10) ++ [Nat.digitChar (n % 10)] := fun n hn =>
    Nat.toDigits_of_base_le (by decide) hn
  have h0 : natStr (id / 10 / 10 / 10 / 10 / 10) = ['3'] := by
    have : id / 10 / 10 / 10 / 10 / 10 = 3 := by omega
    rw [this]; rfl
  have hs : natStr id = '3' :: [Nat.digitChar (id / 10 / 10 / 10 / 10 % 10), Nat.digitChar (id / 10 / 10 / 10 % 10),
      Nat.digitChar (id / 10 / 10 % 10), Nat.digitChar (id / 10 % 10), Nat.digitChar (id % 10)] := by
    rw [e id (by omega), e (id / 10) (by omega), e (id / 10 / 10) (by omega), e (id / 10 / 10 / 10) (by omega),
      e (id / 10 / 10 / 10 / 10) (by omega), h0]
    rfl
  unfold zpad
  simp [hs]

/-! ### nested text -> flat -/

theorem text_range_getElem_opt {α : Type} (l : List α) :
    (List.range l.length).map (fun i => l[i]?) = l.map some := by
  apply List.ext_getElem
  · simp
  · intro i h1 h2
    simp only [List.length_map, List.length_range] at h1
    simp [h1]

theorem text_map_some_inj {α : Type} : ∀ (a b : List α), a.map some = b.map some → a = b
  | [], [], _ => rfl
  | [], _ :: _, h => by cases h
  | _ :: _, [], h => by cases h
  | x :: xs, y :: ys, h => by
    rw [List.map_cons, List.map_cons] at h
    injection h with h1 h2
    rw [Option.some.inj h1, text_map_some_inj xs ys h2]

/-- One subset.  `src` is the subset the tree was wired from: the subset itself for uncompressed data, subset 0
    for compressed data (all subsets share its node list).  MISSING for the full statement: `hs`, `ht`
    (decidable, evaluated per case by the driver) for outputs of the coder.  With them: the lines of the
    subset make the converter append exactly the flat values of the subset, in flat order. -/
theorem C09_nested_text_subset_partial (env : TextEnv) (ev : Line → Option PyLit) (t : List Desc)
    (src o : SubsetOut) (w : Wired) (tree : List Node) (lines : List Line)
    (h : wireRaw t src = .ok w) (hs : w.sideOK o = true) (htree : w.tree = .ok tree)
    (ht : textOKList o tree = true) (hl : ntSubsetLines env o tree = .ok lines)
    (hrepr : ∀ v ∈ o.vals, ReprCore env ev v)
    (rest : List Line) (pre : List (List PyLit)) (cur : List PyLit) :
    ntLoop ev (lines ++ rest) (pre ++ [cur]) = ntLoop ev rest (pre ++ [cur ++ o.vals.map PyLit.val]) := by
  unfold Wired.sideOK at hs
  rw [Bool.and_eq_true, Bool.and_eq_true] at hs
  obtain ⟨⟨h1, h2⟩, h3⟩ := hs
  have hn : w.st.next = o.vals.length := by simpa using h3
  unfold ntSubsetLines at hl
  split at hl
  · cases hl
  · next bs hbs =>
    injection hl with hl; subst hl
    obtain ⟨l, hbl, hadds, hm⟩ := textList_tree env ev o hrepr w.st.tab w.fuel h2 w.nodes tree [] bs h1 ht htree hbs indentOK_nil
    rw [C09_wire_indices_consecutive t src w h, hn] at hm
    unfold valsAtT at hm
    rw [text_range_getElem_opt] at hm
    have hv : (l.map Prod.snd).flatten = o.vals := text_map_some_inj _ _ hm
    have := adds_flatten ev l hadds rest pre cur
    rw [hbl, this, hv]

/-- a subset with the subset it was wired from and its resolved tree -/
structure TextSubset where
  src : SubsetOut
  out : SubsetOut
  tree : List Node

/-- the hypotheses of `C09_nested_text_subset_partial` for one subset -/
def TextSubset.OK (t : List Desc) (s : TextSubset) : Prop :=
  ∃ w, wireRaw t s.src = .ok w ∧ w.sideOK s.out = true ∧ w.tree = .ok s.tree ∧ textOKList s.out s.tree = true

theorem text_subsets_loop (env : TextEnv) (ev : Line → Option PyLit) (t : List Desc) (n : Nat) (hdr : Line)
    (rest : List Line) (hhdr : ntClassify ev hdr = .stop) :
    ∀ (subs : List TextSubset) (i : Nat) (lines : List Line) (pre : List (List PyLit)),
      (∀ s ∈ subs, s.OK t) → (∀ s ∈ subs, ∀ v ∈ s.out.vals, ReprCore env ev v) →
      ntSubsetsFrom env n i (subs.map (·.out)) (subs.map (·.tree)) = .ok lines →
      ntLoop ev (lines ++ hdr :: rest) pre = .ok (hdr :: rest, pre ++ subs.map fun s => s.out.vals.map PyLit.val)
  | [], i, lines, pre, _, _, hl => by
    simp only [List.map_nil, ntSubsetsFrom] at hl
    injection hl with hl; subst hl
    simp [ntLoop, hhdr]
  | s :: subs, i, lines, pre, hok, hrepr, hl => by
    simp only [List.map_cons, ntSubsetsFrom] at hl
    split at hl
    · cases hl
    · next ls hls =>
      split at hl
      · cases hl
      · next more hmore =>
        injection hl with hl; subst hl
        obtain ⟨w, hw, hs, htree, ht⟩ := hok s (by simp)
        have hsub : ntClassify ev (subsetHeader (i + 1) n) = .newSubset := by
          obtain ⟨h1, h2⟩ := subsetHeader_marks (i + 1) n
          unfold ntClassify subsetHeader
          have e : subsetMark ++ " subset ".toList ++ natStr (i + 1) ++ " of ".toList ++ natStr n ++ ' ' :: subsetMark =
              '#' :: (['#', '#', '#', '#', '#'] ++ " subset ".toList ++ natStr (i + 1) ++ " of ".toList ++ natStr n ++
                ' ' :: (['#', '#', '#', '#', '#'] ++ ['#'])) := by simp [subsetMark]
          have e0 : ([] : Line) ++ ('#' :: (['#', '#', '#', '#', '#'] ++ " subset ".toList ++ natStr (i + 1) ++ " of ".toList ++ natStr n ++
                ' ' :: (['#', '#', '#', '#', '#'] ++ ['#']))) = '#' :: (['#', '#', '#', '#', '#'] ++ " subset ".toList ++ natStr (i + 1) ++ " of ".toList ++ natStr n ++
                ' ' :: (['#', '#', '#', '#', '#'] ++ ['#'])) := rfl
          rw [e, ← e0, norm_cons [] _ '#' indentOK_nil (by decide) (by decide)]
          have e1 : ['#', '#', '#', '#', '#'] ++ " subset ".toList ++ natStr (i + 1) ++ " of ".toList ++ natStr n ++
                ' ' :: (['#', '#', '#', '#', '#'] ++ ['#']) =
              (['#', '#', '#', '#', '#'] ++ " subset ".toList ++ natStr (i + 1) ++ " of ".toList ++ natStr n ++
                ' ' :: ['#', '#', '#', '#', '#']) ++ ['#'] := by simp
          rw [e1, pyRstrip_concat _ '#' (by decide)]
          simp [startsWith_cons, sectionMark, subsetMark, startsWith_nil_left]
        rw [List.cons_append, ntLoop, hsub]
        simp only
        rw [List.append_assoc, C09_nested_text_subset_partial env ev t s.src s.out w s.tree ls hw hs htree ht hls
          (hrepr s (by simp)) _ pre []]
        rw [text_subsets_loop env ev t n hdr rest hhdr subs (i + 1) more _ (fun s' hs' => hok s' (by simp [hs']))
          (fun s' hs' => hrepr s' (by simp [hs'])) hmore]
        simp

/-- nested text -> flat for a message: the converter stops at the section header that follows the template data
    and returns, per subset, the flat values.  Uncompressed data: `s.src = s.out` for every subset; compressed
    data: `s.src` = subset 0 for every subset (`TemplateData.wire` wires subset 0 only, all subsets share its
    nodes).  MISSING for the full statement: as for `C09_nested_text_subset_partial`. -/
theorem C09_nested_text_to_flat_partial (env : TextEnv) (ev : Line → Option PyLit) (t : List Desc)
    (subs : List TextSubset) (lines : List Line) (hdr : Line) (rest : List Line)
    (hhdr : ntClassify ev hdr = .stop)
    (hok : ∀ s ∈ subs, s.OK t) (hrepr : ∀ s ∈ subs, ∀ v ∈ s.out.vals, ReprCore env ev v)
    (hl : nestedTextLines env (subs.map (·.out)) (subs.map (·.tree)) = .ok lines) :
    nestedTextToFlat ev (lines ++ hdr :: rest) = .ok (hdr :: rest, subs.map fun s => s.out.vals.map PyLit.val) := by
  unfold nestedTextToFlat
  unfold nestedTextLines at hl
  rw [text_subsets_loop env ev t _ hdr rest hhdr subs 0 lines [] hok hrepr hl]
  rfl

/-- the section header that ends the template data (`<<<<<< section 5 >>>>>>`) stops the nested text loop -/
theorem C09_nested_text_section_header_stops (ev : Line → Option PyLit) (tail : Line) (c : Char)
    (hc : isPySpace c = false) : ntClassify ev (sectionMark ++ tail ++ [c]) = .stop := by
  unfold ntClassify
  have e : sectionMark ++ tail ++ [c] = [] ++ ('<' :: ((['<', '<', '<', '<', '<'] ++ tail) ++ [c])) := by simp [sectionMark]
  rw [e, norm_cons [] _ '<' indentOK_nil (by decide) (by decide), pyRstrip_concat _ c hc]
  simp [startsWith_cons, sectionMark, startsWith_nil_left]

/-! ### lines <-> one string -/

/-- the renderers join their lines with `\n`, the converters cut the text with `splitlines()`: the lines come
    back when no line holds one of the ten line boundaries of `str.splitlines` and the last line is not empty
    (decidable, `linesOK`; evaluated per case by the driver on the rendered lines).  The side condition is
    needed: see the `example` with a name that holds a line feed below. -/
theorem C09_text_lines_roundtrip (ls : List Line) (h : linesOK ls = true) : pySplitlines (joinLines ls) = ls := by
  obtain ⟨h1, h2⟩ := linesOK_iff ls h
  exact split_join ls h1 h2

/-- where a line boundary in a flat text line can come from: the descriptor text (i.e. the element name) or the
    value token - the index column, the padding and the link column never hold one -/
theorem C09_flat_text_line_no_linebreak (env : TextEnv) (links : List (Nat × Nat)) (idx : Nat) (d : DDesc) (v : Val)
    (hd : ∀ c ∈ flatDescText env d, isLineBreak c = false) (ht : ∀ c ∈ flatTok env d v, isLineBreak c = false) :
    ∀ c ∈ flatLine env links idx d v, isLineBreak c = false :=
  flatLine_nobreak env links idx d v hd ht

/-! ### non-vacuity: a concrete `repr` / `literal_eval` pair and concrete messages -/

namespace TextEx

def intStr (i : Int) : Line := if i < 0 then '-' :: natStr i.natAbs else natStr i.toNat

/-- a `repr`: `None`, decimal integers, `b'...'` / `b"..."` for bytes (adequate for bytes without backslash and
    with at most one kind of quote), a fixed token for non-integers -/
def exRepr : Val → Line
  | .missing => "None".toList
  | .int i => intStr i
  | .num _ _ => "0.5".toList
  | .bytes b =>
    let q := if b.contains 39 then '"' else '\''
    'b' :: q :: (b.map fun x => Char.ofNat x.toNat) ++ [q]

/-- the values the examples use, with their tokens (the finite part of `literal_eval` that matters) -/
def exVals : List Val :=
  [.missing, .int 1, .int 2, .int 5, .int 6, .int 99, .int 280, .int 281, .int 9, .bytes [65, 32, 98, 39, 66], .bytes [65, 66]]

def exEvPlain (tok : Line) : Option Val := exVals.find? fun v => exRepr v == tok

/-- a `literal_eval`: a token `(x, ...` is a tuple with first item `x` -/
def exEv (tok : Line) : Option PyLit :=
  match tok with
  | '(' :: r => (exEvPlain (r.takeWhile fun c => c != ',')).map PyLit.tuple
  | _ => (exEvPlain tok).map PyLit.val

def joinBits : List Nat → Line
  | [] => []
  | [b] => natStr b
  | b :: bs => natStr b ++ ',' :: ' ' :: joinBits bs

def exEnv : TextEnv :=
  { reprV := exRepr
    reprFlag := fun v bits => '(' :: exRepr v ++ ',' :: ' ' :: '[' :: joinBits bits ++ [']', ')']
    name := fun id => if id = 12001 then "TEMPERATURE/AIR TEMPERATURE -> A b' # <<<<<< and more and more text to run over the column".toList
                      else if id = 2002 then "TYPE OF INSTRUMENTATION = 3".toList else []
    isFlag := fun id => id = 2002 }

/-- decidable form of the hypotheses for one value of the example table -/
def tokChecks (v : Val) : Bool :=
  let tok := exRepr v
  exEvPlain tok == some v && !tok.isEmpty && !(tok.head?.any isPySpace) && !(tok.getLast?.any isPySpace) &&
  !tok.contains ',' && tok.head? != some '(' &&
  (match v with
   | .bytes _ => (match tok with
      | 'b' :: q :: r => quoteChars.contains q && r.getLast? == some q && pyRfind [' ', 'b', q] ('b' :: q :: r.dropLast) == none
      | _ => false)
   | _ => !tok.contains ' ' && !(tok.getLast?.any quoteChars.contains))

theorem reprOK_of_checks (v : Val) (h : tokChecks v = true) : ReprOK exEnv exEv v := by
  have hre : exEnv.reprV = exRepr := rfl
  simp only [tokChecks, Bool.and_eq_true, Bool.not_eq_true', beq_iff_eq, bne_iff_ne, ne_eq] at h
  obtain ⟨⟨⟨⟨⟨⟨hev, hne⟩, hh⟩, hl⟩, hcomma⟩, hparen⟩, hshape⟩ := h
  have hne' : exRepr v ≠ [] := by
    intro e; rw [e] at hne; simp at hne
  have hedge : EdgesOK (exRepr v) := by
    refine ⟨hne', ?_, ?_⟩
    · intro c hc; rw [hc] at hh; simpa using hh
    · intro c hc; rw [hc] at hl; simpa using hl
  have hplainEv : exEv (exRepr v) = some (.val v) := by
    unfold exEv
    split
    · next r hr => rw [hr] at hparen; simp at hparen
    · rw [hev]; rfl
  refine ⟨by rw [hre]; exact hplainEv, ?_, by rw [hre]; exact hedge, ?_, ?_, ?_⟩
  · intro bits
    show exEv ('(' :: exRepr v ++ ',' :: ' ' :: '[' :: joinBits bits ++ [']', ')']) = _
    unfold exEv
    simp only [List.cons_append]
    have : List.takeWhile (fun c => c != ',') (exRepr v ++ ',' :: ' ' :: '[' :: (joinBits bits ++ [']', ')'])) = exRepr v := by
      apply takeWhile_append_stop _ ',' (by simp)
      intro x hx
      have : x ≠ ',' := by
        intro e; subst e
        have : (exRepr v).contains ',' = true := by simpa using hx
        rw [this] at hcomma; cases hcomma
      simp [this]
    simp only [List.append_assoc, List.cons_append] at this ⊢
    rw [this, hev]; rfl
  · intro bits
    show EdgesOK ('(' :: exRepr v ++ ',' :: ' ' :: '[' :: joinBits bits ++ [']', ')'])
    refine ⟨by simp, ?_, ?_⟩
    · intro c hc
      simp only [List.cons_append, List.head?_cons, Option.some.injEq] at hc
      subst hc; decide
    · intro c hc
      have e : '(' :: exRepr v ++ ',' :: ' ' :: '[' :: joinBits bits ++ [']', ')'] =
          ('(' :: exRepr v ++ ',' :: ' ' :: '[' :: joinBits bits ++ [']']) ++ [')'] := by simp
      rw [e, List.getLast?_concat] at hc
      injection hc with hc
      subst hc; decide
  · intro b hb
    subst hb
    rw [hre]
    simp only at hshape
    split at hshape
    · next q r htok =>
      simp only [Bool.and_eq_true, beq_iff_eq] at hshape
      obtain ⟨⟨hq, hlast⟩, hfind⟩ := hshape
      have hr : r ≠ [] := by intro e; rw [e] at hlast; simp at hlast
      refine ⟨q, r.dropLast, ?_, ?_, hfind⟩
      · simpa [quoteChars] using hq
      · rw [htok]
        have : r = r.dropLast ++ [q] := by
          have h1 := (List.dropLast_concat_getLast hr).symm
          have h2 : r.getLast hr = q := by
            have := List.getLast?_eq_some_getLast hr
            rw [this] at hlast
            exact Option.some.inj hlast
          rw [h2] at h1
          exact h1
        rw [List.cons_append, List.cons_append, ← this]
    · cases hshape
  · intro hnb
    have hs : (!(exRepr v).contains ' ' && !((exRepr v).getLast?.any quoteChars.contains)) = true := by
      cases v with
      | bytes b => exact absurd rfl (hnb b)
      | missing => exact hshape
      | int i => exact hshape
      | num m s => exact hshape
    simp only [Bool.and_eq_true, Bool.not_eq_true'] at hs
    rw [hre]
    refine ⟨?_, ?_⟩
    · intro c hc e
      subst e
      have : (exRepr v).contains ' ' = true := by simpa using hc
      rw [this] at hs; cases hs.1
    · intro c hc
      rw [hc] at hs
      have := hs.2
      simp only [Option.any_some, quoteChars, List.contains_cons, List.contains_nil, Bool.or_false, Bool.or_eq_false_iff,
        beq_eq_false_iff_ne, ne_eq] at this
      exact this

/-- every value of the example table satisfies the hypotheses `ReprOK` (the bytes value is `A b'B`: it holds
    the very sequence the nested text converter searches for, escaped by `repr`... here by the table) -/
theorem exVals_reprOK : ∀ v ∈ exVals, ReprOK exEnv exEv v := by
  intro v hv
  apply reprOK_of_checks
  have : ∀ v ∈ exVals, tokChecks v = true := by decide +kernel
  exact this v hv

end TextEx
open TextEx

/-- the section header that follows the template data -/
def exHdr : Line := "<<<<<< section 5 >>>>>>".toList

/-- flat text, two subsets: a flag table element (tuple token), a linked value (the `-> N` layout), a name
    longer than the column, a missing value, bytes; descriptor and value lists of equal length -/
def exFlatOuts : List SubsetOut :=
  [{ descs := [.plain (exE 12001 12), .plain (exE 2002 4), .marker 223255 (exE 12001 12), .plain { id := 1015, kind := .string, nbits := 40, scale := 0, ref := 0 }]
     vals := [.int 280, .int 9, .int 281, .bytes [65, 32, 98, 39, 66]], links := [(2, 0)] },
   { descs := [.plain (exE 12001 12), .plain (exE 2002 4), .marker 223255 (exE 12001 12), .plain { id := 1015, kind := .string, nbits := 40, scale := 0, ref := 0 }]
     vals := [.missing, .missing, .int 5, .bytes [65, 66]], links := [(2, 0)] }]

/-- the lines are, character by character, what Python's format strings give for these values and names -/
example : (flatTextLines exEnv exFlatOuts).map String.ofList =
    ["###### subset 1 of 2 ######",
     "    1 012001 TEMPERATURE/AIR TEMPERATURE -> A b' # <<<<<< and more and more text 280",
     "    2 002002 TYPE OF INSTRUMENTATION = 3                                         (9, [1, 4])",
     "    3 T12001                                                           ->      1 281",
     "    4 001015                                                                     b\"A b'B\"",
     "###### subset 2 of 2 ######",
     "    1 012001 TEMPERATURE/AIR TEMPERATURE -> A b' # <<<<<< and more and more text None",
     "    2 002002 TYPE OF INSTRUMENTATION = 3                                         None",
     "    3 T12001                                                           ->      1 5",
     "    4 001015                                                                     b'AB'"] := by decide +kernel

/-- the hypotheses of `C09_flat_text_to_flat_values` hold on this input ... -/
example : (∀ o ∈ exFlatOuts, ∀ v ∈ o.vals, ReprOK exEnv exEv v) ∧ (∀ o ∈ exFlatOuts, o.descs.length = o.vals.length) ∧
    startsWith sectionMark exHdr = true := by
  refine ⟨?_, by decide, by decide +kernel⟩
  intro o ho v hv
  apply exVals_reprOK
  have : ∀ o ∈ exFlatOuts, ∀ v ∈ o.vals, v ∈ exVals := by decide +kernel
  exact this o ho v hv

/-- ... and its conclusion is what the evaluation gives -/
example : flatTextToFlat exEv PyLit.untuple (flatTextLines exEnv exFlatOuts ++ [exHdr]) =
    .ok ([exHdr], exFlatOuts.map fun o => o.vals.map PyLit.val) := by decide +kernel

/-- nested text of the message of Props/C09.lean (`204004 031021 101000 031001 012001 204000 001001`: a delayed
    replication under an associated field): lines ... -/
example : ((wire exT exO >>= ntSubsetLines exEnv exO).toOption.getD []).map String.ofList =
    ["204004",
     "031021  1",
     "101000",
     "....031001  2",
     "    # --- 1 of 2 replications ---",
     "    012001 TEMPERATURE/AIR TEMPERATURE -> A b' # <<<<<< and more and more text to run over the column 280",
     "        -> A12001 AssociatedField 5",
     "            -> 031021  1",
     "    # --- 2 of 2 replications ---",
     "    012001 TEMPERATURE/AIR TEMPERATURE -> A b' # <<<<<< and more and more text to run over the column 281",
     "        -> A12001 AssociatedField 6",
     "            -> 031021  1",
     "204000",
     "001001  99"] := by decide +kernel

/-- ... the hypotheses of `C09_nested_text_subset_partial` / `C09_nested_text_to_flat_partial` hold on it ... -/
example : (wireRaw exT exO).toOption.map (fun w => (w.sideOK exO, w.tree.toOption.map (textOKList exO))) =
    some (true, some true) := by decide +kernel

example : ∀ v ∈ exO.vals, ReprOK exEnv exEv v := by
  intro v hv
  apply exVals_reprOK
  have : ∀ v ∈ exO.vals, v ∈ exVals := by decide +kernel
  exact this v hv

example : ntClassify exEv exHdr = .stop := by decide +kernel

/-- ... and the conclusion is what the evaluation gives (one subset) -/
example : ((wire exT exO >>= fun tree => nestedTextLines exEnv [exO] [tree]) >>=
      fun lines => nestedTextToFlat exEv (lines ++ [exHdr])) =
    .ok ([exHdr], [exO.vals.map PyLit.val]) := by decide +kernel

/-- instances of the layout lemmas: their hypotheses hold (indentation of blanks and dots, a descriptor string
    not starting with `3`, `ReprOK`) and the lines are classified as stated -/
example : IndentOK (indent4 ++ dots4 ++ indent4) ∧ (descStr (.plain (exE 12001 12))).head? ≠ some '3' ∧
    (DDesc.plain (exE 33007 7)).isAssoc = false ∧ (DDesc.assoc 12001 4).isAssoc = true := by
  refine ⟨indentOK_append (indentOK_append indentOK_indent4 indentOK_dots4) indentOK_indent4, by decide +kernel, rfl, rfl⟩

example :
    ntClassify exEv (ntValueLine exEnv indent4 false .value (.plain (exE 12001 12)) (.int 280)) = .append (.val (.int 280)) ∧
    ntClassify exEv (ntValueLine exEnv (indent4 ++ dots4 ++ indent4) true .quality (.plain (exE 33007 7)) (.int 99)) = .skip ∧
    ntClassify exEv (ntValueLine exEnv (indent4 ++ indent4) true .assoc (.assoc 12001 4) (.int 5)) = .insert (.val (.int 5)) ∧
    ntClassify exEv (indent4 ++ zpad 6 101000) = .skip ∧ ntClassify exEv (repHeader indent4 1 2) = .skip ∧
    ntClassify exEv (indent4 ++ zpad 6 301001 ++ ' ' :: "A SEQUENCE NAME 5".toList) = .skip := by decide +kernel

example : 301001 / 100000 = 3 ∧ (zpad 6 301001).head? = some '3' := by decide +kernel

/-- the hypotheses of `C09_flat_text_line_no_linebreak` for a line of the example (and its conclusion, evaluated) -/
example : (∀ c ∈ flatDescText exEnv (.plain (exE 12001 12)), isLineBreak c = false) ∧
    (∀ c ∈ flatTok exEnv (.plain (exE 12001 12)) (.int 280), isLineBreak c = false) ∧
    (∀ c ∈ flatLine exEnv [] 0 (.plain (exE 12001 12)) (.int 280), isLineBreak c = false) := by decide +kernel

/-! ### the side conditions are needed (flat lists no decoder produces) -/

/-- without `textOKList` (value line): a label whose descriptor string starts with `3` makes the converter take
    the value line for a sequence header - the value is lost, while `Wired.sideOK` holds -/
def exBadHead : SubsetOut := { descs := [.plain (exE 300001 8)], vals := [.int 5], links := [] }

example : (wireRaw [.elem (exE 1001 8)] exBadHead).toOption.map (fun w => (w.sideOK exBadHead, w.tree.toOption.map (textOKList exBadHead))) =
    some (true, some false) := by decide +kernel

example : ((wire [.elem (exE 1001 8)] exBadHead >>= fun tree => nestedTextLines exEnv [exBadHead] [tree]) >>=
      fun lines => nestedTextToFlat exEv (lines ++ [exHdr])) = .ok ([exHdr], [[]]) := by decide +kernel

/-- without `textOKList` (deep attributes): when the entry the 031021 meaning points at carries an `A` label, the
    meaning line below the associated field reads `-> A...` and its value is inserted a second time; nested JSON
    (which looks at the first attribute layer only) still converts: `Wired.sideOK` holds -/
def exBadDeep : SubsetOut :=
  { descs := [.assoc 31021 6, .assoc 12001 4, .plain (exE 12001 12)], vals := [.int 1, .int 5, .int 280], links := [] }

example : (wireRaw [.op 204004, .elem (exE 31021 6), .elem (exE 12001 12)] exBadDeep).toOption.map
    (fun w => (w.sideOK exBadDeep, w.tree.toOption.map (textOKList exBadDeep))) = some (true, some false) := by decide +kernel

example : ((wire [.op 204004, .elem (exE 31021 6), .elem (exE 12001 12)] exBadDeep >>= fun tree => nestedTextLines exEnv [exBadDeep] [tree]) >>=
      fun lines => nestedTextToFlat exEv (lines ++ [exHdr])) =
    .ok ([exHdr], [[.val (.int 1), .val (.int 5), .val (.int 1), .val (.int 280)]]) := by decide +kernel

/-- without `linesOK` (potential finding, notes/C09Text_repro_name_linebreak.py): an element NAME that holds a line
    feed.  The lines themselves convert back, the joined and re-split text does not (the second half of the name
    becomes a line of its own, which the flat text converter slices at column 81 and fails to evaluate). -/
def exEnvLF : TextEnv := { exEnv with name := fun _ => "AIR\nTEMPERATURE".toList }

def exLF : List SubsetOut := [{ descs := [.plain (exE 12001 12)], vals := [.int 280], links := [] }]

example : linesOK (flatTextLines exEnvLF exLF ++ [exHdr]) = false ∧
    flatTextToFlat exEv PyLit.untuple (flatTextLines exEnvLF exLF ++ [exHdr]) = .ok ([exHdr], [[.val (.int 280)]]) ∧
    flatTextToFlat exEv PyLit.untuple (pySplitlines (joinLines (flatTextLines exEnvLF exLF ++ [exHdr]))) = .error .other := by
  decide +kernel

/-- with `linesOK`: the example messages above survive the join / split -/
example : linesOK (flatTextLines exEnv exFlatOuts ++ [exHdr]) = true ∧
    pySplitlines (joinLines (flatTextLines exEnv exFlatOuts ++ [exHdr])) = flatTextLines exEnv exFlatOuts ++ [exHdr] := by
  decide +kernel

/-- without `ReprOK.plain_tok` (a token with a blank): `rsplit(' ', 1)[1]` cuts the token -/
example : ntToken ("001001 NAME 1 000".toList) = "000".toList := by decide +kernel

end Bufr
