/-
  C01 — tie to the Python source (`Gen/PyDescriptors.lean`, regenerated from `pybufrkit/descriptors.py` on
  every check): operator code and operand of an operator descriptor 2XXYYY, as the walk of the model
  computes them (`Coder/Walk.lean`: `let code := id / 1000`, `let y := id % 1000`).
-/
import BufrModel.Coder.Walk
import BufrModel.Gen.PyDescriptors
import BufrModel.Lemmas.CoderSrc
set_option linter.unusedSimpArgs false
namespace Bufr
open PyGen.descriptors

/-- `OperatorDescriptor.operator_code`: `self.id // 1000` (floor division; on the natural-number ids of the
    model it is `Nat` division) -/
theorem C01_src_operator_code (id : Nat) : OperatorDescriptor.operator_code ⟨id⟩ = ((id / 1000 : Nat) : Int) := by
  simp only [OperatorDescriptor.operator_code, Int.ofNat_eq_natCast]
  rw [Int.fdiv_eq_ediv_of_nonneg _ (Int.natCast_nonneg 1000)]; rfl

/-- `OperatorDescriptor.operand_value`: `self.id % 1000` -/
theorem C01_src_operand_value (id : Nat) : OperatorDescriptor.operand_value ⟨id⟩ = (yOf id : Int) := by
  simp only [OperatorDescriptor.operand_value, yOf, Int.ofNat_eq_natCast]
  rw [Int.fmod_eq_emod_of_nonneg _ (Int.natCast_nonneg 1000)]; rfl

/-! ### `CoderState.cancel_new_refvals` (203000) -/

/-- `cancel_new_refvals`: the dictionary of new reference values becomes empty (the model: `newRefvals := []`);
    nothing else changes. -/
theorem C01_src_cancel_new_refvals {D V : Type} (φ : D → Elem) (ps : PyGen.coder.CoderState.Self D V) :
    PyGen.coder.CoderState.cancel_new_refvals ps = { ps with new_refvals := [] } ∧
      regsOf φ (PyGen.coder.CoderState.cancel_new_refvals ps) = { regsOf φ ps with newRefvals := [] } ∧
      (WF ps → WF (PyGen.coder.CoderState.cancel_new_refvals ps)) :=
  ⟨rfl, rfl, fun h => h⟩

end Bufr
