/-
  C01 — tie to the Python source (`Gen/PyDescriptors.lean`, regenerated from `pybufrkit/descriptors.py` on
  every check): operator code and operand of an operator descriptor 2XXYYY, as the walk of the model
  computes them (`Coder/Walk.lean`: `let code := id / 1000`, `let y := id % 1000`).
-/
import BufrModel.Coder.Walk
import BufrModel.Gen.PyDescriptors
import BufrModel.Lemmas.CoderSrc
import BufrModel.Lemmas.CoderOpSrc
import BufrModel.Lemmas.CoderElemSrc
import BufrModel.Lemmas.CoderWalkSrc
import BufrModel.Lemmas.CoderCompositeSrc
import BufrModel.Lemmas.CoderCapstoneSrc
import BufrModel.Lemmas.CoderLeafSrc
import BufrModel.Props.C14Src
set_option linter.unusedSimpArgs false
namespace Bufr
open PyGen.descriptors

/-- `OperatorDescriptor.operator_code`: `self.id // 1000` (floor division; on the natural-number ids of the
    model it is `Nat` division) -/
theorem C01_src_operator_code (id : Nat) : OperatorDescriptor.operator_code ⟨id⟩ = ((id / 1000 : Nat) : Int) := by
  simp only [OperatorDescriptor.operator_code, Int.ofNat_eq_natCast]
  rw [Int.fdiv_eq_ediv_of_nonneg _ (Int.natCast_nonneg 1000)]; rfl

/-- `OperatorDescriptor.operand_value`: `self.id % 1000` -/
theorem C01_src_operand_value (id : Nat) : OperatorDescriptor.operand_value ⟨id⟩ = (yOf id : Int) := by
  simp only [OperatorDescriptor.operand_value, yOf, Int.ofNat_eq_natCast]
  rw [Int.fmod_eq_emod_of_nonneg _ (Int.natCast_nonneg 1000)]; rfl

/-! ### `CoderState.cancel_new_refvals` (203000) -/

/-- `cancel_new_refvals`: the dictionary of new reference values becomes empty (the model: `newRefvals := []`);
    nothing else changes. -/
theorem C01_src_cancel_new_refvals {D V : Type} (φ : D → Elem) (ps : PyGen.coder.CoderState.Self D V) :
    PyGen.coder.CoderState.cancel_new_refvals ps = { ps with new_refvals := [] } ∧
      regsOf φ (PyGen.coder.CoderState.cancel_new_refvals ps) = { regsOf φ ps with newRefvals := [] } ∧
      (WF ps → WF (PyGen.coder.CoderState.cancel_new_refvals ps)) :=
  ⟨rfl, rfl, fun h => h⟩

/-! ### `Coder.process_operator_descriptor`: the dispatch on operator code and operand

  Definitions (`Lemmas/CoderOpSrc.lean`): `AbsSt φ A ps b s` — the Python state record `ps` and bit operator `b`
  stand for the model state `s` (registers through the explicit `Rep` / `regsOf`, number of decoded descriptors,
  any relation `A` on the rest); `Corr` — results agree (corresponding states, or the same error class
  `excClass`); `CbCorr` — the three callbacks correspond to the primitives `Prims` of the model;
  `opdOf id` — the operator descriptor object of id `id`, with `operator_code` / `operand_value` computed by the
  functions generated from `descriptors.py`. -/

/-- **The generated `process_operator_descriptor` is the model's `operatorDescriptor`**, for EVERY operator id
    (every natural number: every operator code, implemented or not, every operand), every Python state record
    and bit operator, every model state they stand for, and any callbacks that correspond to the primitives:
    the two either both return, in corresponding states (same new registers through `Rep`, same data relation),
    or both fail with the same error class.

    Error classes (`excClass`): the model's `other` stands for the three ACCIDENTAL exceptions this function can
    raise itself — `IndexError` of `204000` on an empty stack of associated-field widths (`[].pop()`), `TypeError` of
    `237000` when no bitmap was ever defined (`iter(None)`), `NotImplementedError` for every operator code outside
    201-208, 221-225, 232, 235-237.  The float result of `10 ** operand_value` for a negative operand
    (`Py.powInt`) does not occur: the operand of a descriptor id is `id % 1000 ≥ 0`. -/
theorem C01_src_process_operator_descriptor {D V B : Type} (φ : D → Elem) (A : PyData D V → B → StData → Prop)
    (cb : PyGen.coder.Coder.process_operator_descriptor.Callbacks D V B) (P : Prims) (hcb : CbCorr φ A cb P)
    (id : Nat) (ps : PyGen.coder.CoderState.Self D V) (b : B) (s : St) (h : AbsSt φ A ps b s) :
    Corr φ A (PyGen.coder.Coder.process_operator_descriptor cb ps b (opdOf id)) (operatorDescriptor P id s) :=
  opd_core φ A cb P hcb id (opdOf id) rfl (opdOf_code id) (opdOf_operand id) ps b s h

/-- The same for any operator descriptor OBJECT whose attributes are what `descriptors.py` computes from its id. -/
theorem C01_src_process_operator_descriptor_obj {D V B : Type} (φ : D → Elem) (A : PyData D V → B → StData → Prop)
    (cb : PyGen.coder.Coder.process_operator_descriptor.Callbacks D V B) (P : Prims) (hcb : CbCorr φ A cb P)
    (id : Nat) (d : PyGen.coder.OperatorDescriptor.Self) (hid : d.id = id)
    (hc : d.operator_code = OperatorDescriptor.operator_code ⟨id⟩) (ho : d.operand_value = OperatorDescriptor.operand_value ⟨id⟩)
    (ps : PyGen.coder.CoderState.Self D V) (b : B) (s : St) (h : AbsSt φ A ps b s) :
    Corr φ A (PyGen.coder.Coder.process_operator_descriptor cb ps b d) (operatorDescriptor P id s) :=
  opd_core φ A cb P hcb id d hid (by rw [hc, C01_src_operator_code]) (by rw [ho, C01_src_operand_value]; rfl) ps b s h

/-- The hypotheses are satisfiable: callbacks that always raise an accidental exception correspond to primitives
    that always fail with `other`; a freshly reset state stands for the initial model state. -/
example : ∃ (cb : PyGen.coder.Coder.process_operator_descriptor.Callbacks Nat Nat Nat) (P : Prims)
    (A : PyData Nat Nat → Nat → StData → Prop) (ps : PyGen.coder.CoderState.Self Nat Nat) (s : St),
    CbCorr (fun _ => default) A cb P ∧ AbsSt (fun _ => default) A ps 0 s :=
  ⟨⟨fun _ _ _ _ => .error .typeError, fun _ _ _ _ => .error .typeError, fun _ _ _ => .error .typeError⟩,
   failPrims, fun _ _ _ => True,
   freshOver ⟨false, 1, 0, [[]], [[]], [[]], [], [], [], 0, 5, 5, 5, [(1, 1)], [2], 3, ⟨1, 1, 1⟩, 4, 5, 2, some [], some [], 5,
     true, 7, some [], 3, some []⟩,
   {},
   ⟨fun _ _ _ _ _ _ _ _ => rfl, fun _ _ _ _ _ _ _ _ => rfl, fun _ _ s _ id _ _ => by rw [marker_fail]; rfl⟩,
   rep_freshOver _ _, rfl, trivial⟩

/-- a concrete run: 201130 on the fresh state sets the width offset to 2 in both -/
example : ∀ (cb : PyGen.coder.Coder.process_operator_descriptor.Callbacks Nat Nat Nat) (ps : PyGen.coder.CoderState.Self Nat Nat),
    (PyGen.coder.Coder.process_operator_descriptor cb ps 0 (opdOf 201130)).map (fun r => r.1.nbits_offset) = .ok 2 := by
  intro cb ps; rfl

/-! ### the registers the model does not carry

  `bitmap` and `most_recent_bitmap_is_for_reuse` have no counterpart in `Regs` (they never influence a result), so
  `C01_src_process_operator_descriptor` says nothing about them.  The two operators that write `bitmap` are pinned
  down exactly, as equations on the generated function. -/

/-- 237255 (cancel the re-used bitmap): `bitmap` is cleared exactly when the most recent bitmap was defined for
    re-use (236000); then the operator is recorded by `process_constant`. -/
theorem C01_src_operator_237255_exact {D V B : Type} (cb : PyGen.coder.Coder.process_operator_descriptor.Callbacks D V B)
    (ps : PyGen.coder.CoderState.Self D V) (b : B) (id : Nat) (hc : id / 1000 = 237) (hy : id % 1000 ≠ 0) :
    PyGen.coder.Coder.process_operator_descriptor cb ps b (opdOf id) =
      cb.process_constant (if ps.most_recent_bitmap_is_for_reuse then { ps with bitmap := none } else ps) b (opdOf id) 0 := by
  have h1 := opdOf_code id
  have h2 := opdOf_operand id
  rw [hc] at h1
  generalize opdOf id = d at h1 h2 ⊢
  generalize id % 1000 = y at h2 hy
  have e0 : (y : Int) ≠ 0 := by omega
  cases hr : ps.most_recent_bitmap_is_for_reuse <;>
    simp [PyGen.coder.Coder.process_operator_descriptor, h1, h2, exc_pure, exc_bind_ok, exc_bind_eta, e0, hy, hr,
      PyGen.coder.CoderState.cancel_bitmap]

/-- 235000 (cancel all back references): the back-referenced descriptors, `bitmap` and the bitmapped descriptors are
    set to `None`; nothing else happens (no descriptor is recorded). -/
theorem C01_src_operator_235_exact {D V B : Type} (cb : PyGen.coder.Coder.process_operator_descriptor.Callbacks D V B)
    (ps : PyGen.coder.CoderState.Self D V) (b : B) (id : Nat) (hc : id / 1000 = 235) :
    PyGen.coder.Coder.process_operator_descriptor cb ps b (opdOf id) =
      .ok ({ ps with back_referenced_descriptors := none, bitmap := none, bitmapped_descriptors := none }, b) := by
  have h1 := opdOf_code id
  have h2 := opdOf_operand id
  rw [hc] at h1
  generalize opdOf id = d at h1 h2 ⊢
  simp [PyGen.coder.Coder.process_operator_descriptor, h1, h2, exc_pure, exc_bind_ok, PyGen.coder.CoderState.cancel_all_back_references]

/-! ### `Coder.process_element_descriptor`: the element step

  Definitions (`Lemmas/CoderElemSrc.lean`): `elemOf d` — the model's `Elem` of the descriptor object as the method sees it
  (kind from the unit string through `TableDef.kindOfUnit`, tied to the regenerated `UNITS_*` by `C20_src_const_units`);
  `CbCorrE` — the five callbacks (`process_associated_field`, `process_string`, `process_codeflag`, `process_numeric`,
  `process_numeric_of_new_refval`) correspond to the model's `associatedField`, `P.string`, `P.codeflag`, `P.numeric`;
  `LinkClosed A` — the data relation survives a bitmap link added on both sides.  `CoderState.add_bitmap_link` is the
  generated function (not a callback).  `scale_powered = 1.0 * 10 ** scale` is the exact power of ten `Py.pow10 scale`:
  the callback receives the power whose exponent the model passes to `P.numeric`; what the float layer does with it
  stays in the callback (correspondence runs). -/

/-- **The generated `process_element_descriptor` is the model's `elementDescriptor`**, for every element (or marker)
    descriptor object `d` (any id ≥ 0 with `X` as `descriptors.py` computes it, any unit string, width ≥ 0, scale,
    reference), every label `dd` under which it is recorded, every Python state / bit operator / model state that
    correspond, and callbacks that correspond: the associated field is processed under the same condition
    (`204YYY` in force and class ≠ 31), the class-33 / QA status register makes the same transitions and the bitmap link
    is added at the same moment (`add_bitmap_link` ↔ `nextBitmapped` + `addLink`), a string gets `new_nbytes` or
    `nbits // 8` bytes, a code/flag its width, a numeric the effective width `nbits + nbits_offset + nbits_increment`,
    scale `scale + scale_offset + scale_increment` and reference `refval * refval_factor`, or — exactly when the id is in
    `new_refvals` — the new reference value times the factor.  Both return in corresponding states or both fail with the
    same error class; the exceptions this function raises itself are `TypeError` / `StopIteration` of `add_bitmap_link`
    (model: `other`). -/
theorem C01_src_process_element_descriptor {D V B : Type} (φ : D → Elem) (A : PyData D V → B → StData → Prop)
    (hA : LinkClosed A) (cb : PyGen.coder.Coder.process_element_descriptor.Callbacks D V B) (P : Prims) (dd : DDesc)
    (d : PyGen.coder.ElementDescriptor.Self) (id : Nat) (hid : d.id = id) (hX : d.X = Descriptor.X ⟨id⟩) (hnb : 0 ≤ d.nbits)
    (hcb : CbCorrE φ A cb P dd d)
    (ps : PyGen.coder.CoderState.Self D V) (b : B) (s : St) (h : AbsSt φ A ps b s) :
    Corr φ A (PyGen.coder.Coder.process_element_descriptor cb ps b d) (elementDescriptor P dd (elemOf d) s) := by
  refine elem_core φ A hA cb P dd d hcb (by omega) ?_ hnb ps b s h
  rw [hX, hid, C14_src_descriptor_X]; simp

/-- The hypotheses are satisfiable (failing callbacks / primitives; any data relation closed under links). -/
example : ∃ (cb : PyGen.coder.Coder.process_element_descriptor.Callbacks Nat Nat Nat) (A : PyData Nat Nat → Nat → StData → Prop)
    (d : PyGen.coder.ElementDescriptor.Self), LinkClosed A ∧ d.id = (12101 : Nat) ∧ d.X = Descriptor.X ⟨(12101 : Nat)⟩ ∧ 0 ≤ d.nbits ∧
      CbCorrE (fun _ => default) A cb failPrims (.plain (elemOf d)) d :=
  ⟨⟨fun _ _ _ => .error .typeError, fun _ _ _ _ => .error .typeError, fun _ _ _ _ => .error .typeError,
      fun _ _ _ _ _ _ => .error .typeError, fun _ _ _ _ _ _ => .error .typeError⟩,
    fun _ _ _ => True, ⟨12101, Descriptor.X ⟨(12101 : Nat)⟩, "K".toList, 16, 2, 0⟩, fun _ _ _ _ _ => trivial, rfl, rfl, by decide,
    ⟨fun _ _ _ _ => rfl, fun _ _ _ _ _ => rfl, fun _ _ _ _ _ => rfl, fun _ _ _ _ _ _ _ => rfl, fun _ _ _ _ _ _ _ _ _ => rfl⟩⟩

/-! ### `Coder.process_members`: the member loop

  Descriptor objects are the GENERATED inductive type `PyGen.coder.Descr` (one constructor per class of `descriptors.py`
  the coder distinguishes by `type(x) is C`, attributes checked against the class declarations); `descOf : Descr → Desc`
  (`Lemmas/CoderWalkSrc.lean`) maps them to the model's descriptors, members and factor recursively.  The generated loop
  body is `Coder.process_members.body` (with `cont_3`, `cont_2`, `cont_1`: what follows the 221 prelude, the 203 test, the
  206 test); `continue` ends the body.  The eight methods the loop calls are callbacks; `CbCorrM` asks of them what the
  theorems about the generated methods establish for `process_element_descriptor`, `process_operator_descriptor`,
  `process_bitmap_definition`, and — NOT yet discharged — for the three composite descriptors. -/

/-- **One iteration of the member loop is the model's `walk1`**: the 221 countdown and the skip of elements outside
    classes 1-9 and 31, the 203 definition branch (element descriptors only), the 206 skip, the bitmap-definition stage
    (exactly when the state register is not `BITMAP_NA`), and the dispatch on the type of the member
    (`UnknownDescriptor` for any other class = the model's `unknownDescr`), for every descriptor object with a
    non-negative id, every corresponding state, and corresponding callbacks. -/
theorem C01_src_process_members_step {V B : Type} (φ : PyGen.coder.Descr → Elem)
    (A : PyData PyGen.coder.Descr V → B → StData → Prop)
    (cb : PyGen.coder.Coder.process_members.Callbacks PyGen.coder.Descr V B) (P : Prims) (hcb : CbCorrM (fun _ => True) φ A cb P)
    (x : PyGen.coder.Descr) (hx : 0 ≤ PyGen.coder.Descr.id x)
    (v : PyGen.coder.Coder.process_members.Locals PyGen.coder.Descr V B) (s : St)
    (h : AbsSt φ A v.state v.bit_operator s) :
    CorrL φ A (PyGen.coder.Coder.process_members.body cb v x) (walk1 P (descOf x) s) :=
  body_corr (fun _ => True) φ A cb P hcb x trivial hx v s h

/-- **The generated `process_members` is the model's `walkList`** on the list of members — ONE LEVEL: what the loop
    does with a fixed replication, a delayed replication or a sequence is the callback's business (`CbCorrM.fixed`,
    `.delayed`, `.sequence`: they correspond to `iterN (yOf id) (walkList P ms)`, the delayed-replication step, `walkList P ms`).

    Missing for the full statement (`C01_src_process_members`, for every template TREE): the three composite methods
    translated together with `process_members` as mutually recursive functions on a fuel argument, ONE `Callbacks`
    structure for the abstract methods of `Coder` shared by all translated methods, and the induction on the fuel that
    discharges `CbCorrM.fixed / .delayed / .sequence / .element / .operator / .bitmapDef` from
    `C01_src_process_element_descriptor`, `C01_src_process_operator_descriptor`, `C07_src_process_bitmap_definition` and
    this theorem. -/
theorem C01_src_process_members_partial {V B : Type} (φ : PyGen.coder.Descr → Elem)
    (A : PyData PyGen.coder.Descr V → B → StData → Prop)
    (cb : PyGen.coder.Coder.process_members.Callbacks PyGen.coder.Descr V B) (P : Prims) (hcb : CbCorrM (fun _ => True) φ A cb P)
    (ms : List PyGen.coder.Descr) (hms : ∀ m ∈ ms, 0 ≤ PyGen.coder.Descr.id m)
    (ps : PyGen.coder.CoderState.Self PyGen.coder.Descr V) (b : B) (s : St) (h : AbsSt φ A ps b s) :
    Corr φ A (PyGen.coder.Coder.process_members cb ps b ms) (walkList P (ms.map descOf) s) :=
  members_core (fun _ => True) φ A cb P hcb ms (fun m hm => ⟨trivial, hms m hm⟩) ps b s h

/-- `CbCorrM` is satisfiable — shown here only with the empty data relation (every field is then vacuous); the intended
    instance are the generated methods themselves, which is what the missing induction would establish. -/
example : CbCorrM (V := Nat) (B := Nat) (fun _ => True) (fun _ => default) (fun _ _ _ => False)
    ⟨fun _ _ _ => .error .typeError, fun _ _ _ => .error .typeError, fun _ _ _ => .error .typeError,
     fun _ _ _ => .error .typeError, fun _ _ _ => .error .typeError, fun _ _ _ => .error .typeError,
     fun _ _ _ => .error .typeError, fun _ _ _ => .error .typeError⟩ failPrims :=
  ⟨fun _ _ _ _ _ _ h => h.2.2.elim, fun _ _ _ _ _ h => h.2.2.elim, fun _ _ _ _ _ h => h.2.2.elim, fun _ _ _ _ _ h => h.2.2.elim,
   fun _ _ _ _ _ h => h.2.2.elim, fun _ _ _ _ _ h => h.2.2.elim, fun _ _ _ _ _ h => h.2.2.elim, fun _ _ _ _ _ h => h.2.2.elim⟩

/-- a concrete run of the generated loop: with a 221 count of 1 in force, an element of class 12 is skipped and the
    count runs down (no callback is called) -/
example (cb : PyGen.coder.Coder.process_members.Callbacks PyGen.coder.Descr Nat Nat)
    (ps : PyGen.coder.CoderState.Self PyGen.coder.Descr Nat) :
    (PyGen.coder.Coder.process_members cb { ps with data_not_present_count := 1 } 0
      [.ElementDescriptor 12101 "K".toList 2 0 16]).map (fun r => r.1.data_not_present_count) = .ok 0 := by
  rfl

/-! ### the composite descriptors: `process_fixed_replication_descriptor`, `process_delayed_replication_descriptor`,
  `process_sequence_descriptor`

  Each is the generated method; the recursive call `self.process_members(state, bit_operator, descriptor.members)` is a
  callback, and that it corresponds to `walkList P (members.map descOf)` is the hypothesis `hw` — what
  `C01_src_process_members_partial` establishes for the member list one level down.  The right-hand sides are the cases of
  the model's `walk1` (`Bufr.C08.wDispatch`, `walk1 = wPre (wDispatch)`). -/

/-- fixed replication 1XXYYY: `n_repeats` (the property generated from `descriptors.py`: `id % 1000`) walks of the members
    = `iterN (yOf id) (walkList P ms)` -/
theorem C01_src_process_fixed_replication_descriptor {V B : Type} (φ : PyGen.coder.Descr → Elem)
    (A : PyData PyGen.coder.Descr V → B → StData → Prop)
    (cb : PyGen.coder.Coder.process_fixed_replication_descriptor.Callbacks PyGen.coder.Descr V B) (P : Prims)
    (d : PyGen.coder.FixedReplicationDescriptor.Self) (id : Nat) (hid : d.id = id)
    (hn : d.n_repeats = FixedReplicationDescriptor.n_repeats ⟨id⟩)
    (hw : ∀ ps b s, AbsSt φ A ps b s → Corr φ A (cb.process_members ps b d.members) (walkList P (d.members.map descOf) s))
    (ps : PyGen.coder.CoderState.Self PyGen.coder.Descr V) (b : B) (s : St) (h : AbsSt φ A ps b s) :
    Corr φ A (PyGen.coder.Coder.process_fixed_replication_descriptor cb ps b d)
      (Bufr.C08.wDispatch P (.fixedRep id (d.members.map descOf)) s) :=
  fixed_core φ A cb P d (yOf id) (by rw [hn, C14_src_fixed_replication_n_repeats]) hw ps b s h

/-- delayed replication: `NotImplementedError` for the ids 031011 / 031012 is excluded by hypothesis (the template builder
    gives a replication descriptor a 1XXYYY id); a factor that is not an element descriptor object is refused with
    `UnknownDescriptor` (= the model's `unknownDescr`); otherwise the factor is processed as an element, the callback
    `get_value_for_delayed_replication_factor` returns the count the model computes (`P.factorValue >>= factorCount`, or both
    fail alike), and the members are walked that many times. -/
theorem C01_src_process_delayed_replication_descriptor {V B : Type} (φ : PyGen.coder.Descr → Elem)
    (A : PyData PyGen.coder.Descr V → B → StData → Prop)
    (cb : PyGen.coder.Coder.process_delayed_replication_descriptor.Callbacks PyGen.coder.Descr V B) (P : Prims)
    (d : PyGen.coder.DelayedReplicationDescriptor.Self) (id : Nat) (hid : d.id ≠ 31011 ∧ d.id ≠ 31012)
    (hel : ∀ ps b s, AbsSt φ A ps b s → PyGen.coder.Descr.tag d.factor = .ElementDescriptor →
      Corr φ A (cb.process_element_descriptor ps b d.factor) (Bufr.C08.wDispatch P (descOf d.factor) s))
    (hval : ∀ ps b s, AbsSt φ A ps b s →
      ValCorr (cb.get_value_for_delayed_replication_factor ps) (P.factorValue s >>= factorCount))
    (hw : ∀ ps b s, AbsSt φ A ps b s → Corr φ A (cb.process_members ps b d.members) (walkList P (d.members.map descOf) s))
    (ps : PyGen.coder.CoderState.Self PyGen.coder.Descr V) (b : B) (s : St) (h : AbsSt φ A ps b s) :
    Corr φ A (PyGen.coder.Coder.process_delayed_replication_descriptor cb ps b d)
      (Bufr.C08.wDispatch P (.delayedRep id (descOf d.factor) (d.members.map descOf)) s) :=
  delayed_core φ A cb P d id hid hel hval hw ps b s h

/-- a sequence descriptor: its members are walked -/
theorem C01_src_process_sequence_descriptor {V B : Type} (φ : PyGen.coder.Descr → Elem)
    (A : PyData PyGen.coder.Descr V → B → StData → Prop)
    (cb : PyGen.coder.Coder.process_sequence_descriptor.Callbacks PyGen.coder.Descr V B) (P : Prims)
    (d : PyGen.coder.SequenceDescriptor.Self) (id : Nat)
    (hw : ∀ ps b s, AbsSt φ A ps b s → Corr φ A (cb.process_members ps b d.members) (walkList P (d.members.map descOf) s))
    (ps : PyGen.coder.CoderState.Self PyGen.coder.Descr V) (b : B) (s : St) (h : AbsSt φ A ps b s) :
    Corr φ A (PyGen.coder.Coder.process_sequence_descriptor cb ps b d)
      (Bufr.C08.wDispatch P (.seq id (d.members.map descOf)) s) :=
  sequence_core φ A cb P d hw ps b s h

/-- the hypotheses are satisfiable: an empty member list, a `process_members` that returns at once -/
example : ∃ (cb : PyGen.coder.Coder.process_sequence_descriptor.Callbacks PyGen.coder.Descr Nat Nat)
    (d : PyGen.coder.SequenceDescriptor.Self),
    ∀ ps b s, AbsSt (fun _ => default) (fun _ _ _ => True) ps b s →
      Corr (fun _ => default) (fun _ _ _ => True) (cb.process_members ps b d.members) (walkList failPrims (d.members.map descOf) s) :=
  ⟨⟨fun ps b _ => .ok (ps, b)⟩, ⟨301001, []⟩, fun _ _ _ h => h⟩

/-! ### the capstone: the whole template walk

  `pyWalk L fuel` (`Lemmas/CoderCapstoneSrc.lean`) is the generated `process_members` whose callbacks for the composite
  descriptors are the generated `process_fixed_replication_descriptor`, `process_delayed_replication_descriptor`,
  `process_sequence_descriptor`, whose callback `process_members` is `pyWalk L` with one unit of fuel less: the four
  recursive methods of the walk calling each other as `self.process_x(...)` does.  That wiring is written by hand (the
  translator generates one `Callbacks` structure per method; every method BODY is the generated one).  `L` holds the
  methods that do not recurse; `LeafCorr` asks of them what `C01_src_process_element_descriptor`,
  `C01_src_process_operator_descriptor`, `C07_src_process_bitmap_definition` establish for the generated ones, and of
  `process_define_new_refval`, `process_skipped_local_descriptor`, `get_value_for_delayed_replication_factor` that they
  correspond to `P.newRefval` (`lib` error for a string element), `P.codeflag (.skipped …)` with the register reset, and
  `P.factorValue >>= factorCount`. -/

/-- **The regenerated template walk is the model's `walkList`**: for every list of descriptor trees `ms` (members, factors
    and members of members … of any depth) with non-negative ids and no replication descriptor of id 031011 / 031012
    (`GoodDs`), every fuel above the nesting depth of `ms`, every Python state / bit operator / model state that
    correspond, and leaf methods that correspond, the regenerated walk and `walkList P (ms.map descOf)` return
    corresponding states or fail with the same error class.  In particular the fuel suffices (no `outOfFuel`): the
    recursion of `process_members` through the composite descriptors terminates. -/
theorem C01_src_process_members {V B : Type} (G : PyGen.coder.Descr → Prop) (φ : PyGen.coder.Descr → Elem)
    (A : PyData PyGen.coder.Descr V → B → StData → Prop) (L : LeafCb V B) (P : Prims) (hL : LeafCorr G φ A L P)
    (fuel : Nat) (ms : List PyGen.coder.Descr) (hg : GoodDs G ms) (hd : depthsOf ms < fuel)
    (ps : PyGen.coder.CoderState.Self PyGen.coder.Descr V) (b : B) (s : St) (h : AbsSt φ A ps b s) :
    Corr φ A (pyWalk L fuel ps b ms) (walkList P (ms.map descOf) s) :=
  walk_core G φ A L P hL fuel ms hg hd ps b s h

/-- **… with the generated element step, operator dispatch and bitmap-definition machine plugged in** (`genLeaf`,
    `Lemmas/CoderLeafSrc.lean`): the walk in which `process_members`, the three composite methods,
    `process_element_descriptor` (with the generated `add_bitmap_link`), `process_operator_descriptor` (with the generated
    `CoderState` methods) and `process_bitmap_definition` are ALL the functions regenerated from `coder.py` equals the model's
    `walkList`, for every descriptor tree whose nodes have non-negative ids and widths (`LeafG`), given only that the
    ABSTRACT methods of `Coder` (`process_numeric`, `process_string`, `process_codeflag`, `process_constant`,
    `process_numeric_of_new_refval`, `define_bitmap`, `get_value_for_delayed_replication_factor`) and the four not yet
    translated ones (`process_associated_field`, `process_marker_operator_descriptor`, `process_define_new_refval`,
    `process_skipped_local_descriptor`) correspond to the primitives / steps of the model. -/
theorem C01_src_process_members_generated {V B : Type} (φ : PyGen.coder.Descr → Elem)
    (A : PyData PyGen.coder.Descr V → B → StData → Prop) (hA : LinkClosed A) (P : Prims)
    (cbE : PyGen.coder.Coder.process_element_descriptor.Callbacks PyGen.coder.Descr V B)
    (hE : ∀ d, CbCorrE φ A cbE P (.plain (elemOf d)) d)
    (cbO : PyGen.coder.Coder.process_operator_descriptor.Callbacks PyGen.coder.Descr V B) (hO : CbCorr φ A cbO P)
    (cbB : PyGen.coder.Coder.process_bitmap_definition.Callbacks PyGen.coder.Descr V B) (hB : DefineCorr φ A cbB P)
    (defRef skip : PyStep V B) (getv : PyGen.coder.CoderState.Self PyGen.coder.Descr V → Except Py.Exc Int)
    (hdef : ∀ ps b s m e, AbsSt φ A ps b s → descOf m = .elem e →
      Corr φ A (defRef ps b m) (if e.kind = .string then .error .lib else P.newRefval e s.regs.nbitsNewRefval s))
    (hskip : ∀ ps b s m, AbsSt φ A ps b s →
      Corr φ A (skip ps b m)
        (do let s' ← P.codeflag (.skipped (descOf m).id s.regs.nbitsSkipped) s.regs.nbitsSkipped s
            pure (s'.setRegs fun r => { r with nbitsSkipped := 0 })))
    (hval : ∀ ps b s, AbsSt φ A ps b s → ValCorr (getv ps) (P.factorValue s >>= factorCount))
    (fuel : Nat) (ms : List PyGen.coder.Descr) (hg : GoodDs LeafG ms) (hd : depthsOf ms < fuel)
    (ps : PyGen.coder.CoderState.Self PyGen.coder.Descr V) (b : B) (s : St) (h : AbsSt φ A ps b s) :
    Corr φ A (pyWalk (genLeaf cbE cbO cbB defRef skip getv) fuel ps b ms) (walkList P (ms.map descOf) s) :=
  walk_core LeafG φ A _ P (genLeaf_corr φ A hA P cbE hE cbO hO cbB hB defRef skip getv hdef hskip hval) fuel ms hg hd ps b s h

/-- the hypotheses on the tree are satisfiable by a nested template: a sequence holding a fixed replication of an
    element and an operator, a delayed replication with its factor -/
example : GoodDs LeafG [.SequenceDescriptor 301001 [.FixedReplicationDescriptor 101002 [.ElementDescriptor 12101 "K".toList 2 0 16],
      .OperatorDescriptor 201130, .DelayedReplicationDescriptor 101000 [.ElementDescriptor 1001 "NUMERIC".toList 0 0 7]
        (.ElementDescriptor 31001 "NUMERIC".toList 0 0 8)]] ∧
    depthsOf [.SequenceDescriptor 301001 [.FixedReplicationDescriptor 101002 [.ElementDescriptor 12101 "K".toList 2 0 16],
      .OperatorDescriptor 201130, .DelayedReplicationDescriptor 101000 [.ElementDescriptor 1001 "NUMERIC".toList 0 0 7]
        (.ElementDescriptor 31001 "NUMERIC".toList 0 0 8)]] < 3 := by
  refine ⟨?_, by decide⟩
  simp [GoodDs, GoodD, LeafG, PyGen.coder.Descr.id]

end Bufr
