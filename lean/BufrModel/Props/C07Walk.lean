/-
  C07 — statements about the WHOLE template walk (any template: replications nested to any depth,
  sequences, every operator; any state reached; primitives of the decoder, compressed or not).

  `C07_walk_invariant`: the walk preserves `C07.LinkInv` (Lemmas/LinkInv.lean): every recorded link
  points from a value to a plain element that lies IN FRONT OF THE ITEM OF A BIT-MAP OPERATOR
  (22X000 / 232000) which itself precedes the value; every entry of the three bit-map registers (back
  references, selection, running iterator) names an item that is that plain element, in front of a
  bit-map operator; the boundary lies within the items recorded and, while a bit-map is being defined,
  is the position of the operator that announced it.
  `C07_links_sound_partial` / `C07_links_sound_message_partial`: read off for a decoded subset / a
  whole message (compressed or not).

  This is the soundness half of `links = Spec.links items` that does not depend on the shape of the
  template (no well-formedness predicate needed): whatever the walk links a value to is an element that
  precedes a bit-map operator preceding the value ("the element descriptors that precede the operator").
  The FULL statement — the owner is exactly the k-th zero-bit candidate of the governing definition as
  `Spec.links` finds it in the finished item list, and every marker / class 33 value after 222000 gets a
  link — is `C07_links_eq_spec` / `C07_links_complete` in Props/C07Spec.lean, for templates satisfying
  `Spec.WFlinks`; the `_partial` theorems below remain the statement for templates outside it.
-/
import BufrModel.Lemmas.LinkInv
import BufrModel.Props.C07Subsets
namespace Bufr
open Bufr.C07

/-- The whole walk preserves the link invariant, for any primitives that record one item per value
    and leave links and registers alone (`Quiet`, `QuietRef`: the decoder's are). -/
theorem C07_walk_invariant {P : Prims} (hP : Quiet P) (hR : QuietRef P) (t : List Desc) (s s' : St)
    (h : walkList P t s = .ok s') (hi : LinkInv s) : LinkInv s' :=
  pres_walkList hP hR t s s' h hi

example : Quiet decPrimsU ∧ QuietRef decPrimsU ∧ Quiet decPrimsC ∧ QuietRef decPrimsC ∧
    LinkInv { bits := [true], vals := [[]] } :=
  ⟨decPrimsU_quiet, decPrimsU_quietRef, decPrimsC_quiet, decPrimsC_quietRef, LinkInv.init _ rfl rfl rfl rfl rfl rfl⟩

/-- PARTIAL (soundness half of `C07_links_eq_spec`, but for ANY template; the full equality needs `Spec.WFlinks`:
    Props/C07Spec.lean).
    Every link `(a, o)` reported for a decoded subset — ANY template — names a plain element item `o`
    that lies in front of the item `p` of a bit-map operator, which in turn lies in front of the value:
    `o < p < a`.  A value is only ever attached to an element that precedes a 22X000 / 232000 operator
    preceding the value. -/
theorem C07_links_sound_partial (t : List Desc) (bits : Bits) (o : SubsetOut) (rest : Bits)
    (h : decodeSubset t bits = .ok (o, rest)) :
    ∀ l ∈ o.links, ∃ e, o.descs[l.2]? = some (.plain e) ∧
      ∃ p id, l.2 < p ∧ p < l.1 ∧ IsBitmapOp id ∧ o.descs[p]? = some (.oper id) := by
  unfold decodeSubset at h
  cases hw : walkList decPrimsU t { bits := bits, vals := [[]] } with
  | error e => rw [hw] at h; cases h
  | ok s =>
    rw [hw] at h
    cases h
    intro l hl
    obtain ⟨e, a, p, b1, b2, id, c1, c2⟩ := LinkInv.report (C07_walk_invariant decPrimsU_quiet decPrimsU_quietRef t _ s hw
      (LinkInv.init _ rfl rfl rfl rfl rfl rfl)) l hl
    exact ⟨e, a, p, id, b1, b2, c1, c2⟩

/-- PARTIAL, whole messages: the same for every subset of a message, compressed or not, any number of
    subsets. -/
theorem C07_links_sound_message_partial (t : List Desc) (compressed : Bool) (n : Nat) (bits : Bits)
    (outs : List SubsetOut) (rest : Bits) (h : decodeData t compressed n bits = .ok (outs, rest)) :
    ∀ o ∈ outs, ∀ l ∈ o.links, ∃ e, o.descs[l.2]? = some (.plain e) ∧
      ∃ p id, l.2 < p ∧ p < l.1 ∧ IsBitmapOp id ∧ o.descs[p]? = some (.oper id) := by
  cases compressed with
  | false =>
    obtain ⟨segs, hl, hol, _, hs⟩ := C07_links_of_subset_alone t n bits outs rest h
    intro o ho
    obtain ⟨i, hi, rfl⟩ := List.mem_iff_getElem.mp ho
    exact C07_links_sound_partial t _ _ _ (hs i (by omega) hi)
  | true =>
    simp only [decodeData, if_true] at h
    unfold decodeCompressed at h
    cases hw : walkList decPrimsC t { bits := bits, vals := List.replicate n [] } with
    | error e => rw [hw] at h; cases h
    | ok s =>
      rw [hw] at h
      cases h
      intro o ho
      simp only [St.outs, List.mem_map] at ho
      obtain ⟨_, _, rfl⟩ := ho
      intro l hl
      obtain ⟨e, a, p, b1, b2, id, c1, c2⟩ := LinkInv.report (C07_walk_invariant decPrimsC_quiet decPrimsC_quietRef t _ s hw
        (LinkInv.init _ rfl rfl rfl rfl rfl rfl)) l hl
      exact ⟨e, a, p, id, b1, b2, c1, c2⟩

open C07ex in
/-- non-vacuity: a run with a link (subset A of Props/C07Subsets.lean: the value at 9 belongs to item 2) -/
example : decodeSubset tmpl bitsA = .ok (outA, []) ∧ (9, 2) ∈ outA.links ∧
    outA.descs[2]? = some (.plain (e 12001 4)) ∧ outA.descs[5]? = some (.oper 223000) ∧ IsBitmapOp 223000 := by
  refine ⟨?_, ?_, ?_, ?_, Or.inr (Or.inl rfl)⟩ <;> decide +kernel

end Bufr
