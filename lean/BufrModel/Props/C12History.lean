/-
  C12 — damage is detected … whatever the Decoder object was used for before.

  The property quantifies over streams and damage; it says nothing about the state of the `Decoder` object
  that reads them, and a user keeps one object for many calls.  The stateless model (`decode`, `decodeAt`,
  `scan` over `ofSections`) is a function of (options, bytes) only.  Here the Decoder OBJECT is modelled as a
  state machine: its state is the table of section configurations it holds (`SectionConfigurer`), seen as a
  memo table of the pure function

      (section index, edition, info_only, ignore_value_expectation)  ↦  transformers (get_configuration …)

  that every decode of every section consults and fills, and that survives a failing decode (the table is
  returned on the error path as well).  `decLoopS`, `decodeAtS`, `decodeS`, `scanS` are `Decoder.process` /
  `generate_bufr_message` threading that state.  The theorems:

  * `C12_history_memo_sound`     after ANY list of operations (successful, failing, lenient, metadata-only,
                                 scans with any flags and filter) the table is still a memo table of the pure
                                 function (state-machine invariant, induction over the operation list);
  * `C12_history_irrelevant`     the result of ANY operation after ANY history is the stateless model's result:
                                 the decoding is a function of (options, bytes) only — in particular a damaged
                                 stop signature is refused after a lenient decode exactly as on a fresh object;
  * `C12_history_needs_soundness` the invariant is what carries this: on a table holding ONE entry that is not
                                 the pure function's value (section 5 without its expectation, which is what a
                                 shallow copy in `ignore_value_expectation` leaves behind — seeded change
                                 C12-1), the concrete message with its stop signature overwritten decodes.

  What this cannot show: that the Python object really is such a memo table (`deepcopy` in the transformers
  is what makes it one).  That is the correspondence check's part (D): every operation of random sessions on
  one Decoder object against a fresh object, the oracle and this stateless model.
-/
import BufrModel.Msg.Stream
import BufrModel.Gen.Layouts
import BufrModel.Lemmas.DecoderState
import BufrModel.Props.C12Msg
namespace Bufr.Stream

/-- **state-machine invariant**: after any history of operations — successful or failing, strict or lenient,
    full or metadata-only, single messages or scans with any flags and filter — on a new Decoder object, the
    object's table of section configurations is a memo table of the pure function `cfgOf`. -/
theorem C12_history_memo_sound {α : Type} (L : Layouts) (dc : DataCoder α) (hist : List (Op α)) :
    Memo.Sound L (runHist L dc hist []) := by
  suffices h : ∀ (hist : List (Op α)) (m : Memo), Memo.Sound L m → Memo.Sound L (runHist L dc hist m) from
    h hist [] (Memo.sound_nil L)
  intro hist
  induction hist with
  | nil => intro m h; exact h
  | cons op ops ih => intro m h; exact ih _ (Op.run_spec L dc op m h).2

/-- **the decoding is a function of (options, bytes) only**: whatever the Decoder object was used for
    before, an operation on it gives what the stateless model gives — for `Decoder.process` the same message or
    the same error, for `generate_bufr_message` the same items at the same offsets and the same outcome.  In
    particular the isolation / error theorems of `Props/C12Stream.lean` and `Props/C12Msg.lean` (stated for
    the stateless model) hold for a Decoder with any history. -/
theorem C12_history_irrelevant {α : Type} (L : Layouts) (dc : DataCoder α) (hist : List (Op α)) (op : Op α) :
    (op.run L dc (runHist L dc hist [])).1 = op.pure L dc :=
  (Op.run_spec L dc op _ (C12_history_memo_sound L dc hist)).1

/-- two histories, one operation: same result -/
theorem C12_history_any_two {α : Type} (L : Layouts) (dc : DataCoder α) (h1 h2 : List (Op α)) (op : Op α) :
    (op.run L dc (runHist L dc h1 [])).1 = (op.run L dc (runHist L dc h2 [])).1 := by
  rw [C12_history_irrelevant, C12_history_irrelevant]


/-! ## non-vacuity: a concrete session on the 56-octet edition-4 message of `Props/C12Msg.lean` -/

/-- the message with its stop signature overwritten (`7777` → `7778`, total length intact) -/
def C12Hist.damaged : Bytes := C12Msg.msg.take 55 ++ [56]

/-- a session: a lenient decode of the valid message, a metadata-only decode, a FAILING decode (a proper
    prefix), a lenient FAILING decode, a lenient continue-on-error scan of two messages, a strict scan that
    stops at the damaged message, a decode without signature search -/
def C12Hist.hist : List (Op Bits) :=
  [.process true false true C12Msg.msg,
   .process true true false C12Msg.msg,
   .process true false false (C12Msg.msg.take 40),
   .process true false true (C12Msg.msg.take 20),
   .scan false true true none (C12Msg.msg ++ [1, 2, 3] ++ C12Hist.damaged),
   .scan false false false none (C12Msg.msg ++ C12Hist.damaged ++ C12Msg.msg),
   .process false true true C12Msg.msg]

/-- what is compared below: the error (if any) and the number of messages delivered -/
def Res.brief {α : Type} : Res α → Option Err × Nat
  | .msg (.error e) => (some e, 0)
  | .msg (.ok _) => (none, 1)
  | .items (is, .error e) => (some e, is.length)
  | .items (is, _) => (none, is.length)

/-- the state machine is not trivial: after the session the object holds 22 configurations (sections
    0-5 of edition 4 — the absent section 2 is configured before its presence is tested — under the four
    option sets; a metadata-only decode never configures section 5: 6 + 6 + 5 + 5) — and the invariant
    theorem applies to it -/
example : (runHist Gen.layouts (rawCoder 5) C12Hist.hist []).length = 22 ∧
    Memo.Sound Gen.layouts (runHist Gen.layouts (rawCoder 5) C12Hist.hist []) :=
  ⟨by decide +kernel, C12_history_memo_sound _ _ _⟩

/-- direct evaluation of the state machine: after the session, the strict decode of the damaged message
    is refused with the library error, the continue-on-error scan of valid ++ damaged ++ valid delivers two
    messages, and the scan without continue-on-error delivers one and ends with the library error -/
example :
    ((Op.process true false false C12Hist.damaged).run Gen.layouts (rawCoder 5)
        (runHist Gen.layouts (rawCoder 5) C12Hist.hist [])).1.brief = (some .lib, 0) ∧
    ((Op.scan false true false none (C12Msg.msg ++ C12Hist.damaged ++ C12Msg.msg)).run Gen.layouts (rawCoder 5)
        (runHist Gen.layouts (rawCoder 5) C12Hist.hist [])).1.brief = (none, 2) ∧
    ((Op.scan false false false none (C12Msg.msg ++ C12Hist.damaged ++ C12Msg.msg)).run Gen.layouts (rawCoder 5)
        (runHist Gen.layouts (rawCoder 5) C12Hist.hist [])).1.brief = (some .lib, 1) := by
  decide +kernel

/-- the same through the theorem: the result after the session is the stateless model's -/
example :
    ((Op.process true false false C12Hist.damaged).run Gen.layouts (rawCoder 5)
        (runHist Gen.layouts (rawCoder 5) C12Hist.hist [])).1.brief = (some .lib, 0) := by
  rw [C12_history_irrelevant]
  decide +kernel

/-- and for two different histories (the session and the empty one) -/
example :
    ((Op.scan false true false none (C12Msg.msg ++ C12Hist.damaged ++ C12Msg.msg)).run Gen.layouts (rawCoder 5)
        (runHist Gen.layouts (rawCoder 5) C12Hist.hist [])).1 =
    ((Op.scan false true false none (C12Msg.msg ++ C12Hist.damaged ++ C12Msg.msg)).run Gen.layouts (rawCoder 5)
        (runHist Gen.layouts (rawCoder 5) [] [])).1 :=
  C12_history_any_two _ _ _ _ _

/-! ## the invariant is what carries it -/

/-- the table seeded change C12-1 leaves behind after one lenient decode: under the key of the STRICT
    configuration of section 5 (edition 4) sits the configuration without its expectation -/
def C12Hist.leaked : Memo :=
  [({ idx := 5, ed := 4, info := false, ign := false },
    cfgOf Gen.layouts { idx := 5, ed := 4, info := false, ign := true })]

/-- On a table that is NOT a memo table of the pure function the state machine does depend on the history:
    with the single leaked entry, the damaged message (stop signature `7778`) decodes — all 448 bits — on the
    stateful decoder, is delivered by the continue-on-error scan (three messages instead of two), while the
    stateless model refuses it with the library error.  So `C12_history_irrelevant` is a statement about the
    soundness invariant, not an artefact of a state that is never read. -/
theorem C12_history_needs_soundness :
    (decodeS Gen.layouts (rawCoder 5) {} C12Hist.leaked C12Hist.damaged).1.map (·.nbits) = .ok 448 ∧
    (decode Gen.layouts (rawCoder 5) {} C12Hist.damaged).map (·.nbits) = .error .lib ∧
    ((Op.scan false true false none (C12Msg.msg ++ C12Hist.damaged ++ C12Msg.msg)).run Gen.layouts (rawCoder 5)
        C12Hist.leaked).1.brief = (none, 3) ∧
    ((Op.scan false true false none (C12Msg.msg ++ C12Hist.damaged ++ C12Msg.msg) : Op Bits).pure Gen.layouts
        (rawCoder 5)).brief = (none, 2) := by
  decide +kernel

/-- the leaked table is indeed unsound (so the theorem above does not contradict `C12_history_irrelevant`) -/
example : ¬ Memo.Sound Gen.layouts C12Hist.leaked := by
  intro h
  have h1 : C12Hist.leaked.lookup { idx := 5, ed := 4, info := false, ign := false } =
      some (cfgOf Gen.layouts { idx := 5, ed := 4, info := false, ign := true }) := by
    simp [C12Hist.leaked]
  have h2 := congrArg (fun c => c.toOption.map (fun s => s.params.map (·.expected))) (h _ _ h1)
  revert h2
  decide +kernel

end Bufr.Stream
