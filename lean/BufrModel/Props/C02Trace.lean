/-
  C02: "… whose data section, when uncompressed, is bit-for-bit the CONCATENATION OF THE FIELDS in template
  order …; when compression is requested every element is written as minimum, 6-bit difference width and
  per-subset differences".

  `C02_data_bits_canonical` says the encoder writes `Spec.canonDataBits`.  Here the shape of those bits is
  made explicit: they are the concatenation, in order, of one `fieldCode` per supplied value (uncompressed,
  subset by subset) resp. one `colCode` per flat position (compressed) — nothing between the codes, nothing
  after them.  Which field (`FieldSpec`: width, scale, reference in force …) position `i` has is decided by
  the flat reading `Spec.flatWalk`; the codes themselves are characterised in `Props/C02Canon.lean`.
-/
import BufrModel.Lemmas.CanonTrace
set_option linter.unusedSimpArgs false
namespace Bufr
open Bufr.Spec Bufr.Flat

/-- **C02, "the concatenation of the fields in template order".**  Whenever the specification assigns
    bits to one uncompressed subset, they are the concatenation of field codes `c₀ c₁ … cₖ₋₁`, where `cᵢ` is
    the code (`fieldCode`: MSB first, missing = all ones, strings blank-padded, …) of the `i`-th supplied
    value in the field that the flat reading of the template assigns to it; nothing else is written.
    (By `C02_data_bits_canonical` these are the bits the encoder writes.) -/
theorem C02_subset_is_concatenation (T : Tables) {d fuel : Nat} {ids : List Nat}
    (hwf : WFflat T d ids) (hfuel : d ≤ fuel) (vals : List Val) (bits : Bits)
    (h : canonSubsetBits T fuel ids vals = some bits) :
    ∃ fs : List CodedField,
      (∀ x ∈ fs, fieldCode x.spec x.val = some x.bits) ∧
      fs.map (·.val) = vals.take fs.length ∧
      bits = (fs.map (·.bits)).flatten := by
  obtain ⟨t, ht⟩ := (wfCount_iff_build T d ids).1 hwf
  have hflat := C01_flat_eq_tree canonPrimsU T hwf hfuel (Nat.le_refl d) ({ vals := [vals] } : St)
  rw [ht] at hflat
  unfold canonSubsetBits at h
  rw [hflat] at h
  cases hw : walkList canonPrimsU t ({ vals := [vals] } : St) with
  | error e =>
    have : (match (Except.error e : CM St) with | .ok s => some s.bits.reverse | .error _ => none) = some bits := by
      rw [← hw]; exact h
    cases this
  | ok s' =>
    have hb : some s'.bits.reverse = some bits := by
      have : (match (Except.ok s' : CM St) with | .ok s => some s.bits.reverse | .error _ => none) = some bits := by
        rw [← hw]; exact h
      exact this
    obtain ⟨_, fs, hcode, _, hvals, hbits⟩ :=
      traceInv_walk vals hw ⟨rfl, [], by simp, rfl, by simp, rfl⟩
    refine ⟨fs, hcode, hvals, ?_⟩
    cases hb
    rw [hbits, List.reverse_reverse]


/-- **C02, compressed data: the concatenation of the columns in template order.**  Whenever the
    specification assigns bits to compressed data, they are the concatenation of column codes
    `c₀ c₁ …`, where `cⱼ` is the code (`colCode`: minimum, 6-bit increment width, increments …) of the
    `j`-th values of ALL subsets in the field the flat reading of the template assigns to position `j`. -/
theorem C02_compressed_is_concatenation (T : Tables) {d fuel : Nat} {ids : List Nat}
    (hwf : WFflat T d ids) (hfuel : d ≤ fuel) (valss : List (List Val)) (bits : Bits)
    (h : canonCompressedBits T fuel ids valss = some bits) :
    ∃ cs : List CodedColumn,
      (∀ x ∈ cs, colCode x.spec x.vals = some x.bits) ∧
      (∀ (j : Nat) (x : CodedColumn), cs[j]? = some x → valss.mapM (fun l => l[j]?) = some x.vals) ∧
      bits = (cs.map (·.bits)).flatten := by
  obtain ⟨t, ht⟩ := (wfCount_iff_build T d ids).1 hwf
  have hflat := C01_flat_eq_tree canonPrimsC T hwf hfuel (Nat.le_refl d) ({ vals := valss } : St)
  rw [ht] at hflat
  unfold canonCompressedBits at h
  rw [hflat] at h
  cases hw : walkList canonPrimsC t ({ vals := valss } : St) with
  | error e =>
    have : (match (Except.error e : CM St) with | .ok s => some s.bits.reverse | .error _ => none) = some bits := by
      rw [← hw]; exact h
    cases this
  | ok s' =>
    have hb : some s'.bits.reverse = some bits := by
      have : (match (Except.ok s' : CM St) with | .ok s => some s.bits.reverse | .error _ => none) = some bits := by
        rw [← hw]; exact h
      exact this
    obtain ⟨_, cs, hcode, _, hvals, hbits⟩ :=
      colTraceInv_walk valss hw ⟨rfl, [], by simp, rfl, by simp, rfl⟩
    refine ⟨cs, hcode, hvals, ?_⟩
    cases hb
    rw [hbits, List.reverse_reverse]

/-- the whole uncompressed data section: subset by subset -/
theorem C02_data_is_concatenation (T : Tables) {d fuel : Nat} {ids : List Nat}
    (hwf : WFflat T d ids) (hfuel : d ≤ fuel) (valss : List (List Val)) (bits : Bits)
    (h : canonDataBits T fuel ids false valss = some bits) :
    ∃ fss : List (List CodedField),
      fss.length = valss.length ∧
      (∀ fs ∈ fss, ∀ x ∈ fs, fieldCode x.spec x.val = some x.bits) ∧
      (∀ (k : Nat) (fs : List CodedField) (vals : List Val), fss[k]? = some fs → valss[k]? = some vals →
        fs.map (·.val) = vals.take fs.length) ∧
      bits = (fss.map fun fs => (fs.map (·.bits)).flatten).flatten := by
  simp only [canonDataBits, Bool.false_eq_true, if_false] at h
  induction valss generalizing bits with
  | nil =>
    simp at h
    exact ⟨[], rfl, by simp, by simp, by simp [← h]⟩
  | cons v vs ih =>
    simp only [List.mapM_cons] at h
    cases h1 : canonSubsetBits T fuel ids v with
    | none => simp [h1] at h
    | some b1 =>
      cases h2 : vs.mapM (canonSubsetBits T fuel ids) with
      | none => simp [h1, h2] at h
      | some bs =>
        simp [h1, h2] at h
        obtain ⟨fs, hc, hv, hb⟩ := C02_subset_is_concatenation T hwf hfuel v b1 h1
        obtain ⟨fss, hl, hcs, hvs, hbs⟩ := ih bs.flatten (by simp [h2])
        refine ⟨fs :: fss, by simp [hl], ?_, ?_, ?_⟩
        · intro x hx
          rcases List.mem_cons.mp hx with rfl | hx
          · exact hc
          · exact hcs x hx
        · intro k fs' vals' hk hv'
          cases k with
          | zero => simp at hk hv'; subst hk hv'; exact hv
          | succ k => simp at hk hv'; exact hvs k fs' vals' hk hv'
        · simp [← h, hb, hbs]


/-! ### non-vacuity -/
namespace C02Ex

/-- the hypotheses are satisfiable: the uncompressed example of `Props/C02Canon.lean` (two subsets) … -/
example : ∃ fss : List (List CodedField), fss.length = exVals.length ∧
    (∀ fs ∈ fss, ∀ x ∈ fs, fieldCode x.spec x.val = some x.bits) ∧
    (∀ (k : Nat) (fs : List CodedField) (vals : List Val), fss[k]? = some fs → exVals[k]? = some vals →
      fs.map (·.val) = vals.take fs.length) ∧
    exBits = (fss.map fun fs => (fs.map (·.bits)).flatten).flatten :=
  C02_data_is_concatenation exT wf_ex (Nat.le_refl 1) exVals exBits canon_ex

/-- … and the compressed one -/
example : ∃ cs : List CodedColumn, (∀ x ∈ cs, colCode x.spec x.vals = some x.bits) ∧
    (∀ (j : Nat) (x : CodedColumn), cs[j]? = some x → exValsC.mapM (fun l => l[j]?) = some x.vals) ∧
    exBitsC = (cs.map (·.bits)).flatten :=
  C02_compressed_is_concatenation exT wf_ex (Nat.le_refl 1) exValsC exBitsC (by
    have := canon_exC
    simpa [canonDataBits] using this)

end C02Ex

end Bufr
