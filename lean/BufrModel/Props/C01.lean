/-
  C01 — decoding yields exactly the values FM-94 assigns to the bit stream.
  This file: the value-level theorems (one field): the arithmetic of numeric values under the
  201/202/203/207 registers, "missing iff all ones and wider than one bit", code/flag and character
  fields.  Helper lemmas in `Lemmas/Quant.lean`; vocabulary in `Spec/Quant.lean`.
-/
import BufrModel.Spec.Quant
import BufrModel.Lemmas.Quant
namespace Bufr

/-- A numeric field of `n` bits (1..64) holding the unsigned integer `r`, not the all-ones pattern
    unless `n = 1`, decodes to exactly `(r + ref) / 10^scale` (`scaleVal`: the integer `r + ref` for
    scale 0, else the exact decimal `(r + ref)·10^(−scale)`), consuming exactly the field. -/
theorem C01_numeric_value (dd : DDesc) (scale ref : Int) (n r : Nat)
    (h0 : 0 < n) (h64 : n ≤ 64) (hr : r < 2 ^ n) (hnm : ¬ (1 < n ∧ r = 2 ^ n - 1))
    (sd : St) (suf : Bits) (hb : sd.bits = toBits n r ++ suf) :
    decNumericU dd (n : Int) scale ref sd = .ok (sd.afterRead dd suf (scaleVal ((r : Int) + ref) scale)) := by
  have h := decNumericU_field dd scale ref sd (toBits n r) suf
    (by rw [toBits_length]; exact h0) (by rw [toBits_length]; exact h64) hb
  rw [toBits_length] at h
  simp only [toBits_all_iff n r hr, ofBits_toBits, Nat.mod_eq_of_lt hr, hnm, if_false, numVal] at h
  exact h

/-- the same for an arbitrary bit pattern `f` at the head of the stream -/
theorem C01_numeric_field (dd : DDesc) (scale ref : Int) (f suf : Bits) (sd : St)
    (h0 : 0 < f.length) (h64 : f.length ≤ 64) (hb : sd.bits = f ++ suf) :
    decNumericU dd (f.length : Int) scale ref sd =
      .ok (sd.afterRead dd suf
        (if 1 < f.length ∧ f.all id = true then .missing else scaleVal ((ofBits f : Int) + ref) scale)) := by
  rw [decNumericU_field dd scale ref sd f suf h0 h64 hb]
  split <;> rfl

/-- Whenever the numeric decoder primitive succeeds it has consumed exactly `n = nbits` bits
    (1 ≤ n ≤ 64) and pushed one value, which is missing IF AND ONLY IF the field is wider than one bit
    and all its bits are ones; otherwise it is `(raw + ref)/10^scale`. -/
theorem C01_missing_iff (dd : DDesc) (nbits scale ref : Int) (sd sd' : St)
    (h : decNumericU dd nbits scale ref sd = .ok sd') :
    ∃ (n : Nat) (v : Val),
      nbits = (n : Int) ∧ 0 < n ∧ n ≤ 64 ∧ n ≤ sd.bits.length ∧
      sd' = sd.afterRead dd (sd.bits.drop n) v ∧
      (v = .missing ↔ (1 < n ∧ (sd.bits.take n).all id = true)) ∧
      (v ≠ .missing → v = scaleVal ((ofBits (sd.bits.take n) : Int) + ref) scale) := by
  obtain ⟨n, h0, h64, hlen, rfl, hd⟩ := decNumericU_inv h
  have hl : (sd.bits.take n).length = n := by rw [List.length_take]; omega
  have hf := C01_numeric_field dd scale ref (sd.bits.take n) (sd.bits.drop n) sd
    (by omega) (by omega) (List.take_append_drop n sd.bits).symm
  rw [hl] at hf
  rw [hf] at h
  injection h with h
  refine ⟨n, _, rfl, h0, h64, hlen, h.symm, ?_, ?_⟩
  · split
    · next hc => simp [hc]
    · next hc =>
      constructor
      · intro hh; exact absurd hh (scaleVal_ne_missing _ _)
      · intro hh; exact absurd hh hc
  · split
    · intro hh; exact absurd rfl hh
    · intro _; rfl

/-- The width, scale and reference value the walk hands to the numeric primitive for a Table B
    element `e` (no associated field in force, not a class-33 element):
    width = nbits + Δ201 + ⌊(10·Y207 + 2)/3⌋, scale = scale + Δ202 + Y207,
    reference = (the 203 new reference value if one is defined for this element, else Table B's) · 10^Y207. -/
theorem C01_effective_width_scale_ref (P : Prims) (dd : DDesc) (e : Elem) (s : St)
    (hk : e.kind = .numeric) (ha : s.regs.assocStack = []) (hx : xOf e.id ≠ 33) :
    elementDescriptor P dd e s =
      P.numeric dd
        ((e.nbits : Int) + s.regs.nbitsOffset + (((10 * s.regs.y207 + 2) / 3 : Nat) : Int))
        (e.scale + s.regs.scaleOffset + ((s.regs.y207 : Nat) : Int))
        (((lookupRef s.regs.newRefvals e.id).getD e.ref) * ((10 ^ s.regs.y207 : Nat) : Int))
        (if s.regs.qa = .processing then s.setRegs fun r => { r with qa := .na } else s) := by
  unfold elementDescriptor
  simp only [ha, ne_eq, not_true_eq_false, false_and, if_false, hx, hk, bind, Except.bind, pure, Except.pure]
  by_cases hq : s.regs.qa = .processing
  · simp only [hq, if_true, St.setRegs, Regs.nbitsInc, Regs.scaleInc, Regs.refFactor]
    cases lookupRef s.regs.newRefvals e.id <;> rfl
  · simp only [hq, if_false, Regs.nbitsInc, Regs.scaleInc, Regs.refFactor]
    cases lookupRef s.regs.newRefvals e.id <;> rfl

/-- ... where the registers are what the operators set: 201YYY / 202YYY give Δ = Y − 128 (0 cancels),
    207YYY gives Y (0 cancels), 203YYY opens (Y bits), closes (255) or cancels (0) the definition of
    new reference values. -/
theorem C01_operator_registers (P : Prims) (y : Nat) (hy : y < 1000) (s : St) :
    operatorDescriptor P (201000 + y) s
      = .ok (s.setRegs fun r => { r with nbitsOffset := if y ≠ 0 then (y : Int) - 128 else 0 }) ∧
    operatorDescriptor P (202000 + y) s
      = .ok (s.setRegs fun r => { r with scaleOffset := if y ≠ 0 then (y : Int) - 128 else 0 }) ∧
    operatorDescriptor P (207000 + y) s = .ok (s.setRegs fun r => { r with y207 := y }) ∧
    operatorDescriptor P (203000 + y) s
      = (if y = 255 then .ok (s.setRegs fun r => { r with nbitsNewRefval := 0 })
         else if y = 0 then .ok (s.setRegs fun r => { r with nbitsNewRefval := 0, newRefvals := [] })
         else .ok (s.setRegs fun r => { r with nbitsNewRefval := y })) := by
  have h1 : (201000 + y) / 1000 = 201 := by omega
  have h2 : (202000 + y) / 1000 = 202 := by omega
  have h3 : (203000 + y) / 1000 = 203 := by omega
  have h7 : (207000 + y) / 1000 = 207 := by omega
  have m1 : (201000 + y) % 1000 = y := by omega
  have m2 : (202000 + y) % 1000 = y := by omega
  have m3 : (203000 + y) % 1000 = y := by omega
  have m7 : (207000 + y) % 1000 = y := by omega
  refine ⟨?_, ?_, ?_, ?_⟩
  · simp only [operatorDescriptor, h1, m1, if_true]
  · simp [operatorDescriptor, h2, m2]
  · simp [operatorDescriptor, h7, m7]
  · simp [operatorDescriptor, h3, m3]

/-- Code / flag table fields, associated fields (204YYY) and skipped local fields (206YYY) — all read by
    `decCodeflagU` — come back as the unsigned integer; missing iff all ones and wider than one bit. -/
theorem C01_codeflag_raw (dd : DDesc) (f suf : Bits) (sd : St)
    (h0 : 0 < f.length) (h64 : f.length ≤ 64) (hb : sd.bits = f ++ suf) :
    decCodeflagU dd f.length sd =
      .ok (sd.afterRead dd suf
        (if 1 < f.length ∧ f.all id = true then .missing else .int (ofBits f))) := by
  rw [decCodeflagU_field dd sd f suf h0 h64 hb]
  split <;> rfl

/-- the walk reads associated and skipped fields with the code/flag primitive, on the width in force -/
theorem C01_associated_skipped_use_codeflag (P : Prims) (id : Nat) (s : St) :
    associatedField P id s = P.codeflag (.assoc id s.regs.assocStack.sum) s.regs.assocStack.sum s := rfl

/-- Character fields are returned as their bytes (never as missing), `k` bytes for a width of `k`
    (Table B width / 8, 205YYY's Y, or 208YYY's Y when in force). -/
theorem C01_string_bytes (dd : DDesc) (b : List UInt8) (suf : Bits) (sd : St)
    (hb : sd.bits = bytesToBits b ++ suf) :
    decStringU dd b.length sd = .ok (sd.afterRead dd suf (.bytes b)) :=
  decStringU_field dd sd b suf hb

/-- the width the walk uses for a character element -/
theorem C01_string_width (P : Prims) (dd : DDesc) (e : Elem) (s : St)
    (hk : e.kind = .string) (ha : s.regs.assocStack = []) (hx : xOf e.id ≠ 33) :
    elementDescriptor P dd e s =
      P.string dd (if s.regs.newNbytes ≠ 0 then s.regs.newNbytes else e.nbits / 8)
        (if s.regs.qa = .processing then s.setRegs fun r => { r with qa := .na } else s) := by
  unfold elementDescriptor
  simp only [ha, ne_eq, not_true_eq_false, false_and, if_false, hx, hk, bind, Except.bind, pure, Except.pure]
  by_cases hq : s.regs.qa = .processing
  · simp only [hq, if_true, St.setRegs]
  · simp only [hq, if_false]

/-- non-vacuity: 12 bits, scale 1, reference −1000, raw 1234 -> 23.4; all ones -> missing; one bit `1` -> 1 -/
example :
    (decNumericU (.oper 0) 12 1 (-1000) { bits := toBits 12 1234, vals := [[]] }).toOption.map (·.vals)
      = some [[.num 234 1]] ∧
    (decNumericU (.oper 0) 12 1 (-1000) { bits := ones 12, vals := [[]] }).toOption.map (·.vals)
      = some [[.missing]] ∧
    (decNumericU (.oper 0) 1 0 0 { bits := [true], vals := [[]] }).toOption.map (·.vals)
      = some [[.int 1]] ∧
    (decCodeflagU (.oper 0) 4 { bits := ones 4, vals := [[]] }).toOption.map (·.vals) = some [[.missing]] ∧
    (decStringU (.oper 0) 2 { bits := bytesToBits [0x41, 0x42], vals := [[]] }).toOption.map (·.vals)
      = some [[.bytes [0x41, 0x42]]] := by
  decide

/-- non-vacuity of the register equation: 201130 202129 207002 in force on a 10-bit, scale 1, ref −5 element -/
example :
    let e : Elem := { id := 12001, kind := .numeric, nbits := 10, scale := 1, ref := -5 }
    let s : St := { regs := { nbitsOffset := 2, scaleOffset := 1, y207 := 2 }, bits := toBits 19 700, vals := [[]] }
    (elementDescriptor decPrimsU (.plain e) e s).toOption.map (·.vals) = some [[.num 200 4]] := by
  decide

end Bufr
