/-
  C09 — all four output formats carry the same data and convert back to it.

  What is proved here, for EVERY template `t`, every flat result `o` (labels, values, links — not only
  those a decoder can produce) and every state of the wiring pass:

  * `C09_wire_indices_consecutive` — if the wiring pass succeeds, the flat indices held by the tree
    (member values, replication factors, associated-field attributes; in tree order, an associated field
    before its owner) are exactly `0, 1, …, k-1`, `k` the number of indices the pass consumed.  No index
    occurs twice, none is left out, and the tree order IS the flat order.
  * `C09_wire_consumes_each_index_once_partial` / `C09_wire_perm_partial` — hence, when the pass
    consumed as many indices as there are decoded values (`w.st.next = o.vals.length`), the indices of
    the tree are `List.range o.vals.length` (in particular a permutation of it).
  * `C09_members_per_repetition`, `C09_replication_chunks` — one node per template member, so a
    replication node holds `n_repeats · n_members` member nodes and the renderers' chunking by
    `n_members` cuts it into the repetitions.
  * `C09_nested_json_to_flat_partial` — nested JSON -> flat applied to the nested JSON of the wired
    tree returns exactly the flat value list, under the decidable side conditions `Wired.sideOK`.

  * `C09_decode_wire_consumes_all_partial`, `C09_decode_wire_each_value_once_partial`,
    `C09_decode_nested_json_to_flat_partial`, `C09_decode_message_nested_json_to_flat_partial` — the link to
    the coder for the two template classes `C09.quietList a` (Lemmas/WireSim.lean: elements of every class,
    Table D sequences, fixed and delayed replication arbitrarily nested, operators 201, 202, 205, 207, 208, 221,
    plus 203 (`a = false`) or 204YYY with its 031021 / 204000, nested 204 included (`a = true`)):
    for EVERY bit string, if the uncompressed decode of a subset succeeds then the wiring pass on its flat
    lists succeeds, consumes exactly the decoded values (`hn`), `Wired.sideOK` holds, attachment and rendering
    succeed, and decode -> wire -> nested JSON -> flat returns the decoded values (a step-by-step simulation of
    the coder's walk by the wiring pass: both advance their index together and keep the same 204 stack).

  What is missing for the full statement ("for the outputs of every successful decode"): the link to the
  coder outside those classes, i.e. 203 or 206 together with 204 (FALSE there: findings F11a, F11b), the
  bitmap operators 222-225 / 232 / 235-237 (FALSE for F11c, F11d, F15) and compressed data.  For those the side
  conditions are evaluated by the driver on every case of the correspondence check (`side_ok` in the `views`
  response) and compared with the implementation's own node tree.
  The two text formats are not modelled in Lean; they are covered by the oracle on the implementation.
-/
import BufrModel.Lemmas.Wire
import BufrModel.Lemmas.NestedJson
import BufrModel.Lemmas.WireSim
namespace Bufr
open Bufr.C09

/-- full strength: whatever the flat lists are, a successful wiring pass holds the indices it consumed
    exactly once each, in flat order -/
theorem C09_wire_indices_consecutive (t : List Desc) (o : SubsetOut) (w : Wired)
    (h : wireRaw t o = .ok w) : idxList w.nodes = List.range w.st.next := by
  unfold wireRaw at h
  split at h
  · cases h
  · next ns s hl =>
    injection h with h; subst h
    obtain ⟨⟨_, hc⟩, _⟩ := wireList_consumes o t {} ns s hl
    simp only at hc ⊢
    rw [hc, List.range_eq_range']
    rfl

/-- MISSING for the full statement: the hypothesis `hn` (the pass consumed the whole flat list) for
    outputs of the coder; see the header.  With it: the tree holds every decoded value exactly once. -/
theorem C09_wire_consumes_each_index_once_partial (t : List Desc) (o : SubsetOut) (w : Wired)
    (h : wireRaw t o = .ok w) (hn : w.st.next = o.vals.length) :
    idxList w.nodes = List.range o.vals.length := by
  rw [C09_wire_indices_consecutive t o w h, hn]

theorem C09_wire_perm_partial (t : List Desc) (o : SubsetOut) (w : Wired)
    (h : wireRaw t o = .ok w) (hn : w.st.next = o.vals.length) :
    (idxList w.nodes).Perm (List.range o.vals.length) := by
  rw [C09_wire_consumes_each_index_once_partial t o w h hn]

/-- the chunking lemma: `wire_members` yields exactly one node per member -/
theorem C09_members_per_repetition (o : SubsetOut) (ds : List Desc) (s s' : WSt) (ns : List Node)
    (h : wireList o ds s = .ok (ns, s')) : ns.length = ds.length :=
  (wireList_consumes o ds s ns s' h).2

/-- a repetition loop over `ds` run `k` times yields `k · |ds|` nodes: the members of a replication node
    are the concatenation of its repetitions, `n_members` nodes each -/
theorem C09_replication_chunks (o : SubsetOut) (ds : List Desc) (k : Nat) (s s' : WSt) (ns : List Node)
    (h : wireRepeat (wireList o ds) k s = .ok (ns, s')) : ns.length = k * ds.length :=
  (wireRepeat_consumes (wireList o ds) ds.length
    (fun s ns s' hh => wireList_consumes o ds s ns s' hh) k s ns s' h).2

theorem C09_range_getElem_opt {α : Type} (l : List α) :
    (List.range l.length).map (fun i => l[i]?) = l.map some := by
  apply List.ext_getElem
  · simp
  · intro i h1 h2
    simp only [List.length_map, List.length_range] at h1
    simp [h1]

theorem C09_map_some_inj {α : Type} : ∀ (a b : List α), a.map some = b.map some → a = b
  | [], [], _ => rfl
  | [], _ :: _, h => by cases h
  | _ :: _, [], h => by cases h
  | x :: xs, y :: ys, h => by
    rw [List.map_cons, List.map_cons] at h
    injection h with h1 h2
    rw [Option.some.inj h1, C09_map_some_inj xs ys h2]

theorem C09_ok_of_isSome {α : Type} {x : CM α} (h : x.toOption.isSome = true) : ∃ a, x = .ok a := by
  cases x with
  | error e => cases h
  | ok a => exact ⟨a, rfl⟩

/-- MISSING for the full statement: `hs` (decidable, evaluated per case by the driver) for outputs of the
    coder; see the header.  With it: the original flat order is recovered. -/
theorem C09_nested_json_to_flat_partial (t : List Desc) (o : SubsetOut) (w : Wired)
    (tree : List Node) (js : List NJ)
    (h : wireRaw t o = .ok w) (hs : w.sideOK o = true)
    (htree : w.tree = .ok tree) (hj : renderNested o tree = .ok js) :
    nestedJsonToFlat js = .ok o.vals := by
  unfold Wired.sideOK at hs
  rw [Bool.and_eq_true, Bool.and_eq_true] at hs
  obtain ⟨⟨h1, h2⟩, h3⟩ := hs
  have hn : w.st.next = o.vals.length := by simpa using h3
  obtain ⟨vs, hv, hm⟩ := flatList_tree o w.st.tab w.fuel h2 w.nodes tree js h1 htree hj
  rw [C09_wire_consumes_each_index_once_partial t o w h hn] at hm
  unfold valsAt at hm
  rw [C09_range_getElem_opt] at hm
  have : vs = o.vals := C09_map_some_inj vs o.vals hm
  unfold nestedJsonToFlat
  rw [hv, this]

/-! ### non-vacuity: a delayed replication (count 2) under an associated field, with its 031021 meaning -/

def exE (id nbits : Nat) : Elem := { id := id, kind := .numeric, nbits := nbits, scale := 0, ref := 0 }

/-- `204004 031021 101000 031001 012001 204000 001001` -/
def exT : List Desc :=
  [.op 204004, .elem (exE 31021 6), .delayedRep 101000 (.elem (exE 31001 8)) [.elem (exE 12001 12)],
   .op 204000, .elem (exE 1001 7)]

def exO : SubsetOut :=
  { descs := [.plain (exE 31021 6), .plain (exE 31001 8), .assoc 12001 4, .plain (exE 12001 12),
              .assoc 12001 4, .plain (exE 12001 12), .plain (exE 1001 7)]
    vals := [.int 1, .int 2, .int 5, .int 280, .int 6, .int 281, .int 99]
    links := [] }

example : (wireRaw exT exO).toOption.map (fun w => (idxList w.nodes, w.st.next, w.sideOK exO)) =
    some ([0, 1, 2, 3, 4, 5, 6], 7, true) := by decide +kernel

example : ((wire exT exO >>= renderNested exO) >>= nestedJsonToFlat).toOption = some exO.vals := by
  decide +kernel

/-- the hypotheses of `C09_nested_json_to_flat_partial` hold on this input: the pass succeeds, the
    side conditions evaluate to true, attachment and rendering succeed (and the conclusion is what the
    evaluation above shows) -/
example : (wireRaw exT exO).toOption.map (fun w => w.sideOK exO) = some true := by decide +kernel
example : (wire exT exO >>= renderNested exO).toOption.isSome = true := by decide +kernel

/-- a template the wiring pass does NOT understand (finding F11a): flat lists of
    `204004 031021 203010 001001 203255 204000` as the coder produces them (the defining element yields
    ONE item); the wiring pass asks for two and fails -/
def exO2 : SubsetOut :=
  { descs := [.plain (exE 31021 6), .plain (exE 1001 7)], vals := [.int 1, .int 3], links := [] }

example : (wireRaw [.op 204004, .elem (exE 31021 6), .op 203010, .elem (exE 1001 7), .op 203255, .op 204000]
    exO2).toOption.isSome = false := by decide +kernel

/-! ### the link to the coder, for the templates in which the coder has no state the wiring pass lacks -/

/-- The link to the coder for the two template classes `C09.quietList a` (Lemmas/WireSim.lean): elements of every
    class, sequences, fixed and delayed replication arbitrarily nested, operators 201, 202, 205, 207, 208, 221, and
    either 203 (`a = false`) or 204YYY with its 031021 / 204000 (`a = true`: associated fields on plain elements).
    Whatever bits are decoded, if the (uncompressed) decode of a subset succeeds then the wiring pass run on its
    flat lists succeeds too and consumes exactly the decoded values: the hypothesis `hn` of
    `C09_wire_consumes_each_index_once_partial` holds.
    MISSING for the full statement: 203 together with 204 and 206 (findings F11a, F11b: false there), the bitmap
    operators 222-225 / 232 / 235-237 (F11c, F11d, F15: false for some) and compressed data. -/
theorem C09_decode_wire_consumes_all_partial (a : Bool) (t : List Desc) (hq : quietList a t = true)
    (bits rest : Bits) (o : SubsetOut) (h : decodeSubset t bits = .ok (o, rest)) :
    ∃ w, wireRaw t o = .ok w ∧ w.st.next = o.vals.length := by
  obtain ⟨w, x, y, _⟩ := decodeSubset_wire hq h
  exact ⟨w, x, y⟩

/-- hence, for those templates, the hierarchical view of every decoded subset holds every decoded value exactly
    once (member, replication factor, associated-field attribute of its owner), in an arrangement whose tree order
    is the flat order.  MISSING: as for `C09_decode_wire_consumes_all_partial`. -/
theorem C09_decode_wire_each_value_once_partial (a : Bool) (t : List Desc) (hq : quietList a t = true)
    (bits rest : Bits) (o : SubsetOut) (h : decodeSubset t bits = .ok (o, rest)) :
    ∃ w, wireRaw t o = .ok w ∧ idxList w.nodes = List.range o.vals.length := by
  obtain ⟨w, x, y⟩ := C09_decode_wire_consumes_all_partial a t hq bits rest o h
  exact ⟨w, x, C09_wire_consumes_each_index_once_partial t o w x y⟩

/-- and the whole chain decode -> wire -> nested JSON -> flat returns the decoded values: all the hypotheses of
    `C09_nested_json_to_flat_partial` (`Wired.sideOK`, attachment and rendering succeed) hold for the outputs
    of the decoder.  MISSING: as for `C09_decode_wire_consumes_all_partial`. -/
theorem C09_decode_nested_json_to_flat_partial (a : Bool) (t : List Desc) (hq : quietList a t = true)
    (bits rest : Bits) (o : SubsetOut) (h : decodeSubset t bits = .ok (o, rest)) :
    ((wire t o >>= renderNested o) >>= nestedJsonToFlat) = .ok o.vals := by
  obtain ⟨w, hw, hn, hlen, hp, htab⟩ := decodeSubset_wire hq h
  have hs : w.sideOK o = true := by
    unfold Wired.sideOK
    rw [plainList_treeOK o w.nodes hp, htab, hn]
    simp
  have htree : w.tree = .ok w.nodes := by
    unfold Wired.tree Wired.fuel
    rw [htab]
    exact resolveList_plain o (2 * w.st.next + 3) ⟨by omega, fun _ => by omega⟩ w.nodes hp
  obtain ⟨js, hj⟩ := renderNodes_plain o (by omega) w.nodes hp
  have hflat := C09_nested_json_to_flat_partial t o w w.nodes js hw hs htree hj
  have hwire : wire t o = .ok w.nodes := by unfold wire; rw [hw]; exact htree
  rw [hwire]
  show (renderNested o w.nodes >>= nestedJsonToFlat) = _
  unfold renderNested
  rw [hj]
  exact hflat

/-- the same for every subset of an uncompressed message -/
theorem C09_decode_message_nested_json_to_flat_partial (a : Bool) (t : List Desc) (hq : quietList a t = true) :
    ∀ (n : Nat) (bits rest : Bits) (outs : List SubsetOut), decodeData t false n bits = .ok (outs, rest) →
      ∀ o ∈ outs, ((wire t o >>= renderNested o) >>= nestedJsonToFlat) = .ok o.vals := by
  intro n
  induction n with
  | zero =>
    intro bits rest outs h o ho
    unfold decodeData at h
    simp only [Bool.false_eq_true, if_false] at h
    rw [decodeSubsets] at h
    injection h with h; injection h with h _; subst h
    cases ho
  | succ n ih =>
    intro bits rest outs h o ho
    unfold decodeData at h
    simp only [Bool.false_eq_true, if_false] at h
    rw [decodeSubsets] at h
    split at h
    · cases h
    · next o1 r1 h1 =>
      split at h
      · cases h
      · next os r2 h2 =>
        injection h with h; injection h with h _; subst h
        cases ho with
        | head => exact C09_decode_nested_json_to_flat_partial a t hq bits r1 o h1
        | tail _ hm =>
          refine ih r1 r2 os ?_ o hm
          unfold decodeData
          simp only [Bool.false_eq_true, if_false]
          exact h2

/-! ### non-vacuity: templates of both classes, decoded from bits -/

/-- `001001 101000 031001 301001{001001 001002} 201130 012001 201000 221001 012001 205002` -/
def exQ : List Desc :=
  [.elem (exE 1001 7), .delayedRep 101000 (.elem (exE 31001 8)) [.seq 301001 [.elem (exE 1001 7), .elem (exE 1002 10)]],
   .op 201130, .elem (exE 12001 12), .op 201000, .op 221001, .elem (exE 12001 12), .op 205002]

example : quietList false exQ = true := by decide +kernel

def exBits : Bits :=
  List.replicate 7 false ++ [false, false, false, false, false, false, true, false] ++
  List.replicate (2 * 17) true ++ List.replicate 14 false ++ List.replicate 16 false

example : (decodeSubset exQ exBits).toOption.map (fun r => r.1.vals.length) = some 8 := by decide +kernel

example : ((decodeSubset exQ exBits).toOption.map fun r =>
    ((wire exQ r.1 >>= renderNested r.1) >>= nestedJsonToFlat).toOption == some r.1.vals) = some true := by
  decide +kernel

/-- `204004 031021 101000 031001 012001 204000 001001` (the template of `exT`): associated fields on the
    members of a delayed replication; count 2 -/
example : quietList true exT = true := by decide +kernel

def exBitsA : Bits :=
  [false, false, false, false, false, true] ++ [false, false, false, false, false, false, true, false] ++
  [false, true, false, true] ++ List.replicate 12 false ++ [false, true, true, false] ++ List.replicate 12 true ++
  List.replicate 7 false

example : (decodeSubset exT exBitsA).toOption.map (fun r => r.1.vals) =
    some [.int 1, .int 2, .int 5, .int 0, .int 6, .missing, .int 0] := by decide +kernel

example : ((decodeSubset exT exBitsA).toOption.map fun r =>
    ((wire exT r.1 >>= renderNested r.1) >>= nestedJsonToFlat).toOption == some r.1.vals) = some true := by
  decide +kernel

end Bufr
