/-
  C12 — tie to the Python source: start and stop signature of the model are those of
  `pybufrkit/constants.py` (regenerated on every check).
-/
import BufrModel.Msg.Stream
import BufrModel.Spec.Frame
import BufrModel.Gen.PyConstants
import BufrModel.Gen.PyDecoder
import BufrModel.Lemmas.StreamSrc
import BufrModel.Lemmas.SectionsSrc
namespace Bufr
open PyGen.constants

theorem C12_src_const_start_signature : Stream.sig = MESSAGE_START_SIGNATURE := by decide
theorem C12_src_const_stop_signature : stopSig = MESSAGE_STOP_SIGNATURE := by decide

end Bufr

namespace Bufr.Stream
open PyGen.decoder PyGen.decoder.generate_bufr_message

/-- **Continue-on-error, read off the translated source** (`Gen/PyDecoder.lean`, regenerated from
    `decoder.generate_bufr_message` on every check).  At a signature found at `j + k` (scan position `j`), without a
    filter and with `continue_on_error`, when the decode fails with a library error one iteration of the translated
    loop does not raise, yields nothing, and moves the scan position to `j + k + resumeBy`: `+ 1` in info-only mode,
    otherwise `+ length.value` of a metadata-only decode at the same place, `+ 1` when that fails too (`h2`: with a
    library error; a non-library exception there leaves the generator, see `C11_src_generate_eq`). -/
theorem C12_src_resume_policy (env : Env) (s : Bytes) (io : Bool) (fe : Option (List Char)) (sro : Option Py.Obj)
    (v : Locals) (j k : Nat) (hinv : Inv s io true fe sro v j) (hj : j ≤ s.length)
    (hk : findSig (s.drop j) = some k) (hft : Py.truthyOptSeq fe = false) (e : Py.Exc)
    (hfail : env.decoder_process (s.drop (j + k)) io = .error e) (hlib : env.isinstance_PyBufrKitError e = true)
    (h2 : ∀ e2, io = false → env.decoder_process (s.drop (j + k)) true = .error e2 → env.isinstance_PyBufrKitError e2 = true) :
    ∃ v', while_1.body env v = .next v' ∧ v'.idx_start = ((j + k : Nat) : Int) + resumeBy env io (s.drop (j + k)) ∧
      v'.py_yields = v.py_yields ∧ v'.s = s ∧ v'.info_only = io ∧ v'.continue_on_error = true :=
  resume_step env s io fe sro v j k hinv hj hk hft e hfail hlib h2

/-- the same policy is the model's `step` (the function `C12_isolation` and the other stream theorems are about): one
    iteration of the translated loop at a found signature = `step`, for every flag combination and all callbacks -/
theorem C12_src_step_eq (env : Env) (hcb : CbOk env) (s : Bytes) (io coe : Bool) (fe : Option (List Char))
    (sro : Option Py.Obj) (sr : Py.Obj) (hsro : Py.truthyOptSeq fe = true → sro = some sr)
    (v : Locals) (j k : Nat) (hinv : Inv s io coe fe sro v j) (hj : j ≤ s.length)
    (hk : findSig (s.drop j) = some k) :
    StepOk env s io coe fe sro v (j + k) (step (srcDec env) (srcCfg env io coe fe sr) (s.drop (j + k)))
      (while_1.body env v) :=
  body_step env hcb s io coe fe sro sr hsro v j k hinv hj hk

/-- an exception that is not a `PyBufrKitError` is not caught by the handler, whatever `continue_on_error` says: the
    model's `Err.isLib` is exactly `isinstance(e, PyBufrKitError)` of the translated `except` clause -/
theorem C12_src_library_error_class (env : Env) (e : Py.Exc) :
    (srcErr env e).isLib = env.isinstance_PyBufrKitError e := srcErr_isLib env e

/-- the hypotheses of `C12_src_resume_policy` are satisfiable -/
example : ∃ (env : Env) (s : Bytes) (v : Locals) (e : Py.Exc), Inv s false true none none v 0 ∧
    findSig (s.drop 0) = some 0 ∧ env.decoder_process (s.drop (0 + 0)) false = .error e ∧
    env.isinstance_PyBufrKitError e = true :=
  ⟨{ ScriptRunner := fun _ => .ok {}, decoder_process := fun _ _ => .error (.raised "PyBufrKitError"),
     sr_run := fun _ _ => .ok true, table_definition_process := fun _ => .ok ({}, {}, {}),
     table_cache_invalidate := .ok (), table_cache_add_extra_entries := fun _ _ => .ok (),
     isinstance_PyBufrKitError := fun _ => true },
   sig, ⟨sig, false, true, none, none, 0, false, default, {}, {}, {}, default, []⟩, .raised "PyBufrKitError",
   ⟨rfl, rfl, rfl, rfl, rfl, rfl⟩, by decide, rfl, rfl⟩

end Bufr.Stream

namespace Bufr
open PyGen.decoder PyGen.decoder.process_section_finish

/-- C12 (a damaged section length gives a LIBRARY error): in the source as translated on every check, a section whose
    declared length is below the bits already read ends with `raise PyBufrKitError` (and a reader that runs out of bits
    while the padding is skipped fails with the reader's error class: `C04_src_finish_section_eq`) -/
theorem C12_src_section_overrun_is_library_error (env : Env) (errOf : Py.Exc → Err) (bits : Py.Obj → Bits) (pos : Py.Obj → Nat)
    (hr : ReaderSpec env errOf bits pos) (br : Py.Obj) (sec : Section) (start used d : Nat) (i : Int)
    (hc : env.section_contains sec "section_length".toList = .ok true)
    (hst : env.section_get_metadata sec BITPOS_START = .ok (start : Int))
    (hix : env.section_get_metadata sec "index".toList = .ok i)
    (hv : sec.section_length_value = (d : Int)) (hpos : pos br = start + used) (hover : d * 8 < used) :
    (process_section_finish env br sec).2 = .error (.raised "PyBufrKitError") := by
  have hgp := hr.get_pos
  have hix' : env.section_get_metadata sec ['i', 'n', 'd', 'e', 'x'] = .ok i := hix
  have hc' : env.section_contains sec ['s', 'e', 'c', 't', 'i', 'o', 'n', '_', 'l', 'e', 'n', 'g', 't', 'h'] = .ok true := hc
  have h8 : NBITS_PER_BYTE = 8 := rfl
  have hnr : ((pos br : Int) - (start : Int)) = (used : Int) := by rw [hpos]; omega
  have hng : ¬ ((0 : Int) < (d : Int) * 8 - (used : Int)) := by omega
  have hlt : (d : Int) * 8 - (used : Int) < 0 := by omega
  simp only [process_section_finish, Py.Flow.bind, Py.Flow.eval, Py.Flow.finish, hc', hgp, hst, hnr, hv, h8, hng, hlt, hix',
    bind, Except.bind, pure, Except.pure, if_true, if_false, decide_true, decide_false, Int.ofNat_eq_natCast,
    Int.natCast_zero, Bool.false_eq_true]

end Bufr

