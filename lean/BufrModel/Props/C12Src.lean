/-
  C12 — tie to the Python source: start and stop signature of the model are those of
  `pybufrkit/constants.py` (regenerated on every check).
-/
import BufrModel.Msg.Stream
import BufrModel.Spec.Frame
import BufrModel.Gen.PyConstants
namespace Bufr
open PyGen.constants

theorem C12_src_const_start_signature : Stream.sig = MESSAGE_START_SIGNATURE := by decide
theorem C12_src_const_stop_signature : stopSig = MESSAGE_STOP_SIGNATURE := by decide

end Bufr
