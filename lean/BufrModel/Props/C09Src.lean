/-
  C09 — tie to the Python source (regenerated on every check from `pybufrkit/constants.py` and
  `pybufrkit/utils.py`): indentation unit and header marks of the text renderings.
-/
import BufrModel.View.Text
import BufrModel.Gen.PyConstants
import BufrModel.Gen.PyUtils
namespace Bufr

/-- `INDENT_CHARS` -/
theorem C09_src_const_indent : indent4 = PyGen.constants.INDENT_CHARS := by decide

/-- `'.' * len(INDENT_CHARS)` (the indentation of a delayed replication factor) -/
theorem C09_src_const_dots : dots4 = List.replicate PyGen.constants.INDENT_CHARS.length '.' := by decide

/-- `TEXT_SECTION_HEADER` -/
theorem C09_src_const_section_header : sectionMark = PyGen.utils.TEXT_SECTION_HEADER := by decide

/-- `TEXT_SUBSET_HEADER` -/
theorem C09_src_const_subset_header : subsetMark = PyGen.utils.TEXT_SUBSET_HEADER := by decide

end Bufr
