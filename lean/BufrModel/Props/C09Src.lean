/-
  C09 — tie to the Python source (regenerated on every check from `pybufrkit/constants.py` and
  `pybufrkit/utils.py` by `harness/py2lean.py`): indentation unit and header marks of the text renderings,
  and the index / link column `fixed_width_repr_of_int` of the flat text.
-/
import BufrModel.View.Text
import BufrModel.Gen.PyConstants
import BufrModel.Gen.PyUtils
namespace Bufr

/-- `INDENT_CHARS` -/
theorem C09_src_const_indent : indent4 = PyGen.constants.INDENT_CHARS := by decide

/-- `'.' * len(INDENT_CHARS)` (the indentation of a delayed replication factor) -/
theorem C09_src_const_dots : dots4 = List.replicate PyGen.constants.INDENT_CHARS.length '.' := by decide

/-- `TEXT_SECTION_HEADER` -/
theorem C09_src_const_section_header : sectionMark = PyGen.utils.TEXT_SECTION_HEADER := by decide

/-- `TEXT_SUBSET_HEADER` -/
theorem C09_src_const_subset_header : subsetMark = PyGen.utils.TEXT_SUBSET_HEADER := by decide

theorem repeatSeq_single (c : Char) (w : Nat) : Py.repeatSeq [c] (w : Int) = List.replicate w c := by
  simp only [Py.repeatSeq, Int.toNat_natCast]
  induction w with
  | zero => rfl
  | succ n ih => simp [List.replicate_succ, ih]

/-- `utils.fixed_width_repr_of_int(n, w, pad_left)` translated from the source: for every natural `n`, every
    width `w` and BOTH values of `pad_left` (the code passes `'>'` in both cases) it returns normally and
    gives the model's `fixedWidth n w` - right-aligned in `w` columns, `w` asterisks when it does not fit. -/
theorem C09_src_fixed_width (n w : Nat) (pad_left : Bool) :
    PyGen.utils.fixed_width_repr_of_int (n : Int) (w : Int) pad_left = .ok (fixedWidth n w) := by
  have hs : Py.strOfInt (n : Int) = natStr n := by
    simp [Py.strOfInt, natStr]
  have hlen : (Py.padLeft ' ' w (natStr n)).length = max w (natStr n).length := by
    simp [Py.padLeft]; omega
  simp only [PyGen.utils.fixed_width_repr_of_int, Py.formatIntAlign, hs, Int.natAbs_natCast, ite_self, if_true,
    bind, Except.bind, pure, Except.pure, fixedWidth, hlen, Int.ofNat_eq_natCast]
  by_cases h : (natStr n).length > w
  · have : ((max w (natStr n).length : Nat) : Int) > (w : Int) := by omega
    simp [h, this, repeatSeq_single]
  · have : ¬ ((max w (natStr n).length : Nat) : Int) > (w : Int) := by omega
    simp [h, this, Py.padLeft]

end Bufr
