/-
  C02, whole data section: "the encoder emits … a data section that is bit-for-bit the concatenation of
  the fields in template order (MSB first, missing = all ones, strings space-padded …); when compression
  is requested every element is written as minimum, 6-bit difference width and per-subset differences".

  Specification: `Spec/CanonBits.lean` — `canonDataBits T fuel ids compressed valss : Option Bits`, the
  concatenation of the declarative field codes (`fieldCode`) / column codes (`colCode`) along the FLAT
  FM-94 reading of the descriptor list (`Spec.flatWalk`), per subset, subsets concatenated.

  Here: for every table group, every descriptor list the implementation can build at all (`WFflat`),
  every value list, any number of subsets, compressed or not,

      the bits of `encodeData (build T ids) compressed valss`  =  `canonDataBits T fuel ids compressed valss`

  as an equation in `Option Bits`: the encoder succeeds exactly when the specification assigns a bit
  stream, and then it writes exactly that stream (`C02_data_bits_canonical`).  `fieldCode` / `colCode`
  are then characterised outright (`C02_numeric_code_iff` … `C02_int_column_code_iff`): a value has no
  code exactly when it is out of range for the width in force or of the wrong kind.

  Proof: the encoder's primitives ARE the code-writing primitives (`encPrimsU = canonPrimsU`,
  `encPrimsC = canonPrimsC`, `Lemmas/CanonBits*.lean`), the tree walk is the flat reading for ALL
  primitives (`C01_flat_eq_tree`), an uncompressed subset does not depend on what was written before
  (`encodeSubset_pre`, C06).
-/
import BufrModel.Lemmas.CanonBitsComp
import BufrModel.Lemmas.FrameData
import BufrModel.Props.C01Flat
import BufrModel.Props.C02
set_option linter.unusedSimpArgs false
namespace Bufr
open Bufr.Spec Bufr.Flat

/-! ### the walk -/

/-- The encoder's tree walk is the flat reading with the code-writing primitives, uncompressed and
    compressed, from every state. -/
theorem C02_walk_is_flat_canon (T : Tables) {d fuel depth : Nat} {ids : List Nat}
    (hwf : WFflat T d ids) (hfuel : d ≤ fuel) (hdepth : d ≤ depth) (s : St) :
    (buildD T depth ids >>= fun t => walkList encPrimsU t s) = flatWalk canonPrimsU T fuel ids s ∧
    (buildD T depth ids >>= fun t => walkList encPrimsC t s) = flatWalk canonPrimsC T fuel ids s := by
  rw [encPrimsU_eq_canon, encPrimsC_eq_canon]
  exact ⟨(C01_flat_eq_tree canonPrimsU T hwf hfuel hdepth s).symm,
    (C01_flat_eq_tree canonPrimsC T hwf hfuel hdepth s).symm⟩

/-- one uncompressed subset, encoded alone -/
theorem C02_subset_bits_canonical (T : Tables) {d fuel depth : Nat} {ids : List Nat}
    (hwf : WFflat T d ids) (hfuel : d ≤ fuel) (hdepth : d ≤ depth) (vals : List Val) :
    ((buildD T depth ids >>= fun t => encodeSubset t vals []).toOption.map (·.2.reverse))
      = canonSubsetBits T fuel ids vals := by
  obtain ⟨t, ht⟩ := (wfCount_iff_build T d ids).1 hwf
  have hb := buildD_mono T d ids t ht depth hdepth
  have hw := (C02_walk_is_flat_canon T hwf hfuel hdepth { bits := [], vals := [vals] }).1
  rw [hb] at hw ⊢
  unfold canonSubsetBits
  rw [← hw]
  show (encodeSubset t vals []).toOption.map (·.2.reverse) = _
  unfold encodeSubset
  show _ = match walkList encPrimsU t { bits := [], vals := [vals] } with
    | .ok s => some s.bits.reverse
    | .error _ => none
  cases walkList encPrimsU t { bits := [], vals := [vals] } <;> rfl

/-- the bits of one subset encoded alone (most recent first) -/
def aloneBits (t : List Desc) (v : List Val) : Option Bits := (encodeSubset t v []).toOption.map (·.2)

theorem aloneBits_ok {t : List Desc} {v : List Val} {o : SubsetOut} {b : Bits}
    (h : encodeSubset t v [] = .ok (o, b)) : aloneBits t v = some b := by
  simp [aloneBits, h, Except.toOption]

theorem aloneBits_error {t : List Desc} {v : List Val} {e : Err}
    (h : encodeSubset t v [] = .error e) : aloneBits t v = none := by
  simp [aloneBits, h, Except.toOption]

/-- subsets written one after the other = each subset written alone, concatenated (bits most recent
    first, on top of `pre`) -/
theorem encodeSubsets_bits (t : List Desc) (vs : List (List Val)) (pre : Bits) :
    (encodeSubsets t vs pre).toOption.map (·.2)
      = (vs.mapM (aloneBits t)).map fun ws => ws.reverse.flatten ++ pre := by
  induction vs generalizing pre with
  | nil => rfl
  | cons v vs ih =>
    simp only [encodeSubsets, List.mapM_cons]
    cases ha : encodeSubset t v [] with
    | error e =>
      have : ∀ r, encodeSubset t v pre ≠ .ok r := by
        rintro ⟨o, b⟩ h
        obtain ⟨b0, h0, _⟩ := (encodeSubset_pre t v pre o b).mp h
        rw [ha] at h0; cases h0
      rw [aloneBits_error ha]
      cases hp : encodeSubset t v pre with
      | error e' => rfl
      | ok r => exact absurd hp (this r)
    | ok r =>
      obtain ⟨o, b0⟩ := r
      have hp : encodeSubset t v pre = .ok (o, b0 ++ pre) := (encodeSubset_pre t v pre o _).mpr ⟨b0, ha, rfl⟩
      rw [hp, aloneBits_ok ha]
      have ih' := ih (b0 ++ pre)
      cases hm : vs.mapM (aloneBits t) with
      | none =>
        rw [hm] at ih'
        cases hs : encodeSubsets t vs (b0 ++ pre) with
        | error e => simp [hs, Except.toOption]
        | ok r2 => rw [hs] at ih'; cases ih'
      | some ws =>
        rw [hm] at ih'
        cases hs : encodeSubsets t vs (b0 ++ pre) with
        | error e => rw [hs] at ih'; cases ih'
        | ok r2 =>
          obtain ⟨os, b2⟩ := r2
          rw [hs] at ih'
          simp only [Except.toOption, Option.map_some, Option.some.injEq] at ih'
          simp [hs, Except.toOption, ih', List.append_assoc]

theorem mapM_option_map' {α β γ : Type} (f : α → Option β) (g : β → γ) (l : List α) :
    l.mapM (fun a => (f a).map g) = (l.mapM f).map (List.map g) :=
  mapM_option_map f g l

/-- **C02, data section.**  For every table group `T`, every descriptor list the implementation can
    build (`WFflat T d ids`; `fuel`, `depth ≥ d`), any list of subsets' value lists, compressed or not:
    the bits `Encoder.process_template_data` writes are the canonical FM-94 bits of the specification —
    and the encoder refuses (for whatever reason) exactly when the specification assigns no bit stream. -/
theorem C02_data_bits_canonical (T : Tables) {d fuel depth : Nat} {ids : List Nat}
    (hwf : WFflat T d ids) (hfuel : d ≤ fuel) (hdepth : d ≤ depth)
    (compressed : Bool) (valss : List (List Val)) :
    ((buildD T depth ids >>= fun t => encodeData t compressed valss).toOption.map (·.2))
      = canonDataBits T fuel ids compressed valss := by
  obtain ⟨t, ht⟩ := (wfCount_iff_build T d ids).1 hwf
  have hb := buildD_mono T d ids t ht depth hdepth
  cases compressed with
  | true =>
    have hw := (C02_walk_is_flat_canon T hwf hfuel hdepth { bits := [], vals := valss }).2
    rw [hb] at hw ⊢
    show (encodeData t true valss).toOption.map (·.2) = canonCompressedBits T fuel ids valss
    unfold canonCompressedBits
    rw [← hw]
    show _ = match walkList encPrimsC t { bits := [], vals := valss } with
      | .ok s => some s.bits.reverse
      | .error _ => none
    simp only [encodeData, if_true, encodeCompressed]
    cases walkList encPrimsC t { bits := [], vals := valss } <;> rfl
  | false =>
    have h1 : ∀ v, canonSubsetBits T fuel ids v = (encodeSubset t v []).toOption.map (·.2.reverse) := by
      intro v
      have := C02_subset_bits_canonical T hwf hfuel hdepth v
      rw [hb] at this
      exact this.symm
    rw [hb]
    show (encodeData t false valss).toOption.map (·.2) = (valss.mapM (canonSubsetBits T fuel ids)).map List.flatten
    rw [funext h1]
    have h2 := encodeSubsets_bits t valss []
    have h3 : (fun v => (encodeSubset t v []).toOption.map (·.2.reverse))
        = fun v => (aloneBits t v).map List.reverse := by
      funext v; unfold aloneBits; cases encodeSubset t v [] <;> rfl
    rw [h3, mapM_option_map']
    simp only [encodeData, Bool.false_eq_true, if_false]
    cases hm : valss.mapM (aloneBits t) with
    | none =>
      rw [hm] at h2
      cases hs : encodeSubsets t valss [] with
      | error e => rfl
      | ok r => rw [hs] at h2; cases h2
    | some ws =>
      rw [hm] at h2
      cases hs : encodeSubsets t valss [] with
      | error e => rw [hs] at h2; cases h2
      | ok r =>
        obtain ⟨os, b⟩ := r
        rw [hs] at h2
        simp only [Except.toOption, Option.map_some, Option.some.injEq, List.append_nil] at h2
        simp [Except.toOption, h2, List.reverse_flatten]

/-- the same for the driver's `build` (Table D nesting up to `defaultDepth`) -/
theorem C02_data_bits_canonical_build (T : Tables) {d fuel : Nat} {ids : List Nat}
    (hwf : WFflat T d ids) (hfuel : d ≤ fuel) (hd : d ≤ defaultDepth)
    (compressed : Bool) (valss : List (List Val)) :
    ((build T ids >>= fun t => encodeData t compressed valss).toOption.map (·.2))
      = canonDataBits T fuel ids compressed valss :=
  C02_data_bits_canonical T hwf hfuel hd compressed valss

/-- acceptance: the encoder accepts the values exactly when every field along the flat reading has a
    code (the specification assigns a bit stream), and refuses otherwise -/
theorem C02_encoder_accepts_iff (T : Tables) {d fuel depth : Nat} {ids : List Nat}
    (hwf : WFflat T d ids) (hfuel : d ≤ fuel) (hdepth : d ≤ depth)
    (compressed : Bool) (valss : List (List Val)) :
    (∃ r, (buildD T depth ids >>= fun t => encodeData t compressed valss) = .ok r)
      ↔ (canonDataBits T fuel ids compressed valss).isSome = true := by
  rw [← C02_data_bits_canonical T hwf hfuel hdepth compressed valss]
  cases (buildD T depth ids >>= fun t => encodeData t compressed valss) with
  | error e => simp [Except.toOption]
  | ok r => simp [Except.toOption]

/-! ### the codes, characterised -/


theorem C02_uintCode_iff (w : Nat) (raw : Int) (bits : Bits) :
    uintCode w raw = some bits ↔ 0 < w ∧ 0 ≤ raw ∧ raw < 2 ^ w ∧ bits = toBits w raw.toNat := by
  unfold uintCode
  by_cases h : 0 < w ∧ 0 ≤ raw ∧ raw < 2 ^ w
  · simp only [h, and_self, if_true, Option.some.injEq, true_and]; exact eq_comm
  · simp only [h, if_false]
    constructor
    · intro h'; cases h'
    · rintro ⟨a, b, c, _⟩; exact absurd ⟨a, b, c⟩ h

theorem C02_missingCode_iff (w : Nat) (bits : Bits) :
    missingCode w = some bits ↔ 0 < w ∧ w ≤ 64 ∧ bits = ones w := by
  unfold missingCode
  by_cases h : 0 < w ∧ w ≤ 64
  · simp only [h, and_self, if_true, Option.some.injEq, true_and]; exact eq_comm
  · simp only [h, if_false]
    constructor
    · intro h'; cases h'
    · rintro ⟨a, b, _⟩; exact absurd ⟨a, b⟩ h

/-- **numeric field** (width, scale, reference in force): the code of a value is
    `round_half_even(value · 10^scale) − reference` in binary on the width, it exists exactly when that
    number lies in `0 .. 2^width − 1`; missing is all ones (widths up to 64). -/
theorem C02_numeric_code_iff (w scale ref : Int) (v : Val) (bits : Bits) :
    fieldCode (.numeric w scale ref) v = some bits ↔
      0 < w ∧
      ((v = .missing ∧ w ≤ 64 ∧ bits = ones w.toNat) ∨
       (v ≠ .missing ∧ ∃ q, scaledRound v scale = some q ∧ 0 ≤ q - ref ∧ q - ref < 2 ^ w.toNat ∧
          bits = toBits w.toNat (q - ref).toNat)) := by
  unfold fieldCode
  by_cases hw : w ≤ 0
  · simp only [hw, if_true]
    constructor
    · intro h; cases h
    · rintro ⟨h, _⟩; omega
  · have hw' : 0 < w := by omega
    have hwn : 0 < w.toNat := by omega
    simp only [hw, if_false, hw', true_and]
    cases v with
    | missing =>
      simp only [C02_missingCode_iff, hwn, true_and, ne_eq, not_true_eq_false, false_and, or_false]
      constructor
      · rintro ⟨a, b⟩; exact ⟨by omega, b⟩
      · rintro ⟨a, b⟩; exact ⟨by omega, b⟩
    | int i =>
      simp only [reduceCtorEq, false_and, false_or, ne_eq, not_false_eq_true, true_and]
      cases scaledRound (.int i) scale with
      | none => simp
      | some q => simp [C02_uintCode_iff, hwn]
    | num m k =>
      simp only [reduceCtorEq, false_and, false_or, ne_eq, not_false_eq_true, true_and]
      cases scaledRound (.num m k) scale with
      | none => simp
      | some q => simp [C02_uintCode_iff, hwn]
    | bytes b =>
      simp only [reduceCtorEq, false_and, false_or, ne_eq, not_false_eq_true, true_and]
      simp [scaledRound]

/-- what `round_half_even(value · 10^scale)` is: exact when the scaled value is an integer, otherwise
    the nearest integer to `m / 10^e`, the even one on a tie (`IsRoundHalfEven`, stated without division) -/
theorem C02_scaledRound_spec (v : Val) (scale q : Int) (h : scaledRound v scale = some q) :
    (∃ i, v = .int i ∧
      ((0 ≤ scale ∧ q = i * 10 ^ scale.toNat) ∨ (scale < 0 ∧ IsRoundHalfEven i (10 ^ (-scale).toNat) q))) ∨
    (∃ m k, v = .num m k ∧ scale ≠ 0 ∧
      ((k ≤ scale ∧ q = m * 10 ^ (scale - k).toNat) ∨
       (scale < k ∧ IsRoundHalfEven m (10 ^ (k - scale).toNat) q))) := by
  cases v with
  | missing => cases h
  | bytes b => cases h
  | int i =>
    left
    refine ⟨i, rfl, ?_⟩
    simp only [scaledRound, Option.some.injEq] at h
    by_cases hs : 0 ≤ scale
    · simp only [hs, if_true] at h; exact .inl ⟨hs, h.symm⟩
    · simp only [hs, if_false] at h
      refine .inr ⟨by omega, ?_⟩
      rw [roundHalfEven_eq _ _ (pow10_pos _)] at h
      exact (rhe_iff _ _ (pow10_pos _) q).mp h
  | num m k =>
    right
    refine ⟨m, k, rfl, ?_⟩
    simp only [scaledRound] at h
    by_cases h0 : scale = 0
    · simp [h0] at h
    · simp only [h0, if_false, Option.some.injEq] at h
      refine ⟨h0, ?_⟩
      by_cases hs : 0 ≤ scale - k
      · simp only [hs, if_true] at h; exact .inl ⟨by omega, h.symm⟩
      · simp only [hs, if_false] at h
        refine .inr ⟨by omega, ?_⟩
        rw [roundHalfEven_eq _ _ (pow10_pos _)] at h
        have : (-(scale - k)) = k - scale := by omega
        rw [this] at h
        exact (rhe_iff _ _ (pow10_pos _) q).mp h

/-- **unsigned field** (code / flag table, associated field, skipped local descriptor) -/
theorem C02_uint_code_iff (w : Nat) (v : Val) (bits : Bits) :
    fieldCode (.uint w) v = some bits ↔
      0 < w ∧ ((v = .missing ∧ w ≤ 64 ∧ bits = ones w) ∨
               (∃ i, v = .int i ∧ 0 ≤ i ∧ i < 2 ^ w ∧ bits = toBits w i.toNat)) := by
  unfold fieldCode
  cases v with
  | missing => simp [C02_missingCode_iff]
  | int i => simp [C02_uintCode_iff]
  | num m k => simp
  | bytes b => simp

/-- **character field** of `k` octets: the octets MSB first, blank-padded or truncated to `k`; missing =
    `k` octets 0xFF; any character value has a code -/
theorem C02_chars_code_iff (k : Nat) (v : Val) (bits : Bits) :
    fieldCode (.chars k) v = some bits ↔
      (v = .missing ∧ bits = bytesToBits (List.replicate k 0xFF)) ∨
      (∃ b, v = .bytes b ∧ bits = bytesToBits ((b ++ List.replicate (k - b.length) 0x20).take k)) := by
  unfold fieldCode
  cases v with
  | missing => simp [eq_comm]
  | bytes b => simp [padBytes, eq_comm]
  | int i => simp
  | num m k => simp

/-- **new reference value** (203YYY): sign bit and magnitude on `w − 1` bits; never missing -/
theorem C02_newref_code_iff (w : Nat) (v : Val) (bits : Bits) :
    fieldCode (.newRef w) v = some bits ↔
      ∃ i, v = .int i ∧ 1 < w ∧ i.natAbs < 2 ^ (w - 1) ∧ bits = decide (i < 0) :: toBits (w - 1) i.natAbs := by
  unfold fieldCode
  cases v with
  | int i =>
    by_cases h : 1 < w ∧ i.natAbs < 2 ^ (w - 1)
    · simp [h, eq_comm]
    · simp only [h, if_false]
      constructor
      · intro h'; cases h'
      · rintro ⟨j, hj, a, b, _⟩; cases hj; exact absurd ⟨a, b⟩ h
  | missing => simp
  | num m k => simp
  | bytes b => simp

/-- the value slot of an operator (222000, 223000 …, 236000, 237000, 237255): no bits; the value is the
    constant -/
theorem C02_const_code_iff (c : Int) (v : Val) (bits : Bits) :
    fieldCode (.const c) v = some bits ↔ v = .int c ∧ bits = [] := by
  unfold fieldCode
  by_cases h : v = .int c
  · simp [h, eq_comm]
  · simp [h]

/-- one step of the uncompressed reading: exactly the code of the next supplied value is appended -/
theorem C02_emit_step (dd : DDesc) (spec : FieldSpec) (s s' : St) :
    emit dd spec s = .ok s' ↔
      ∃ v f, s.curVal = some v ∧ fieldCode spec v = some f ∧ s' = s.afterWrite dd f := by
  unfold emit
  cases hv : s.curVal with
  | none => simp
  | some v =>
    simp only [Option.bind_some]
    cases hf : fieldCode spec v with
    | none => simp [hf]
    | some f => simp [hf, eq_comm]

/-- … and it is refused exactly when there is no value left or the value has no code in that field -/
theorem C02_emit_refused_iff (dd : DDesc) (spec : FieldSpec) (s : St) :
    (∃ e, emit dd spec s = .error e) ↔ (s.curVal = none ∨ ∃ v, s.curVal = some v ∧ fieldCode spec v = none) := by
  unfold emit
  cases hv : s.curVal with
  | none => simp
  | some v =>
    simp only [Option.bind_some]
    cases hf : fieldCode spec v <;> simp [hf]

/-- one step of the compressed reading: exactly the column code of the next values is appended -/
theorem C02_emitCol_step (dd : DDesc) (spec : FieldSpec) (s s' : St) :
    emitCol dd spec s = .ok s' ↔
      ∃ vs f, curCol s = some vs ∧ colCode spec vs = some f ∧ s' = s.afterWrite dd f := by
  unfold emitCol
  cases hv : curCol s with
  | none => simp
  | some v =>
    simp only [Option.bind_some]
    cases hf : colCode spec v with
    | none => simp [hf]
    | some f => simp [hf, eq_comm]


/-! ### columns -/


/-- the increment width: the least `d` whose all-ones pattern stays free above `span + 1`
    (`span + 1 ≤ 2^d − 2`); at least 2 -/
theorem C02_incrWidth_least (span : Nat) :
    span + 3 ≤ 2 ^ incrWidth span ∧ (∀ k, span + 3 ≤ 2 ^ k → incrWidth span ≤ k) ∧ 2 ≤ incrWidth span := by
  rw [← nbitsForUInt_eq_incrWidth]
  exact ⟨by have := nbitsForUInt_fits (span + 1); omega,
    fun k hk => nbitsForUInt_least _ k (by omega), nbitsForUInt_ge_two _ (by omega)⟩

/-- **a column of unsigned fields whose subsets differ**: nothing present = the all-missing column;
    otherwise the least present raw value on the field width (it has to fit), the 6-bit increment width
    `incrWidth (max − min)` (it has to fit 6 bits), one increment per subset in subset order,
    all ones for a missing entry -/
theorem C02_int_column_code_iff (w : Nat) (raws : List (Option Int)) (bits : Bits) :
    intColumnCode w raws = some bits ↔
      ((∀ r ∈ raws, r = none) ∧ 0 < w ∧ w ≤ 64 ∧ bits = ones w ++ toBits 6 0) ∨
      (∃ lo hi, some lo ∈ raws ∧ some hi ∈ raws ∧ (∀ x, some x ∈ raws → lo ≤ x ∧ x ≤ hi) ∧
        0 < w ∧ 0 ≤ lo ∧ lo < 2 ^ w ∧ incrWidth (hi - lo).toNat ≤ 63 ∧
        bits = toBits w lo.toNat ++ toBits 6 (incrWidth (hi - lo).toNat)
                ++ raws.flatMap (incrCode (incrWidth (hi - lo).toNat) lo)) := by
  have hmem : ∀ x, x ∈ raws.filterMap id ↔ some x ∈ raws := by
    intro x; simp [List.mem_filterMap]
  simp only [intColumnCode]
  cases hmin : (raws.filterMap id).min? with
  | none =>
    have hnil : raws.filterMap id = [] := List.min?_eq_none_iff.mp hmin
    have hall : ∀ r ∈ raws, r = none := by
      intro r hr
      cases r with
      | none => rfl
      | some x => have := (hmem x).mpr hr; rw [hnil] at this; cases this
    simp only [hnil, List.max?_nil]
    constructor
    · intro h
      cases hm : missingCode w with
      | none => rw [hm] at h; cases h
      | some m =>
        rw [hm] at h
        obtain ⟨a, b, c⟩ := (C02_missingCode_iff w m).mp hm
        simp only [Option.map_some, Option.some.injEq] at h
        exact .inl ⟨hall, a, b, by rw [← h, c]⟩
    · rintro (⟨_, a, b, c⟩ | ⟨lo, _, hlo, _⟩)
      · rw [(C02_missingCode_iff w (ones w)).mpr ⟨a, b, rfl⟩, c]; rfl
      · have := (hmem lo).mpr hlo; rw [hnil] at this; cases this
  | some lo =>
    cases hmax : (raws.filterMap id).max? with
    | none =>
      have := List.max?_eq_none_iff.mp hmax
      rw [this] at hmin; cases hmin
    | some hi =>
      obtain ⟨hlomem, hlole⟩ := List.min?_eq_some_iff.mp hmin
      obtain ⟨himem, hile⟩ := List.max?_eq_some_iff.mp hmax
      constructor
      · intro h
        right
        by_cases hd : incrWidth (hi - lo).toNat ≤ 63
        · simp only [hd, if_true] at h
          cases hu : uintCode w lo with
          | none => rw [hu] at h; cases h
          | some m =>
            rw [hu] at h
            obtain ⟨a, b, c, e⟩ := (C02_uintCode_iff w lo m).mp hu
            simp only [Option.map_some, Option.some.injEq] at h
            exact ⟨lo, hi, (hmem lo).mp hlomem, (hmem hi).mp himem,
              fun x hx => ⟨hlole x ((hmem x).mpr hx), hile x ((hmem x).mpr hx)⟩, a, b, c, hd, by rw [← h, e]⟩
        · simp only [hd, if_false] at h; cases h
      · rintro (⟨hall, _⟩ | ⟨lo', hi', hlo', hhi', hb, a, b, c, hd, e⟩)
        · have := hall _ ((hmem lo).mp hlomem); cases this
        · have e1 : lo' = lo := by
            have h1 := hlole lo' ((hmem lo').mpr hlo')
            have h2 := (hb lo ((hmem lo).mp hlomem)).1
            omega
          have e2 : hi' = hi := by
            have h1 := hile hi' ((hmem hi').mpr hhi')
            have h2 := (hb hi ((hmem hi).mp himem)).2
            omega
          subst e1 e2
          simp only [hd, if_true, (C02_uintCode_iff w lo' _).mpr ⟨a, b, c, rfl⟩, Option.map_some, e]

/-- On the columns the property quantifies over (raw values `0 .. 2^w − 2` or missing, something present)
    the specification's column is the FM-94 column in the sense of the relation `Spec.ColOK`
    (minimum = least present entry, 6-bit width `d ≠ 0`, one increment per subset,
    increment = entry − minimum, all ones exactly for the missing entries) — and hence
    (`C02_colOK_decodes`) every reader gets the column back. -/
theorem C02_column_code_colOK (w : Nat) (raws : List (Option Nat))
    (hw : 0 < w) (hw64 : w ≤ 64) (hr : Spec.InRange w raws) (hw1 : w = 1 → ∃ x, some x ∈ raws)
    (hne : ∃ x, some x ∈ raws) (hspan : Spec.SpanOK raws) :
    ∃ bits, intColumnCode w ((raws.map (Option.map Int.ofNat)).map (onesAsMissing w)) = some bits ∧
      (raws.map (Option.map Int.ofNat)).map (onesAsMissing w) = raws.map (Option.map Int.ofNat) ∧
      Spec.ColOK w raws false bits := by
  have hn : 0 < raws.length := by
    obtain ⟨x, hx⟩ := hne
    exact List.length_pos_of_mem hx
  obtain ⟨bits, henc, hok⟩ :=
    C02_column_canonical w false raws hw hw64 hr hw1 hn (by simp) (fun _ => hne) hspan
  have hun := C02_column_in_range_unchanged w false raws hr (fun _ => hne)
  rw [encIntColumnN_false_eq, henc] at hun
  refine ⟨bits, ?_, ?_, hok⟩
  · cases hc : intColumnCode w ((raws.map (Option.map Int.ofNat)).map (onesAsMissing w)) with
    | none => rw [hc] at hun; cases hun
    | some b => rw [hc] at hun; cases hun; rfl
  · rw [List.map_map]
    apply List.map_congr_left
    intro r hrm
    cases r with
    | none => simp [onesAsMissing]
    | some x =>
      have hx := (hr x hrm).2
      have hp : 0 < 2 ^ w := Nat.two_pow_pos w
      simp only [Function.comp, Option.map_some, onesAsMissing]
      by_cases h1 : 1 < w
      · have : ((x : Nat) : Int) ≠ ((2 ^ w - 1 : Nat) : Int) := by
          intro h
          have : x = 2 ^ w - 1 := by exact_mod_cast h
          have := hx h1
          omega
        simp [h1, this]
      · simp [h1]

/-- all subsets hold the same value: the field code, then a zero increment width (nothing for an
    operator's value slot) -/
theorem C02_colCode_all_equal (spec : FieldSpec) (v0 : Val) (vs : List Val) (h : ∀ v ∈ vs, v = v0) :
    colCode spec (v0 :: vs) =
      match spec with
      | .const _ => fieldCode spec v0
      | _ => (fieldCode spec v0).map (· ++ toBits 6 0) := by
  have hall : (v0 :: vs).all (· == v0) = true := by
    simp only [List.all_cons, beq_self_eq_true, Bool.true_and, List.all_eq_true]
    intro v hv; simp [h v hv]
  simp only [colCode, hall, if_true]
  cases spec <;> rfl

/-- character columns whose subsets differ: a base of `k` NUL octets, the octet count `k` on 6 bits,
    every subset's field in full -/
theorem C02_colCode_chars_differ (k : Nat) (v0 : Val) (vs : List Val) (h : ∃ v ∈ vs, v ≠ v0) :
    colCode (.chars k) (v0 :: vs) =
      if 63 < k then none
      else ((v0 :: vs).mapM (fieldCode (.chars k))).map fun fs =>
        bytesToBits (List.replicate k 0) ++ toBits 6 k ++ (if k = 0 then [] else fs.flatten) := by
  have hall : ¬ ((v0 :: vs).all (· == v0) = true) := by
    intro hc
    obtain ⟨v, hv, hne⟩ := h
    have := List.all_eq_true.mp hc v (List.mem_cons_of_mem _ hv)
    exact hne (by simpa using this)
  simp only [colCode, hall, if_false, Bool.false_eq_true]

/-- **Laxer than FM-94, as implemented** (and outside the property's quantifier): in compressed data a
    value that does NOT fit its field is carried by the increments when another subset holds a smaller
    one — here 100 in a 4-bit field next to 3 — whereas the same value is refused in uncompressed data
    and when all subsets hold it. -/
theorem C02_compressed_carries_out_of_range :
    fieldCode (.uint 4) (.int 100) = none ∧
    colCode (.uint 4) [.int 100, .int 100] = none ∧
    colCode (.uint 4) [.int 3, .int 100] =
      some (toBits 4 3 ++ toBits 6 7 ++ toBits 7 0 ++ toBits 7 97) := by
  refine ⟨by decide, by decide, by decide⟩


/-! ### non-vacuity: a concrete table, template and value lists -/
namespace C02Ex

def exT : Tables where
  b := fun id =>
    if id = 1001 then some ⟨1001, .numeric, 7, 0, 0⟩
    else if id = 1015 then some ⟨1015, .string, 16, 0, 0⟩
    else if id = 2001 then some ⟨2001, .codeflag, 3, 0, 0⟩
    else if id = 12001 then some ⟨12001, .numeric, 12, 1, -100⟩
    else if id = 31001 then some ⟨31001, .numeric, 8, 0, 0⟩
    else none
  d := fun id => if id = 301001 then some [1001, 2001] else none

/-- a Table D sequence, a delayed replication of (201130 012001 201000) — 012001 widened to 14 bits —
    and a character element of 2 octets -/
def exIds : List Nat := [301001, 103000, 31001, 201130, 12001, 201000, 1015]

/-- uncompressed: two subsets with replication factors 2 and 1; a missing numeric, a missing code, a
    short string (blank-padded), a missing string -/
def exVals : List (List Val) :=
  [[.int 5, .int 1, .int 2, .num 200 1, .missing, .bytes [65]],
   [.int 6, .missing, .int 1, .num (-55) 1, .missing]]

def bitsOfNat (w n : Nat) : Bits := (List.range w).reverse.map fun i => n.testBit i

def exBits : Bits :=
  (bitsOfNat 7 5 ++ bitsOfNat 3 1 ++ bitsOfNat 8 2 ++ bitsOfNat 14 300 ++ bitsOfNat 14 16383
    ++ bitsOfNat 8 65 ++ bitsOfNat 8 32) ++
  (bitsOfNat 7 6 ++ bitsOfNat 3 7 ++ bitsOfNat 8 1 ++ bitsOfNat 14 45 ++ bitsOfNat 16 65535)

/-- compressed: two subsets, the same factor 1; equal entries, differing entries, a missing entry next
    to a present one, differing strings -/
def exValsC : List (List Val) :=
  [[.int 5, .int 1, .int 1, .num 200 1, .bytes [65, 66]],
   [.int 5, .int 3, .int 1, .missing, .bytes [67]]]

def exBitsC : Bits :=
  (bitsOfNat 7 5 ++ bitsOfNat 6 0) ++                                              -- 001001: all equal
  (bitsOfNat 3 1 ++ bitsOfNat 6 3 ++ bitsOfNat 3 0 ++ bitsOfNat 3 2) ++            -- 002001: 1, 3 -> width 3
  (bitsOfNat 8 1 ++ bitsOfNat 6 0) ++                                              -- 031001: factor 1
  (bitsOfNat 14 300 ++ bitsOfNat 6 2 ++ bitsOfNat 2 0 ++ bitsOfNat 2 3) ++         -- 012001 on 14 bits: 300, missing
  (bitsOfNat 16 0 ++ bitsOfNat 6 2 ++ bitsOfNat 16 (65 * 256 + 66) ++ bitsOfNat 16 (67 * 256 + 32))

theorem wf_ex : WFflat exT 1 exIds := by simp [WFflat, wfCount, exT, exIds, xOf, yOf]

set_option maxRecDepth 4000 in
theorem canon_ex : canonDataBits exT 1 exIds false exVals = some exBits := by
  simp [canonDataBits, canonSubsetBits, flatWalk, exT, exIds, exVals, xOf, yOf]
  decide +kernel

set_option maxRecDepth 4000 in
theorem canon_exC : canonDataBits exT 1 exIds true exValsC = some exBitsC := by
  simp [canonDataBits, canonCompressedBits, flatWalk, exT, exIds, exValsC, xOf, yOf]
  decide +kernel

/-- the hypotheses of `C02_data_bits_canonical` are satisfiable, and on this template the encoder
    writes the bit string computed from the specification alone — uncompressed … -/
example : ((buildD exT 1 exIds >>= fun t => encodeData t false exVals).toOption.map (·.2)) = some exBits :=
  (C02_data_bits_canonical exT wf_ex (Nat.le_refl 1) (Nat.le_refl 1) false exVals).trans canon_ex

/-- … and compressed -/
example : ((buildD exT 1 exIds >>= fun t => encodeData t true exValsC).toOption.map (·.2)) = some exBitsC :=
  (C02_data_bits_canonical exT wf_ex (Nat.le_refl 1) (Nat.le_refl 1) true exValsC).trans canon_exC

example : ∃ r, (buildD exT 1 exIds >>= fun t => encodeData t true exValsC) = .ok r :=
  (C02_encoder_accepts_iff exT wf_ex (Nat.le_refl 1) (Nat.le_refl 1) true exValsC).mpr (by rw [canon_exC]; rfl)

def exTree : List Desc :=
  [.seq 301001 [.elem ⟨1001, .numeric, 7, 0, 0⟩, .elem ⟨2001, .codeflag, 3, 0, 0⟩],
   .delayedRep 103000 (.elem ⟨31001, .numeric, 8, 0, 0⟩)
     [.op 201130, .elem ⟨12001, .numeric, 12, 1, -100⟩, .op 201000],
   .elem ⟨1015, .string, 16, 0, 0⟩]

theorem build_ex : buildD exT 1 exIds = .ok exTree := by
  simp [buildD, exT, exIds, xOf, Tables.lookupB, exTree, bind, Except.bind, pure, Except.pure]

/-- the refusal direction: 128 does not fit the 7 bits of 001001 — the encoder refuses, hence (by the
    theorem) the specification assigns no bit stream -/
example : canonDataBits exT 1 exIds false [[.int 128, .int 1, .int 0, .missing]] = none := by
  rw [← C02_data_bits_canonical exT wf_ex (Nat.le_refl 1) (Nat.le_refl 1), build_ex]
  decide +kernel

/-- hypotheses of `C02_column_code_colOK`: a 4-bit column with a missing entry -/
example : ∃ bits, intColumnCode 4 (([some 5, none, some 9].map (Option.map Int.ofNat)).map (onesAsMissing 4)) = some bits ∧
    ([some 5, none, some 9].map (Option.map Int.ofNat)).map (onesAsMissing 4) = [some 5, none, some 9].map (Option.map Int.ofNat) ∧
    Spec.ColOK 4 [some 5, none, some 9] false bits :=
  C02_column_code_colOK 4 _ (by omega) (by omega)
    (by intro x hx; simp at hx; rcases hx with rfl | rfl <;> simp)
    (by omega) ⟨5, by simp⟩
    (by intro x y hx hy; simp at hx hy; rcases hx with rfl | rfl <;> rcases hy with rfl | rfl <;> simp)

example : colCode (.uint 4) [.int 5, .int 5, .int 5] = some (toBits 4 5 ++ toBits 6 0) := by
  rw [C02_colCode_all_equal _ _ _ (by simp)]; decide

example : colCode (.chars 2) [.bytes [65], .missing] =
    some (zeros 16 ++ toBits 6 2 ++ (toBits 8 65 ++ toBits 8 32) ++ ones 16) := by
  rw [C02_colCode_chars_differ 2 _ _ ⟨.missing, by simp, by simp⟩]; decide

/-- the characterisations have instances on both sides -/
example : fieldCode (.numeric 14 1 (-100)) (.num (-55) 1) = some (toBits 14 45) :=
  (C02_numeric_code_iff 14 1 (-100) _ _).mpr ⟨by omega, .inr ⟨by simp, -55, by decide, by decide, by decide, by decide⟩⟩

example : fieldCode (.numeric 14 1 (-100)) (.num (-1001) 1) = none := by decide
example : scaledRound (.num 25 1) 0 = none ∧ scaledRound (.num 25 2) 1 = some 2 ∧ scaledRound (.num 35 2) 1 = some 4 ∧
    scaledRound (.num (-25) 2) 1 = some (-2) ∧ scaledRound (.int 7) 2 = some 700 ∧ scaledRound (.int 150) (-2) = some 2 := by
  decide

end C02Ex

end Bufr
