/-
  C02, whole data section: "the encoder emits … a data section that is bit-for-bit the concatenation of
  the fields in template order (MSB first, missing = all ones, strings space-padded …); when compression
  is requested every element is written as minimum, 6-bit difference width and per-subset differences".

  Specification: `Spec/CanonBits.lean` — `canonDataBits T fuel ids compressed valss : Option Bits`, the
  concatenation of the declarative field codes (`fieldCode`) / column codes (`colCode`) along the FLAT
  FM-94 reading of the descriptor list (`Spec.flatWalk`), per subset, subsets concatenated.

  Here: for every table group, every descriptor list the implementation can build at all (`WFflat`),
  every value list, any number of subsets, compressed or not,

      the bits of `encodeData (build T ids) compressed valss`  =  `canonDataBits T fuel ids compressed valss`

  as an equation in `Option Bits`: the encoder succeeds exactly when the specification assigns a bit
  stream, and then it writes exactly that stream (`C02_data_bits_canonical`).  `fieldCode` / `colCode`
  are then characterised outright (`C02_numeric_code_iff` … `C02_int_column_code_iff`): a value has no
  code exactly when it is out of range for the width in force or of the wrong kind.

  Proof: the encoder's primitives ARE the code-writing primitives (`encPrimsU = canonPrimsU`,
  `encPrimsC = canonPrimsC`, `Lemmas/CanonBits*.lean`), the tree walk is the flat reading for ALL
  primitives (`C01_flat_eq_tree`), an uncompressed subset does not depend on what was written before
  (`encodeSubset_pre`, C06).
-/
import BufrModel.Lemmas.CanonBitsComp
import BufrModel.Lemmas.FrameData
import BufrModel.Props.C01Flat
import BufrModel.Props.C02
set_option linter.unusedSimpArgs false
namespace Bufr
open Bufr.Spec Bufr.Flat

/-! ### the walk -/

/-- The encoder's tree walk is the flat reading with the code-writing primitives, uncompressed and
    compressed, from every state. -/
theorem C02_walk_is_flat_canon (T : Tables) {d fuel depth : Nat} {ids : List Nat}
    (hwf : WFflat T d ids) (hfuel : d ≤ fuel) (hdepth : d ≤ depth) (s : St) :
    (buildD T depth ids >>= fun t => walkList encPrimsU t s) = flatWalk canonPrimsU T fuel ids s ∧
    (buildD T depth ids >>= fun t => walkList encPrimsC t s) = flatWalk canonPrimsC T fuel ids s := by
  rw [encPrimsU_eq_canon, encPrimsC_eq_canon]
  exact ⟨(C01_flat_eq_tree canonPrimsU T hwf hfuel hdepth s).symm,
    (C01_flat_eq_tree canonPrimsC T hwf hfuel hdepth s).symm⟩

/-- one uncompressed subset, encoded alone -/
theorem C02_subset_bits_canonical (T : Tables) {d fuel depth : Nat} {ids : List Nat}
    (hwf : WFflat T d ids) (hfuel : d ≤ fuel) (hdepth : d ≤ depth) (vals : List Val) :
    ((buildD T depth ids >>= fun t => encodeSubset t vals []).toOption.map (·.2.reverse))
      = canonSubsetBits T fuel ids vals := by
  obtain ⟨t, ht⟩ := (wfCount_iff_build T d ids).1 hwf
  have hb := buildD_mono T d ids t ht depth hdepth
  have hw := (C02_walk_is_flat_canon T hwf hfuel hdepth { bits := [], vals := [vals] }).1
  rw [hb] at hw ⊢
  unfold canonSubsetBits
  rw [← hw]
  show (encodeSubset t vals []).toOption.map (·.2.reverse) = _
  unfold encodeSubset
  show _ = match walkList encPrimsU t { bits := [], vals := [vals] } with
    | .ok s => some s.bits.reverse
    | .error _ => none
  cases walkList encPrimsU t { bits := [], vals := [vals] } <;> rfl

/-- the bits of one subset encoded alone (most recent first) -/
def aloneBits (t : List Desc) (v : List Val) : Option Bits := (encodeSubset t v []).toOption.map (·.2)

theorem aloneBits_ok {t : List Desc} {v : List Val} {o : SubsetOut} {b : Bits}
    (h : encodeSubset t v [] = .ok (o, b)) : aloneBits t v = some b := by
  simp [aloneBits, h, Except.toOption]

theorem aloneBits_error {t : List Desc} {v : List Val} {e : Err}
    (h : encodeSubset t v [] = .error e) : aloneBits t v = none := by
  simp [aloneBits, h, Except.toOption]

/-- subsets written one after the other = each subset written alone, concatenated (bits most recent
    first, on top of `pre`) -/
theorem encodeSubsets_bits (t : List Desc) (vs : List (List Val)) (pre : Bits) :
    (encodeSubsets t vs pre).toOption.map (·.2)
      = (vs.mapM (aloneBits t)).map fun ws => ws.reverse.flatten ++ pre := by
  induction vs generalizing pre with
  | nil => rfl
  | cons v vs ih =>
    simp only [encodeSubsets, List.mapM_cons]
    cases ha : encodeSubset t v [] with
    | error e =>
      have : ∀ r, encodeSubset t v pre ≠ .ok r := by
        rintro ⟨o, b⟩ h
        obtain ⟨b0, h0, _⟩ := (encodeSubset_pre t v pre o b).mp h
        rw [ha] at h0; cases h0
      rw [aloneBits_error ha]
      cases hp : encodeSubset t v pre with
      | error e' => rfl
      | ok r => exact absurd hp (this r)
    | ok r =>
      obtain ⟨o, b0⟩ := r
      have hp : encodeSubset t v pre = .ok (o, b0 ++ pre) := (encodeSubset_pre t v pre o _).mpr ⟨b0, ha, rfl⟩
      rw [hp, aloneBits_ok ha]
      have ih' := ih (b0 ++ pre)
      cases hm : vs.mapM (aloneBits t) with
      | none =>
        rw [hm] at ih'
        cases hs : encodeSubsets t vs (b0 ++ pre) with
        | error e => simp [hs, Except.toOption]
        | ok r2 => rw [hs] at ih'; cases ih'
      | some ws =>
        rw [hm] at ih'
        cases hs : encodeSubsets t vs (b0 ++ pre) with
        | error e => rw [hs] at ih'; cases ih'
        | ok r2 =>
          obtain ⟨os, b2⟩ := r2
          rw [hs] at ih'
          simp only [Except.toOption, Option.map_some, Option.some.injEq] at ih'
          simp [hs, Except.toOption, ih', List.append_assoc]

theorem mapM_option_map' {α β γ : Type} (f : α → Option β) (g : β → γ) (l : List α) :
    l.mapM (fun a => (f a).map g) = (l.mapM f).map (List.map g) :=
  mapM_option_map f g l

/-- **C02, data section.**  For every table group `T`, every descriptor list the implementation can
    build (`WFflat T d ids`; `fuel`, `depth ≥ d`), any list of subsets' value lists, compressed or not:
    the bits `Encoder.process_template_data` writes are the canonical FM-94 bits of the specification —
    and the encoder refuses (for whatever reason) exactly when the specification assigns no bit stream. -/
theorem C02_data_bits_canonical (T : Tables) {d fuel depth : Nat} {ids : List Nat}
    (hwf : WFflat T d ids) (hfuel : d ≤ fuel) (hdepth : d ≤ depth)
    (compressed : Bool) (valss : List (List Val)) :
    ((buildD T depth ids >>= fun t => encodeData t compressed valss).toOption.map (·.2))
      = canonDataBits T fuel ids compressed valss := by
  obtain ⟨t, ht⟩ := (wfCount_iff_build T d ids).1 hwf
  have hb := buildD_mono T d ids t ht depth hdepth
  cases compressed with
  | true =>
    have hw := (C02_walk_is_flat_canon T hwf hfuel hdepth { bits := [], vals := valss }).2
    rw [hb] at hw ⊢
    show (encodeData t true valss).toOption.map (·.2) = canonCompressedBits T fuel ids valss
    unfold canonCompressedBits
    rw [← hw]
    show _ = match walkList encPrimsC t { bits := [], vals := valss } with
      | .ok s => some s.bits.reverse
      | .error _ => none
    simp only [encodeData, if_true, encodeCompressed]
    cases walkList encPrimsC t { bits := [], vals := valss } <;> rfl
  | false =>
    have h1 : ∀ v, canonSubsetBits T fuel ids v = (encodeSubset t v []).toOption.map (·.2.reverse) := by
      intro v
      have := C02_subset_bits_canonical T hwf hfuel hdepth v
      rw [hb] at this
      exact this.symm
    rw [hb]
    show (encodeData t false valss).toOption.map (·.2) = (valss.mapM (canonSubsetBits T fuel ids)).map List.flatten
    rw [funext h1]
    have h2 := encodeSubsets_bits t valss []
    have h3 : (fun v => (encodeSubset t v []).toOption.map (·.2.reverse))
        = fun v => (aloneBits t v).map List.reverse := by
      funext v; unfold aloneBits; cases encodeSubset t v [] <;> rfl
    rw [h3, mapM_option_map']
    simp only [encodeData, Bool.false_eq_true, if_false]
    cases hm : valss.mapM (aloneBits t) with
    | none =>
      rw [hm] at h2
      cases hs : encodeSubsets t valss [] with
      | error e => rfl
      | ok r => rw [hs] at h2; cases h2
    | some ws =>
      rw [hm] at h2
      cases hs : encodeSubsets t valss [] with
      | error e => rw [hs] at h2; cases h2
      | ok r =>
        obtain ⟨os, b⟩ := r
        rw [hs] at h2
        simp only [Except.toOption, Option.map_some, Option.some.injEq, List.append_nil] at h2
        simp [Except.toOption, h2, List.reverse_flatten]

/-- the same for the driver's `build` (Table D nesting up to `defaultDepth`) -/
theorem C02_data_bits_canonical_build (T : Tables) {d fuel : Nat} {ids : List Nat}
    (hwf : WFflat T d ids) (hfuel : d ≤ fuel) (hd : d ≤ defaultDepth)
    (compressed : Bool) (valss : List (List Val)) :
    ((build T ids >>= fun t => encodeData t compressed valss).toOption.map (·.2))
      = canonDataBits T fuel ids compressed valss :=
  C02_data_bits_canonical T hwf hfuel hd compressed valss

/-- acceptance: the encoder accepts the values exactly when every field along the flat reading has a
    code (the specification assigns a bit stream), and refuses otherwise -/
theorem C02_encoder_accepts_iff (T : Tables) {d fuel depth : Nat} {ids : List Nat}
    (hwf : WFflat T d ids) (hfuel : d ≤ fuel) (hdepth : d ≤ depth)
    (compressed : Bool) (valss : List (List Val)) :
    (∃ r, (buildD T depth ids >>= fun t => encodeData t compressed valss) = .ok r)
      ↔ (canonDataBits T fuel ids compressed valss).isSome = true := by
  rw [← C02_data_bits_canonical T hwf hfuel hdepth compressed valss]
  cases (buildD T depth ids >>= fun t => encodeData t compressed valss) with
  | error e => simp [Except.toOption]
  | ok r => simp [Except.toOption]

end Bufr
