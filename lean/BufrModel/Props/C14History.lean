/-
  C14, history part — templates are built by the FM-94 rules whatever the process has seen before.

  Once in-stream table entries `es` (NCEP / PrepBUFR table-definition messages,
  `TableGroupCacheManager.add_extra_entries`) are registered in a process, every table group is
  loaded as `extend T es` (`Msg/TableDef.lean`: files first, the entries last) and
  `BufrTableGroup.template_from_ids` runs `_fix_ncep_descriptors` (`fixNcep`) over every template
  (`templateFromIds T true`).  The theorems say that this changes nothing for a descriptor list the
  entries have nothing to do with:

  * `C14_build_unrelated_entries` (+ `_build`): `buildD` over the extended tables equals `buildD`
    over the table files for every list none of whose reachable ids (`Reach`: the list and,
    through Table D, the rows of its sequences) is defined by the entries — any depth, any list,
    well counted or not;
  * `C14_fix_ncep_identity_wellcounted`: `fixNcep` is the identity on the tree of every well-counted
    list whose replications replicate at least one descriptor (`posX`; a replication with `X = 0`
    has no member and IS refused by the repair pass: `C14_fix_ncep_refuses_X0`), over rows with the
    same two properties (`rowOK1`, decidable);
  * `C14_template_unrelated_entries`: both together — `template_from_ids` in a process that holds
    unrelated entries returns the template of the process that holds none.
-/
import BufrModel.Lemmas.TemplateHistory
namespace Bufr
open Spec Bufr.TableDef Bufr.C20

/-- **Unrelated in-stream entries do not change a template**: if no id the list reaches — its own
    ids and, recursively, the members of the Table D rows of its sequence descriptors — is defined
    by `es` (neither as element nor as sequence), building over the tables extended by `es` gives
    the tree built over `T`.  No counting hypothesis, any nesting bound `n`. -/
theorem C14_build_unrelated_entries (T : Tables) (es : Entries) (n : Nat) (ids : List Nat)
    (h : ∀ i, Reach T ids i → es.lookupB i = none ∧ es.lookupD i = none) :
    buildD (extend T es) n ids = buildD T n ids := by
  symm
  refine buildD_congr T (extend T es) (Reach T ids) ?_ ?_ ?_ n ids (fun i hi => Reach.here hi)
  · intro i hi; exact (extend_b_of_none T es i (h i hi).1).symm
  · intro i hi; exact (extend_d_of_none T es i (h i hi).2).symm
  · intro i row hi h3 hd m hm; exact Reach.member hi h3 hd hm

/-- the instance the driver evaluates (`build` = depth 64) -/
theorem C14_build_unrelated_entries_build (T : Tables) (es : Entries) (ids : List Nat)
    (h : ∀ i, Reach T ids i → es.lookupB i = none ∧ es.lookupD i = none) :
    build (extend T es) ids = build T ids :=
  C14_build_unrelated_entries T es defaultDepth ids h

/-- **The repair pass is the identity on well-counted lists**: for a well-counted list whose
    replications all have `X ≥ 1`, over Table D rows that are well counted with `X ≥ 1` and nest at
    most `n` deep (`rowOK1`, decidable), `_fix_ncep_descriptors` returns the built tree unchanged. -/
theorem C14_fix_ncep_identity_wellcounted (T : Tables) (n : Nat) (ids : List Nat) (t : List Desc)
    (hwc : WellCounted ids = true) (hpos : posX ids = true)
    (hrows : ∀ m ∈ ids, 300000 ≤ m → rowOK1 T n m = true) (h : buildD T n ids = .ok t) :
    fixNcep t = .ok t :=
  fixNcep_id t (noBare_buildD T n ids hwc hpos hrows t h)

/-- `X ≥ 1` is needed: a replication that replicates nothing has no member, and the repair pass
    refuses it (`assert descriptor.n_items == 1`), at the end of a list and before any descriptor -/
theorem C14_fix_ncep_refuses_X0 (id : Nat) (rest : List Desc) (hx : xOf id = 0) :
    fixNcep (.fixedRep id [] :: rest) = .error .other :=
  bare_fixed_badX id rest (by omega)

/-- `template_from_ids` with the fix-up switched on equals plain construction on such lists -/
theorem C14_template_fix_identity (T : Tables) (ids : List Nat)
    (hwc : WellCounted ids = true) (hpos : posX ids = true)
    (hrows : ∀ m ∈ ids, 300000 ≤ m → rowOK1 T defaultDepth m = true) :
    templateFromIds T true ids = build T ids := by
  unfold templateFromIds
  cases hb : build T ids with
  | error e => rfl
  | ok t =>
    simp only [if_true]
    exact C14_fix_ncep_identity_wellcounted T defaultDepth ids t hwc hpos hrows hb

/-- **Process history does not matter for unrelated lists**: the template `template_from_ids`
    returns in a process that holds in-stream entries `es` (tables extended, fix-up on) is the one
    it returns in a process that holds none (tables as in the files, fix-up off), for every
    well-counted list with `X ≥ 1` that reaches no id defined by `es`. -/
theorem C14_template_unrelated_entries (T : Tables) (es : Entries) (ids : List Nat)
    (hwc : WellCounted ids = true) (hpos : posX ids = true)
    (hrows : ∀ m ∈ ids, 300000 ≤ m → rowOK1 T defaultDepth m = true)
    (h : ∀ i, Reach T ids i → es.lookupB i = none ∧ es.lookupD i = none) :
    templateFromIds (extend T es) true ids = templateFromIds T false ids := by
  have hb := C14_build_unrelated_entries_build T es ids h
  have h1 : templateFromIds T false ids = build T ids := by
    unfold templateFromIds
    cases build T ids <;> rfl
  rw [h1, ← C14_template_fix_identity T ids hwc hpos hrows]
  unfold templateFromIds
  rw [hb]

section NonVacuity
private def e7 : Elem := ⟨1001, .numeric, 7, 0, 0⟩
private def f8 : Elem := ⟨31001, .numeric, 8, 0, 0⟩
/-- 300010 = 102002 001001 300011 ; 300011 = 001001 -/
private def Th : Tables :=
  { b := fun i => if i = 1001 then some e7 else if i = 31001 then some f8 else none,
    d := fun i => if i = 300010 then some [102002, 1001, 300011] else if i = 300011 then some [1001] else none }
/-- in-stream entries: a new element 063254 and the NCEP sequence 363254 = 101000 031001 -/
private def Eh : Entries := { b := [(63254, ⟨63254, .numeric, 8, 0, 0⟩)], d := [(363254, [101000, 31001])] }

/-- the seeded shape: a fixed replication directly inside a fixed replication, followed by more -/
private def idsH : List Nat := [104002, 1001, 102003, 1001, 300010, 1001, 1001]

example : WellCounted idsH = true ∧ posX idsH = true := by decide
example : rowOK1 Th 2 300010 = true := by decide
/-- the entries are live: they change what 063254 and 363254 mean -/
example : (extend Th Eh).b 63254 ≠ Th.b 63254 ∧ (extend Th Eh).d 363254 ≠ Th.d 363254 := by decide
/-- a list that reaches a defined id is outside the hypothesis, and the template does change -/
example : templateFromIds (extend Th Eh) true [363254, 1001] = .ok [.delayedRep 101000 (.elem f8) [.elem e7]] := by
  simp [templateFromIds, build, defaultDepth, buildD, extend, Eh, Th, insertB, insertD, fixNcep, bareSingle,
    isBareRep, Tables.lookupB, xOf, bind, Except.bind, pure, Except.pure]
example : templateFromIds Th false [363254, 1001] = .ok [.undefSeq 363254, .elem e7] := by
  simp [templateFromIds, build, defaultDepth, buildD, Th, Tables.lookupB, bind, Except.bind, pure, Except.pure]
/-- X = 0 -/
example : fixNcep [.fixedRep 100002 []] = .error .other := C14_fix_ncep_refuses_X0 _ _ (by decide)

private theorem reachH : ∀ i, Reach Th idsH i → i ∈ [104002, 1001, 102003, 300010, 102002, 300011] := by
  intro i hi
  induction hi with
  | here h => simp [idsH] at h ⊢; omega
  | member _ h3 hd hm ih =>
    simp only [List.mem_cons, List.not_mem_nil, or_false] at ih ⊢
    rcases ih with rfl | rfl | rfl | rfl | rfl | rfl
    all_goals first
      | omega
      | (simp [Th] at hd; subst hd; simp at hm; omega)

/-- all hypotheses of `C14_template_unrelated_entries` hold for the seeded shape over live entries -/
example : templateFromIds (extend Th Eh) true idsH = templateFromIds Th false idsH :=
  C14_template_unrelated_entries Th Eh idsH (by decide) (by decide) (by decide) (by
    intro i hi
    have := reachH i hi
    simp only [List.mem_cons, List.not_mem_nil, or_false] at this
    rcases this with rfl | rfl | rfl | rfl | rfl | rfl <;> decide)
end NonVacuity

end Bufr
