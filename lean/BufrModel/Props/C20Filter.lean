/-
  C20 / C11 — in-stream table definitions do not depend on the filter (repair F25).

  `generate_bufr_message` runs its table-definition branch (`BufrTableDefinitionProcessor().process`, cache invalidation,
  `add_extra_entries`) in full mode on the message in hand when that is a table definition message.  `defHere` is the message
  that branch processes at a signature, read off the model's `decodeHere` (which `C11_src_generate_eq` ties to the source);
  `scanDefs` collects them along the scan (same positions as `scan`: it advances with `step`).

  * `C20_filter_independent_definition`  at a valid message, whatever follows it: the definition processed with a filter is the
    one processed without a filter — also when the filter rejects the message;
  * `C20_filter_independent_definitions` hence for a whole stream of valid messages and quiet separators;
  * `C20_only_when_matched_drops_definitions` the variant "process definitions only when the filter matched" (the first
    candidate repair of F25) is NOT filter independent: a concrete stream on which it processes no definition while the
    unfiltered scan processes two.
-/
import BufrModel.Msg.Stream
import BufrModel.Lemmas.Stream
import BufrModel.Props.C11
set_option linter.unusedSimpArgs false
namespace Bufr.Stream

/-- the message the table-definition branch processes at this signature: the message in hand after `decodeHere`, in full
    mode, when it is a table definition message -/
def defHere {μ : Type} (dec : Dec μ) (cfg : Cfg μ) (rest : Bytes) : Option (MsgInfo μ) :=
  match decodeHere dec cfg rest with
  | .ok (_, m) => if !cfg.infoOnly && cfg.tableDef m then some m else none
  | .error _ => none

/-- the variant "only when the filter matched": no full decode of a rejected definition message (the code before the
    repair), the table-definition branch guarded by `matched` -/
def defHereOnlyMatched {μ : Type} (dec : Dec μ) (cfg : Cfg μ) (rest : Bytes) : Option (MsgInfo μ) :=
  match decodeHere dec { cfg with tableDef := fun _ => false } rest with
  | .ok (matched, m) => if !cfg.infoOnly && matched && cfg.tableDef m then some m else none
  | .error _ => none

/-- the definitions processed along the scan (`defAt`: what is processed at a signature) -/
def scanDefsFuel {μ : Type} (defAt : Cfg μ → Bytes → Option (MsgInfo μ)) (dec : Dec μ) (cfg : Cfg μ) :
    Nat → Bytes → List (MsgInfo μ)
  | 0, _ => []
  | fuel + 1, s =>
    match findSig s with
    | none => []
    | some k =>
      let rest := s.drop k
      (defAt cfg rest).toList ++
        (match step dec cfg rest with
         | .fail _ => []
         | .adv 0 _ => []
         | .adv (n + 1) _ => scanDefsFuel defAt dec cfg fuel (rest.drop (n + 1)))

/-- the table definition messages `generate_bufr_message` processes while it scans `s`, in order -/
def scanDefs {μ : Type} (dec : Dec μ) (cfg : Cfg μ) (s : Bytes) : List (MsgInfo μ) :=
  scanDefsFuel (defHere dec) dec cfg (s.length + 1) s

/-- **one message**: at a valid message (anything may follow), in full mode, with a filter that evaluates on its metadata
    (to true or to false), the definition processed is the one the unfiltered scan processes (`hcons`: the metadata-only and
    the full decoding agree on whether it is a table definition message) -/
theorem C20_filter_independent_definition {μ : Type} (dec : Dec μ) (cfg : Cfg μ) (pred : MsgInfo μ → Except Err Bool)
    (hio : cfg.infoOnly = false) (hfr : Frame dec) (m x : Bytes) (hv : ValidMsg dec m)
    (hpred : ∀ i, dec true m = .ok i → ∃ b, pred i = .ok b)
    (hcons : ∀ ii fi, dec true m = .ok ii → dec false m = .ok fi → cfg.tableDef ii = cfg.tableDef fi) :
    defHere dec { cfg with filter := some pred } (m ++ x) = defHere dec { cfg with filter := none } (m ++ x) := by
  obtain ⟨ii, hii, _⟩ := hv.info
  obtain ⟨fi, hfi, _, _⟩ := hv.full
  obtain ⟨b, hb⟩ := hpred ii hii
  have h1 := hfr true m x ii hii
  have h2 := hfr false m x fi hfi
  have hc := hcons ii fi hii hfi
  cases b with
  | true =>
    simp only [defHere, decodeHere, h1, h2, hb, hio, Bool.true_or, Bool.not_false, Bool.and_self, if_true, Bool.true_and]
  | false =>
    cases htd : cfg.tableDef ii with
    | true =>
      simp only [defHere, decodeHere, h1, h2, hb, hio, htd, Bool.false_or, Bool.not_false, Bool.and_self, if_true,
        Bool.true_and]
    | false =>
      rw [htd] at hc
      simp only [defHere, decodeHere, h1, h2, hb, hio, htd, ← hc, Bool.false_or, Bool.not_false, Bool.false_and,
        Bool.and_false, Bool.and_self, Bool.false_eq_true, if_false, Bool.true_and]

/-- the definitions processed along a stream of pieces each of which behaves as `act` says and has `dact p` processed -/
theorem scanDefsFuel_pieces {μ : Type} (dec : Dec μ) (cfg : Cfg μ) (act : Piece → Nat × Option (MsgInfo μ))
    (dact : Piece → Option (MsgInfo μ)) :
    ∀ (ps : List Piece), (∀ p ∈ ps, Behaves dec cfg act p ∧ ∀ x, defHere dec cfg (p.msg ++ x) = dact p) →
      ∀ (pre : Bytes), Quiet pre → ∀ (fuel : Nat), (pre ++ body ps).length < fuel →
      scanDefsFuel (defHere dec) dec cfg fuel (pre ++ body ps) = ps.filterMap dact := by
  intro ps
  induction ps with
  | nil =>
    intro _ pre hq fuel hf
    cases fuel with
    | zero => simp at hf
    | succ fuel =>
      simp only [body, List.append_nil, scanDefsFuel, findSig_none_of_quiet pre hq, List.filterMap_nil]
  | cons p ps ih =>
    intro hps pre hq fuel hf
    obtain ⟨hp, hd⟩ := hps p (List.mem_cons_self)
    obtain ⟨m', hm'⟩ := hp.starts
    cases fuel with
    | zero => omega
    | succ fuel =>
      obtain ⟨k, hk⟩ : ∃ k, (act p).1 = k + 1 := ⟨(act p).1 - 1, by have := hp.pos; omega⟩
      have hs : pre ++ body (p :: ps) = pre ++ (sig ++ (m' ++ (p.sep ++ body ps))) := by
        simp only [body, hm', List.append_assoc]
      have hfind : findSig (pre ++ body (p :: ps)) = some pre.length := by
        rw [hs]; exact findSig_quiet_append pre _ hq
      have hdrop : List.drop pre.length (pre ++ body (p :: ps)) = p.msg ++ (p.sep ++ body ps) := by
        rw [List.drop_left]; simp only [body]
      have hle := hp.le
      have hdrop2 : List.drop (k + 1) (p.msg ++ (p.sep ++ body ps)) = (p.msg.drop (k + 1) ++ p.sep) ++ body ps := by
        rw [List.drop_append_of_le_length (by omega)]; simp only [List.append_assoc]
      have hlen : (p.msg.drop (k + 1) ++ p.sep ++ body ps).length < fuel := by
        simp only [List.length_append, List.length_drop, body] at hf ⊢
        omega
      have hq2 : Quiet (p.msg.drop (k + 1) ++ p.sep) := by rw [← hk]; exact hp.quiet
      have ih' := ih (fun q hq => hps q (List.mem_cons_of_mem _ hq)) _ hq2 fuel hlen
      simp only [scanDefsFuel, hfind, hdrop, hp.step_eq, hd, hk, hdrop2, ih', List.filterMap_cons]
      cases dact p <;> rfl

/-- **In-stream table definitions do not depend on the filter.**  For a stream `sep0 m1 sep1 … mk sepk` of valid messages
    and signature-free separators scanned in full mode with a filter that evaluates on every message (hypotheses of
    `C11_filter_exact`), the table definition messages processed — each decoded in full — are those the unfiltered scan
    processes, whichever messages the filter rejects. -/
theorem C20_filter_independent_definitions {μ : Type} (dec : Dec μ) (cfg : Cfg μ) (pred : MsgInfo μ → Except Err Bool)
    (hio : cfg.infoOnly = false) (hfr : Frame dec) (keep : Piece → Bool)
    (sep0 : Bytes) (ps : List Piece) (h0 : ¬ sig <:+: sep0)
    (hv : ∀ p ∈ ps, ValidMsg dec p.msg) (hs : ∀ p ∈ ps, ¬ sig <:+: p.sep)
    (hpred : ∀ p ∈ ps, ∀ i, dec true p.msg = .ok i → pred i = .ok (keep p))
    (hun : ∀ p ∈ ps, keep p = false → isDefPiece dec cfg p = false →
      0 < infoSpan dec p.msg ∧ infoSpan dec p.msg ≤ p.msg.length ∧ Quiet (p.msg.drop (infoSpan dec p.msg) ++ p.sep))
    (hcons : ∀ p ∈ ps, ∀ ii fi, dec true p.msg = .ok ii → dec false p.msg = .ok fi → cfg.tableDef ii = cfg.tableDef fi) :
    scanDefs dec { cfg with filter := some pred } (sep0 ++ body ps) =
      scanDefs dec { cfg with filter := none } (sep0 ++ body ps) := by
  let dact : Piece → Option (MsgInfo μ) := fun p => defHere dec { cfg with filter := none } p.msg
  have hx : ∀ p ∈ ps, ∀ x, defHere dec { cfg with filter := none } (p.msg ++ x) = dact p := by
    intro p hp x
    obtain ⟨fi, hfi, _, _⟩ := (hv p hp).full
    have h2 := hfr false p.msg x fi hfi
    have h3 := hfr false p.msg [] fi hfi
    simp only [List.append_nil] at h3
    simp only [dact, defHere, decodeHere, hio, h2, hfi]
  have hF := scanDefsFuel_pieces dec { cfg with filter := some pred } (actFilter dec { cfg with filter := some pred } keep) dact ps
    (fun p hp => ⟨behaves_filter dec _ pred rfl hfr keep p (hv p hp) (hpred p hp) (quiet_of_not_infix _ (hs p hp))
        (fun hk _ hd => hun p hp hk hd),
      fun x => by
        rw [C20_filter_independent_definition dec cfg pred hio hfr p.msg x (hv p hp)
          (fun i hi => ⟨keep p, hpred p hp i hi⟩) (hcons p hp)]
        exact hx p hp x⟩)
    sep0 (quiet_of_not_infix _ h0) ((sep0 ++ body ps).length + 1) (Nat.lt_succ_self _)
  have hU := scanDefsFuel_pieces dec { cfg with filter := none } (fun p => (p.msg.length, (dec cfg.infoOnly p.msg).toOption)) dact ps
    (fun p hp => ⟨behaves_valid dec { cfg with filter := none } rfl hfr p (hv p hp) (quiet_of_not_infix _ (hs p hp)),
      hx p hp⟩)
    sep0 (quiet_of_not_infix _ h0) ((sep0 ++ body ps).length + 1) (Nat.lt_succ_self _)
  unfold scanDefs
  rw [hF, hU]

/-- the toy instance of `Props/C11.lean` in which every message is a table definition message -/
def toyDefCfg (f : Option (MsgInfo Unit → Except Err Bool)) : Cfg Unit := { filter := f, tableDef := fun _ => true }

/-- **The variant "only when matched" is not filter independent**: on the stream of two toy definition messages a filter
    that rejects everything makes it process NO definition, while the unfiltered scan — and the repaired code with the same
    filter — process both. -/
theorem C20_only_when_matched_drops_definitions :
    scanDefsFuel (defHereOnlyMatched toyDec) toyDec (toyDefCfg (some fun _ => .ok false)) 25 (toyMsg ++ toyMsg) = [] ∧
    (scanDefs toyDec (toyDefCfg none) (toyMsg ++ toyMsg)).length = 2 ∧
    scanDefs toyDec (toyDefCfg (some fun _ => .ok false)) (toyMsg ++ toyMsg) = scanDefs toyDec (toyDefCfg none) (toyMsg ++ toyMsg) := by
  decide +kernel

/-- the hypotheses of `C20_filter_independent_definition` are satisfiable (the toy message, every message a definition) -/
example : defHere toyDec { toyDefCfg none with filter := some fun _ => .ok false } (toyMsg ++ toyMsg) =
    defHere toyDec { toyDefCfg none with filter := none } (toyMsg ++ toyMsg) :=
  C20_filter_independent_definition toyDec (toyDefCfg none) (fun _ => .ok false) rfl toyDec_frame toyMsg toyMsg toyMsg_valid
    (fun _ _ => ⟨false, rfl⟩) (fun _ _ _ _ => rfl)

end Bufr.Stream
