/-
  C07 — bitmap-driven and associated attributes are linked to the element they qualify.

  Proved here, for ALL states / templates / primitives that are `Quiet` (the decoder's, compressed or
  not; see Lemmas/Links.lean):
    (a) `C07_difference_stats_coding` (+ `_numeric`, `_value`): a 225255 marker of element `e` is
        processed with width `e.nbits + 1` and reference `-2^e.nbits`; the decoded value is
        `(raw - 2^e.nbits) / 10^scale`;
    (b) `C07_link_targets_are_zero_bits`, `C07_qa_link_targets_are_zero_bits`: every link that a
        marker operator / a class 33 element after 222000 records points to the NEXT UNCONSUMED entry
        of the selection; `C07_bitmap_selection`: `buildBitmapped` defines the selection as exactly
        the back-referenced elements whose bit is 0, in order, and refuses (library error) a bit-map
        whose length differs from the back references; `C07_back_refs_are_last_n_plain`: the back
        references are the last n plain-element items below the boundary, in order, with their
        positions;
    (c) `C07_assoc_precedes_owner`: with an associated field in force an `.assoc e.id n` item is
        recorded immediately in front of the element's own item (not for class 31).
    (c') `C07_operator_marks_boundary`, `C07_cancel_back_references`, `C07_recall_restarts`,
        `C07_reuse_marks_are_inert`: what 22X000 / 235000 / 237000 / 236000 / 237255 do to the registers and items.
    (d) `C07_links_eq_spec` — links of the output = `Spec.links` of the items of the output — is PROVED in
        Props/C07Spec.lean (one subset) and Props/C07SpecMsg.lean (messages, compressed data, the encoder),
        for every template satisfying `Spec.WFlinks` and items satisfying `Spec.markersOk`; the lemmas of this
        file are per-step facts about the same functions.
    (e) whole walk / whole message: Props/C07Walk.lean (`C07_walk_invariant`, the soundness half
        `C07_links_sound_partial` / `C07_links_sound_message_partial`) and Props/C07Subsets.lean (the
        links of a subset of an uncompressed message are those of that subset alone;
        `C07_links_eq_spec_lifts_to_message` reduces (d) from messages to single walks).
-/
import BufrModel.Spec.Links
import BufrModel.Lemmas.Links
import BufrModel.Lemmas.Quant
namespace Bufr
open Bufr.C07

namespace C07

/-- the descriptor a 225255 marker of `be` is processed with -/
def diffElem (be : Elem) : Elem := { be with ref := -((2 : Int) ^ be.nbits), nbits := be.nbits + 1 }

/-- the state after `next_bitmapped_descriptor()` returned `(owner, _)` and the link was recorded -/
def served (s : St) (owner : Nat) (rest : List (Nat × Elem)) : St :=
  addLink (s.setRegs fun r => { r with bmIter := some rest }) owner

/-- the back references `buildBitmapped` works with: those in force, else freshly collected -/
def backRefsFor (s : St) (n : Nat) : List (Nat × Elem) :=
  match s.regs.backRefs with
  | some (x :: xs) => x :: xs
  | _ => collectBackRefs n (s.descs.drop (s.descs.length - s.regs.backBoundary)) s.regs.backBoundary []

theorem stValue_numeric (P : Prims) (dd : DDesc) (e : Elem) (s : St) (hk : e.kind = .numeric)
    (hr : lookupRef s.regs.newRefvals e.id = none) :
    stValue P dd e s =
      P.numeric dd ((e.nbits : Int) + s.regs.nbitsOffset + s.regs.nbitsInc)
        (e.scale + s.regs.scaleOffset + s.regs.scaleInc) (e.ref * s.regs.refFactor) s := by
  simp only [stValue, hk, hr]

end C07

/-! ### (a) difference statistics -/

/-- A 225255 marker whose turn it is for element `be` is processed as the element
    `{be with nbits := be.nbits + 1, ref := -2^be.nbits}` (same id, kind and scale), labelled as a
    marker, after the link to `owner` has been recorded. -/
theorem C07_difference_stats_coding (P : Prims) (s : St) (owner : Nat) (be : Elem) (rest : List (Nat × Elem))
    (h : s.regs.bmIter = some ((owner, be) :: rest)) :
    bitmappedDescriptor P 225255 s =
        elementDescriptor P (.marker 225255 (diffElem be)) (diffElem be) (served s owner rest)
    ∧ (diffElem be).nbits = be.nbits + 1 ∧ (diffElem be).ref = -((2 : Int) ^ be.nbits)
    ∧ (diffElem be).scale = be.scale ∧ (diffElem be).id = be.id ∧ (diffElem be).kind = be.kind := by
  refine ⟨?_, rfl, rfl, rfl, rfl, rfl⟩
  simp only [bitmappedDescriptor, nextBitmapped, h, bind, Except.bind, if_true, diffElem, served]

example : ∃ (s : St) (o : Nat) (be : Elem) (r : List (Nat × Elem)), s.regs.bmIter = some ((o, be) :: r) :=
  ⟨{ regs := { bmIter := some [(0, default)] } }, 0, default, [], rfl⟩

/-- every other marker operator processes the element unchanged -/
theorem C07_marker_coding (P : Prims) (op : Nat) (hop : op ≠ 225255) (s : St) (owner : Nat) (be : Elem)
    (rest : List (Nat × Elem)) (h : s.regs.bmIter = some ((owner, be) :: rest)) :
    bitmappedDescriptor P op s = elementDescriptor P (.marker op be) be (served s owner rest) := by
  simp only [bitmappedDescriptor, nextBitmapped, h, bind, Except.bind, hop, if_false, served]

/-- For a numeric element outside an associated-field scope: the numeric primitive is called with
    width `be.nbits + 1` (plus the 201/207 adjustments in force) and reference `-2^be.nbits` (times the
    207 factor), unless 203YYY defined a new reference value for that id. -/
theorem C07_difference_stats_numeric (P : Prims) (s : St) (owner : Nat) (be : Elem) (rest : List (Nat × Elem))
    (h : s.regs.bmIter = some ((owner, be) :: rest)) (hk : be.kind = .numeric)
    (ha : s.regs.assocStack = []) (hx : xOf be.id ≠ 33) (hr : lookupRef s.regs.newRefvals be.id = none) :
    bitmappedDescriptor P 225255 s =
      P.numeric (.marker 225255 (diffElem be))
        (((be.nbits + 1 : Nat) : Int) + s.regs.nbitsOffset + s.regs.nbitsInc)
        (be.scale + s.regs.scaleOffset + s.regs.scaleInc)
        (-((2 : Int) ^ be.nbits) * s.regs.refFactor)
        (let s1 := served s owner rest
         if s.regs.qa = .processing then s1.setRegs fun r => { r with qa := .na } else s1) := by
  rw [(C07_difference_stats_coding P s owner be rest h).1, elementDescriptor_eq]
  have e1 : stAssoc P (diffElem be) (served s owner rest) = .ok (served s owner rest) := by
    simp [stAssoc, served, addLink, St.setRegs, ha]; rfl
  have hx' : xOf (diffElem be).id ≠ 33 := hx
  rw [e1]
  simp only [bind, Except.bind, stQa, if_neg hx', pure, Except.pure]
  by_cases hq : s.regs.qa = .processing
  · have hq' : (served s owner rest).regs.qa = .processing := hq
    simp only [hq, hq', if_true]
    exact stValue_numeric P _ (diffElem be) _ hk hr
  · have hq' : ¬ (served s owner rest).regs.qa = .processing := hq
    simp only [hq, hq', if_false]
    exact stValue_numeric P _ (diffElem be) _ hk hr

/-- Decoder, no operator in force: the field of `be.nbits + 1` bits `f` at the head of the stream is
    consumed and the value recorded for the marker is `(ofBits f - 2^be.nbits) / 10^scale` (missing when
    the field is all ones). -/
theorem C07_difference_stats_value (s : St) (owner : Nat) (be : Elem) (rest : List (Nat × Elem))
    (h : s.regs.bmIter = some ((owner, be) :: rest)) (hk : be.kind = .numeric)
    (ha : s.regs.assocStack = []) (hx : xOf be.id ≠ 33) (hr : lookupRef s.regs.newRefvals be.id = none)
    (h1 : s.regs.nbitsOffset = 0) (h2 : s.regs.scaleOffset = 0) (h7 : s.regs.y207 = 0)
    (f suf : Bits) (hf : f.length = be.nbits + 1) (h64 : f.length ≤ 64) (hb : s.bits = f ++ suf) :
    ∃ s', bitmappedDescriptor decPrimsU 225255 s = .ok s' ∧ s'.bits = suf ∧
      s'.descs = .marker 225255 (diffElem be) :: s.descs ∧
      s'.links = (s.descs.length, owner) :: s.links ∧
      s'.vals = s.vals.map
        ((if 1 < f.length ∧ f.all id = true then Val.missing
          else scaleVal ((ofBits f : Int) + -((2 : Int) ^ be.nbits)) be.scale) :: ·) := by
  rw [C07_difference_stats_numeric decPrimsU s owner be rest h hk ha hx hr]
  have hw : ((be.nbits + 1 : Nat) : Int) + s.regs.nbitsOffset + s.regs.nbitsInc = (f.length : Int) := by
    simp [h1, Regs.nbitsInc, h7, hf]
  have hs : be.scale + s.regs.scaleOffset + s.regs.scaleInc = be.scale := by
    simp [h2, Regs.scaleInc, h7]
  have hrf : -((2 : Int) ^ be.nbits) * s.regs.refFactor = -((2 : Int) ^ be.nbits) := by
    simp [Regs.refFactor, h7]
  rw [hw, hs, hrf]
  show ∃ s', decNumericU _ _ _ _ _ = .ok s' ∧ _
  have h0 : 0 < f.length := by omega
  have key : ∀ s1 : St, s1.bits = s.bits → s1.descs = s.descs → s1.links = (s.descs.length, owner) :: s.links →
      s1.vals = s.vals →
      ∃ s', decNumericU (.marker 225255 (diffElem be)) (f.length : Int) be.scale (-((2 : Int) ^ be.nbits)) s1 = .ok s' ∧
        s'.bits = suf ∧ s'.descs = .marker 225255 (diffElem be) :: s.descs ∧
        s'.links = (s.descs.length, owner) :: s.links ∧
        s'.vals = s.vals.map
          ((if 1 < f.length ∧ f.all id = true then Val.missing
            else scaleVal ((ofBits f : Int) + -((2 : Int) ^ be.nbits)) be.scale) :: ·) := by
    intro s1 e1 e2 e3 e4
    rw [decNumericU_field _ _ _ _ f suf h0 h64 (by rw [e1]; exact hb)]
    refine ⟨_, rfl, rfl, by rw [e2], e3, ?_⟩
    show s1.vals.map _ = _
    rw [e4]
    congr 1
    funext l
    split <;> rfl
  by_cases hq : s.regs.qa = .processing
  · simp only [hq, if_true]
    exact key _ rfl rfl rfl rfl
  · simp only [hq, if_false]
    exact key _ rfl rfl rfl rfl

example : ∃ (s : St) (o : Nat) (be : Elem) (r : List (Nat × Elem)) (f suf : Bits),
    s.regs.bmIter = some ((o, be) :: r) ∧ be.kind = .numeric ∧ f.length = be.nbits + 1 ∧ s.bits = f ++ suf :=
  ⟨{ regs := { bmIter := some [(0, { id := 12001, kind := .numeric, nbits := 2, scale := 1, ref := 0 })] },
     bits := [true, false, true] }, 0, _, [], [true, false, true], [], rfl, rfl, rfl, rfl⟩

/-! ### (b) what a link points to -/

/-- The back references collected for a bit-map of `n ≥ 1` bits from the items `ds` below the boundary
    (held most recent first, as the coder does) are the LAST `n` plain-element items of `ds`, oldest first,
    each with its position; `all` is the list of all plain items: positions strictly increasing, and
    `(i, e)` occurs in it exactly when item `i` is the plain element `e`. -/
theorem C07_back_refs_are_last_n_plain (n : Nat) (hn : 1 ≤ n) (ds : List DDesc) :
    ∃ all : List (Nat × Elem),
      collectBackRefs n ds ds.length [] = all.drop (all.length - n) ∧
      (collectBackRefs n ds ds.length []).Sublist all ∧
      all.Pairwise (fun x y => x.1 < y.1) ∧
      (∀ i e, (i, e) ∈ all ↔ ds.reverse[i]? = some (.plain e)) := by
  refine ⟨plainFrom 0 ds.reverse, ?_, ?_, plainFrom_pairwise 0 _, ?_⟩
  · rw [collect_lastN n ds ds.length [] (by simp only [List.length_nil]; omega), plainRev_eq_plainFrom _ _ (Nat.le_refl _)]
    simp [lastN]
  · rw [collect_lastN n ds ds.length [] (by simp only [List.length_nil]; omega), plainRev_eq_plainFrom _ _ (Nat.le_refl _)]
    simp only [List.length_nil, Nat.sub_zero, Nat.sub_self, List.append_nil, lastN]
    exact List.drop_sublist _ _
  · intro i e
    rw [mem_plainFrom]
    simp

/-- the items below the boundary that `buildBitmapped` hands to `collectBackRefs`, read in processing
    order, are the first `backBoundary` items recorded -/
theorem C07_below_boundary (s : St) (h : s.regs.backBoundary ≤ s.descs.length) :
    (s.descs.drop (s.descs.length - s.regs.backBoundary)).reverse = s.descs.reverse.take s.regs.backBoundary ∧
    (s.descs.drop (s.descs.length - s.regs.backBoundary)).length = s.regs.backBoundary := by
  constructor
  · rw [List.reverse_drop]
    congr 1
    omega
  · rw [List.length_drop]; omega

/-- `buildBitmapped`: with `br` the back references in force (or, when none are, those collected now),
    a bit-map of another length is refused with the library error; otherwise the selection — both the
    recallable one and the running iterator — is exactly the entries of `br` whose bit is 0, in order
    (`zeroSel`; see `zeroSel_sublist`, `mem_zeroSel`, `zeroSel_length`), `br` stays in force, and
    nothing else observable changes. -/
theorem C07_bitmap_selection (s : St) (bm : List Val) :
    (((backRefsFor s bm.length).length ≠ bm.length) → buildBitmapped s bm = .error .lib) ∧
    (∀ s', buildBitmapped s bm = .ok s' →
      (backRefsFor s bm.length).length = bm.length ∧
      s'.regs.backRefs = some (backRefsFor s bm.length) ∧
      s'.regs.bitmapped = some (zeroSel bm (backRefsFor s bm.length)) ∧
      s'.regs.bmIter = some (zeroSel bm (backRefsFor s bm.length)) ∧
      s'.descs = s.descs ∧ s'.links = s.links ∧ s'.vals = s.vals ∧ s'.bits = s.bits) := by
  have hdef : buildBitmapped s bm =
      (if (backRefsFor s bm.length).length ≠ bm.length then .error .lib
       else .ok (s.setRegs fun r => { r with backRefs := some (backRefsFor s bm.length),
                                             bitmapped := some (zeroSel bm (backRefsFor s bm.length)),
                                             bmIter := some (zeroSel bm (backRefsFor s bm.length)) })) := rfl
  constructor
  · intro h; rw [hdef, if_pos h]
  · intro s' h
    rw [hdef] at h
    split at h
    · cases h
    · next hl =>
      injection h with h; subst h
      exact ⟨by simpa using hl, rfl, rfl, rfl, rfl, rfl, rfl, rfl⟩

/-- the selection consists of zero-bit entries only, in the order of the back references, all of them -/
theorem C07_selection_is_zero_bits {α : Type} (bm : List Val) (br : List α) (h : br.length = bm.length) :
    (zeroSel bm br).Sublist br ∧ (zeroSel bm br).length = bm.count (Val.int 0) ∧
    (∀ x, x ∈ zeroSel bm br ↔ ∃ i : Nat, bm[i]? = some (Val.int 0) ∧ br[i]? = some x) :=
  ⟨zeroSel_sublist bm br, zeroSel_length bm br h, mem_zeroSel bm br⟩

/-- what `elementDescriptor` records, for quiet primitives: its own item on top of an optional
    associated field; a link exactly when the element takes a bit (class 33 in a quality-information
    stretch), and then to the NEXT UNCONSUMED entry of the selection, keyed by the position of the
    element's own item. -/
theorem C07_element_records {P : Prims} (hP : Quiet P) (dd : DDesc) (e : Elem) (s s' : St)
    (h : elementDescriptor P dd e s = .ok s') :
    let pre : List DDesc := if s.regs.assocStack ≠ [] ∧ xOf e.id ≠ 31 then [.assoc e.id s.regs.assocStack.sum] else []
    s'.descs = dd :: (pre ++ s.descs) ∧
    ((takesBit e s ∧ ∃ owner el rest, s.regs.bmIter = some ((owner, el) :: rest) ∧
        s'.links = (s.descs.length + pre.length, owner) :: s.links ∧ s'.regs.bmIter = some rest) ∨
     (¬ takesBit e s ∧ s'.links = s.links ∧ s'.regs.bmIter = s.regs.bmIter)) := by
  rw [elementDescriptor_eq] at h
  cases h1 : stAssoc P e s with
  | error err => simp [h1, bind, Except.bind] at h
  | ok s1 =>
    simp only [h1, bind, Except.bind] at h
    cases h2 : stQa e s1 with
    | error err => simp [h2] at h
    | ok s2 =>
      simp only [h2] at h
      have v := stValue_ok hP h
      have q := stQa_ok h2
      have tb : ∀ (hr : s1.regs = s.regs), takesBit e s1 ↔ takesBit e s := by
        intro hr; simp [takesBit, hr]
      rcases stAssoc_ok hP h1 with ⟨hc, a⟩ | ⟨hc, rfl⟩
      · simp only [if_pos hc]
        refine ⟨by rw [v.1, q.1, a.1]; rfl, ?_⟩
        rcases q.2.2 with ⟨t, owner, el, rest, b1, b2, b3, _⟩ | ⟨t, b1, b2⟩
        · left
          refine ⟨(tb a.2.2).1 t, owner, el, rest, by rw [← a.2.2]; exact b1, ?_, by rw [v.2.2]; exact b3⟩
          rw [v.2.1, b2, a.1, a.2.1]; simp
        · right
          exact ⟨fun t' => t ((tb a.2.2).2 t'), by rw [v.2.1, b1, a.2.1], by rw [v.2.2, b2, a.2.2]⟩
      · simp only [if_neg hc]
        refine ⟨by rw [v.1, q.1]; rfl, ?_⟩
        rcases q.2.2 with ⟨t, owner, el, rest, b1, b2, b3, _⟩ | ⟨t, b1, b2⟩
        · left
          exact ⟨t, owner, el, rest, b1, by rw [v.2.1, b2]; simp, by rw [v.2.2]; exact b3⟩
        · right
          exact ⟨t, by rw [v.2.1, b1], by rw [v.2.2, b2]⟩

/-- Class 33 branch: a class 33 element processed while quality information is expected (222000 seen,
    no other element since the last class 33 one) is linked to the next unconsumed entry of the
    selection, keyed by the position of its own item. -/
theorem C07_qa_link_targets_are_zero_bits {P : Prims} (hP : Quiet P) (e : Elem) (s s' : St)
    (h : elementDescriptor P (.plain e) e s = .ok s') (hx : xOf e.id = 33) (hq : s.regs.qa ≠ .na) :
    ∃ owner el rest, s.regs.bmIter = some ((owner, el) :: rest) ∧ s'.regs.bmIter = some rest ∧
      s'.links = (s'.descs.length - 1, owner) :: s.links ∧
      s'.descs.head? = some (.plain e) := by
  have r := C07_element_records hP (.plain e) e s s' h
  simp only at r
  rcases r.2 with ⟨_, owner, el, rest, b1, b2, b3⟩ | ⟨t, _⟩
  · refine ⟨owner, el, rest, b1, b3, ?_, by rw [r.1]; rfl⟩
    rw [b2, r.1]
    simp only [List.length_cons, List.length_append]
    congr 2
    omega
  · exact absurd ⟨hx, hq⟩ t

/-- Marker operators: `bitmappedDescriptor` takes the next unconsumed entry `(owner, be)` of the
    selection and records the link `(number of items recorded so far, owner)`; the marker's item is
    recorded right there unless an associated field is in force (then the field's item takes that
    position and the marker follows it: open finding F11-C07-links-marker). -/
theorem C07_link_targets_are_zero_bits {P : Prims} (hP : Quiet P) (op : Nat) (s s' : St)
    (h : bitmappedDescriptor P op s = .ok s') :
    ∃ owner be rest, s.regs.bmIter = some ((owner, be) :: rest) ∧
      (s.descs.length, owner) ∈ s'.links ∧
      (∃ e', s'.descs.head? = some (.marker op e') ∧ e'.id = be.id) ∧
      (s.regs.assocStack = [] ∨ xOf be.id = 31 → s'.descs.length = s.descs.length + 1) ∧
      (¬ (xOf be.id = 33 ∧ s.regs.qa ≠ .na) →
        s'.links = (s.descs.length, owner) :: s.links ∧ s'.regs.bmIter = some rest) := by
  cases hb : s.regs.bmIter with
  | none => simp [bitmappedDescriptor, nextBitmapped, hb, bind, Except.bind] at h
  | some l =>
    cases l with
    | nil => simp [bitmappedDescriptor, nextBitmapped, hb, bind, Except.bind] at h
    | cons x rest =>
      obtain ⟨owner, be⟩ := x
      refine ⟨owner, be, rest, rfl, ?_⟩
      have hgen : ∃ e' : Elem, e'.id = be.id ∧
          elementDescriptor P (.marker op e') e' (served s owner rest) = .ok s' := by
        by_cases hop : op = 225255
        · subst hop
          rw [(C07_difference_stats_coding P s owner be rest hb).1] at h
          exact ⟨diffElem be, rfl, h⟩
        · rw [C07_marker_coding P op hop s owner be rest hb] at h
          exact ⟨be, rfl, h⟩
      obtain ⟨e', hid, he⟩ := hgen
      have r := C07_element_records hP _ e' _ s' he
      simp only at r
      have hl : (served s owner rest).links = (s.descs.length, owner) :: s.links := rfl
      have hd : (served s owner rest).descs = s.descs := rfl
      have hi : (served s owner rest).regs.bmIter = some rest := rfl
      have ha : (served s owner rest).regs.assocStack = s.regs.assocStack := rfl
      have hqa : (served s owner rest).regs.qa = s.regs.qa := rfl
      refine ⟨?_, ⟨e', by rw [r.1]; rfl, hid⟩, ?_, ?_⟩
      · rcases r.2 with ⟨_, o2, el2, rest2, _, b2, _⟩ | ⟨_, b1, _⟩
        · rw [b2, hl]; simp
        · rw [b1, hl]; simp
      · intro hc
        rw [r.1, ha, hid, hd]
        have : ¬ (s.regs.assocStack ≠ [] ∧ xOf be.id ≠ 31) := by
          rcases hc with hc | hc
          · simp [hc]
          · simp [hc]
        simp [this]
      · intro hno
        rcases r.2 with ⟨t, _⟩ | ⟨_, b1, b2⟩
        · exfalso
          apply hno
          obtain ⟨t1, t2⟩ := t
          exact ⟨by rw [← hid]; exact t1, by rw [← hqa]; exact t2⟩
        · exact ⟨by rw [b1, hl], by rw [b2, hi]⟩

example : Quiet decPrimsU ∧ Quiet decPrimsC := ⟨decPrimsU_quiet, decPrimsC_quiet⟩

/-! ### (c) associated fields -/

/-- With an associated field in force (204YYY, stack not empty) every element that is not of class 31
    gets an `.assoc e.id n` item (n = sum of the widths in force) recorded IMMEDIATELY in front of its
    own item; without one, or for class 31, only its own item is recorded. -/
theorem C07_assoc_precedes_owner {P : Prims} (hP : Quiet P) (dd : DDesc) (e : Elem) (s s' : St)
    (h : elementDescriptor P dd e s = .ok s') :
    (s.regs.assocStack ≠ [] ∧ xOf e.id ≠ 31 → s'.descs = dd :: .assoc e.id s.regs.assocStack.sum :: s.descs) ∧
    (¬ (s.regs.assocStack ≠ [] ∧ xOf e.id ≠ 31) → s'.descs = dd :: s.descs) := by
  have r := (C07_element_records hP dd e s s' h).1
  constructor
  · intro hc; rw [r, if_pos hc]; rfl
  · intro hc; rw [r, if_neg hc]; rfl

example : ∃ s : St, s.regs.assocStack ≠ [] := ⟨{ regs := { assocStack := [4] } }, by simp⟩

/-! ### the operators themselves (what the specification reads off the items) -/

/-- `22X000` / `232000`: the boundary is the position of the operator's OWN item (candidates are the
    plain items strictly in front of it), the definition state machine is armed, one constant item
    is recorded, links and selection are untouched. -/
theorem C07_operator_marks_boundary {P : Prims} (hP : Quiet P) (id : Nat) (s s' : St)
    (hid : id = 222000 ∨ id = 223000 ∨ id = 224000 ∨ id = 225000 ∨ id = 232000)
    (h : operatorDescriptor P id s = .ok s') :
    s'.descs = .oper id :: s.descs ∧ s'.regs.backBoundary = s.descs.length ∧
    s'.regs.bitmapDef = .indicator ∧ s'.links = s.links ∧ s'.regs.bmIter = s.regs.bmIter ∧
    s'.regs.backRefs = s.regs.backRefs ∧ (s'.regs.qa = .waiting ↔ (id = 222000 ∨ s.regs.qa = .waiting)) := by
  have key : ∀ (c : Nat) (hc : id / 1000 = c) (hy : id % 1000 = 0)
      (h222 : c = 222 ∨ c = 223 ∨ c = 224 ∨ c = 225 ∨ c = 232),
      operatorDescriptor P id s =
        (P.constant (.oper id) 0 (s.setRegs fun r => { r with bitmapDef := .indicator, backBoundary := s.descs.length })
          >>= fun s2 => pure (if c = 222 then s2.setRegs fun r => { r with qa := .waiting } else s2)) := by
    intro c hc hy h222
    unfold operatorDescriptor
    simp only [hc, hy]
    rcases h222 with rfl | rfl | rfl | rfl | rfl <;> simp
  have hcy : ∃ c, id / 1000 = c ∧ id % 1000 = 0 ∧ (c = 222 ∨ c = 223 ∨ c = 224 ∨ c = 225 ∨ c = 232) ∧ (c = 222 ↔ id = 222000) := by
    rcases hid with rfl | rfl | rfl | rfl | rfl <;> exact ⟨_, rfl, rfl, by decide, by decide⟩
  obtain ⟨c, hc, hy, h222, hiff⟩ := hcy
  rw [key c hc hy h222] at h
  cases hk : P.constant (.oper id) 0 (s.setRegs fun r => { r with bitmapDef := .indicator, backBoundary := s.descs.length }) with
  | error e => simp [hk, bind, Except.bind] at h
  | ok s2 =>
    simp only [hk, bind, Except.bind, pure, Except.pure] at h
    injection h with h
    have q := hP.constant _ _ _ _ hk
    by_cases h2 : c = 222
    · rw [if_pos h2] at h; subst h
      refine ⟨q.1, by simp [St.setRegs, q.2.2], by simp [St.setRegs, q.2.2], q.2.1, by simp [St.setRegs, q.2.2], by simp [St.setRegs, q.2.2], ?_⟩
      simp [St.setRegs, hiff.1 h2]
    · rw [if_neg h2] at h; subst h
      refine ⟨q.1, by simp [St.setRegs, q.2.2], by simp [St.setRegs, q.2.2], q.2.1, by simp [St.setRegs, q.2.2], by simp [St.setRegs, q.2.2], ?_⟩
      have : id ≠ 222000 := fun hh => h2 (hiff.2 hh)
      simp [St.setRegs, q.2.2, this]

/-- `235000` records NO item: it forgets the back references and the recallable selection and
    leaves the running iterator, the links and the items alone (this is why `Spec.links` needs the
    times of the 235000s as a second input). -/
theorem C07_cancel_back_references (P : Prims) (s : St) :
    ∃ s', operatorDescriptor P 235000 s = .ok s' ∧ s'.descs = s.descs ∧ s'.links = s.links ∧
      s'.regs.backRefs = none ∧ s'.regs.bitmapped = none ∧ s'.regs.bmIter = s.regs.bmIter ∧ s'.vals = s.vals :=
  ⟨s.setRegs fun r => { r with backRefs := none, bitmapped := none }, by simp [operatorDescriptor], rfl, rfl, rfl, rfl, rfl, rfl⟩

/-- `237000` restarts the iterator on the most recently built selection (whether or not 236000
    introduced it) and records one constant item; with no selection it is a non-library error. -/
theorem C07_recall_restarts {P : Prims} (hP : Quiet P) (s s' : St) (h : operatorDescriptor P 237000 s = .ok s') :
    ∃ sel, s.regs.bitmapped = some sel ∧ s'.regs.bmIter = some sel ∧ s'.descs = .oper 237000 :: s.descs ∧
      s'.links = s.links ∧ s'.regs.bitmapped = some sel := by
  cases hb : s.regs.bitmapped with
  | none => simp [operatorDescriptor, hb] at h
  | some sel =>
    have e : operatorDescriptor P 237000 s =
        P.constant (.oper 237000) 0 (s.setRegs fun r => { r with bmIter := some sel }) := by
      simp [operatorDescriptor, hb]
    rw [e] at h
    have q := hP.constant _ _ _ _ h
    exact ⟨sel, rfl, by simp [q.2.2, St.setRegs], q.1, q.2.1, by simp [q.2.2, St.setRegs, hb]⟩

/-- `236000` and `237255` only record a constant item (the registers they write in the code are never read) -/
theorem C07_reuse_marks_are_inert {P : Prims} (hP : Quiet P) (id : Nat) (hid : id = 236000 ∨ id = 237255) (s s' : St)
    (h : operatorDescriptor P id s = .ok s') :
    s'.descs = .oper id :: s.descs ∧ s'.links = s.links ∧ s'.regs = s.regs := by
  have e : operatorDescriptor P id s = P.constant (.oper id) 0 s := by
    rcases hid with rfl | rfl <;> simp [operatorDescriptor]
  rw [e] at h
  exact hP.constant _ _ _ _ h

/-
  (d) The headline `C07_links_eq_spec` is proved in Props/C07Spec.lean:

    theorem C07_links_eq_spec (t : List Desc) (bits : Bits) (o : SubsetOut) (rest : Bits)
        (h : decodeSubset t bits = .ok (o, rest)) (hwf : Spec.WFlinks t)
        (hok : Spec.markersOk (o.descs.zip o.vals) = true) :
        o.links = Spec.links (o.descs.zip o.vals) (Spec.cancelsL decPrimsU t { bits := bits, vals := [[]] })

  (`Spec.cancelsL`: the item counts at which the run processed a 235000; `[]` for templates without 235YYY).
-/

end Bufr
