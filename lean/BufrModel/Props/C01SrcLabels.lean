/-
  C01 — tie to the Python source: the labels of the decoded descriptors (`str(descriptor)`), `__str__` of
  `Descriptor` / `AssociatedDescriptor` / `SkippedLocalDescriptor` / `MarkerDescriptor` regenerated from
  `pybufrkit/descriptors.py` into `Gen/PyDescriptors.lean` on every check.  The decoded-descriptor list of the
  coder model (`DDesc`, C01 / C07) is compared with the implementation's through these labels, and the query and
  text views print them (`C16_src_labels`, `C09_src_labels`).
-/
import BufrModel.Lemmas.LabelsSrc
namespace Bufr
open PyGen.descriptors Bufr.Query Bufr.LabelsSrc

/-- **the label of every decoded descriptor, as the source prints it**: `0XXYYY` (`'{:06d}'`) for an element or an
    operator kept in the list, `A` / `S` + five digits for an associated field / a skipped local descriptor, the
    marker letter (`marker_descriptor_prefix.get(marker_id, 'M')`: T, F, D, R, else M) + five digits for a marker —
    the model's `ddChars`, for every `DDesc` (ids and marker ids are natural numbers in the model). -/
theorem C01_src_labels (dd : DDesc) : srcLabel dd = ddChars dd := srcLabel_ddChars dd

/-- per class, on the raw attributes -/
theorem C01_src_label_plain (id : Nat) : Descriptor.__str__ ⟨(id : Int)⟩ = padNatC id 6 := by
  simp [Descriptor.__str__, formatIntZero_nat]
theorem C01_src_label_assoc (id : Nat) : AssociatedDescriptor.__str__ ⟨(id : Int)⟩ = 'A' :: padNatC id 5 := by
  simp [AssociatedDescriptor.__str__, formatIntZero_nat]
theorem C01_src_label_skipped (id : Nat) : SkippedLocalDescriptor.__str__ ⟨(id : Int)⟩ = 'S' :: padNatC id 5 := by
  simp [SkippedLocalDescriptor.__str__, formatIntZero_nat]
theorem C01_src_label_marker (id op : Nat) :
    MarkerDescriptor.__str__ ⟨(id : Int), (op : Int)⟩ = markerPrefixC op :: padNatC id 5 := by
  simp [MarkerDescriptor.__str__, formatIntZero_nat, marker_prefix]

/-- outside the model's domain (`Nat`): a negative id prints its sign first (`'{:06d}'.format(-5) == '-00005'`,
    checked on the real function) -/
example : Descriptor.__str__ ⟨-5⟩ = "-00005".toList := by decide
example : srcLabel (.marker 224255 { (default : Elem) with id := 12101 }) = "F12101".toList := by decide

end Bufr
