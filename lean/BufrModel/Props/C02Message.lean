/-
  C02, whole message: "… so the whole message is byte-identical to an independently constructed one".

  The independently constructed message is `Spec.canonMessageBits` (`Spec/CanonMessage.lean`): sections
  0-5 laid out per the section definitions (`Gen/Layouts.lean`, regenerated from /repo on every run),
  every parameter in binary on its declared width, section 3 = the 2/6/8-bit packing of the unexpanded
  descriptors, section 4 = 4 octets header + the data bits + zero padding, every section padded to whole
  octets (to an even number of octets for editions up to 3) with its own length in its first three
  octets, the total length in octets 5-7, the stop signature at the end.

  `C02_message_canonical`: for editions 2, 3 and 4, with and without section 2, for all supplied section
  values and any data bits, the bytes of the model's `encode` (`Encoder.process` with recomputed lengths)
  ARE the bytes of that construction — as an equation in `Option`: the encoder refuses exactly when some
  section value has no code.  `C02_message_data_canonical` puts the data section theorem
  (`C02_data_bits_canonical`) in: template + values ↦ the canonical message.
-/
import BufrModel.Lemmas.CanonMessageLoop
import BufrModel.Props.C02Canon
import BufrModel.Props.C02Packing
set_option linter.unusedSimpArgs false
namespace Bufr
open Bufr.Spec Bufr.Flat

/-- the closed facts about the regenerated section layouts that the message theorem rests on
    (re-decided by the kernel whenever /repo's definitions change) -/
theorem C02_bundled_layouts_ok :
    famOK 2 = true ∧ famOK 3 = true ∧ famOK 4 = true ∧
    sec01OK 2 = true ∧ sec01OK 3 = true ∧ sec01OK 4 = true :=
  ⟨famOK_2, famOK_3, famOK_4, sec01OK_2, sec01OK_3, sec01OK_4⟩

/-- **C02, whole message.**  Editions 2, 3, 4; section 2 supplied (`s2 = some …`) or not, as the flag
    in section 1 says; any values for the sections, any data bits `dataBits`: the bytes `Encoder.process`
    produces (lengths recomputed) are the canonical message, and it refuses exactly when the canonical
    message does not exist. -/
theorem C02_message_canonical (ed : Nat) (hed : ed = 2 ∨ ed = 3 ∨ ed = 4)
    (cfg : EncCfg) (hc : cfg.ignoreDeclared = true)
    (sig : List UInt8) (len : Int) (s1 : List PVal) (s2 : Option (List PVal)) (s3 s4 s5 : List PVal)
    (dataBits : Bits) (hflag : s1[sec2FlagIndex ed]? = some (.bool s2.isSome)) :
    ((encode Gen.layouts cfg ([.bytes sig, .int len, .int ed] :: s1 :: (s2.toList ++ [s3, s4, s5])) dataBits).toOption.map
        (·.bytes))
      = (canonMessageBits ed [.bytes sig, .int len, .int ed] s1 s2 s3 s4 s5 dataBits).map bitsToBytes := by
  have hbits : (encodeBits Gen.layouts cfg ([.bytes sig, .int len, .int ed] :: s1 :: (s2.toList ++ [s3, s4, s5])) dataBits).toOption.map (·.1)
      = canonMessageBits ed [.bytes sig, .int len, .int ed] s1 s2 s3 s4 s5 dataBits := by
    rcases hed with rfl | rfl | rfl
    · exact encodeBits_canon 2 famOK_2 sec01OK_2 cfg hc sig len s1 s2 s3 s4 s5 dataBits hflag
    · exact encodeBits_canon 3 famOK_3 sec01OK_3 cfg hc sig len s1 s2 s3 s4 s5 dataBits hflag
    · exact encodeBits_canon 4 famOK_4 sec01OK_4 cfg hc sig len s1 s2 s3 s4 s5 dataBits hflag
  rw [← hbits]
  unfold encode
  cases encodeBits Gen.layouts cfg ([.bytes sig, .int len, .int ed] :: s1 :: (s2.toList ++ [s3, s4, s5])) dataBits with
  | error e => rfl
  | ok r => obtain ⟨w, tr⟩ := r; rfl

/-- **template + values ↦ the canonical message**: the data section theorem put into the message
    theorem.  Whatever `Encoder.process_template_data` writes for the template `ids` and the value
    lists is `canonDataBits`, and the message around it is `canonMessageBits`. -/
theorem C02_message_data_canonical (ed : Nat) (hed : ed = 2 ∨ ed = 3 ∨ ed = 4)
    (cfg : EncCfg) (hc : cfg.ignoreDeclared = true)
    (sig : List UInt8) (len : Int) (s1 : List PVal) (s2 : Option (List PVal)) (s3 s4 s5 : List PVal)
    (hflag : s1[sec2FlagIndex ed]? = some (.bool s2.isSome))
    (T : Tables) {d fuel depth : Nat} {ids : List Nat} (hwf : WFflat T d ids) (hfuel : d ≤ fuel) (hdepth : d ≤ depth)
    (compressed : Bool) (valss : List (List Val)) :
    ((buildD T depth ids >>= fun t => encodeData t compressed valss).toOption.bind fun r =>
        (encode Gen.layouts cfg ([.bytes sig, .int len, .int ed] :: s1 :: (s2.toList ++ [s3, s4, s5])) r.2).toOption.map (·.bytes))
      = (canonDataBits T fuel ids compressed valss).bind fun bits =>
          (canonMessageBits ed [.bytes sig, .int len, .int ed] s1 s2 s3 s4 s5 bits).map bitsToBytes := by
  rw [← C02_data_bits_canonical T hwf hfuel hdepth compressed valss]
  cases (buildD T depth ids >>= fun t => encodeData t compressed valss) with
  | error e => rfl
  | ok r =>
    simp only [Except.toOption, Option.bind_some, Option.map_some]
    exact C02_message_canonical ed hed cfg hc sig len s1 s2 s3 s4 s5 r.2 hflag

/-! ### the sections, spelled out -/


def sec3Params : List Param :=
  [{ name := "section_length", nbits := 24, ty := .uint, expected := none, asProperty := false },
   { name := "reserved_bits", nbits := 8, ty := .bin, expected := none, asProperty := false },
   { name := "n_subsets", nbits := 16, ty := .uint, expected := none, asProperty := true },
   { name := "is_observation", nbits := 1, ty := .bool, expected := none, asProperty := true },
   { name := "is_compressed", nbits := 1, ty := .bool, expected := none, asProperty := true },
   { name := "flag_bits", nbits := 6, ty := .bin, expected := none, asProperty := false },
   { name := "unexpanded_descriptors", nbits := 0, ty := .descriptors, expected := none, asProperty := true }]

def sec4Params : List Param :=
  [{ name := "section_length", nbits := 24, ty := .uint, expected := none, asProperty := false },
   { name := "reserved_bits", nbits := 8, ty := .bin, expected := none, asProperty := false },
   { name := "template_data", nbits := 0, ty := .templateData, expected := none, asProperty := true }]

def sec5Params : List Param :=
  [{ name := "stop_signature", nbits := 32, ty := .bytes, expected := some [55, 55, 55, 55], asProperty := false }]

/-- sections 3, 4, 5 of the regenerated definitions are what the statements below spell out -/
theorem C02_bundled_sections_345 :
    ∀ ed ∈ [2, 3, 4], (lay 3 ed).params = sec3Params ∧ (lay 4 ed).params = sec4Params ∧
      (lay 5 ed).params = sec5Params ∧ (lay 3 ed).hasParam "section_length" = true ∧
      (lay 4 ed).hasParam "section_length" = true ∧ (lay 5 ed).hasParam "section_length" = false := by
  decide

/-- the descriptor list of section 3: every descriptor F X Y on 2 + 6 + 8 bits = the 16-bit number
    `F·2^14 + X·2^8 + Y` (`C02_descriptor_list_packing`), in order; refused when a part does not fit -/
theorem C02_descriptors_code (ids : List Nat) (h : ∀ id ∈ ids, LegalFXY id) :
    (ids.mapM descCode).map List.flatten
      = some (ids.map fun id => toBits 16 (fOf id * 2 ^ 14 + xOf id * 2 ^ 8 + yOf id)).flatten := by
  induction ids with
  | nil => rfl
  | cons id ids ih =>
    obtain ⟨hF, hX, hY⟩ := h id (by simp)
    have ih' := ih (fun x hx => h x (by simp [hx]))
    simp only [List.mapM_cons, descCode, hF, hX, hY, and_self, if_true, Option.bind_some]
    cases hm : ids.mapM descCode with
    | none => rw [hm] at ih'; cases ih'
    | some cs =>
      rw [hm] at ih'
      simp only [Option.map_some, Option.some.injEq] at ih'
      simp [ih', toBits_fxy _ _ _ hF hX hY]

/-- **section 3** as it appears in the message: length, reserved octet, number of subsets on 16 bits,
    the observed / compressed flags, 6 flag bits, the descriptor list packed 2/6/8, zero padding -/
theorem C02_section3_canonical (ed : Nat) (hed : ed ∈ [2, 3, 4]) (d : Int) (r : Bits) (n : Int) (obs comp : Bool)
    (fl : Bits) (ids : List Nat) (dataBits : Bits)
    (hd : 0 ≤ d ∧ d < 2 ^ 24) (hn : 0 ≤ n ∧ n < 2 ^ 16) (hids : ∀ id ∈ ids, LegalFXY id) :
    let content := r ++ toBits 16 n.toNat ++ [obs] ++ [comp] ++ fl ++
      (ids.map fun id => toBits 16 (fOf id * 2 ^ 14 + xOf id * 2 ^ 8 + yOf id)).flatten
    let pad := sectionPad ed (24 + content.length)
    canonSection ed (lay 3 ed) [.int d, .bin r, .int n, .bool obs, .bool comp, .bin fl, .descs ids] dataBits
      = if (24 + content.length + pad) / 8 < 2 ^ 24 then
          some (toBits 24 ((24 + content.length + pad) / 8) ++ content ++ zeros pad)
        else none := by
  obtain ⟨p3, _, _, h3, _, _⟩ := C02_bundled_sections_345 ed hed
  intro content pad
  have hc : sectionContent dataBits sec3Params [.int d, .bin r, .int n, .bool obs, .bool comp, .bin fl, .descs ids]
      = some (toBits 24 d.toNat ++ content) := by
    have h1 : uintCode 24 d = some (toBits 24 d.toNat) := by have := hd.2; simp [uintCode, hd.1]; omega
    have h2 : uintCode 16 n = some (toBits 16 n.toNat) := by have := hn.2; simp [uintCode, hn.1]; omega
    simp [sectionContent, sec3Params, paramCode, h1, h2, C02_descriptors_code ids hids, content, List.append_assoc]
  have hl : (toBits 24 d.toNat ++ content).length = 24 + content.length := by
    simp [toBits_length]
  simp only [canonSection, p3, hc, Option.bind_some, h3, if_true, hl]
  have hdrop : (toBits 24 d.toNat ++ content ++ zeros (sectionPad ed (24 + content.length))).drop 24
      = content ++ zeros (sectionPad ed (24 + content.length)) := by
    rw [List.append_assoc, List.drop_left' (toBits_length _ _)]
  have hlen : (toBits 24 d.toNat ++ content ++ zeros (sectionPad ed (24 + content.length))).length
      = 24 + content.length + pad := by
    simp [toBits_length, zeros, pad]; omega
  rw [hdrop, hlen]
  simp [List.append_assoc, pad]

/-- **section 4** as it appears in the message: 3 octets length, the reserved octet, the data bits, the
    zero padding (`canonSection4`) -/
theorem C02_section4_canonical (ed : Nat) (hed : ed ∈ [2, 3, 4]) (d : Int) (r : Bits) (v : PVal) (dataBits : Bits)
    (hd : 0 ≤ d ∧ d < 2 ^ 24) :
    canonSection ed (lay 4 ed) [.int d, .bin r, v] dataBits
      = if (24 + r.length + dataBits.length + sectionPad ed (24 + r.length + dataBits.length)) / 8 < 2 ^ 24 then
          some (canonSection4 ed r dataBits)
        else none := by
  obtain ⟨_, p4, _, _, h4, _⟩ := C02_bundled_sections_345 ed hed
  have hc : sectionContent dataBits sec4Params [.int d, .bin r, v] = some (toBits 24 d.toNat ++ (r ++ dataBits)) := by
    have h1 : uintCode 24 d = some (toBits 24 d.toNat) := by have := hd.2; simp [uintCode, hd.1]; omega
    simp [sectionContent, sec4Params, paramCode, h1]
  have hl : (toBits 24 d.toNat ++ (r ++ dataBits)).length = 24 + r.length + dataBits.length := by
    simp [toBits_length]; omega
  simp only [canonSection, p4, hc, Option.bind_some, h4, if_true, hl, canonSection4]
  have hdrop : (toBits 24 d.toNat ++ (r ++ dataBits) ++ zeros (sectionPad ed (24 + r.length + dataBits.length))).drop 24
      = r ++ dataBits ++ zeros (sectionPad ed (24 + r.length + dataBits.length)) := by
    rw [List.append_assoc, List.drop_left' (toBits_length _ _), List.append_assoc]
  have hlen : (toBits 24 d.toNat ++ (r ++ dataBits) ++ zeros (sectionPad ed (24 + r.length + dataBits.length))).length
      = 24 + r.length + dataBits.length + sectionPad ed (24 + r.length + dataBits.length) := by
    simp [toBits_length, zeros]; omega
  rw [hdrop, hlen]
  simp [List.append_assoc]

/-- **section 5**: the four octets supplied as stop signature (`7777`), nothing else -/
theorem C02_section5_canonical (ed : Nat) (hed : ed ∈ [2, 3, 4]) (stop : List UInt8) (dataBits : Bits) :
    canonSection ed (lay 5 ed) [.bytes stop] dataBits = some (bytesToBits (padBytes stop 4)) := by
  obtain ⟨_, _, p5, _, _, h5⟩ := C02_bundled_sections_345 ed hed
  have hl : (bytesToBits (padBytes stop 4)).length = 32 := by rw [bytesToBits_length, padBytes_length]
  simp [canonSection, p5, sec5Params, sectionContent, paramCode, h5, hl]
  simp [sectionPad, zeros]

/-- the padding rule: whole octets; an even number of octets for editions up to 3; never more than
    needed (fewer than 8, resp. 16, bits); it is the padding `process_section` computes -/
theorem C02_section_padding (ed : Int) (n : Nat) :
    (n + sectionPad ed n) % 8 = 0 ∧ (ed ≤ 3 → (n + sectionPad ed n) % 16 = 0) ∧
    sectionPad ed n < 16 ∧ (3 < ed → sectionPad ed n < 8) ∧ sectionPad ed n = padBits ed n := by
  refine ⟨?_, ?_, ?_, ?_, (padBits_eq_sectionPad ed n).symm⟩
  · unfold sectionPad; split <;> omega
  · intro h; simp only [sectionPad, h, if_true]; omega
  · unfold sectionPad; split <;> omega
  · intro h
    have : ¬ ed ≤ 3 := by omega
    simp only [sectionPad, this, if_false]; omega


/-! ### non-vacuity: whole messages of editions 4, 3 (with section 2, compressed) and 2, over the template
    and data bits of `C02Ex` (a Table D sequence, a delayed replication, 201YYY, a character element,
    two subsets) -/
namespace C02MsgEx
open C02Ex

def exS1v4 : List PVal :=
  [.int 0, .int 0, .int 98, .int 0, .int 0, .bool false, .bin (zeros 7), .int 2, .int 4, .int 0, .int 29, .int 0,
   .int 2026, .int 9, .int 29, .int 12, .int 0, .int 0]
def exS1v3 : List PVal :=
  [.int 0, .int 0, .int 0, .int 98, .int 0, .bool true, .bin (zeros 7), .int 2, .int 0, .int 13, .int 0,
   .int 26, .int 9, .int 29, .int 12, .int 0, .int 0]
def exS1v2 : List PVal :=
  [.int 0, .int 0, .int 98, .int 0, .bool false, .bin (zeros 7), .int 2, .int 0, .int 13, .int 0,
   .int 26, .int 9, .int 29, .int 12, .int 0, .int 0]
def exS2 : List PVal := [.int 0, .bin (zeros 8), .bin (toBits 8 171 ++ toBits 8 205 ++ toBits 8 239)]
def exS3 (comp : Bool) : List PVal :=
  [.int 0, .bin (zeros 8), .int 2, .bool true, .bool comp, .bin (zeros 6), .descs exIds]
def exS4 : List PVal := [.int 0, .bin (zeros 8), .data]
def exS5 : List PVal := [.bytes [55, 55, 55, 55]]
def sig : List UInt8 := [66, 85, 70, 82]

/-- edition 4, no section 2, uncompressed: 73 octets -/
def msg4 : List UInt8 :=
  [66, 85, 70, 82, 0, 0, 73, 4, 0, 0, 22, 0, 0, 98, 0, 0, 0, 0, 2, 4, 0, 29, 0, 7, 234, 9, 29, 12, 0, 0, 0, 0, 21, 0,
   0, 2, 128, 193, 1, 67, 0, 31, 1, 129, 130, 12, 1, 129, 0, 1, 15, 0, 0, 18, 0, 10, 64, 129, 44, 255, 253, 4, 128, 55, 1,
   0, 183, 255, 252, 55, 55, 55, 55]

/-- edition 3, with section 2, compressed: every section an even number of octets (section 2: 7 -> 8,
    section 3: 21 -> 22, section 4: 19 -> 20) -/
def msg3 : List UInt8 :=
  [66, 85, 70, 82, 0, 0, 80, 3, 0, 0, 18, 0, 0, 98, 0, 128, 2, 0, 13, 0, 26, 9, 29, 12, 0, 0, 0, 0, 8, 0, 171, 205,
   239, 0, 0, 0, 22, 0, 0, 2, 192, 193, 1, 67, 0, 31, 1, 129, 130, 12, 1, 129, 0, 1, 15, 0, 0, 0, 20, 0, 10, 1, 12, 32,
   16, 1, 44, 8, 192, 0, 2, 65, 66, 67, 32, 0, 55, 55, 55, 55]

def msg2 : List UInt8 :=
  [66, 85, 70, 82, 0, 0, 70, 2, 0, 0, 18, 0, 0, 98, 0, 0, 2, 0, 13, 0, 26, 9, 29, 12, 0, 0, 0, 0, 22, 0, 0, 2, 128,
   193, 1, 67, 0, 31, 1, 129, 130, 12, 1, 129, 0, 1, 15, 0, 0, 0, 18, 0, 10, 64, 129, 44, 255, 253, 4, 128, 55, 1, 0, 183,
   255, 252, 55, 55, 55, 55]

theorem canon4 : (canonMessageBits 4 [.bytes sig, .int 0, .int 4] exS1v4 none (exS3 false) exS4 exS5 exBits).map bitsToBytes
    = some msg4 := by decide +kernel
theorem canon3 : (canonMessageBits 3 [.bytes sig, .int 0, .int 3] exS1v3 (some exS2) (exS3 true) exS4 exS5 exBitsC).map bitsToBytes
    = some msg3 := by decide +kernel
theorem canon2 : (canonMessageBits 2 [.bytes sig, .int 0, .int 2] exS1v2 none (exS3 false) exS4 exS5 exBits).map bitsToBytes
    = some msg2 := by decide +kernel

/-- the hypotheses of `C02_message_canonical` are satisfiable (each edition; without and with section 2),
    and the encoder's bytes are the bytes computed from the specification alone -/
example : (encode Gen.layouts {} ([.bytes sig, .int 0, .int (4 : Nat)] :: exS1v4 :: ((none : Option (List PVal)).toList ++ [exS3 false, exS4, exS5])) exBits).toOption.map (·.bytes)
    = some msg4 :=
  (C02_message_canonical 4 (by decide) {} rfl sig 0 exS1v4 none (exS3 false) exS4 exS5 exBits (by decide)).trans canon4

example : (encode Gen.layouts {} ([.bytes sig, .int 0, .int (3 : Nat)] :: exS1v3 :: ((some exS2).toList ++ [exS3 true, exS4, exS5])) exBitsC).toOption.map (·.bytes)
    = some msg3 :=
  (C02_message_canonical 3 (by decide) {} rfl sig 0 exS1v3 (some exS2) (exS3 true) exS4 exS5 exBitsC (by decide)).trans canon3

example : (encode Gen.layouts {} ([.bytes sig, .int 0, .int (2 : Nat)] :: exS1v2 :: ((none : Option (List PVal)).toList ++ [exS3 false, exS4, exS5])) exBits).toOption.map (·.bytes)
    = some msg2 :=
  (C02_message_canonical 2 (by decide) {} rfl sig 0 exS1v2 none (exS3 false) exS4 exS5 exBits (by decide)).trans canon2

/-- template + values -> message (`C02_message_data_canonical`), edition 3, section 2, compressed -/
example : ((buildD exT 1 exIds >>= fun t => encodeData t true exValsC).toOption.bind fun r =>
      (encode Gen.layouts {} ([.bytes sig, .int 0, .int (3 : Nat)] :: exS1v3 :: ((some exS2).toList ++ [exS3 true, exS4, exS5])) r.2).toOption.map (·.bytes))
    = some msg3 := by
  rw [C02_message_data_canonical 3 (by decide) {} rfl sig 0 exS1v3 (some exS2) (exS3 true) exS4 exS5 (by decide)
    exT wf_ex (Nat.le_refl 1) (Nat.le_refl 1) true exValsC, canon_exC, Option.bind_some]
  exact canon3

/-- a section value without a code (n_subsets = 70000 does not fit 16 bits): no canonical message, and
    (by the theorem) the encoder refuses -/
example : (encode Gen.layouts {} ([.bytes sig, .int 0, .int (4 : Nat)] :: exS1v4 ::
      ((none : Option (List PVal)).toList ++ [[.int 0, .bin (zeros 8), .int 70000, .bool true, .bool false, .bin (zeros 6), .descs exIds], exS4, exS5])) exBits).toOption.map (·.bytes)
    = none := by
  rw [C02_message_canonical 4 (by decide) {} rfl sig 0 exS1v4 none _ exS4 exS5 exBits (by decide)]
  decide +kernel

/-- hypotheses of the section theorems -/
example : canonSection (4 : Nat) (lay 4 4) [.int 0, .bin (zeros 8), .data] exBits = some (canonSection4 (4 : Nat) (zeros 8) exBits) := by
  rw [C02_section4_canonical 4 (by decide) 0 (zeros 8) .data exBits (by decide)]; decide +kernel

example : ∀ id ∈ exIds, LegalFXY id := by decide

end C02MsgEx

end Bufr
