/-
  C11 — a byte stream is split into exactly the messages it contains.
  Property theorems only; the model is `Msg/Stream.lean` (`scan` mirrors `generate_bufr_message`), lemmas and
  vocabulary (`Quiet`, `Piece`, `body`, `deliver`, `Frame`, `ValidMsg`) in `Lemmas/Stream.lean`.

  Quantification: every per-offset decoder `dec` that satisfies the frame property (a successful decoding
  is not affected by the bytes that follow: for the section model this is `C12_ofSections_frame`), every
  list of valid messages (any length, any content), every leading separator and every separator after a
  message that is *quiet*, both scanning modes, both settings of continue-on-error.

  "Quiet" is the precise no-border condition: the first occurrence of `BUFR` in `sep ++ "BUFR"` is the
  appended one.  `C11_quiet_iff_no_signature` shows that this is exactly "the separator does not contain
  the start signature" (an occurrence straddling the end of a separator is impossible because no proper
  suffix of `BUFR` is a prefix of it), so `BUF`, `BU`, `B` and `…7777BUF` are legal separators.

  The stream is `sep0 ++ m1 ++ sep1 ++ … ++ mk ++ sepk` = `sep0 ++ body [⟨m1, sep1⟩, …, ⟨mk, sepk⟩]`.
-/
import BufrModel.Msg.Stream
import BufrModel.Lemmas.Stream
namespace Bufr.Stream

/-- the loop needs no more fuel than `scan` gives it: with any two amounts above the stream length the
    result is the same (every iteration either ends the scan — `done`, `error`, `loops` — or advances by
    at least one byte) -/
theorem C11_scan_fuel_irrelevant {μ : Type} (dec : Dec μ) (cfg : Cfg μ) (f : Nat) (s : Bytes) (h : s.length < f) :
    scanFuel dec cfg f 0 s = scan dec cfg s :=
  scanFuel_fuel_irrelevant dec cfg f (s.length + 1) 0 s h (Nat.lt_succ_self _)

/-- a separator is quiet iff the start signature does not occur in it -/
theorem C11_quiet_iff_no_signature (sep : Bytes) : Quiet sep ↔ ¬ sig <:+: sep :=
  ⟨not_infix_of_quiet sep, quiet_of_not_infix sep⟩

/-- **exactly the messages**: without a filter, in either mode, the scan of
    `sep0 ++ m1 ++ sep1 ++ … ++ mk ++ sepk` yields one item per message — at the message's offset, with
    exactly the message's bytes and the decoding of the message alone in that mode — and then ends
    normally. -/
theorem C11_scan_exact {μ : Type} (dec : Dec μ) (cfg : Cfg μ) (hf : cfg.filter = none) (hfr : Frame dec)
    (sep0 : Bytes) (ps : List Piece) (h0 : ¬ sig <:+: sep0)
    (hv : ∀ p ∈ ps, ValidMsg dec p.msg) (hs : ∀ p ∈ ps, ¬ sig <:+: p.sep) :
    scan dec cfg (sep0 ++ body ps) =
      (deliver (fun p => (p.msg.length, (dec cfg.infoOnly p.msg).toOption)) sep0.length ps, .done) :=
  scan_pieces_done dec cfg _ sep0 ps (quiet_of_not_infix _ h0)
    (fun p hp => behaves_valid dec cfg hf hfr p (hv p hp) (quiet_of_not_infix _ (hs p hp)))

/-- ... read off: the offsets and the bytes are those of the messages, in order, and nothing else -/
theorem C11_scan_exact_bytes {μ : Type} (dec : Dec μ) (cfg : Cfg μ) (hf : cfg.filter = none) (hfr : Frame dec)
    (sep0 : Bytes) (ps : List Piece) (h0 : ¬ sig <:+: sep0)
    (hv : ∀ p ∈ ps, ValidMsg dec p.msg) (hs : ∀ p ∈ ps, ¬ sig <:+: p.sep) :
    (scan dec cfg (sep0 ++ body ps)).1.map (fun it => (it.offset, it.bytes)) =
      (offsets sep0.length ps).map (fun q => (q.1, q.2.msg)) ∧
    (scan dec cfg (sep0 ++ body ps)).2 = .done := by
  rw [C11_scan_exact dec cfg hf hfr sep0 ps h0 hv hs]
  refine ⟨?_, rfl⟩
  have h := deliver_offsets (fun p => (p.msg.length, (dec cfg.infoOnly p.msg).toOption)) (fun _ => true) sep0.length ps
    (fun p hp => by
      obtain ⟨i, hi, _⟩ := (hv p hp).mode cfg.infoOnly
      simp only [hi, Except.toOption, Option.isSome_some])
  rw [filter_true] at h
  exact h

/-- **a start signature inside a message body does not begin a new message** — the hypotheses of
    `C11_scan_exact` constrain the separators only; stated separately for one message whose body DOES
    contain the signature (and the stop signature): it is yielded once, whole. -/
theorem C11_inner_signature_ignored {μ : Type} (dec : Dec μ) (cfg : Cfg μ) (hf : cfg.filter = none) (hfr : Frame dec)
    (sep0 m sep1 : Bytes) (i : MsgInfo μ) (h0 : ¬ sig <:+: sep0) (h1 : ¬ sig <:+: sep1) (hv : ValidMsg dec m)
    (_hinner : sig <:+: m.drop 4) (hi : dec cfg.infoOnly m = .ok i) :
    scan dec cfg (sep0 ++ m ++ sep1) = ([{ offset := sep0.length, bytes := m, info := i }], .done) := by
  have := C11_scan_exact dec cfg hf hfr sep0 [⟨m, sep1⟩] h0 (by simpa using hv) (by simpa using h1)
  simp only [body, List.append_nil, deliver, hi, Except.toOption, Option.map_some, yielded] at this
  rw [List.append_assoc]; exact this

/-- **writing the pieces out and concatenating them reproduces the messages** (and drops the separators) -/
theorem C11_concat_pieces {μ : Type} (dec : Dec μ) (cfg : Cfg μ) (hf : cfg.filter = none) (hfr : Frame dec)
    (sep0 : Bytes) (ps : List Piece) (h0 : ¬ sig <:+: sep0)
    (hv : ∀ p ∈ ps, ValidMsg dec p.msg) (hs : ∀ p ∈ ps, ¬ sig <:+: p.sep) :
    ((scan dec cfg (sep0 ++ body ps)).1.map (·.bytes)).flatten = (ps.map (·.msg)).flatten := by
  rw [C11_scan_exact dec cfg hf hfr sep0 ps h0 hv hs]
  have h := deliver_bytes (fun p => (p.msg.length, (dec cfg.infoOnly p.msg).toOption)) (fun _ => true) sep0.length ps
    (fun p hp => by
      obtain ⟨i, hi, _⟩ := (hv p hp).mode cfg.infoOnly
      simp only [hi, Except.toOption, Option.isSome_some])
  rw [filter_true] at h
  rw [h]

/-- **filter**: with a filter expression whose value on the metadata of message `p` is `keep p` (the
    expression is evaluated on the METADATA-ONLY decoding, in both modes), the scan yields exactly the
    messages for which it is true — each at its offset, whole, with the decoding of the scanning mode — and
    then ends normally.  An unmatched message advances by its declared length when only metadata is read
    and by the span of the metadata-only decoding (`infoSpan`, everything up to the end of section 4)
    when data sections are decoded: the scan then re-synchronises on what is left of the message (`7777`)
    plus the separator, which therefore has to be quiet (`C11_stop_signature_tail_is_quiet`).  A rejected TABLE
    DEFINITION message (`cfg.tableDef` of its metadata-only decoding) is decoded in full when data sections are
    decoded (repair F25: its definitions govern what follows) and advances by its whole length. -/
theorem C11_filter_exact {μ : Type} (dec : Dec μ) (cfg : Cfg μ) (pred : MsgInfo μ → Except Err Bool)
    (hf : cfg.filter = some pred) (hfr : Frame dec) (keep : Piece → Bool)
    (sep0 : Bytes) (ps : List Piece) (h0 : ¬ sig <:+: sep0)
    (hv : ∀ p ∈ ps, ValidMsg dec p.msg) (hs : ∀ p ∈ ps, ¬ sig <:+: p.sep)
    (hpred : ∀ p ∈ ps, ∀ i, dec true p.msg = .ok i → pred i = .ok (keep p))
    (hun : ∀ p ∈ ps, keep p = false → cfg.infoOnly = false → isDefPiece dec cfg p = false →
      0 < infoSpan dec p.msg ∧ infoSpan dec p.msg ≤ p.msg.length ∧
      Quiet (p.msg.drop (infoSpan dec p.msg) ++ p.sep)) :
    scan dec cfg (sep0 ++ body ps) = (deliver (actFilter dec cfg keep) sep0.length ps, .done) ∧
    (scan dec cfg (sep0 ++ body ps)).1.map (fun it => (it.offset, it.bytes)) =
      ((offsets sep0.length ps).filter (fun q => keep q.2)).map (fun q => (q.1, q.2.msg)) := by
  have h := scan_pieces_done dec cfg (actFilter dec cfg keep) sep0 ps (quiet_of_not_infix _ h0)
    (fun p hp => behaves_filter dec cfg pred hf hfr keep p (hv p hp) (hpred p hp)
      (quiet_of_not_infix _ (hs p hp)) (hun p hp))
  refine ⟨h, ?_⟩
  rw [h]
  apply deliver_offsets
  intro p hp
  obtain ⟨i, hi, _⟩ := (hv p hp).mode cfg.infoOnly
  cases hk : keep p with
  | true => simp only [actFilter, hk, if_true, hi, Except.toOption, Option.isSome_some]
  | false => simp only [actFilter, hk, Bool.false_eq_true, if_false, Option.isSome_none]

/-- **one iteration at a rejected message** (arbitrary predicate, arbitrary continuation `x` of the stream —
    the empty separator included): nothing is yielded and the position advances by EXACTLY the length of the
    message when only metadata is read (the declared-length slice already is the whole message: no further
    bytes are stepped over), and by the span of the metadata-only decoding when data sections are decoded.
    In neither mode does the advance exceed the message (see `C11_rejected_advance_le`). -/
theorem C11_rejected_advance {μ : Type} (dec : Dec μ) (cfg : Cfg μ) (pred : MsgInfo μ → Except Err Bool)
    (hf : cfg.filter = some pred) (hfr : Frame dec) (m x : Bytes) (hv : ValidMsg dec m)
    (hrej : ∀ i, dec true m = .ok i → pred i = .ok false)
    (hspan : cfg.infoOnly = false → infoSpan dec m ≤ m.length) :
    step dec cfg (m ++ x) =
      .adv (if cfg.infoOnly then m.length else if isDefMsg dec cfg m then m.length else infoSpan dec m) none := by
  obtain ⟨ii, hii, hdecl⟩ := hv.info
  obtain ⟨fi, hfi, hcons, _⟩ := hv.full
  have hp := hrej ii hii
  have h1 := hfr true m x ii hii
  cases hb : cfg.infoOnly with
  | true =>
    simp only [step, tryBody, decodeHere, hf, h1, hp, hb, hdecl, take_length_append, Bool.not_true, Bool.and_false,
      if_true, Bool.false_eq_true, if_false]
  | false =>
    have hdef : isDefMsg dec cfg m = cfg.tableDef ii := by simp only [isDefMsg, hii]
    cases htd : cfg.tableDef ii with
    | true =>
      have h2 := hfr false m x fi hfi
      simp only [step, tryBody, decodeHere, hf, h1, hp, hb, h2, hdef, htd, hcons, take_length_append, Bool.not_false,
        Bool.false_or, Bool.and_self, if_true, Bool.false_eq_true, if_false]
    | false =>
      have hs : infoSpan dec m = ii.consumed := by simp only [infoSpan, hii]
      have hle := hspan hb
      rw [hs] at hle
      have hl : (List.take ii.consumed (m ++ x)).length = ii.consumed := by
        rw [List.length_take, List.length_append]; omega
      simp only [step, tryBody, decodeHere, hf, h1, hp, hb, hl, hs, hdef, htd, Bool.false_or, Bool.false_and,
        Bool.false_eq_true, if_false]

/-- ... in both modes the scan position after a rejected message is inside or at the end of that message,
    never behind it: whatever follows the message (a separator of any length, or the next message at once)
    is still searched -/
theorem C11_rejected_advance_le {μ : Type} (dec : Dec μ) (cfg : Cfg μ) (pred : MsgInfo μ → Except Err Bool)
    (hf : cfg.filter = some pred) (hfr : Frame dec) (m x : Bytes) (hv : ValidMsg dec m)
    (hrej : ∀ i, dec true m = .ok i → pred i = .ok false)
    (hspan : cfg.infoOnly = false → infoSpan dec m ≤ m.length) :
    ∃ n, step dec cfg (m ++ x) = .adv n none ∧ n ≤ m.length ∧ (cfg.infoOnly = true → n = m.length) := by
  refine ⟨_, C11_rejected_advance dec cfg pred hf hfr m x hv hrej hspan, ?_, ?_⟩
  · cases hb : cfg.infoOnly with
    | true => simp
    | false =>
      cases hd : isDefMsg dec cfg m with
      | true => simp
      | false => simpa using hspan hb
  · intro hb; simp [hb]

/-- **the message after a rejected one is found**, in both modes and for ANY signature-free separator
    (the empty one included): after the advance of `C11_rejected_advance` the next signature the search finds
    is the first byte of the next message.  (Full mode: what is left of the rejected message, its end
    section, must not form a signature with the separator — `C11_stop_signature_tail_is_quiet`.) -/
theorem C11_rejected_resync (m sep next : Bytes) (n : Nat) (hn : n ≤ m.length)
    (hq : Quiet (m.drop n ++ sep)) :
    findSig ((m ++ (sep ++ (sig ++ next))).drop n) = some (m.length - n + sep.length) := by
  have h : (m ++ (sep ++ (sig ++ next))).drop n = (m.drop n ++ sep) ++ (sig ++ next) := by
    rw [List.drop_append_of_le_length hn, List.append_assoc]
  rw [h, findSig_quiet_append _ _ hq]
  simp only [List.length_append, List.length_drop]

/-- ... when only metadata is read: right behind the separator, for every signature-free separator -/
theorem C11_rejected_resync_info_only (m sep next : Bytes) (hs : ¬ sig <:+: sep) :
    findSig ((m ++ (sep ++ (sig ++ next))).drop m.length) = some sep.length := by
  have h := C11_rejected_resync m sep next m.length (Nat.le_refl _)
    (by simpa using quiet_of_not_infix sep hs)
  simpa using h

/-- what an unmatched message leaves behind in the section model (`7777`) keeps a signature-free
    separator quiet -/
theorem C11_stop_signature_tail_is_quiet (sep : Bytes) (h : ¬ sig <:+: sep) : Quiet (stopSig ++ sep) :=
  quiet_stop_append sep (quiet_of_not_infix sep h)

/-! ## non-vacuity: a toy decoder (every message is 12 bytes starting with the signature) -/

def toyDec : Dec Unit := fun b s =>
  if sig.isPrefixOf s && decide (12 ≤ s.length) then .ok { consumed := if b then 8 else 12, declared := 12, msg := () }
  else .error .lib

/-- `BUFR BUFR 7777`: a valid toy message whose body contains both signatures -/
def toyMsg : Bytes := sig ++ sig ++ stopSig

theorem toyDec_frame : Frame toyDec := by
  intro b m x i h
  unfold toyDec at h ⊢
  by_cases hc : (sig.isPrefixOf m && decide (12 ≤ m.length)) = true
  · have hc' := hc
    simp only [Bool.and_eq_true, decide_eq_true_eq] at hc'
    have h2 : (sig.isPrefixOf (m ++ x) && decide (12 ≤ (m ++ x).length)) = true := by
      simp only [Bool.and_eq_true, decide_eq_true_eq, List.length_append]
      exact ⟨isPrefixOf_append_mono m x hc'.1, by omega⟩
    rw [if_pos hc] at h
    rw [if_pos h2]; exact h
  · rw [if_neg hc] at h; cases h

theorem toyMsg_valid : ValidMsg toyDec toyMsg :=
  ⟨⟨sig ++ stopSig, by decide⟩, ⟨_, rfl, by decide, by decide⟩, ⟨_, rfl, by decide⟩⟩

example : sig <:+: toyMsg.drop 4 := ⟨[], stopSig, by decide⟩

/-- the scan of `BUF ++ msg ++ "7777BUF" ++ msg` in the toy instance: two items at offsets 3 and 22 -/
example : (scan toyDec {} ([66, 85, 70] ++ toyMsg ++ ([55, 55, 55, 55, 66, 85, 70] ++ toyMsg))).1.map (·.offset) = [3, 22] := by
  decide +kernel

/-- a filter that rejects everything, full mode: the unmatched branch advances by the metadata span (8)
    and the scan still finds the second message -/
example : (scan toyDec { filter := some fun _ => .ok false } (toyMsg ++ toyMsg)) = ([], .done) := by
  decide +kernel

/-- a rejected toy message followed AT ONCE by the next one (empty separator), metadata only: the iteration
    advances by 12 = the whole message, and the second message is found and examined -/
example : step toyDec { infoOnly := true, filter := some fun _ => .ok false } (toyMsg ++ toyMsg) = .adv toyMsg.length none :=
  C11_rejected_advance toyDec { infoOnly := true, filter := some fun _ => .ok false } (fun _ => .ok false) rfl toyDec_frame
    toyMsg toyMsg toyMsg_valid (fun _ _ => rfl) (fun h => by cases h)

example : infoSpan toyDec toyMsg = 8 := by decide +kernel

/-- full mode: by the metadata-only span (8 of the 12 bytes) -/
example : step toyDec { filter := some fun _ => .ok false } (toyMsg ++ toyMsg) = .adv (infoSpan toyDec toyMsg) none :=
  C11_rejected_advance toyDec { filter := some fun _ => .ok false } (fun _ => .ok false) rfl toyDec_frame
    toyMsg toyMsg toyMsg_valid (fun _ _ => rfl) (fun _ => by decide +kernel)

example : ∃ n, step toyDec { filter := some fun _ => .ok false } (toyMsg ++ toyMsg) = .adv n none ∧ n ≤ toyMsg.length ∧
    (({ filter := some fun _ => .ok false } : Cfg Unit).infoOnly = true → n = toyMsg.length) :=
  C11_rejected_advance_le toyDec { filter := some fun _ => .ok false } (fun _ => .ok false) rfl toyDec_frame
    toyMsg toyMsg toyMsg_valid (fun _ _ => rfl) (fun _ => by decide +kernel)

/-- full mode, empty separator: the rest of the rejected toy message (`7777`) is quiet, the next message is found
    4 bytes on -/
example : findSig ((toyMsg ++ ([] ++ (sig ++ [1, 2]))).drop 8) = some (toyMsg.length - 8 + 0) :=
  C11_rejected_resync toyMsg [] [1, 2] 8 (by decide) (by unfold Quiet; decide +kernel)

/-- the second of two contiguous messages is the only one yielded when the filter rejects the first (by its
    position: the predicate here looks at nothing but is given per call) — info-only, empty separator -/
example : (scan toyDec { infoOnly := true, filter := some fun _ => .ok false } (toyMsg ++ toyMsg)) = ([], .done) := by
  decide +kernel

example : findSig ((toyMsg ++ ([] ++ (sig ++ [1, 2]))).drop toyMsg.length) = some 0 :=
  C11_rejected_resync_info_only toyMsg [] [1, 2] (by decide)

end Bufr.Stream
