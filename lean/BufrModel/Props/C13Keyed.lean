/-
  C13 — no hidden state, third part: WHEN is a cache keyed by a function of the request unobservable?

  `C13_keyed_cache_transparent_iff`: a cache in front of `f`, keyed by `key request`, with any eviction that
  only removes entries and any rule which results are stored, is transparent (every answer of every history
  on one cache object equals `f request`)  IF AND ONLY IF  `key` determines every stored result
  (`key a = key b → f b = f a`).  Both directions for all `key`, `f`, eviction, histories of any length.

  Instances: the identity key (what `TableGroupCache` and - up to the pure function from template to
  descriptor ids - `CompiledTemplateManager` use) is always transparent.  The negative direction on the
  witness of seeded/C13-2 / seeded/C07-4: marker descriptors (the model's `markerElem`, the expression
  `Coder/Walk.lean bitmappedDescriptor` evaluates) cached under (marker operator, element id) WITHOUT the table
  group are transparent iff all table groups of the process agree on every marker descriptor - false as soon
  as two groups define one element differently (022039: 12 bits in master version 15, 13 bits in 16).
-/
import BufrModel.Msg.KeyedCache
import BufrModel.Coder.Walk
namespace Bufr.Keyed

section
variable {α κ β : Type} [DecidableEq κ]

/-- every entry of the cache is the stored result of some request with that key -/
def Sound (key : α → κ) (f : α → β) (store : β → Bool) (c : List (κ × β)) : Prop :=
  ∀ p ∈ c, ∃ a, key a = p.1 ∧ f a = p.2 ∧ store (f a) = true

theorem lookup_mem {c : List (κ × β)} {k : κ} {b : β} (h : c.lookup k = some b) : (k, b) ∈ c := by
  obtain ⟨l₁, l₂, rfl, _⟩ := List.lookup_eq_some_iff.mp h
  simp

theorem step_sound (key : α → κ) (f : α → β) (store : β → Bool) (ev : List (κ × β) → List (κ × β))
    (hev : Shrinks ev) (hdet : Determines key f store) (c : List (κ × β)) (a : α) (hc : Sound key f store c) :
    Sound key f store (step key f store ev c a).1 ∧ (step key f store ev c a).2 = f a := by
  unfold step
  cases hl : c.lookup (key a) with
  | some b =>
    refine ⟨hc, ?_⟩
    obtain ⟨a', hk, hf, hs⟩ := hc _ (lookup_mem hl)
    simp only at hk hf
    rw [← hf]
    exact (hdet a' a hk hs).symm
  | none =>
    refine ⟨?_, rfl⟩
    simp only
    have hevs : Sound key f store (ev c) := fun p hp => hc p (hev c p hp)
    cases hs : store (f a) with
    | false => simpa using hevs
    | true =>
      simp only [if_true]
      intro p hp
      rcases List.mem_cons.mp hp with rfl | hp
      · exact ⟨a, rfl, rfl, hs⟩
      · exact hevs p hp

theorem run_sound (key : α → κ) (f : α → β) (store : β → Bool) (ev : List (κ × β) → List (κ × β))
    (hev : Shrinks ev) (hdet : Determines key f store) (c : List (κ × β)) (reqs : List α) (hc : Sound key f store c) :
    Sound key f store (run key f store ev c reqs).1 ∧ (run key f store ev c reqs).2 = reqs.map f := by
  induction reqs generalizing c with
  | nil => exact ⟨hc, rfl⟩
  | cons a as ih =>
    obtain ⟨s1, o1⟩ := step_sound key f store ev hev hdet c a hc
    obtain ⟨s2, o2⟩ := ih (step key f store ev c a).1 s1
    simp only [run, List.map_cons]
    exact ⟨s2, by rw [o1, o2]⟩

/-- POSITIVE direction: if the key determines every stored result, no history can observe the cache -
    whatever it evicts and whenever. -/
theorem C13_keyed_cache_transparent_of_determines (key : α → κ) (f : α → β) (store : β → Bool)
    (ev : List (κ × β) → List (κ × β)) (hev : Shrinks ev) (hdet : Determines key f store) :
    Transparent key f store ev :=
  fun reqs => (run_sound key f store ev hev hdet [] reqs (fun _ h => by cases h)).2

/-- NEGATIVE direction, constructive: two requests with the same key, the first of which is stored, and
    different results are a history of length two whose second answer is wrong (stale). -/
theorem C13_keyed_cache_stale_answer (key : α → κ) (f : α → β) (store : β → Bool)
    (ev : List (κ × β) → List (κ × β)) (a b : α) (hk : key a = key b) (hs : store (f a) = true) :
    (run key f store ev [] [a, b]).2 = [f a, f a] := by
  simp [run, step, hs, hk]

/-- the same as a statement about transparency: a transparent cache's key determines the stored results -/
theorem C13_keyed_cache_determines_of_transparent (key : α → κ) (f : α → β) (store : β → Bool)
    (ev : List (κ × β) → List (κ × β)) (ht : Transparent key f store ev) : Determines key f store := by
  intro a b hk hs
  have h1 := ht [a, b]
  rw [C13_keyed_cache_stale_answer key f store ev a b hk hs] at h1
  simp only [List.map_cons, List.map_nil, List.cons.injEq, and_true, true_and] at h1
  exact h1.symm

/-- THE SCHEMA: transparent iff the key determines the (stored) result. -/
theorem C13_keyed_cache_transparent_iff (key : α → κ) (f : α → β) (store : β → Bool)
    (ev : List (κ × β) → List (κ × β)) (hev : Shrinks ev) :
    Transparent key f store ev ↔ Determines key f store :=
  ⟨C13_keyed_cache_determines_of_transparent key f store ev,
   C13_keyed_cache_transparent_of_determines key f store ev hev⟩

/-- a cache keyed by the whole request (what the library's caches do) is always transparent -/
theorem C13_keyed_by_request_transparent [DecidableEq α] (f : α → β) (store : β → Bool)
    (ev : List (α × β) → List (α × β)) (hev : Shrinks ev) : Transparent (fun a => a) f store ev :=
  C13_keyed_cache_transparent_of_determines _ f store ev hev (fun a b h _ => by rw [h])

end

/-! ### The marker-descriptor cache of seeded/C13-2 and seeded/C07-4 -/

/-- the walk of the model evaluates exactly `markerElem` for a marker operator -/
theorem C13_marker_elem_is_the_walks (P : Prims) (opId : Nat) (s : St) :
    bitmappedDescriptor P opId s = (do
      let ((owner, be), s1) ← nextBitmapped s
      elementDescriptor P (.marker opId (markerElem opId be)) (markerElem opId be) (addLink s1 owner)) := rfl

/-- keyed WITH the table group the marker cache is transparent, for all tables and all eviction policies -/
theorem C13_marker_cache_with_group_transparent (groups : Nat → Tables)
    (ev : List (MarkerReq × Option Elem) → List (MarkerReq × Option Elem)) (hev : Shrinks ev) :
    Transparent (fun r : MarkerReq => r) (markerOf groups) (fun _ => true) ev :=
  C13_keyed_by_request_transparent _ _ ev hev

/-- keyed WITHOUT the table group it is transparent exactly when all table groups agree on every marker
    descriptor, i.e. when the table group does not matter -/
theorem C13_marker_cache_without_group_transparent_iff (groups : Nat → Tables)
    (ev : List ((Nat × Nat) × Option Elem) → List ((Nat × Nat) × Option Elem)) (hev : Shrinks ev) :
    Transparent keyNoGroup (markerOf groups) (fun _ => true) ev ↔
    ∀ g g' op id, markerOf groups (g, op, id) = markerOf groups (g', op, id) := by
  rw [C13_keyed_cache_transparent_iff _ _ _ ev hev]
  constructor
  · intro h g g' op id
    exact h (g', op, id) (g, op, id) rfl rfl
  · intro h a b hk _
    obtain ⟨g, op, id⟩ := a
    obtain ⟨g', op', id'⟩ := b
    simp only [keyNoGroup, Prod.mk.injEq] at hk
    obtain ⟨rfl, rfl⟩ := hk
    exact h g' g op id

/-! ### Witness: element 022039 is 12 bits wide in master table version 15 and 13 bits wide in version 16
    (scale 3, reference -5000 in both; the values are those of the bundled Table B files, which the check
    derives mechanically and streams to the model - here they only serve as the concrete instance) -/

def exE15 : Elem := { id := 22039, kind := .numeric, nbits := 12, scale := 3, ref := -5000 }
def exE16 : Elem := { exE15 with nbits := 13 }

/-- group 0 = version 15, every other index = version 16; only 022039 is in the tables -/
def exGroups (g : Nat) : Tables :=
  { b := fun id => if id = 22039 then some (if g = 0 then exE15 else exE16) else none, d := fun _ => none }

/-- the hypothesis of the schema's negative direction is met: same key, different marker descriptors -/
example : keyNoGroup (0, 224255, 22039) = keyNoGroup (1, 224255, 22039) ∧
    markerOf exGroups (0, 224255, 22039) ≠ markerOf exGroups (1, 224255, 22039) := by decide

/-- the stale answer itself: after a version 15 message the version 16 message gets the 12-bit marker
    (and 225255: 13 bits / reference -4096 instead of 14 bits / -8192) -/
example : (run keyNoGroup (markerOf exGroups) (fun _ => true) id [] [(0, 224255, 22039), (1, 224255, 22039)]).2
    = [some exE15, some exE15] := by decide
example : (run keyNoGroup (markerOf exGroups) (fun _ => true) id [] [(0, 225255, 22039), (1, 225255, 22039)]).2
    = [some { exE15 with nbits := 13, ref := -4096 }, some { exE15 with nbits := 13, ref := -4096 }] ∧
    markerOf exGroups (1, 225255, 22039) = some { exE15 with nbits := 14, ref := -8192 } := by decide

/-- hence: the cache without the table version in its key is NOT transparent -/
theorem C13_marker_cache_without_group_not_transparent :
    ¬ Transparent keyNoGroup (markerOf exGroups) (fun _ => true) id := by
  intro h
  have := (C13_marker_cache_without_group_transparent_iff exGroups id (fun _ _ hp => hp)).mp h 0 1 224255 22039
  revert this
  decide

/-- ... and with the table group in the key it is (same tables, same requests) -/
example : (run (fun r : MarkerReq => r) (markerOf exGroups) (fun _ => true) id [] [(0, 224255, 22039), (1, 224255, 22039)]).2
    = [some exE15, some exE16] := by decide

/-- non-vacuity of the positive direction with a real eviction (keep at most one entry) and failures not
    stored: key = request modulo 10 determines f = request modulo 10 squared -/
example : Determines (fun a : Nat => a % 10) (fun a => (a % 10) * (a % 10)) (fun b => b != 0) := by
  intro a b h _
  simp only at h
  show b % 10 * (b % 10) = a % 10 * (a % 10)
  rw [h]
example : Shrinks (fun c : List (Nat × Nat) => c.take 0) := by
  intro c p hp; simp at hp
example : (run (fun a : Nat => a % 10) (fun a => (a % 10) * (a % 10)) (fun b => b != 0) (fun c => c.take 0) []
    [13, 23, 4, 10, 33]).2 = [9, 9, 16, 0, 9] := by decide

end Bufr.Keyed
