/-
  C12 — damage is detected, reported as a library error, and isolated to one message: the STREAM part and
  the MESSAGE-level prefix/suffix part.  (The data-level frame lemma for `decodeData` is in `Props/C12.lean`;
  here it enters as the hypothesis `Local (dc.dec reg)` on the data coder, exactly as in C04.)

  Model: `Msg/Stream.lean` (`scan` = `generate_bufr_message`), `Msg/Sections.lean` (`decodeAt` =
  `Decoder.process(start_signature=None)`).  Vocabulary (`Quiet`, `Piece`, `body`, `deliver`, `Frame`,
  `ValidMsg`, `KeepsLength`, `Rescanned`) in `Lemmas/Stream.lean`.

  What the theorems say about the code:
  * with continue-on-error a message on which the decoding fails with a LIBRARY error is skipped — by its
    declared length when the metadata-only decoding still succeeds (data sections decoded), by ONE byte
    otherwise (then the scan searches the signature again inside the damaged message: its remainder has
    to be quiet, `Rescanned.quiet`) — and every other message is delivered at its offset, whole;
  * without it the messages before the first failing one are yielded and the error surfaces;
  * a NON-library error (`Err.other`: AssertionError, ValueError …) is not caught by
    `except PyBufrKitError`: it ends the scan whatever the flag says.  This is why the error family of a
    damaged stop signature matters (finding F9; after the fix `checkExpected` gives the library error,
    `C12_expected_mismatch_is_lib_error`).
-/
import BufrModel.Msg.Stream
import BufrModel.Lemmas.Stream
import BufrModel.Lemmas.SectionsDec
import BufrModel.Props.C04
namespace Bufr.Stream

/-! ## streams -/

/-- **isolation** (continue-on-error, no filter, either mode).  Every piece is either an undamaged valid
    message followed by a signature-free separator, or (`bad p`) a damaged one of the two kinds above.
    The scan yields exactly the undamaged messages — each at its offset in the stream, with exactly its
    bytes and its own decoding — in order, and ends normally. -/
theorem C12_isolation {μ : Type} (dec : Dec μ) (cfg : Cfg μ) (hf : cfg.filter = none)
    (hc : cfg.continueOnError = true) (hfr : Frame dec) (bad rescan : Piece → Bool)
    (sep0 : Bytes) (ps : List Piece) (h0 : ¬ sig <:+: sep0)
    (hps : ∀ p ∈ ps, if bad p then (if rescan p then Rescanned dec cfg p else KeepsLength dec cfg p)
                     else (ValidMsg dec p.msg ∧ Quiet p.sep)) :
    scan dec cfg (sep0 ++ body ps) = (deliver (actIso dec cfg bad rescan) sep0.length ps, .done) ∧
    (scan dec cfg (sep0 ++ body ps)).1.map (fun it => (it.offset, it.bytes)) =
      ((offsets sep0.length ps).filter (fun q => !bad q.2)).map (fun q => (q.1, q.2.msg)) := by
  have h := scan_pieces_done dec cfg (actIso dec cfg bad rescan) sep0 ps (quiet_of_not_infix _ h0)
    (fun p hp => behaves_iso dec cfg hf hc hfr bad rescan p (hps p hp))
  refine ⟨h, ?_⟩
  rw [h]
  refine deliver_offsets _ (fun p => !bad p) _ _ (fun p hp => ?_)
  have := hps p hp
  cases hb : bad p with
  | true => simp only [actIso, hb, if_true, Option.isSome_none, Bool.not_true]
  | false =>
    simp only [hb, Bool.false_eq_true, if_false] at this
    obtain ⟨i, hi, _⟩ := this.1.mode cfg.infoOnly
    simp only [actIso, hb, Bool.false_eq_true, if_false, hi, Except.toOption, Option.isSome_some, Bool.not_false]

/-- **without continue-on-error**: valid messages, then a message (starting with the signature) on which
    the decoding of the scanning mode fails with `e`: the valid messages are yielded, then `e` leaves the
    generator — as it is, i.e. as the library's error type exactly when `e` is one. -/
theorem C12_without_continue {μ : Type} (dec : Dec μ) (cfg : Cfg μ) (hf : cfg.filter = none)
    (hc : cfg.continueOnError = false) (hfr : Frame dec)
    (sep0 : Bytes) (ps : List Piece) (bad x : Bytes) (e : Err) (h0 : ¬ sig <:+: sep0)
    (hv : ∀ p ∈ ps, ValidMsg dec p.msg) (hs : ∀ p ∈ ps, ¬ sig <:+: p.sep)
    (hb : ∃ m', bad = sig ++ m') (he : dec cfg.infoOnly (bad ++ x) = .error e) :
    scan dec cfg (sep0 ++ (body ps ++ (bad ++ x))) =
      (deliver (fun p => (p.msg.length, (dec cfg.infoOnly p.msg).toOption)) sep0.length ps, .error e) := by
  apply scan_pieces_fail dec cfg _ sep0 ps (bad ++ x) e (quiet_of_not_infix _ h0)
    (fun p hp => behaves_valid dec cfg hf hfr p (hv p hp) (quiet_of_not_infix _ (hs p hp)))
  · obtain ⟨m', hm⟩ := hb
    exact ⟨m' ++ x, by rw [hm, List.append_assoc]⟩
  · exact step_fails dec cfg hf _ e he (Or.inr hc)

/-- **a non-library error aborts the scan even with continue-on-error**: `except PyBufrKitError` does not
    catch it.  Everything after the offending message is lost. -/
theorem C12_non_library_error_aborts {μ : Type} (dec : Dec μ) (cfg : Cfg μ) (hf : cfg.filter = none)
    (hfr : Frame dec) (sep0 : Bytes) (ps : List Piece) (bad x : Bytes) (e : Err) (h0 : ¬ sig <:+: sep0)
    (hv : ∀ p ∈ ps, ValidMsg dec p.msg) (hs : ∀ p ∈ ps, ¬ sig <:+: p.sep)
    (hb : ∃ m', bad = sig ++ m') (he : dec cfg.infoOnly (bad ++ x) = .error e) (hl : e.isLib = false) :
    scan dec cfg (sep0 ++ (body ps ++ (bad ++ x))) =
      (deliver (fun p => (p.msg.length, (dec cfg.infoOnly p.msg).toOption)) sep0.length ps, .error e) := by
  apply scan_pieces_fail dec cfg _ sep0 ps (bad ++ x) e (quiet_of_not_infix _ h0)
    (fun p hp => behaves_valid dec cfg hf hfr p (hv p hp) (quiet_of_not_infix _ (hs p hp)))
  · obtain ⟨m', hm⟩ := hb
    exact ⟨m' ++ x, by rw [hm, List.append_assoc]⟩
  · exact step_fails dec cfg hf _ e he (Or.inl hl)

/-! ## one message: the section model -/

theorem bytesToBits_append (a b : List UInt8) : bytesToBits (a ++ b) = bytesToBits a ++ bytesToBits b := by
  simp [bytesToBits, List.flatMap_append]

/-- what a successful `decodeAt` consumed lies within the input -/
theorem decodeAt_nbits_le {α : Type} (L : Layouts) (dc : DataCoder α) (hdc : ∀ reg, Local (dc.dec reg))
    (o : DecOpts) (m : List UInt8) (r : DecMsg α) (h : decodeAt L dc o m = .ok r) : r.nbits ≤ 8 * m.length := by
  unfold decodeAt at h
  split at h
  · cases h
  rename_i out rest hd
  cases h
  obtain ⟨p, hx, hpl, _⟩ := C04_decode_consumes_declared L dc hdc o _ out rest hd
  have := congrArg List.length hx
  rw [bytesToBits_length, List.length_append] at this
  show out.nbits ≤ _
  omega

/-- **bytes that follow a message never influence its decoding** (any options, metadata-only or not) -/
theorem C12_suffix_irrelevant {α : Type} (L : Layouts) (dc : DataCoder α) (hdc : ∀ reg, Local (dc.dec reg))
    (o : DecOpts) (m x : List UInt8) (r : DecMsg α) (h : decodeAt L dc o m = .ok r) :
    decodeAt L dc o (m ++ x) = .ok r := by
  have hle := decodeAt_nbits_le L dc hdc o m r h
  unfold decodeAt at h ⊢
  split at h
  · cases h
  rename_i out rest hd
  cases h
  obtain ⟨p, hx, hpl, _, _, hall⟩ := C04_decode_consumes_declared L dc hdc o _ out rest hd
  have h2 : decodeBits L dc o (bytesToBits (m ++ x)) = .ok (out, rest ++ bytesToBits x) := by
    rw [bytesToBits_append, hx, List.append_assoc]; exact hall _
  simp only [h2]
  have : out.nbits / 8 ≤ m.length := by
    have : out.nbits ≤ 8 * m.length := hle
    omega
  rw [List.take_append_of_le_length this]

/-- **no proper prefix of a valid message decodes successfully**: if decoding `m` consumed all of it,
    decoding the first `k < |m|` bytes fails. -/
theorem C12_no_proper_prefix_decodes {α : Type} (L : Layouts) (dc : DataCoder α) (hdc : ∀ reg, Local (dc.dec reg))
    (o : DecOpts) (m : List UInt8) (r : DecMsg α) (h : decodeAt L dc o m = .ok r) (hn : r.nbits = 8 * m.length)
    (k : Nat) (hk : k < m.length) : ∃ e, decodeAt L dc o (m.take k) = .error e := by
  cases hd : decodeAt L dc o (m.take k) with
  | error e => exact ⟨e, rfl⟩
  | ok r' =>
    exfalso
    have h1 := C12_suffix_irrelevant L dc hdc o (m.take k) (m.drop k) r' hd
    rw [List.take_append_drop, h] at h1
    cases h1
    have := decodeAt_nbits_le L dc hdc o (m.take k) r hd
    rw [List.length_take] at this
    omega

/-- the same two facts for `Decoder.process` with its default signature search, when the input starts
    with the signature -/
theorem C12_decode_eq_decodeAt {α : Type} (L : Layouts) (dc : DataCoder α) (o : DecOpts) (m' : List UInt8) :
    decode L dc o (sig ++ m') = decodeAt L dc o (sig ++ m') := by
  have : findFrom startSig (sig ++ m') = some (sig ++ m') := by
    have hp : startSig.isPrefixOf (sig ++ m') = true := by
      rw [List.isPrefixOf_iff_prefix]; exact List.prefix_append _ _
    have e : sig ++ m' = (66 : UInt8) :: ([85, 70, 82] ++ m') := rfl
    rw [e] at hp ⊢
    simp only [findFrom, hp, if_true]
  unfold decode decodeAt
  rw [this]

/-- the per-offset decoder of the section model has the frame property the stream theorems need -/
theorem C12_ofSections_frame {α : Type} (L : Layouts) (dc : DataCoder α) (hdc : ∀ reg, Local (dc.dec reg))
    (ign : Bool) : Frame (ofSections L dc ign) := by
  intro b m x i h
  unfold ofSections at h ⊢
  split at h
  · cases h
  rename_i r hd
  rw [C12_suffix_irrelevant L dc hdc _ m x r hd]
  exact h

/-- the data coder built from the coder model is prefix-determined as soon as `decodeData` is
    (`C12_data_truncation` in `Props/C12.lean`) -/
theorem C12_tableCoder_local (T : Tables) (hdata : ∀ t c n, Local (decodeData t c n)) (reg : Registry) :
    Local ((tableCoder T).dec reg) := by
  intro x a r h
  unfold tableCoder at h ⊢
  simp only at h ⊢
  split at h
  · split at h
    · cases h
    · exact hdata _ _ _ x a r h
  · cases h

/-- **a value that differs from the expected one is the library error** (the stop signature `7777`, the
    start signature) — after the fix of F9; before it the model (and the code) gave `Err.other`. -/
theorem C12_expected_mismatch_is_lib_error (p : Param) (v : PVal) (e : Err) (h : checkExpected p v = .error e) :
    e.isLib = true := by
  unfold checkExpected at h
  split at h
  · cases h
  · split at h
    · cases h
    · cases h; rfl

/-- **a damaged signature is the library error**: a parameter with an expected value (the four octets
    `7777` of section 5, `BUFR` of section 0) whose octets in the stream differ from it makes the decoding
    of the section's parameters fail with the library error, whatever the data coder and the state. -/
theorem C12_damaged_signature_is_lib_error {α : Type} (dc : DataCoder α) (start off : Nat) (st : DecSt α)
    (p : Param) (ps : List Param) (e v : List UInt8) (x r : Bits)
    (hty : p.ty = .bytes) (hnb : p.nbits ≠ 0) (hex : p.expected = some e)
    (hread : readBytes (p.nbits / 8) x = .ok (v, r)) (hne : v ≠ e) :
    decParams dc start (p :: ps) off st x = .error .lib := by
  have hv : decValue dc st p x = .ok ((PVal.bytes v, none), r) := by
    simp only [decValue, hty, hnb, if_false, R.map, R.bind, readTyped, hread, R.pure]
  have hc : checkExpected p (PVal.bytes v) = .error .lib := by
    have : ¬ (PVal.bytes v = PVal.bytes e) := fun h => hne (by injection h)
    simp only [checkExpected, hex, this, if_false]
  simp only [decParams, R.bind, R.counted, hv, hc, R.lift, R.fail]

/-- non-vacuity: `7776` where section 5 expects `7777` -/
example : (match decParams (rawCoder 0) 0 [{ name := "stop_signature", nbits := 32, ty := .bytes, expected := some stopSig }] 0
    { reg := [], acc := [], used := 0, data := none } (bytesToBits [55, 55, 55, 54]) with
    | .error .lib => true | _ => false) = true := by decide +kernel

/-! ## non-vacuity -/

/-- toy decoder of `Props/C11.lean`, damaged variant: a 12-byte message whose 5th byte is 0 fails fully
    with a library error but its metadata-only decoding succeeds -/
def toyDec2 : Dec Unit := fun b s =>
  if sig.isPrefixOf s && decide (12 ≤ s.length) then
    if !b && ((s.drop 4).head? == some 0) then .error .lib
    else .ok { consumed := if b then 8 else 12, declared := 12, msg := () }
  else .error .lib

def good : Bytes := sig ++ [1, 2, 3, 4] ++ stopSig
def damaged : Bytes := sig ++ [0, 2, 3, 4] ++ stopSig

example : scan toyDec2 { continueOnError := true } (good ++ damaged ++ [66, 85] ++ good) =
    ([⟨0, good, ⟨12, 12, ()⟩⟩, ⟨26, good, ⟨12, 12, ()⟩⟩], .done) := by decide +kernel

example : scan toyDec2 {} (good ++ damaged ++ good) = ([⟨0, good, ⟨12, 12, ()⟩⟩], .error .lib) := by decide +kernel

example (n : Nat) : ∀ reg, Local ((rawCoder n).dec reg) := fun _ => local_readBits n

end Bufr.Stream
