/-
  C07 — tie to the Python source (`Gen/PyCoder.lean`, regenerated from `pybufrkit/coder.py` on every
  check): the integer tags of the bitmap-definition and QA-information state registers.
-/
import BufrModel.Coder.Regs
import BufrModel.Gen.PyCoder
namespace Bufr
open PyGen.coder

/-- the integer tag `coder.py` uses for a bitmap-definition state of the model -/
def bitmapDefTag : BitmapDef → Int
  | .na => BITMAP_NA
  | .indicator => BITMAP_INDICATOR
  | .waiting => BITMAP_WAITING_FOR_BIT
  | .counting => BITMAP_BIT_COUNTING

/-- the integer tag `coder.py` uses for a QA-information state of the model -/
def qaTag : QaStatus → Int
  | .na => QA_INFO_NA
  | .waiting => QA_INFO_WAITING
  | .processing => QA_INFO_PROCESSING

/-- The tags are pairwise distinct: the comparisons `bitmap_definition_state == BITMAP_X` of the Python
    code distinguish exactly the constructors of the model's `BitmapDef`. -/
theorem C07_src_const_bitmap_states_distinct (a b : BitmapDef) : bitmapDefTag a = bitmapDefTag b ↔ a = b := by
  cases a <;> cases b <;> decide

theorem C07_src_const_qa_states_distinct (a b : QaStatus) : qaTag a = qaTag b ↔ a = b := by
  cases a <;> cases b <;> decide

end Bufr
