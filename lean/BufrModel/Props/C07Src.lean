/-
  C07 — tie to the Python source (`Gen/PyCoder.lean`, regenerated from `pybufrkit/coder.py` on every
  check): the integer tags of the bitmap-definition and QA-information state registers.
-/
import BufrModel.Coder.Regs
import BufrModel.Gen.PyCoder
import BufrModel.Lemmas.CoderSrc
import BufrModel.Lemmas.CoderOpSrc
set_option linter.unusedSimpArgs false
namespace Bufr
open PyGen.coder

/-- the integer tag `coder.py` uses for a bitmap-definition state of the model -/
def bitmapDefTag : BitmapDef → Int
  | .na => BITMAP_NA
  | .indicator => BITMAP_INDICATOR
  | .waiting => BITMAP_WAITING_FOR_BIT
  | .counting => BITMAP_BIT_COUNTING

/-- the integer tag `coder.py` uses for a QA-information state of the model -/
def qaTag : QaStatus → Int
  | .na => QA_INFO_NA
  | .waiting => QA_INFO_WAITING
  | .processing => QA_INFO_PROCESSING

/-- The tags are pairwise distinct: the comparisons `bitmap_definition_state == BITMAP_X` of the Python
    code distinguish exactly the constructors of the model's `BitmapDef`. -/
theorem C07_src_const_bitmap_states_distinct (a b : BitmapDef) : bitmapDefTag a = bitmapDefTag b ↔ a = b := by
  cases a <;> cases b <;> decide

theorem C07_src_const_qa_states_distinct (a b : QaStatus) : qaTag a = qaTag b ↔ a = b := by
  cases a <;> cases b <;> decide

/-! ### the bitmap / back-reference methods of `CoderState` (generated from the source on every check)

  Representation: `Lemmas/CoderSrc.lean` — `Rep φ ps r`: the Python record `ps` stands for the register file `r`. -/

variable {D V : Type}

/-- `mark_back_reference_boundary`: the boundary register becomes the current number of decoded descriptors
    (what `operatorDescriptor` does for 222000 / 223000 / 224000 / 225000 / 232000 with `s.descs.length`);
    nothing else changes. -/
theorem C07_src_mark_back_reference_boundary (φ : D → Elem) (ps : CoderState.Self D V) (r : Regs) (h : Rep φ ps r) :
    CoderState.mark_back_reference_boundary ps =
        { ps with back_reference_boundary := (ps.decoded_descriptors.length : Nat) } ∧
      Rep φ (CoderState.mark_back_reference_boundary ps) { r with backBoundary := ps.decoded_descriptors.length } := by
  refine ⟨rfl, ?_⟩
  obtain ⟨hwf, nr, rfl, href⟩ := h
  refine ⟨?_, nr, ?_, href⟩
  · simp only [WF, CoderState.mark_back_reference_boundary] at hwf ⊢
    simp only [Int.ofNat_eq_natCast, Int.natCast_nonneg, and_true]
    exact ⟨hwf.1, hwf.2.1, hwf.2.2.1, hwf.2.2.2.1, hwf.2.2.2.2.1, hwf.2.2.2.2.2.1, hwf.2.2.2.2.2.2.1,
      hwf.2.2.2.2.2.2.2.1, hwf.2.2.2.2.2.2.2.2.1⟩
  · simp [regsOf, CoderState.mark_back_reference_boundary]

example : ∃ (ps : CoderState.Self Nat Nat) (r : Regs), Rep (fun _ => default) ps r :=
  ⟨_, _, rep_freshOver _ ⟨false, 1, 0, [[]], [[]], [[]], [], [], [], 0, 5, 5, 5, [(1, 1)], [2], 3, ⟨1, 1, 1⟩, 4, 5, 2, some [],
    some [], 5, true, 7, some [], 3, some []⟩⟩

/-- `cancel_bitmap` (237255 after a bitmap defined for re-use): only `bitmap` is cleared — a register the model
    does not carry, so the register file represented is unchanged. -/
theorem C07_src_cancel_bitmap (φ : D → Elem) (ps : CoderState.Self D V) :
    CoderState.cancel_bitmap ps = { ps with bitmap := none } ∧
      regsOf φ (CoderState.cancel_bitmap ps) = regsOf φ ps ∧ (WF ps → WF (CoderState.cancel_bitmap ps)) :=
  ⟨rfl, rfl, fun h => h⟩

/-- `cancel_all_back_references` (235000): the back-referenced descriptors and the bitmapped descriptors are
    dropped (and `bitmap`), exactly the registers the model's 235 branch clears; the iterator in
    `next_bitmapped_descriptor` is NOT touched (the model keeps `bmIter` as well). -/
theorem C07_src_cancel_all_back_references (φ : D → Elem) (ps : CoderState.Self D V) :
    CoderState.cancel_all_back_references ps =
        { ps with back_referenced_descriptors := none, bitmap := none, bitmapped_descriptors := none } ∧
      regsOf φ (CoderState.cancel_all_back_references ps) = { regsOf φ ps with backRefs := none, bitmapped := none } ∧
      (WF ps → WF (CoderState.cancel_all_back_references ps)) :=
  ⟨rfl, rfl, fun h => h⟩

/-- `recall_bitmap` (237000): `iter(None)` is a `TypeError` when no bitmap was ever defined (the model: `other`);
    otherwise the iterator restarts on the bitmapped descriptors (`bmIter := bitmapped`) and the value returned
    is `bitmap` (discarded by the caller). -/
theorem C07_src_recall_bitmap (φ : D → Elem) (ps : CoderState.Self D V) :
    (ps.bitmapped_descriptors = none → CoderState.recall_bitmap ps = .error .typeError) ∧
    (∀ l, ps.bitmapped_descriptors = some l →
      CoderState.recall_bitmap ps = .ok ({ ps with next_bitmapped_descriptor := some l }, ps.bitmap) ∧
      regsOf φ ({ ps with next_bitmapped_descriptor := some l } : CoderState.Self D V) =
        { regsOf φ ps with bmIter := (regsOf φ ps).bitmapped }) := by
  refine ⟨fun h => ?_, fun l h => ⟨?_, ?_⟩⟩
  · simp [CoderState.recall_bitmap, h, Py.iterOpt, bind, Except.bind]
  · simp [CoderState.recall_bitmap, h, Py.iterOpt, bind, Except.bind, pure, Except.pure]
  · simp [regsOf, h]

/-- **`add_bitmap_link` is the model's `nextBitmapped` followed by `addLink`** (the step the model performs for a
    class-33 element under 222000 and for every marker operator).  For every Python record `ps` that stands for the
    registers of a model state `s`: both fail — the iterator attribute is `None` (`TypeError`: no bitmap defined
    yet) or exhausted (`StopIteration`), which the model maps to `other`, both accidental exceptions — or both
    return: the item taken is the same through the representation (`owner = i.toNat`, `e = φ d`), the iterator
    advances by one item in both (`Rep` again), the Python record gets the dictionary entry
    `bitmap_links[len(decoded_descriptors)] = i` (the model's `addLink` conses `(descs.length, owner)`), and
    nothing else changes on either side. -/
theorem C07_src_add_bitmap_link (φ : D → Elem) (ps : CoderState.Self D V) (s : St) (h : Rep φ ps s.regs) :
    match CoderState.add_bitmap_link ps, nextBitmapped s with
    | .ok ps', .ok ((owner, e), s2) =>
      ∃ i d rest, ps.next_bitmapped_descriptor = some ((i, d) :: rest) ∧ owner = i.toNat ∧ e = φ d ∧
        ps' = { ps with next_bitmapped_descriptor := some rest,
                        bitmap_links := Py.dictSetItem ps.bitmap_links (ps.decoded_descriptors.length : Nat) i } ∧
        Rep φ ps' s2.regs ∧ s2.data = s.data
    | .error e, .error e' => excClass e = e'
    | _, _ => False := by
  obtain ⟨hwf, nr, hr, href⟩ := h
  have hit : s.regs.bmIter = ps.next_bitmapped_descriptor.map (pairsOf φ) := by rw [hr]; rfl
  cases hn : ps.next_bitmapped_descriptor with
  | none =>
    simp [CoderState.add_bitmap_link, nextBitmapped, hn, hit, Py.callNext, excClass, bind, Except.bind]
  | some l =>
    cases l with
    | nil =>
      simp [CoderState.add_bitmap_link, nextBitmapped, hn, hit, Py.callNext, excClass, bind, Except.bind, pairsOf]
    | cons p rest =>
      obtain ⟨i, d⟩ := p
      simp only [CoderState.add_bitmap_link, nextBitmapped, hn, hit, Py.callNext, bind, Except.bind, pure, Except.pure,
        pairsOf, Option.map, List.map]
      refine ⟨i, d, rest, rfl, rfl, rfl, rfl, ⟨?_, nr, ?_, href⟩, rfl⟩
      · exact hwf
      · simp only [St.setRegs]
        rw [hr]
        simp [regsOf, pairsOf]

/-- the hypothesis is satisfiable, with a bitmapped descriptor waiting -/
example : ∃ (ps : CoderState.Self Nat Nat) (s : St), Rep (fun _ => default) ps s.regs ∧
    ps.next_bitmapped_descriptor = some [(0, 7)] :=
  ⟨{ freshOver ⟨false, 1, 0, [[]], [[]], [[]], [], [], [], 0, 5, 5, 5, [(1, 1)], [2], 3, ⟨1, 1, 1⟩, 4, 5, 2, some [], some [], 5,
      true, 7, some [], 3, some []⟩ with next_bitmapped_descriptor := some [(0, 7)] },
   { regs := { bmIter := some [(0, default)] } }, ⟨by simp [WF, freshOver, bsrOf], [], by simp [regsOf, freshOver, pairsOf, qaOfTag, bitmapDefOfTag,
      QA_INFO_NA, QA_INFO_WAITING, QA_INFO_PROCESSING, BITMAP_NA, BITMAP_INDICATOR, BITMAP_WAITING_FOR_BIT, BITMAP_BIT_COUNTING], refRel_nil⟩, rfl⟩

end Bufr
