/-
  C17 — tie to the Python source (`Gen/PyMdquery.lean`, regenerated from `pybufrkit/mdquery.py` on every
  check): the indicator character of a metadata expression.
-/
import BufrModel.Lang.MdQuery
import BufrModel.Gen.PyMdquery
import BufrModel.Lemmas.MdQuerySrc
namespace Bufr.MdQuery
open PyGen.mdquery

/-- `if metadata_expr[0] != METADATA_QUERY_INDICATOR_CHAR: raise MetadataExprParsingError` -/
theorem C17_src_const_indicator (e : List Char) (c : Char) (rest : List Char)
    (h : strip e = c :: rest) (hc : [c] ≠ METADATA_QUERY_INDICATOR_CHAR) : parse e = .error .mdExpr := by
  have : c ≠ '%' := by
    intro e'; subst e'; exact hc (by decide)
  simp [parse, h, this]

/-- and an expression that starts with it is not rejected for its first character -/
theorem C17_src_const_indicator_accepted (e : List Char) (rest : List Char)
    (h : strip e = METADATA_QUERY_INDICATOR_CHAR ++ rest) (hd : rest.contains '.' = false) :
    parse e = .ok { sec := none, name := rest } := by
  have h' : strip e = '%' :: rest := by simpa [METADATA_QUERY_INDICATOR_CHAR] using h
  have hd' : '.' ∉ rest := by simpa using hd
  simp [parse, h', hd']

example : ∃ e c rest, strip e = c :: rest ∧ [c] ≠ METADATA_QUERY_INDICATOR_CHAR := ⟨['x'], 'x', [], by decide, by decide⟩
example : ∃ e rest, strip e = METADATA_QUERY_INDICATOR_CHAR ++ rest ∧ rest.contains '.' = false :=
  ⟨['%', 'a'], ['a'], by decide, by decide⟩

/-! ### `MetadataExprParser.parse` (regenerated into `Gen/PyMdquery.lean`) -/

open Bufr.MdQuerySrc

/-- the model's error families: the library's own exception class, and everything else -/
def excToErr : Py.Exc → Err
  | .raised cls => if cls = "MetadataExprParsingError" then .mdExpr else .other
  | _ => .other

/-- the result of the generated function in the vocabulary of the model -/
def ofGen : Except Py.Exc (Option Int × List Char) → Except Err Expr
  | .ok (s, n) => .ok { sec := s, name := n }
  | .error x => .error (excToErr x)

/-- the generated function, with the Python exceptions spelled out -/
def parseExact (e : List Char) : Except Py.Exc (Option Int × List Char) :=
  match strip e with
  | [] => .error .indexError                                   -- `metadata_expr[0]` on the empty string
  | c :: rest =>
    if c ≠ '%' then .error (.raised "MetadataExprParsingError")
    else if rest.contains '.' then
      match splitDot rest with
      | [a, b] =>
        match parseInt a with
        | none => .error (.raised "MetadataExprParsingError")  -- `except ValueError` around `int()`
        | some k => .ok (some k, b)
      | _ => .error .valueError                                 -- tuple unpacking of other than two parts
    else .ok (none, rest)

theorem ofGen_parseExact (e : List Char) : ofGen (parseExact e) = parse e := by
  unfold parseExact parse
  cases strip e with
  | nil => rfl
  | cons c rest =>
    dsimp only
    by_cases hc : c ≠ '%'
    · rw [if_pos hc, if_pos hc]; rfl
    · rw [if_neg hc, if_neg hc]
      by_cases hd : rest.contains '.' = true
      · rw [if_pos hd, if_pos hd]
        generalize splitDot rest = ps
        match ps with
        | [a, b] => dsimp only; cases parseInt a <;> rfl
        | [] => rfl
        | [_] => rfl
        | _ :: _ :: _ :: _ => rfl
      · rw [if_neg hd, if_neg hd]; rfl

/-- **`MetadataExprParser.parse` as translated from the source is the model's `parse`**, result for result
    and exception for exception (`IndexError` for an all-blank expression, `ValueError` when the part after
    `%` does not split into exactly two pieces at the dots, `MetadataExprParsingError` otherwise), for every
    expression whose decimal digits are ASCII digits and that has at most 4300 characters.  Both hypotheses
    are about `int()`: CPython accepts every Unicode decimal digit and refuses more than 4300 digits; the
    model does neither (examples below). -/
theorem C17_src_parse_exact (e : List Char) (hd : AsciiDigitsOnly e) (hl : e.length ≤ 4300) :
    MetadataExprParser.parse {} e = parseExact e := by
  unfold MetadataExprParser.parse parseExact
  simp only [strip_eq]
  have hlen := length_strip_le e
  have hmem := mem_strip e
  cases hs : strip e with
  | nil => rfl
  | cons c rest =>
    rw [hs] at hlen hmem
    have h0 : Py.strGetItemNat (c :: rest) 0 = .ok [c] := rfl
    by_cases hc : c = '%'
    · subst hc
      have e2 : List.elem '.' ('%' :: rest) = rest.contains '.' := by
        simp [List.elem]
      by_cases hdot : rest.contains '.' = true
      · simp only [h0, bind, Except.bind, pure, Except.pure, METADATA_QUERY_INDICATOR_CHAR, decide_true, Bool.not_true,
          Bool.false_eq_true, if_false, e2, hdot, if_true, List.drop_one, List.tail_cons, splitChar_eq,
          ne_eq, not_true_eq_false]
        have hp := splitDot_pieces rest
        generalize splitDot rest = ps at hp
        match ps with
        | [a, b] =>
          have ha := hp a (by simp)
          have hda : AsciiDigitsOnly a := fun x hx => hd x (hmem x (List.mem_cons_of_mem _ (ha.2 x hx)))
          have hla : a.length ≤ 4300 := by
            have := ha.1; simp only [List.length_cons] at hlen; omega
          simp only [Py.unpack2, intOfStr_eq a hda hla]
          cases parseInt a <;> rfl
        | [] => rfl
        | [_] => rfl
        | _ :: _ :: _ :: _ => rfl
      · simp only [h0, bind, Except.bind, pure, Except.pure, METADATA_QUERY_INDICATOR_CHAR, decide_true, Bool.not_true,
          Bool.false_eq_true, if_false, e2, hdot, List.drop_one, List.tail_cons, ne_eq, not_true_eq_false]
    · have hne : ([c] = ['%']) = False := by simp [hc]
      simp only [h0, bind, Except.bind, pure, Except.pure, METADATA_QUERY_INDICATOR_CHAR, hne, decide_false,
        Bool.not_false, if_true, ne_eq, hc, not_false_eq_true]

/-- the same in the vocabulary of the model (`Err.mdExpr` = the library's exception, `Err.other` = the rest) -/
theorem C17_src_parse (e : List Char) (hd : AsciiDigitsOnly e) (hl : e.length ≤ 4300) :
    ofGen (MetadataExprParser.parse {} e) = parse e := by
  rw [C17_src_parse_exact e hd hl, ofGen_parseExact]

/-- the hypotheses are satisfiable, by every ASCII string of up to 4300 characters in particular -/
example : AsciiDigitsOnly "% 1_0 .name".toList ∧ "% 1_0 .name".toList.length ≤ 4300 := by decide
example : MetadataExprParser.parse {} "% 1_0 .name".toList = .ok (some 10, "name".toList) := by decide

/-- outside the first hypothesis: `%١.x` (ARABIC-INDIC DIGIT ONE).  Python's `int('١')` is 1, so the real
    parser returns `(1, 'x')` (checked on the real function); the model, whose digits are the ASCII ones,
    answers `MetadataExprParsingError`. -/
example : MetadataExprParser.parse {} ['%', Char.ofNat 0x661, '.', 'x'] = .ok (some 1, ['x']) ∧
    parse ['%', Char.ofNat 0x661, '.', 'x'] = .error .mdExpr ∧
    ¬ AsciiDigitsOnly ['%', Char.ofNat 0x661, '.', 'x'] := by decide

/- outside the second hypothesis: `'%' + '1' * 4301 + '.x'`.  CPython (>= 3.11, default
   `sys.get_int_max_str_digits() == 4300`) raises ValueError in `int()`, so the real parser raises
   `MetadataExprParsingError` (checked on the real function; so does `Py.Small.intOfStr`, whose digit count
   exceeds `intMaxStrDigits`); the model has no such limit and returns the 4301-digit section index.  (No
   `example`: evaluating the 4301-character input exceeds the kernel's recursion depth.) -/

/-- `int()` and `strip()` disagree about U+001C..U+001F: `'%\x1c1.x'` is refused by the real parser
    (`MetadataExprParsingError`: `int('\x1c1')` is a ValueError) although `'\x1c1'.strip() == '1'`; the
    model agrees (this is inside the domain of `C17_src_parse`) -/
example : MetadataExprParser.parse {} ['%', Char.ofNat 0x1c, '1', '.', 'x'] = .error (.raised "MetadataExprParsingError") ∧
    parse ['%', Char.ofNat 0x1c, '1', '.', 'x'] = .error .mdExpr := by decide

/-! ### `MetadataQuerent.query` (regenerated into `Gen/PyMdquery.lean`) -/

/-- the abstract view (`Message` / `Section` / `Parameter` of the translator specification) of the model's decoded
    sections, for an encoding `enc` of the parameter values, which the code only hands on -/
def sectionToPy (enc : PVal → Py.Obj) (s : DecSection) : Section :=
  ⟨(s.index : Int), s.params.map fun nv => ⟨nv.1.toList, enc nv.2⟩⟩

def messageToPy (enc : PVal → Py.Obj) (secs : List DecSection) : Message := ⟨secs.map (sectionToPy enc)⟩

theorem ofList_eq_iff (name : List Char) (n : String) : String.ofList name = n ↔ n.toList = name := by
  constructor
  · intro h; rw [← h]; simp
  · intro h; rw [← h]; simp

/-- the inner loop: the first parameter of that name -/
theorem find_param (enc : PVal → Py.Obj) (name : List Char) (params : List (String × PVal)) :
    List.findSome? (fun (y2 : Parameter) => if decide (y2.name = name) then some (some y2.value) else none)
        (params.map fun nv => (⟨nv.1.toList, enc nv.2⟩ : Parameter)) =
      (params.lookup (String.ofList name)).map fun v => some (enc v) := by
  induction params with
  | nil => rfl
  | cons nv rest ih =>
    obtain ⟨n, v⟩ := nv
    simp only [List.map_cons, List.findSome?_cons, List.lookup_cons]
    by_cases h : n.toList = name
    · have h' : (String.ofList name == n) = true := by simp [(ofList_eq_iff name n).mpr h]
      simp [h, h']
    · have h' : (String.ofList name == n) = false := by
        simp only [beq_eq_false_iff_ne, ne_eq]
        exact fun e => h ((ofList_eq_iff name n).mp e)
      simp only [h, h', decide_false, Bool.false_eq_true, if_false]
      exact ih

/-- the selection of the sections and the outer loop -/
theorem find_section (enc : PVal → Py.Obj) (sec : Option Int) (name : List Char) (secs : List DecSection) :
    Option.getD (List.findSome? (fun (y1 : Section) =>
        List.findSome? (fun (y2 : Parameter) => if decide (y2.name = name) then some (some y2.value) else none) y1.params)
      (List.filterMap (fun (p : Section) => if (decide (some p.index = sec) || Option.isNone sec) then some p else none)
        (secs.map (sectionToPy enc)))) none =
    (lookup secs ⟨sec, name⟩).map enc := by
  unfold lookup
  induction secs with
  | nil => rfl
  | cons s rest ih =>
    have hsel : (decide (some (sectionToPy enc s).index = sec) || Option.isNone sec) = selects sec s := by
      cases sec with
      | none => simp [selects]
      | some k =>
        simp [selects, sectionToPy]
        by_cases hk : (s.index : Int) = k <;> simp [hk]
    simp only [List.map_cons, List.filterMap_cons, hsel]
    by_cases hs : selects sec s = true
    · simp only [hs, if_true, List.filter_cons, List.map_cons, List.findSome?_cons, DecSection.param?]
      have := find_param enc name s.params
      simp only [sectionToPy] at this ⊢
      rw [this]
      cases s.params.lookup (String.ofList name) with
      | none => simpa [DecSection.param?] using ih
      | some v => simp
    · simp only [hs, Bool.false_eq_true, if_false, List.filter_cons]
      exact ih

/-- **`MetadataQuerent.query` as translated from the source is the model's `query`**: on the sections of the model
    (each seen as its `index` and its parameters in order; the parameter values pass through an arbitrary encoding
    `enc`, the code only hands them on) and for every expression of the domain of `C17_src_parse`: the exception of
    `parse`, or the value of the first parameter of that name in the first selected section that has one, `None`
    when there is none. -/
theorem C17_src_query_eq (enc : PVal → Py.Obj) (secs : List DecSection) (e : List Char)
    (hd : AsciiDigitsOnly e) (hl : e.length ≤ 4300) :
    MetadataQuerent.query {} (messageToPy enc secs) e =
      match parseExact e with
      | .error x => .error x
      | .ok (sec, name) => .ok ((lookup secs ⟨sec, name⟩).map enc) := by
  unfold MetadataQuerent.query
  simp only [C17_src_parse_exact e hd hl, bind, Except.bind, pure, Except.pure]
  cases parseExact e with
  | error x => rfl
  | ok r =>
    obtain ⟨sec, name⟩ := r
    simp only [messageToPy]
    rw [find_section]

/-- the same in the vocabulary of the model -/
theorem C17_src_query_eq_model (enc : PVal → Py.Obj) (secs : List DecSection) (e : List Char)
    (hd : AsciiDigitsOnly e) (hl : e.length ≤ 4300) :
    (match MetadataQuerent.query {} (messageToPy enc secs) e with
      | .ok r => (.ok r : Except Err (Option Py.Obj))
      | .error x => .error (excToErr x)) =
    match query secs e with
      | .ok r => .ok (r.map enc)
      | .error x => .error x := by
  rw [C17_src_query_eq enc secs e hd hl, query, ← ofGen_parseExact]
  cases parseExact e with
  | error x => rfl
  | ok r => rfl

example : MetadataQuerent.query {} (messageToPy (fun _ => ⟨7⟩)
      [{ index := 1, params := [("edition", .int 4)], nbits := 8 }]) "%1.edition".toList = .ok (some ⟨7⟩) := by decide

end Bufr.MdQuery
