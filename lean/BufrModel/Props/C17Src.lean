/-
  C17 — tie to the Python source (`Gen/PyMdquery.lean`, regenerated from `pybufrkit/mdquery.py` on every
  check): the indicator character of a metadata expression.
-/
import BufrModel.Lang.MdQuery
import BufrModel.Gen.PyMdquery
namespace Bufr.MdQuery
open PyGen.mdquery

/-- `if metadata_expr[0] != METADATA_QUERY_INDICATOR_CHAR: raise MetadataExprParsingError` -/
theorem C17_src_const_indicator (e : List Char) (c : Char) (rest : List Char)
    (h : strip e = c :: rest) (hc : [c] ≠ METADATA_QUERY_INDICATOR_CHAR) : parse e = .error .mdExpr := by
  have : c ≠ '%' := by
    intro e'; subst e'; exact hc (by decide)
  simp [parse, h, this]

/-- and an expression that starts with it is not rejected for its first character -/
theorem C17_src_const_indicator_accepted (e : List Char) (rest : List Char)
    (h : strip e = METADATA_QUERY_INDICATOR_CHAR ++ rest) (hd : rest.contains '.' = false) :
    parse e = .ok { sec := none, name := rest } := by
  have h' : strip e = '%' :: rest := by simpa [METADATA_QUERY_INDICATOR_CHAR] using h
  have hd' : '.' ∉ rest := by simpa using hd
  simp [parse, h', hd']

example : ∃ e c rest, strip e = c :: rest ∧ [c] ≠ METADATA_QUERY_INDICATOR_CHAR := ⟨['x'], 'x', [], by decide, by decide⟩
example : ∃ e rest, strip e = METADATA_QUERY_INDICATOR_CHAR ++ rest ∧ rest.contains '.' = false :=
  ⟨['%', 'a'], ['a'], by decide, by decide⟩

end Bufr.MdQuery
