/-
  C15 (used by C16) — the parser OBJECT: `parse` is a function of the string alone.

  `NodePathParser` is kept for the lifetime of a `DataQuerent` / `BufrMessageQuerent` / `ScriptRunner`; it has parsed
  other expressions before: accepted ones, rejected ones (the exception leaves the accumulators wherever the handler
  that raised stood).  Model of the object: `Lang/PathParserObj.lean` (`PObj`, `PObj.reset`, `parseObj`, `parseAll`).

  * `C15_parse_object_state_irrelevant`  for EVERY state of the object (any token, slice buffer, id, separator,
     machine state, position, half-built node path) the answer of `parse` is `parse s` of `Lang/PathParser.lean` —
     the function the grammar theorems (`C15_parse_iff_grammar`, ...) speak about;
  * `C15_parse_history_independent`  the answers of ANY list of inputs given one after the other to one object are
     the answers a fresh parser gives to each — induction over the list, no bound on its length or its content
     (accepted, rejected at any point); `C15_parse_after_history` is the single-answer form;
  * `C15_reset_must_clear_slice_buffer`  a `reset` that forgets `current_slice_elements` (seeded changes C15-1 /
     C16-3) is NOT history independent: after the rejected `/301011/004001[1:` the valid `/001001` comes back with
     the subset selector `@[1]`; after `@[2:` with `@[2]`; after `/A[:` every expression is refused with the
     AssertionError of `create_slice_object`.
-/
import BufrModel.Lang.PathParserObj
namespace Bufr.PathLang

/-- the loop on an object and the loop of `Lang/PathParser.lean` on its accumulators: same outcome, and on
    success the object holds the final accumulators and has advanced by the length of the input -/
theorem runObj_eq (cs : List Char) : ∀ o : PObj,
    match run o.ps cs with
    | .error e => (runObj o cs).1 = some e
    | .ok s => runObj o cs = (none, { pos := o.pos + cs.length, ps := s }) := by
  induction cs with
  | nil => intro o; simp [run, runObj]
  | cons c cs ih =>
    intro o
    simp only [run, runObj]
    cases hs : step o.ps c with
    | error e => simp
    | ok s' =>
      simp only
      have h := ih { pos := o.pos + 1, ps := s' }
      simp only at h
      cases hr : run s' cs with
      | error e => rw [hr] at h; simpa using h
      | ok s =>
        rw [hr] at h
        simp only at h ⊢
        rw [h]
        simp only [List.length_cons]
        congr 2
        omega

/-- end of input on an object = `finish` on its accumulators -/
theorem finishObj_fst (o : PObj) : (finishObj o).1 = finish o.ps := by
  unfold finishObj finish
  cases o.ps.st <;> simp only
  · -- startId
    cases hc : convertId o.ps with
    | error e => rfl
    | ok p =>
      obtain ⟨i, s1⟩ := p
      simp only [bind, Except.bind]
      cases addComp { s1 with curId := i } <;> rfl
  · -- stopSlice
    simp only [bind, Except.bind]
    cases addComp o.ps <;> rfl

/-- what the run reads of a freshly reset object is the literal initial state of `Lang/PathParser.lean` -/
theorem reset_ps (o : PObj) : o.reset.ps = {} := rfl

/-- THE OBJECT'S STATE IS IRRELEVANT: whatever the attributes of the parser hold, `parse` answers `parse s`. -/
theorem C15_parse_object_state_irrelevant (o : PObj) (s : List Char) : (parseObj PObj.reset o s).1 = parse s := by
  unfold parseObj parse
  cases s.filter (fun c => !isWs c) with
  | nil => rfl
  | cons c _ =>
    simp only
    by_cases hf : (!firstOk c) = true
    · rw [if_pos hf, if_pos hf]
    · rw [if_neg hf, if_neg hf]
      have h := runObj_eq s o.reset
      rw [reset_ps] at h
      cases hr : run {} s with
      | error e =>
        rw [hr] at h
        simp only at h
        rcases hro : runObj o.reset s with ⟨x, o'⟩
        rw [hro] at h
        simp only at h
        subst h
        rfl
      | ok st =>
        rw [hr] at h
        simp only at h
        rw [h]
        exact finishObj_fst _

/-- HISTORY INDEPENDENCE: the answers of the inputs `hist`, given one after the other to ONE parser object in
    any state `o`, are the answers of `parse` to each of them — for every list of inputs, accepted or rejected
    at any point. -/
theorem C15_parse_history_independent (hist : List (List Char)) :
    ∀ o : PObj, parseAll PObj.reset o hist = hist.map parse := by
  induction hist with
  | nil => intro o; rfl
  | cons s ss ih =>
    intro o
    simp only [parseAll, List.map_cons]
    rw [C15_parse_object_state_irrelevant o s, ih]

/-- the single-answer form: after ANY history `hist` on the object, the next `parse s` is `parse s` -/
theorem C15_parse_after_history (o : PObj) (hist : List (List Char)) (s : List Char) :
    (parseObj PObj.reset (afterAll PObj.reset o hist) s).1 = parse s :=
  C15_parse_object_state_irrelevant _ s

/-! ### a `reset` that forgets the slice buffer is history dependent (seeded changes C15-1 / C16-3) -/

/-- Two-step histories on a fresh object whose `reset` does not clear `current_slice_elements`: the second answer
    is not the answer to its string. -/
theorem C15_reset_must_clear_slice_buffer :
    parseAll PObj.resetKeepElems {} ["/301011/004001[1:".toList, "/001001".toList] ≠
      ["/301011/004001[1:".toList, "/001001".toList].map parse ∧
    parseAll PObj.resetKeepElems {} ["@[2:".toList, "/001001".toList] ≠ ["@[2:".toList, "/001001".toList].map parse ∧
    parseAll PObj.resetKeepElems {} ["/A[:".toList, "/001001".toList] ≠ ["/A[:".toList, "/001001".toList].map parse := by
  decide

/-- what comes back instead: the leftover `1` / `2` as the subset selector of the next, valid, expression; the
    `assert` of `create_slice_object` for a leftover empty element -/
example : parseAll PObj.resetKeepElems {} ["/301011/004001[1:".toList, "/001001".toList] =
    [.error .path, .ok { subset := some (.idx 1), comps := [⟨'/', "001001".toList, .range none none none⟩] }] := by decide
example : parseAll PObj.resetKeepElems {} ["@[2:".toList, "/001001".toList] =
    [.error .path, .ok { subset := some (.idx 2), comps := [⟨'/', "001001".toList, .range none none none⟩] }] := by decide
example : parseAll PObj.resetKeepElems {} ["/A[:".toList, "/001001".toList] = [.error .path, .error .other] := by decide
/-- with the `reset` of the code the same histories answer as a fresh parser does -/
example : parseAll PObj.reset {} ["/301011/004001[1:".toList, "/001001".toList] =
    [.error .path, .ok { subset := some (.range none none none), comps := [⟨'/', "001001".toList, .range none none none⟩] }] := by
  decide
/-- non-vacuity of the quantification over object states: a state no run from a fresh object produces
    (token and four buffered elements in `STOP_SLICE`) -/
def weirdObj : PObj :=
  { pos := 7,
    ps := { st := PState.stopSlice, token := ['9'], elems := [some 1, none, none, some 4], curId := ['X'], curSep := '.',
            subset := some (Slice.idx 3), comps := [⟨'/', ['Y'], Slice.idx 0⟩] } }
example : (parseObj PObj.reset weirdObj "001001".toList).1 =
    .ok { subset := some (.range none none none), comps := [⟨'>', "001001".toList, .range none none none⟩] } := by decide
/-- a rejection raised before `reset()` leaves the object untouched -/
example : (parseObj PObj.reset weirdObj " ".toList).2.ps.elems = [some 1, none, none, some 4] := by decide
/-- `[` on an empty id: the state is `START_SLICE_0` when `convert_id` raises -/
example : (parseObj PObj.reset {} "/[0]".toList).2.ps.st = .slice0 ∧ (parseObj PObj.reset {} "/[0]".toList).2.pos = 1 := by decide

end Bufr.PathLang
