/-
  C17 — metadata queries and metadata-only decoding agree with the full decode.
  Model: `Lang/MdQuery.lean` (expressions are `List Char`), `Msg/Sections.lean` (info-only decoding).
  The empty expression and expressions with two dots raise non-library exceptions in the code
  (`Err.other` in the model); the property does not quantify over them: the theorems below take the
  stripped expression in the shapes `%name` / `%k.name` explicitly.
-/
import BufrModel.Lang.MdQuery
import BufrModel.Gen.Layouts
import BufrModel.Lemmas.SectionsDec
import BufrModel.Lemmas.MdQuery
namespace Bufr
open MdQuery

/-- `%name`: the value held by the first section, in message order, that has a parameter of that name
    (`none` when no section has one). -/
theorem C17_first_match (secs : List DecSection) (e name : List Char) (he : strip e = '%' :: name)
    (hname : '.' ∉ name) :
    query secs e = .ok ((secs.map fun s => DecSection.param? s (String.ofList name)).findSome? id) := by
  have hc : name.contains '.' = false := by simpa using hname
  simp only [query, parse, he, ne_eq, not_true_eq_false, if_false, hc, Bool.false_eq_true, lookup,
    filter_selects_none]

/-- `%k.name`: the same lookup restricted to the sections whose index is `k` (so: the value held by
    section `k`, `none` when there is no such section or it has no such parameter — also for `k`
    negative or beyond the last section). -/
theorem C17_explicit_section (secs : List DecSection) (e ks name : List Char) (k : Int)
    (he : strip e = '%' :: (ks ++ '.' :: name)) (hks : '.' ∉ ks) (hname : '.' ∉ name)
    (hk : parseInt ks = some k) :
    query secs e = .ok (((secs.filter fun s => Int.ofNat s.index == k).map
      fun s => DecSection.param? s (String.ofList name)).findSome? id) := by
  have hc : (ks ++ '.' :: name).contains '.' = true := by simp
  simp only [query, parse, he, ne_eq, not_true_eq_false, if_false, hc, if_true, splitDot_one ks name hks hname,
    hk, lookup]
  rfl

/-- with distinct section indices (every decoded message) that is the parameter of *the* section `k` -/
theorem C17_explicit_section_unique (secs : List DecSection) (k : Nat) (name : String)
    (hnd : (secs.map (·.index)).Nodup) :
    ((secs.filter fun s => Int.ofNat s.index == Int.ofNat k).map fun s => DecSection.param? s name).findSome? id
      = (secs.find? (·.index == k)).bind (DecSection.param? · name) := by
  induction secs with
  | nil => rfl
  | cons s ss ih =>
    simp only [List.map_cons, List.nodup_cons] at hnd
    by_cases hs : s.index = k
    · have h1 : (Int.ofNat s.index == Int.ofNat k) = true := by simp [hs]
      have h2 : (s.index == k) = true := by simp [hs]
      have hrest : ss.filter (fun s => Int.ofNat s.index == Int.ofNat k) = [] := by
        rw [List.filter_eq_nil_iff]
        intro t ht hcon
        simp only [beq_iff_eq, Int.ofNat_eq_natCast, Int.natCast_inj] at hcon
        exact hnd.1 (List.mem_map.mpr ⟨t, ht, by rw [hcon, hs]⟩)
      simp only [List.filter_cons, h1, if_true, List.map_cons, List.findSome?_cons, id, List.find?_cons, h2,
        Option.bind_some, hrest, List.map_nil, List.findSome?_nil]
      cases DecSection.param? s name <;> rfl
    · have h1 : (Int.ofNat s.index == Int.ofNat k) = false := by
        simp only [beq_eq_false_iff_ne, ne_eq, Int.ofNat_eq_natCast, Int.natCast_inj]; exact hs
      have h2 : (s.index == k) = false := by simp [hs]
      simp only [List.filter_cons, h1, Bool.false_eq_true, if_false, List.find?_cons, h2]
      exact ih hnd.2

/-- an expression whose first non-blank character is not `%` is the metadata-parsing error -/
theorem C17_bad_expr (secs : List DecSection) (e : List Char) (c : Char) (rest : List Char)
    (he : strip e = c :: rest) (hc : c ≠ '%') : query secs e = .error .mdExpr := by
  simp only [query, parse, he, ne_eq, hc, not_false_eq_true, if_true]

/-- a section index that is not an integer literal is the metadata-parsing error -/
theorem C17_bad_index (secs : List DecSection) (e ks name : List Char)
    (he : strip e = '%' :: (ks ++ '.' :: name)) (hks : '.' ∉ ks) (hname : '.' ∉ name)
    (hk : parseInt ks = none) : query secs e = .error .mdExpr := by
  have hc : (ks ++ '.' :: name).contains '.' = true := by simp
  simp only [query, parse, he, ne_eq, not_true_eq_false, if_false, hc, if_true, splitDot_one ks name hks hname, hk]

/-- non-vacuity / the integer literals of the quantifier: -1..6 parse, `x`, `1x`, `` do not -/
example : (["-1", "0", "1", "2", "3", "4", "5", "6", " 3", "+2"].map fun s => parseInt s.toList)
    = [some (-1), some 0, some 1, some 2, some 3, some 4, some 5, some 6, some 3, some 2] := by decide
example : (["x", "1x", "", "-", "1 2"].map fun s => parseInt s.toList) = [none, none, none, none, none] := by decide
example : strip " %edition\n".toList = "%edition".toList := by decide
example : query [{ index := 0, params := [("edition", .int 4)], nbits := 64 },
                 { index := 1, params := [("year", .int 2020)], nbits := 0 }] "%1.year".toList = .ok (some (.int 2020)) := by
  decide

/-! ## metadata-only decoding -/

/-- a layout without template data is left alone by the metadata-only transformer: the sections before
    the data section are decoded by the very same steps as in a full decode -/
theorem C17_info_same_layout_before_data (s : SectionLayout) (ie : Bool)
    (h : s.params.any (·.ty == .templateData) = false) :
    ({ infoOnly := true, ignoreExpect := ie } : DecOpts).transform s =
    ({ infoOnly := false, ignoreExpect := ie } : DecOpts).transform s := by
  simp only [DecOpts.transform, SectionLayout.infoOnly, h, Bool.false_eq_true, if_false, if_true]

/-- the metadata-only layout of the data section is the full layout cut before the template data and
    marked final: nothing of the template data parameter (nor anything after it) is read -/
theorem C17_info_cuts_at_data (s : SectionLayout) (h : s.params.any (·.ty == .templateData) = true) :
    s.infoOnly.endOfMessage = true ∧ s.infoOnly.params.all (·.ty != .templateData) = true ∧
    ∃ rest, s.params = s.infoOnly.params ++ rest := by
  simp only [SectionLayout.infoOnly, h, if_true, true_and]
  exact ⟨all_takeWhile _ _, s.params.dropWhile (·.ty != .templateData), (List.takeWhile_append_dropWhile).symm⟩

/-- in no metadata-only layout of the bundled family does a template-data parameter survive, and the
    cut data section keeps its section length: the declared extent is skipped as opaque bits -/
theorem C17_bundled_info_layouts :
    ∀ e ∈ Gen.layouts, e.layout.infoOnly.params.all (·.ty != .templateData) = true ∧
      (e.layout.hasParam "template_data" = true →
        e.layout.infoOnly.hasParam "section_length" = true ∧ e.layout.infoOnly.endOfMessage = true) := by
  decide

/-- **Metadata-only decoding never runs the data reader**: its result is the same for every data coder.
    (Statement over the section parameters of a layout without template data; the metadata-only layouts
    are such by the two theorems above.) -/
theorem C17_info_ignores_data_coder {α : Type} (dc dc' : DataCoder α) (start : Nat) :
    ∀ (ps : List Param), ps.all (·.ty != .templateData) = true → ∀ (off : Nat) (st : DecSt α),
      decParams dc start ps off st = decParams dc' start ps off st := by
  intro ps
  induction ps with
  | nil => intro _ off st; rfl
  | cons p ps ih =>
    intro hall off st
    simp only [List.all_cons, Bool.and_eq_true, bne_iff_ne, ne_eq] at hall
    have hv : decValue dc st p = decValue dc' st p := by
      unfold decValue
      cases hty : p.ty <;> first | rfl | exact absurd hty hall.1
    have ih' := ih (by simpa using hall.2)
    simp only [decParams, hv, ih']

/-- **... and is independent of what follows the declared extents** (damaged stop signature, further
    messages): the metadata-only decode is prefix-determined like every decode (C04). -/
theorem C17_info_ignores_trailing {α : Type} (L : Layouts) (dc : DataCoder α) (hdc : ∀ reg, Local (dc.dec reg))
    (ie : Bool) (x : Bits) (out : DecOut α) (r : Bits)
    (h : decodeBits L dc { infoOnly := true, ignoreExpect := ie } x = .ok (out, r)) :
    ∃ p, x = p ++ r ∧ p.length = out.nbits ∧
      ∀ t, decodeBits L dc { infoOnly := true, ignoreExpect := ie } (p ++ t) = .ok (out, t) := by
  obtain ⟨p, news, h1, _, h3, _, _, h6⟩ := decLoop_local L dc hdc _ _ _ _ _ _ _ _ h
  exact ⟨p, h1, by simpa using h3.symm, h6⟩

/-- **The skipped extent is opaque**: closing a section by skipping to its declared end gives the same
    section record whatever the skipped bits are (this is how the metadata-only decode passes over the
    data: same result for data bits `a` and `a'` of the same length). -/
theorem C17_info_ignores_data_content_partial {α : Type} (s : SectionLayout) (st : DecSt α) (d : Nat)
    (hd : secLen st.acc = .ok d) (a a' t t' : Bits) (ha : a.length = d * 8 - st.used) (ha' : a'.length = a.length) :
    (finishSection s st (a ++ t)).map (·.1) = (finishSection s st (a' ++ t')).map (·.1) := by
  unfold finishSection
  split
  · simp only [R.bind, hd, R.lift, R.pure]
    split
    · simp only [R.map, R.bind, readBin, readBits_append_of_length _ a t ha,
        readBits_append_of_length _ a' t' (ha'.trans ha), R.pure]
      rfl
    · split
      · rfl
      · have h0 : a = [] := List.eq_nil_of_length_eq_zero (by omega)
        have h0' : a' = [] := List.eq_nil_of_length_eq_zero (by omega)
        subst h0 h0'
        rfl
  · have h0 : True := trivial
    simp only [R.pure]
    rfl

/- FULL STATEMENTS not proved in this round (carried by the correspondence check, which compares the
   metadata-only decode with the full decode on every generated message and on the sample files, also
   with the data section overwritten by random bytes and the stop signature damaged):

   C17_info_eq_full_prefix : decode L dc {} b = .ok m →
       ∃ mi, decode L dc {infoOnly := true} b = .ok mi ∧ sections before the data section agree, and the
       parameters of the cut data section agree with the corresponding ones of the full decode
   C17_info_ignores_data_content : the message-level version of the `_partial` theorem above
       (decode info (pre ++ a ++ t) and decode info (pre ++ a' ++ t') return the same sections). -/

/-- every edition's layout family offers the parameter names the lookup theorems are instantiated at
    (and `originating_subcentre` exists from edition 3 on only) -/
theorem C17_layout_names :
    (∀ ed ∈ [2, 3, 4], ∀ n ∈ ["edition", "length", "section_length", "is_section2_presents", "data_category",
        "master_table_version", "year", "n_subsets", "is_compressed", "unexpanded_descriptors", "local_bits",
        "template_data", "stop_signature", "start_signature", "originating_centre"],
      [0, 1, 2, 3, 4, 5].any (fun idx => cfgHas ed idx n) = true) ∧
    (∀ ed ∈ [2, 3, 4], cfgHas ed 1 "originating_subcentre" = decide (3 ≤ ed)) := by
  decide

end Bufr
