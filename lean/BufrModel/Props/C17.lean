/-
  C17 — metadata queries and metadata-only decoding agree with the full decode.
  Model: `Lang/MdQuery.lean` (expressions are `List Char`), `Msg/Sections.lean` (info-only decoding).
  The empty expression and expressions with two dots raise non-library exceptions in the code
  (`Err.other` in the model); the property does not quantify over them: the theorems below take the
  stripped expression in the shapes `%name` / `%k.name` explicitly.
-/
import BufrModel.Lang.MdQuery
import BufrModel.Gen.Layouts
import BufrModel.Lemmas.SectionsDec
import BufrModel.Lemmas.MdQuery
import BufrModel.Lemmas.SectionsInfo
namespace Bufr
open MdQuery SecInfo

/-- `%name`: the value held by the first section, in message order, that has a parameter of that name
    (`none` when no section has one). -/
theorem C17_first_match (secs : List DecSection) (e name : List Char) (he : strip e = '%' :: name)
    (hname : '.' ∉ name) :
    query secs e = .ok ((secs.map fun s => DecSection.param? s (String.ofList name)).findSome? id) := by
  have hc : name.contains '.' = false := by simpa using hname
  simp only [query, parse, he, ne_eq, not_true_eq_false, if_false, hc, Bool.false_eq_true, lookup,
    filter_selects_none]

/-- `%k.name`: the same lookup restricted to the sections whose index is `k` (so: the value held by
    section `k`, `none` when there is no such section or it has no such parameter — also for `k`
    negative or beyond the last section). -/
theorem C17_explicit_section (secs : List DecSection) (e ks name : List Char) (k : Int)
    (he : strip e = '%' :: (ks ++ '.' :: name)) (hks : '.' ∉ ks) (hname : '.' ∉ name)
    (hk : parseInt ks = some k) :
    query secs e = .ok (((secs.filter fun s => Int.ofNat s.index == k).map
      fun s => DecSection.param? s (String.ofList name)).findSome? id) := by
  have hc : (ks ++ '.' :: name).contains '.' = true := by simp
  simp only [query, parse, he, ne_eq, not_true_eq_false, if_false, hc, if_true, splitDot_one ks name hks hname,
    hk, lookup]
  rfl

/-- with distinct section indices (every decoded message) that is the parameter of *the* section `k` -/
theorem C17_explicit_section_unique (secs : List DecSection) (k : Nat) (name : String)
    (hnd : (secs.map (·.index)).Nodup) :
    ((secs.filter fun s => Int.ofNat s.index == Int.ofNat k).map fun s => DecSection.param? s name).findSome? id
      = (secs.find? (·.index == k)).bind (DecSection.param? · name) := by
  induction secs with
  | nil => rfl
  | cons s ss ih =>
    simp only [List.map_cons, List.nodup_cons] at hnd
    by_cases hs : s.index = k
    · have h1 : (Int.ofNat s.index == Int.ofNat k) = true := by simp [hs]
      have h2 : (s.index == k) = true := by simp [hs]
      have hrest : ss.filter (fun s => Int.ofNat s.index == Int.ofNat k) = [] := by
        rw [List.filter_eq_nil_iff]
        intro t ht hcon
        simp only [beq_iff_eq, Int.ofNat_eq_natCast, Int.natCast_inj] at hcon
        exact hnd.1 (List.mem_map.mpr ⟨t, ht, by rw [hcon, hs]⟩)
      simp only [List.filter_cons, h1, if_true, List.map_cons, List.findSome?_cons, id, List.find?_cons, h2,
        Option.bind_some, hrest, List.map_nil, List.findSome?_nil]
      cases DecSection.param? s name <;> rfl
    · have h1 : (Int.ofNat s.index == Int.ofNat k) = false := by
        simp only [beq_eq_false_iff_ne, ne_eq, Int.ofNat_eq_natCast, Int.natCast_inj]; exact hs
      have h2 : (s.index == k) = false := by simp [hs]
      simp only [List.filter_cons, h1, Bool.false_eq_true, if_false, List.find?_cons, h2]
      exact ih hnd.2

/-- an expression whose first non-blank character is not `%` is the metadata-parsing error -/
theorem C17_bad_expr (secs : List DecSection) (e : List Char) (c : Char) (rest : List Char)
    (he : strip e = c :: rest) (hc : c ≠ '%') : query secs e = .error .mdExpr := by
  simp only [query, parse, he, ne_eq, hc, not_false_eq_true, if_true]

/-- a section index that is not an integer literal is the metadata-parsing error -/
theorem C17_bad_index (secs : List DecSection) (e ks name : List Char)
    (he : strip e = '%' :: (ks ++ '.' :: name)) (hks : '.' ∉ ks) (hname : '.' ∉ name)
    (hk : parseInt ks = none) : query secs e = .error .mdExpr := by
  have hc : (ks ++ '.' :: name).contains '.' = true := by simp
  simp only [query, parse, he, ne_eq, not_true_eq_false, if_false, hc, if_true, splitDot_one ks name hks hname, hk]

/-- non-vacuity / the integer literals of the quantifier: -1..6 parse, `x`, `1x`, `` do not -/
example : (["-1", "0", "1", "2", "3", "4", "5", "6", " 3", "+2"].map fun s => parseInt s.toList)
    = [some (-1), some 0, some 1, some 2, some 3, some 4, some 5, some 6, some 3, some 2] := by decide
example : (["x", "1x", "", "-", "1 2"].map fun s => parseInt s.toList) = [none, none, none, none, none] := by decide
example : strip " %edition\n".toList = "%edition".toList := by decide
example : query [{ index := 0, params := [("edition", .int 4)], nbits := 64 },
                 { index := 1, params := [("year", .int 2020)], nbits := 0 }] "%1.year".toList = .ok (some (.int 2020)) := by
  decide

/-! ## metadata-only decoding -/

/-- a layout without template data is left alone by the metadata-only transformer: the sections before
    the data section are decoded by the very same steps as in a full decode -/
theorem C17_info_same_layout_before_data (s : SectionLayout) (ie : Bool)
    (h : s.params.any (·.ty == .templateData) = false) :
    ({ infoOnly := true, ignoreExpect := ie } : DecOpts).transform s =
    ({ infoOnly := false, ignoreExpect := ie } : DecOpts).transform s := by
  simp only [DecOpts.transform, SectionLayout.infoOnly, h, Bool.false_eq_true, if_false, if_true]

/-- the metadata-only layout of the data section is the full layout cut before the template data and
    marked final: nothing of the template data parameter (nor anything after it) is read -/
theorem C17_info_cuts_at_data (s : SectionLayout) (h : s.params.any (·.ty == .templateData) = true) :
    s.infoOnly.endOfMessage = true ∧ s.infoOnly.params.all (·.ty != .templateData) = true ∧
    ∃ rest, s.params = s.infoOnly.params ++ rest := by
  simp only [SectionLayout.infoOnly, h, if_true, true_and]
  exact ⟨all_takeWhile _ _, s.params.dropWhile (·.ty != .templateData), (List.takeWhile_append_dropWhile).symm⟩

/-- in no metadata-only layout of the bundled family does a template-data parameter survive, and the
    cut data section keeps its section length: the declared extent is skipped as opaque bits -/
theorem C17_bundled_info_layouts :
    ∀ e ∈ Gen.layouts, e.layout.infoOnly.params.all (·.ty != .templateData) = true ∧
      (e.layout.hasParam "template_data" = true →
        e.layout.infoOnly.hasParam "section_length" = true ∧ e.layout.infoOnly.endOfMessage = true) := by
  decide

/-- **Metadata-only decoding never runs the data reader**: its result is the same for every data coder.
    (Statement over the section parameters of a layout without template data; the metadata-only layouts
    are such by the two theorems above.) -/
theorem C17_info_ignores_data_coder {α : Type} (dc dc' : DataCoder α) (start : Nat) :
    ∀ (ps : List Param), ps.all (·.ty != .templateData) = true → ∀ (off : Nat) (st : DecSt α),
      decParams dc start ps off st = decParams dc' start ps off st := by
  intro ps
  induction ps with
  | nil => intro _ off st; rfl
  | cons p ps ih =>
    intro hall off st
    simp only [List.all_cons, Bool.and_eq_true, bne_iff_ne, ne_eq] at hall
    have hv : decValue dc st p = decValue dc' st p := by
      unfold decValue
      cases hty : p.ty <;> first | rfl | exact absurd hty hall.1
    have ih' := ih (by simpa using hall.2)
    simp only [decParams, hv, ih']

/-- **... and is independent of what follows the declared extents** (damaged stop signature, further
    messages): the metadata-only decode is prefix-determined like every decode (C04). -/
theorem C17_info_ignores_trailing {α : Type} (L : Layouts) (dc : DataCoder α) (hdc : ∀ reg, Local (dc.dec reg))
    (ie : Bool) (x : Bits) (out : DecOut α) (r : Bits)
    (h : decodeBits L dc { infoOnly := true, ignoreExpect := ie } x = .ok (out, r)) :
    ∃ p, x = p ++ r ∧ p.length = out.nbits ∧
      ∀ t, decodeBits L dc { infoOnly := true, ignoreExpect := ie } (p ++ t) = .ok (out, t) := by
  obtain ⟨p, news, h1, _, h3, _, _, h6⟩ := decLoop_local L dc hdc _ _ _ _ _ _ _ _ h
  exact ⟨p, h1, by simpa using h3.symm, h6⟩

/-- **The skipped extent is opaque**, section level (the message-level theorem is
    `C17_info_ignores_data_content` below): closing a section by skipping to its declared end gives the same
    section record whatever the skipped bits are (this is how the metadata-only decode passes over the
    data: same result for data bits `a` and `a'` of the same length). -/
theorem C17_info_ignores_data_content_partial {α : Type} (s : SectionLayout) (st : DecSt α) (d : Nat)
    (hd : secLen st.acc = .ok d) (a a' t t' : Bits) (ha : a.length = d * 8 - st.used) (ha' : a'.length = a.length) :
    (finishSection s st (a ++ t)).map (·.1) = (finishSection s st (a' ++ t')).map (·.1) := by
  unfold finishSection
  split
  · simp only [R.bind, hd, R.lift, R.pure]
    split
    · simp only [R.map, R.bind, readBin, readBits_append_of_length _ a t ha,
        readBits_append_of_length _ a' t' (ha'.trans ha), R.pure]
      rfl
    · split
      · rfl
      · have h0 : a = [] := List.eq_nil_of_length_eq_zero (by omega)
        have h0' : a' = [] := List.eq_nil_of_length_eq_zero (by omega)
        subst h0 h0'
        rfl
  · have h0 : True := trivial
    simp only [R.pure]
    rfl

/-! ## metadata-only decoding against the full decode, at message level -/

/-- the bundled family meets the well-formedness hypothesis of the theorems below (finite table) -/
theorem C17_bundled_layouts_wf : Gen.layouts.WF = true := by decide

/-- only a template-data parameter ever decodes to the marker `PVal.data`: the typed reads and the
    descriptor list never return it (so `infoSections` cuts exactly at the decoded template data) -/
theorem C17_only_template_data_is_data {α : Type} (dc : DataCoder α) (st : DecSt α) (p : Param)
    (hty : p.ty ≠ .templateData) (x : Bits) (v : PVal) (d : Option α) (r : Bits)
    (h : decValue dc st p x = .ok ((v, d), r)) : v ≠ PVal.data ∧ d = none :=
  decValue_nodata hty h

/-- **Metadata-only decoding equals the full decode up to and including the cut data section**, bit level:
    whenever the full section loop succeeds, the metadata-only loop succeeds on the same bits and returns
    `infoSections` of the full result: the same section records (index, parameters, extent) up to the data
    section, the data section cut before the template data with its full declared extent, nothing after
    it, and no data. -/
theorem C17_info_eq_full_prefix_bits {α : Type} (L : Layouts) (hL : L.WF = true) (dc : DataCoder α)
    (hdc : ∀ reg, Local (dc.dec reg)) (ie : Bool) (x : Bits) (out : DecOut α) (r : Bits)
    (h : decodeBits L dc { infoOnly := false, ignoreExpect := ie } x = .ok (out, r)) :
    ∃ outi ri, decodeBits L dc { infoOnly := true, ignoreExpect := ie } x = .ok (outi, ri) ∧
      outi.sections = infoSections out.sections ∧ outi.data = none ∧
      outi.nbits = ((infoSections out.sections).map (·.nbits)).sum ∧ outi.nbits ≤ out.nbits := by
  unfold decodeBits at h
  obtain ⟨news, outi, ri, h1, h2, h3, h4, h5⟩ :=
    decLoop_info L hL dc hdc ie _ _ _ _ { sections := [], data := none, nbits := 0 } _ _ _ rfl h
  obtain ⟨p, news', _, g2, g3, g4, _, _⟩ := decLoop_local L dc hdc _ _ _ _ _ _ _ _ h
  simp only [List.nil_append, Nat.zero_add] at h1 h3 h4 g2 g3
  have hn : news' = news := by rw [← g2, h1]
  subst hn
  refine ⟨outi, ri, h2, by rw [h3, h1], h5, by rw [h4, h1], ?_⟩
  rw [h4, g3, g4]
  exact infoSections_sum_le _

/-- **... and at message level** (`decode`, bytes): if the full decode of `b` succeeds with message `m`, the
    metadata-only decode of `b` succeeds with the sections `infoSections m.sections`, no data, the summed
    extent of those sections, and the serialized bytes cut to that extent. -/
theorem C17_info_eq_full_prefix {α : Type} (L : Layouts) (hL : L.WF = true) (dc : DataCoder α)
    (hdc : ∀ reg, Local (dc.dec reg)) (ie : Bool) (b : List UInt8) (m : DecMsg α)
    (h : decode L dc { infoOnly := false, ignoreExpect := ie } b = .ok m) :
    ∃ mi, decode L dc { infoOnly := true, ignoreExpect := ie } b = .ok mi ∧
      mi.sections = infoSections m.sections ∧ mi.data = none ∧
      mi.nbits = ((infoSections m.sections).map (·.nbits)).sum ∧ mi.nbits ≤ m.nbits ∧
      mi.serialized = m.serialized.take (mi.nbits / 8) := by
  unfold decode at h
  split at h
  · cases h
  rename_i s hs
  split at h
  · cases h
  rename_i out r hbits
  cases h
  obtain ⟨outi, ri, h1, h2, h3, h4, h5⟩ := C17_info_eq_full_prefix_bits L hL dc hdc ie _ _ _ hbits
  refine ⟨{ sections := outi.sections, data := outi.data, nbits := outi.nbits, serialized := s.take (outi.nbits / 8) },
    ?_, h2, h3, h4, h5, ?_⟩
  · simp only [decode, hs, h1]
  · simp only [List.take_take]
    congr 1
    have : outi.nbits / 8 ≤ out.nbits / 8 := Nat.div_le_div_right h5
    omega

/-- **Metadata-only decoding never runs the data reader** (message level): same result for every data coder. -/
theorem C17_info_never_runs_data_reader {α : Type} (L : Layouts) (dc dc' : DataCoder α) (ie : Bool) :
    decodeBits L dc { infoOnly := true, ignoreExpect := ie } = decodeBits L dc' { infoOnly := true, ignoreExpect := ie } ∧
    ∀ b, decode L dc { infoOnly := true, ignoreExpect := ie } b = decode L dc' { infoOnly := true, ignoreExpect := ie } b := by
  have h : decodeBits L dc { infoOnly := true, ignoreExpect := ie } =
      decodeBits L dc' { infoOnly := true, ignoreExpect := ie } := by
    unfold decodeBits
    exact decLoop_coder L dc dc' ie _ _ _ _
  exact ⟨h, fun b => by simp only [decode, h]⟩

/-- **The skipped data extent is opaque** (message level, bits).  A successful metadata-only decode ends with
    a section decoded over the (cut) layout of an entry `e` of the family.  If that layout has template data,
    the input splits as `pre ++ a ++ r` where `a` is the extent between the header of the data section (its
    fixed-width parameters, `headerBits`) and its declared end, and replacing `a` by ANY bits of the same
    length, followed by anything, gives the same result: the data content is never interpreted.  Otherwise
    the layout is a final one without template data.  (No assumption on the data coder: it is never run.) -/
theorem C17_info_ignores_data_content {α : Type} (L : Layouts) (hL : L.WF = true) (dc : DataCoder α) (ie : Bool)
    (x : Bits) (out : DecOut α) (r : Bits)
    (h : decodeBits L dc { infoOnly := true, ignoreExpect := ie } x = .ok (out, r)) :
    ∃ e ∈ L, ∃ last, out.sections.getLast? = some last ∧ last.index = e.layout.index ∧
      last.params.map (·.1) = e.layout.infoOnly.params.map (·.name) ∧
      (e.layout.params.any (·.ty == .templateData) = false → e.layout.endOfMessage = true) ∧
      (e.layout.params.any (·.ty == .templateData) = true →
        ∃ pre a, x = pre ++ a ++ r ∧ a.length + e.layout.headerBits = last.nbits ∧
          ∀ a' t', a'.length = a.length →
            decodeBits L dc { infoOnly := true, ignoreExpect := ie } (pre ++ a' ++ t') = .ok (out, t')) := by
  let dc0 : DataCoder α := { dec := fun _ => R.fail .other }
  have hdc0 : ∀ reg, Local (dc0.dec reg) := fun _ => Local.fail _
  have heq := (C17_info_never_runs_data_reader L dc dc0 ie).1
  rw [heq] at h ⊢
  unfold decodeBits at h ⊢
  exact decLoop_opaque L hL dc0 hdc0 ie _ _ _ _ _ _ _ h


/-- facts about the bundled family used below (finite table) -/
theorem C17_bundled_layout_table :
    ∀ e ∈ Gen.layouts, e.layout.index = e.index ∧
      (e.index = 4 → e.layout.optional = false ∧ e.layout.params.any (·.ty == .templateData) = true) ∧
      (e.layout.params.any (·.ty == .templateData) = true → e.layout.index = 4 ∧ e.layout.headerBits = 32) ∧
      (e.layout.endOfMessage = true → e.layout.index = 5) := by
  decide

/-- in the bundled family the metadata-only loop started at a section index ≤ 4 ends in a section with index ≤ 4
    (section 4 is mandatory and holds the template data) -/
theorem C17_bundled_info_ends_at_data {α : Type} (dc : DataCoder α) (ie : Bool) :
    ∀ (fuel idx : Nat) (reg : Registry) (out : DecOut α) (x : Bits) (out' : DecOut α) (r : Bits), idx ≤ 4 →
      decLoop Gen.layouts dc { infoOnly := true, ignoreExpect := ie } fuel idx reg out x = .ok (out', r) →
      ∃ last, out'.sections.getLast? = some last ∧ last.index ≤ 4 := by
  intro fuel
  induction fuel with
  | zero => intro idx reg out x out' r _ h; simp only [decLoop, R.fail] at h; cases h
  | succ fuel ih =>
    intro idx reg out x out' r hidx h
    simp only [decLoop] at h
    obtain ⟨s0, r1, hl1, hb⟩ := bind_ok h
    clear h
    obtain ⟨hcfg, hr1⟩ := lift_ok hl1
    subst hr1
    obtain ⟨present, r2, hl2, h⟩ := bind_ok hb
    clear hb
    obtain ⟨hpres, hr2⟩ := lift_ok hl2
    subst hr2
    obtain ⟨e, he, hel, hei⟩ := getCfg_mem hcfg
    subst hel
    obtain ⟨t1, t2, _, _⟩ := C17_bundled_layout_table e he
    have h4 : idx = 4 → present = true ∧
        (({ infoOnly := true, ignoreExpect := ie } : DecOpts).transform e.layout).endOfMessage = true := by
      intro hi
      obtain ⟨ho, hd⟩ := t2 (by omega)
      rw [isPresent_transform] at hpres
      simp only [isPresent, ho, Bool.not_false, if_true] at hpres
      cases hpres
      refine ⟨rfl, ?_⟩
      rw [transform_end]
      simp only [if_true, SectionLayout.infoOnly, hd]
    cases present with
    | false =>
      simp only [Bool.not_false, if_true] at h
      have : idx ≠ 4 := fun hi => by have := (h4 hi).1; cases this
      exact ih _ _ _ _ _ _ (by omega) h
    | true =>
      simp only [Bool.not_true, Bool.false_eq_true, if_false] at h
      obtain ⟨⟨sec, reg1, d⟩, r3, hsec, hb⟩ := bind_ok h
      clear h
      have h := hb
      clear hb
      simp only at h
      split at h
      · simp only [R.pure] at h
        cases h
        have hsi : sec.index = e.layout.index := by
          simp only [decSection] at hsec
          obtain ⟨st, r4, _, hfin⟩ := bind_ok hsec
          have : sec.index = (({ infoOnly := true, ignoreExpect := ie } : DecOpts).transform e.layout).index := by
            unfold finishSection at hfin
            split at hfin
            · obtain ⟨dl, r5, _, h2⟩ := bind_ok hfin
              split at h2
              · obtain ⟨bits, _, hres⟩ := map_ok h2
                cases hres; rfl
              · split at h2
                · simp only [R.fail] at h2; cases h2
                · simp only [R.pure] at h2; cases h2; rfl
            · simp only [R.pure] at hfin; cases hfin; rfl
          rw [this, transform_index]
        exact ⟨sec, by simp, by omega⟩
      · rename_i hend
        have : idx ≠ 4 := fun hi => hend (h4 hi).2
        exact ih _ _ _ _ _ _ (by omega) h

/-- **bundled family: the data octets are opaque to the metadata-only decode.**  Every successful
    metadata-only decode over the bundled layouts ends with the cut section 4; the input is
    `pre ++ a ++ r` with `a` the declared extent of section 4 minus its 32 header bits, and any other
    `a'` of that length followed by anything decodes to the same result. -/
theorem C17_bundled_info_ignores_data_content {α : Type} (dc : DataCoder α) (ie : Bool)
    (x : Bits) (out : DecOut α) (r : Bits)
    (h : decodeBits Gen.layouts dc { infoOnly := true, ignoreExpect := ie } x = .ok (out, r)) :
    ∃ last pre a, out.sections.getLast? = some last ∧ last.index = 4 ∧ x = pre ++ a ++ r ∧
      a.length + 32 = last.nbits ∧
      ∀ a' t', a'.length = a.length →
        decodeBits Gen.layouts dc { infoOnly := true, ignoreExpect := ie } (pre ++ a' ++ t') = .ok (out, t') := by
  obtain ⟨e, he, last, h1, h2, _, h4, h5⟩ :=
    C17_info_ignores_data_content Gen.layouts C17_bundled_layouts_wf dc ie x out r h
  obtain ⟨last', g1, g2⟩ := C17_bundled_info_ends_at_data dc ie _ _ _ _ _ _ _ (Nat.zero_le 4) h
  rw [h1] at g1
  cases g1
  obtain ⟨_, _, t3, t4⟩ := C17_bundled_layout_table e he
  cases hd : e.layout.params.any (·.ty == .templateData) with
  | false =>
    have := t4 (h4 hd)
    omega
  | true =>
    obtain ⟨pre, a, h6, h7, h8⟩ := h5 hd
    obtain ⟨t5, t6⟩ := t3 hd
    exact ⟨last, pre, a, h1, by rw [h2, t5], h6, by rw [← h7, t6], h8⟩

/-! non-vacuity of the metadata-only theorems: the bundled family, the raw data coder and the edition-3
    message of C04 (54 octets, 5 data bits) -/

def C17_msg : List UInt8 :=
  [66, 85, 70, 82, 0, 0, 54, 3, 0, 0, 18, 0, 0, 98, 0, 0, 2, 0, 29, 0, 20, 1, 2, 3, 4, 5, 0, 0, 18, 0, 0, 1,
   128, 31, 31, 31, 31, 31, 31, 31, 31, 31, 31, 0, 0, 0, 6, 0, 176, 0, 55, 55, 55, 55]

example (n : Nat) : ∀ reg, Local ((rawCoder n).dec reg) := fun _ => local_readBits n

/-- the full decode reads 5 sections and the data, the metadata-only decode 4 sections, 50 octets, no data -/
example : (decode Gen.layouts (rawCoder 5) {} C17_msg).map (fun m => (m.sections.length, m.data, m.nbits)) =
    .ok (5, some [true, false, true, true, false], 432) := by decide +kernel
example : (decode Gen.layouts (rawCoder 5) { infoOnly := true } C17_msg).map
    (fun m => (m.sections.length, m.data, m.nbits, m.serialized.length)) = .ok (4, none, 400, 50) := by decide +kernel

/-- ... and its sections are `infoSections` of the full decode's, its bytes the first 50 of the full decode's -/
example : (decode Gen.layouts (rawCoder 5) { infoOnly := true } C17_msg).map (·.sections) =
    (decode Gen.layouts (rawCoder 5) {} C17_msg).map (fun m => infoSections m.sections) := by decide +kernel
example : (decode Gen.layouts (rawCoder 5) { infoOnly := true } C17_msg).map (·.serialized) =
    (decode Gen.layouts (rawCoder 5) {} C17_msg).map (fun m => m.serialized.take 50) := by decide +kernel

/-- the cut data section: 32 header bits (section length, reserved bits), 16 opaque bits -/
example : (Gen.layouts.filter fun e => e.layout.params.any (·.ty == .templateData)).map
    (fun e => (e.index, e.edition, e.layout.headerBits)) = [(4, 0, 32)] := by decide +kernel
example : ((decode Gen.layouts (rawCoder 5) { infoOnly := true } C17_msg).map
    (fun m => m.sections.getLast?.map (fun s => (s.index, s.nbits, s.params.map (·.1))))) =
    .ok (some (4, 48, ["section_length", "reserved_bits"])) := by decide +kernel

/-- overwriting the two data octets (176, 0) and damaging the stop signature changes nothing -/
example : (decode Gen.layouts (rawCoder 5) { infoOnly := true } (C17_msg.take 48 ++ [255, 17, 1, 2, 3])).map (·.sections) =
    (decode Gen.layouts (rawCoder 5) { infoOnly := true } C17_msg).map (·.sections) := by decide +kernel

/-- every edition's layout family offers the parameter names the lookup theorems are instantiated at
    (and `originating_subcentre` exists from edition 3 on only) -/
theorem C17_layout_names :
    (∀ ed ∈ [2, 3, 4], ∀ n ∈ ["edition", "length", "section_length", "is_section2_presents", "data_category",
        "master_table_version", "year", "n_subsets", "is_compressed", "unexpanded_descriptors", "local_bits",
        "template_data", "stop_signature", "start_signature", "originating_centre"],
      [0, 1, 2, 3, 4, 5].any (fun idx => cfgHas ed idx n) = true) ∧
    (∀ ed ∈ [2, 3, 4], cfgHas ed 1 "originating_subcentre" = decide (3 ≤ ed)) := by
  decide

end Bufr
