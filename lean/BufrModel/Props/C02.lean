/-
  C02 — encoding produces the canonical FM-94 bit stream: the compressed-column part.
  The width rule of `nbits_for_uint` and the relational `ColOK` (DESIGN C02; defined in
  `Spec/Column.lean`) for what `encIntColumn` writes.
-/
import BufrModel.Coder.Encode
import BufrModel.Spec.Column
import BufrModel.Lemmas.Column
import BufrModel.Props.C05
namespace Bufr

/-- The width rule.  For `x ≥ 1`, `nbitsForUInt x` is a width whose all-ones pattern is reserved
    (`x ≤ 2^n − 2`), it is the LEAST such width, it is never 0 and in fact at least 2.
    (The encoder applies it to `max − min + 1`, so its increment width has room for `max − min + 1`,
    one more than the regulation needs; still legal, see `C05_encoder_width_is_legal`.) -/
theorem C02_width_rule (x : Nat) (hx : 0 < x) :
    x ≤ 2 ^ nbitsForUInt x - 2 ∧
    (∀ k, x ≤ 2 ^ k - 2 → nbitsForUInt x ≤ k) ∧
    (nbitsForUInt x = 0 ↔ False) ∧ 2 ≤ nbitsForUInt x := by
  have hfit := nbitsForUInt_fits x
  have h2 := nbitsForUInt_ge_two x hx
  refine ⟨by omega, fun k hk => nbitsForUInt_least x k (by omega), ⟨fun h => by omega, False.elim⟩, h2⟩

/-- the rule without the side condition: `x + 2 ≤ 2^n`, least such `n`, for every `x`
    (`nbitsForUInt 0 = 1`) -/
theorem C02_width_rule_all (x : Nat) :
    x + 2 ≤ 2 ^ nbitsForUInt x ∧ (∀ k, x + 2 ≤ 2 ^ k → nbitsForUInt x ≤ k) ∧ 0 < nbitsForUInt x :=
  ⟨nbitsForUInt_fits x, nbitsForUInt_least x, nbitsForUInt_pos x⟩

/-- non-vacuity, including the `2^k − 1` and `2^k − 2` boundaries -/
example : nbitsForUInt 1 = 2 ∧ nbitsForUInt 2 = 2 ∧ nbitsForUInt 3 = 3 ∧ nbitsForUInt 6 = 3 ∧
    nbitsForUInt 7 = 4 ∧ nbitsForUInt 0 = 1 ∧ nbitsForUInt (2 ^ 63 - 2) = 63 := by decide +kernel

/-- The bits `encIntColumn` produces for a column are canonical in the sense of the relation
    `Spec.ColOK`: a `w`-bit minimum (the least present entry; all ones when nothing is present), a
    6-bit width `d`, and — when `d ≠ 0` — one `d`-bit increment per subset with
    `increment = entry − minimum` for present entries and all ones exactly for the missing ones;
    `d = 0` exactly when the encoder saw all entries equal, and then the entries are all equal.
    Hypotheses as in `C05_column_roundtrip`. -/
theorem C02_column_canonical (w : Nat) (allEqual : Bool) (raws : List (Option Nat))
    (hw : 0 < w) (hw64 : w ≤ 64) (hr : Spec.InRange w raws) (hw1 : w = 1 → ∃ x, some x ∈ raws)
    (hn : 0 < raws.length)
    (heq : allEqual = true → ∀ r ∈ raws, r = raws.headD none)
    (hne : allEqual = false → ∃ x, some x ∈ raws) (hspan : Spec.SpanOK raws) :
    ∃ bits, encIntColumn allEqual (raws.map (Option.map Int.ofNat)) w = .ok bits ∧
      Spec.ColOK w raws allEqual bits := by
  obtain ⟨henc, hleg, hflag, _⟩ :=
    C05_encoder_width_is_legal w allEqual raws hw hw64 hr hw1 hn heq hne hspan
  exact ⟨_, henc, colOK_of_legal w _ raws allEqual hr hleg hflag⟩

/-- non-vacuity: equal, distinct and missing entries -/
example : ∃ bits, encIntColumn false ([some 5, none, some 5, some 9].map (Option.map Int.ofNat)) 4 = .ok bits ∧
    Spec.ColOK 4 [some 5, none, some 5, some 9] false bits :=
  C02_column_canonical 4 false _ (by omega) (by omega)
    (by intro x hx; simp at hx; rcases hx with rfl | rfl <;> simp)
    (by omega) (by simp) (by simp) (fun _ => ⟨5, by simp⟩)
    (by intro x y hx hy; simp at hx hy; rcases hx with rfl | rfl <;> rcases hy with rfl | rfl <;> simp)

/-- `ColOK` is exactly "the specification column for some legal width whose zero-ness matches the
    flag" (the relation and the parametrised writer of C05 define the same set of bit strings). -/
theorem C02_colOK_iff_legal (w : Nat) (raws : List (Option Nat)) (sawEqual : Bool) (bits : Bits)
    (hr : Spec.InRange w raws) :
    Spec.ColOK w raws sawEqual bits ↔
      ∃ d, Spec.LegalWidth d raws ∧ (d = 0 ↔ sawEqual = true) ∧
        bits = Spec.intColumnBitsWith d raws w :=
  ⟨legal_of_colOK w raws sawEqual bits, fun ⟨d, hd, hf, hb⟩ => hb ▸ colOK_of_legal w d raws sawEqual hr hd hf⟩

/-- … and it is strong enough to determine what a reader gets: any bits that are `ColOK` for a
    column are decoded (by the decoder, hence by the independent reader) as that column. -/
theorem C02_colOK_decodes (w : Nat) (raws : List (Option Nat)) (sawEqual : Bool) (bits suf : Bits)
    (hw : 0 < w) (hw64 : w ≤ 64) (hr : Spec.InRange w raws) (hw1 : w = 1 → ∃ x, some x ∈ raws)
    (h : Spec.ColOK w raws sawEqual bits) :
    readColumn w raws.length (bits ++ suf) = .ok (raws, suf) := by
  obtain ⟨d, hd, _, hb⟩ := legal_of_colOK w raws sawEqual bits h
  rw [hb]; exact C05_every_legal_width w d raws suf hw hw64 hr hw1 hd

/-- `ColOK` discriminates: a column whose missing entry is written as zero instead of all ones
    (a DESIGN Appendix-A mutation) is not `ColOK`. -/
example : ¬ Spec.ColOK 4 [some 5, none, some 6] false
    (toBits 4 5 ++ toBits 6 2 ++ toBits 2 0 ++ toBits 2 0 ++ toBits 2 1) := by
  intro h
  have := C02_colOK_decodes 4 [some 5, none, some 6] false _ [] (by omega) (by omega)
    (by intro x hx; simp at hx; rcases hx with rfl | rfl <;> simp) (by omega) h
  revert this; decide

/-- What the encoder primitives call is `encIntColumnN`: in the general branch an entry equal to the
    field's all-ones pattern is first turned into a missing entry (`_all_ones_as_missing`, the repair of
    finding F-C03-1).  On the columns the property quantifies over — raw values `0 .. 2^w − 2` or
    missing (`Spec.InRange`) — that step changes nothing, so `C02_column_canonical` is a statement about
    the bits the encoder writes. -/
theorem C02_column_in_range_unchanged (w : Nat) (allEqual : Bool) (raws : List (Option Nat))
    (hr : Spec.InRange w raws) (hne : allEqual = false → ∃ x, some x ∈ raws) :
    encIntColumnN allEqual (raws.map (Option.map Int.ofNat)) w =
      encIntColumn allEqual (raws.map (Option.map Int.ofNat)) w := by
  cases allEqual with
  | true => simp [encIntColumnN]
  | false =>
    have hid : allOnesAsMissing w (raws.map (Option.map Int.ofNat)) = raws.map (Option.map Int.ofNat) := by
      unfold allOnesAsMissing
      split
      · rfl
      · next hw =>
        rw [List.map_map]
        apply List.map_congr_left
        intro r hrm
        cases r with
        | none => simp
        | some x =>
          have hx := (hr x hrm).2 (by omega)
          have hp : 0 < 2 ^ w := Nat.two_pow_pos w
          have : ((x : Nat) : Int) ≠ ((2 ^ w - 1 : Nat) : Int) := by
            intro h
            have : x = 2 ^ w - 1 := by exact_mod_cast h
            omega
          simp [this]
    obtain ⟨x, hx⟩ := hne rfl
    have hall : ((raws.map (Option.map Int.ofNat)).all (· == none)) = false := by
      rw [Bool.eq_false_iff]
      intro h
      rw [List.all_eq_true] at h
      have := h (some (Int.ofNat x)) (List.mem_map.2 ⟨some x, hx, rfl⟩)
      simp at this
    simp only [encIntColumnN, Bool.false_eq_true, if_false, hid, hall]

/-- non-vacuity, and the repaired case itself: all-ones entries next to a missing one give the
    all-missing column (minimum all ones, width 0), an all-ones entry next to a smaller one is written
    as a missing increment -/
example : encIntColumnN false ([some 5, none, some 9].map (Option.map Int.ofNat)) 4 =
      encIntColumn false ([some 5, none, some 9].map (Option.map Int.ofNat)) 4 ∧
    encIntColumnN false [some 15, none, some 15] 4 = .ok (ones 4 ++ toBits 6 0) ∧
    encIntColumnN false [some 15, some 3] 4 = .ok (toBits 4 3 ++ toBits 6 2 ++ ones 2 ++ toBits 2 0) := by
  decide

end Bufr
