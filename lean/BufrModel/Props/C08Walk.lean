/-
  C08 — template compilation preserves behaviour: the TEMPLATE-level theorems.

  `C08_exec_compile_eq_walk` (full, for the whole class `scopeClosed`): executing the compiled program of
  a template equals the interpreted walk of the template — same bits, labels, values, links, or the same
  error — for every primitive set that satisfies the frame law (`C08_frame_prims`: decoder and encoder,
  uncompressed and compressed).  All descriptor types: elements, sequences, fixed and delayed replication
  (arbitrarily nested), the operators 201-208, 221, the bitmap-definition machine, 222-225/232 with
  marker operators, 235, 236, 237.

  Lemmas: `Lemmas/CompilerWalk.lean` (prelude / operator / marker / loop simulations and the mutual
  induction over `Desc`), on top of `Lemmas/CompilerSim.lean`.
-/
import BufrModel.Lemmas.CompilerWalk
import BufrModel.Lemmas.CompilerDump
import BufrModel.Lemmas.CompilerCache
namespace Bufr
open Bufr.C08 Bufr.C08W Bufr.C08D

/-- Stage C = the general statement.  For every template `t`, compile-time registers `c0` from which the
    checking compiler (`chk = 1`: the class `scopeClosed`) accepts `t`, and every pair of run-time states
    related to `c0` (`RelR`: the walking state's operator registers are the ones `c0` describes, the
    executing state shares the run-time registers), executing the compiled program and walking the
    template give `Sim`-related results: the same error, or final states that are equal up to the
    registers and are again related, now to the compile-time registers `c1` the compiler ended with. -/
theorem C08_exec_compile_eq_walk_stageC (P : Prims) (hP : Frame P) (t : List Desc) (c0 : CRegs)
    (prog : List Stmt) (c1 : CRegs) (hc : compileList 1 t c0 = .ok (prog, c1))
    (s : St) (r' : Regs) (h : RelR c0 s.regs r') :
    Sim c1 (walkList P t s) (exec P prog (withRegs s r')) :=
  list_sim P hP t c0 prog c1 hc s r' h

/-- FULL.  For every `scopeClosed` template, the program the compiler produces, and every start state
    with fresh registers (what `process_template_data` creates), execution of the compiled program and
    the interpreted walk agree: both fail with the same error, or both succeed in states that differ at
    most in the operator registers (same bits, labels, values, value index, links). -/
theorem C08_exec_compile_eq_walk (P : Prims) (hP : Frame P) (t : List Desc) (prog : List Stmt)
    (hs : scopeClosed t = true) (hc : compile t = .ok prog) (s : St) (hr : s.regs = {}) :
    obs (exec P prog s) = obs (walkList P t s) := by
  obtain ⟨p, c1, h1⟩ := (scopeClosed_iff t).mp hs
  have h2 := compile_of_scopeClosed t p c1 h1
  rw [hc] at h2
  cases h2
  have h3 := list_sim P hP t {} prog c1 h1 s {} (by rw [hr]; exact relR_init)
  have h4 : withRegs s {} = s := by rw [← hr]; rfl
  rw [h4] at h3
  exact sim_obs h3


/-- Stage A (operator-free templates: elements, sequences, fixed and delayed replication, arbitrarily
    nested).  No scope hypothesis is needed: every operator-free template that compiles is `scopeClosed`. -/
theorem C08_exec_compile_eq_walk_stageA (P : Prims) (hP : Frame P) (t : List Desc) (prog : List Stmt)
    (hf : opFreeL t = true) (hc : compile t = .ok prog) (s : St) (hr : s.regs = {}) :
    obs (exec P prog s) = obs (walkList P t s) :=
  C08_exec_compile_eq_walk P hP t prog (scopeClosed_of_opFree t hf prog hc) hc s hr

/-- the two loop forms: `Loop(n)` iterates the body `n` times, `Loop(factor)` reads the count the way the
    walk does (`get_value_for_delayed_replication_factor`, then `range`) -/
theorem C08_exec_loop (P : Prims) (body : List Stmt) (s : St) :
    (∀ n, exec P [.loop (.fixed n) body] s = iterN n (exec P body) s) ∧
    exec P [.loop .factor body] s = (P.factorValue s >>= factorCount >>= fun n => iterN n (exec P body) s) := by
  constructor
  · intro n
    show execList P [.loop (.fixed n) body] s = _
    rw [execList_single]; rfl
  · show execList P [.loop .factor body] s = _
    rw [execList_single]
    simp only [exec1]
    cases (P.factorValue s >>= factorCount) <;> rfl

/-- Stage B (stage A + the operators 201-208 and 221, under `scopeClosed`): an instance of the full
    theorem; no marker operator occurs, so only the replication part of `scopeClosed` matters. -/
theorem C08_exec_compile_eq_walk_stageB (P : Prims) (hP : Frame P) (t : List Desc) (prog : List Stmt)
    (_hops : opsWithinL stageBOp t = true) (hs : scopeClosed t = true) (hc : compile t = .ok prog)
    (s : St) (hr : s.regs = {}) :
    obs (exec P prog s) = obs (walkList P t s) :=
  C08_exec_compile_eq_walk P hP t prog hs hc s hr

/-! ### data-section level (`process_template_data` with and without a compiled template) -/

/-- FULL.  Decoding a data section with the compiled template equals decoding it with the template,
    uncompressed (any number of subsets, each from a fresh state) and compressed: same per-subset
    labels, values, links and remaining bits, or the same error. -/
theorem C08_decodeDataC_eq (t : List Desc) (prog : List Stmt) (hs : scopeClosed t = true)
    (hc : compile t = .ok prog) (compressed : Bool) (n : Nat) (bits : Bits) :
    decodeDataC prog compressed n bits = decodeData t compressed n bits :=
  decodeDataC_eq (fun P hP s hr => C08_exec_compile_eq_walk P hP t prog hs hc s hr) compressed n bits

/-- FULL.  Encoding with the compiled template equals encoding with the template: same bits, same
    reported labels / links, or the same error; uncompressed and compressed. -/
theorem C08_encodeDataC_eq (t : List Desc) (prog : List Stmt) (hs : scopeClosed t = true)
    (hc : compile t = .ok prog) (compressed : Bool) (valss : List (List Val)) :
    encodeDataC prog compressed valss = encodeData t compressed valss :=
  encodeDataC_eq (fun P hP s hr => C08_exec_compile_eq_walk P hP t prog hs hc s hr) compressed valss

/-! ### save / load -/

/-- FULL for well-formed programs.  `loads_compiled_template(to_dict(prog))` is `prog`, for every program
    `prog` that is well formed over the table group `T` it is loaded with (`WFList`): descriptor
    arguments are Table B entries of `T` under their own id (`ElementDescriptor`), operator ids
    (`OperatorDescriptor`), or the pseudo descriptors `A`/`S` of a `process_codeflag` call carrying their
    own width; marker descriptors do not occur (they exist at run time only); loops nest arbitrarily. -/
theorem C08_load_dump (T : Tables) (prog : List Stmt) (h : WFList T prog) : load T (dump prog) = .ok prog :=
  load_dump T prog h

/-- every program the compiler produces from a template whose elements are entries of `T` is well formed
    (whether or not the template is `scopeClosed`) -/
theorem C08_compile_wf (T : Tables) (t : List Desc) (ht : TWFL T t) (prog : List Stmt)
    (hc : compile t = .ok prog) : WFList T prog :=
  compile_wf T t ht prog hc

/-- FULL.  For a template built from descriptor ids over tables keyed by the ids of their entries
    (`TablesOk`), saving the compiled template and loading it with the same tables gives it back. -/
theorem C08_load_dump_compile (T : Tables) (hT : TablesOk T) (ids : List Nat) (t : List Desc)
    (hb : build T ids = .ok t) (prog : List Stmt) (hc : compile t = .ok prog) :
    load T (dump prog) = .ok prog :=
  load_dump T prog (compile_wf T t (twfl_build T hT ids t hb) prog hc)

/-- FULL.  Decoding with the saved-and-reloaded compiled template equals decoding with the template. -/
theorem C08_decodeData_reload (T : Tables) (hT : TablesOk T) (ids : List Nat) (t : List Desc)
    (hb : build T ids = .ok t) (prog : List Stmt) (hs : scopeClosed t = true) (hc : compile t = .ok prog)
    (compressed : Bool) (n : Nat) (bits : Bits) :
    (load T (dump prog) >>= fun p => decodeDataC p compressed n bits) = decodeData t compressed n bits := by
  rw [C08_load_dump_compile T hT ids t hb prog hc]
  exact C08_decodeDataC_eq t prog hs hc compressed n bits

/-- FULL.  Encoding with the saved-and-reloaded compiled template equals encoding with the template. -/
theorem C08_encodeData_reload (T : Tables) (hT : TablesOk T) (ids : List Nat) (t : List Desc)
    (hb : build T ids = .ok t) (prog : List Stmt) (hs : scopeClosed t = true) (hc : compile t = .ok prog)
    (compressed : Bool) (valss : List (List Val)) :
    (load T (dump prog) >>= fun p => encodeDataC p compressed valss) = encodeData t compressed valss := by
  rw [C08_load_dump_compile T hT ids t hb prog hc]
  exact C08_encodeDataC_eq t prog hs hc compressed valss


/-! ### through the cache -/

/-- FULL.  End to end through the cache: for every history of template requests and every cache limit,
    every program handed out (freshly compiled or served from the cache) decodes and encodes exactly like
    its own template, provided the requested templates are `scopeClosed`. -/
theorem C08_cached_program_eq_template {κ : Type} [DecidableEq κ] (tmplOf : κ → List Desc) (cacheMax : Nat)
    (hist : List κ) (hs : ∀ k ∈ hist, scopeClosed (tmplOf k) = true) :
    ∀ kr ∈ hist.zip (runCache (fun k => compile (tmplOf k)) cacheMax hist {}).1, ∀ prog, kr.2 = .ok prog →
      (∀ compressed n bits, decodeDataC prog compressed n bits = decodeData (tmplOf kr.1) compressed n bits) ∧
      (∀ compressed valss, encodeDataC prog compressed valss = encodeData (tmplOf kr.1) compressed valss) := by
  intro kr hkr prog hp
  rw [(runCache_results (fun k => compile (tmplOf k)) cacheMax hist {} (by intro p hp; cases hp)).1] at hkr
  have h1 := mem_zip_map _ _ kr hkr
  have h2 : kr.1 ∈ hist := (List.of_mem_zip hkr).1
  rw [hp] at h1
  exact ⟨fun c n b => C08_decodeDataC_eq _ prog (hs _ h2) h1.symm c n b,
         fun c v => C08_encodeDataC_eq _ prog (hs _ h2) h1.symm c v⟩


example : (List.zip [1, 2, 1] (runCache (fun k : Nat => k + 1) 1 [1, 2, 1] {}).1) = [(1, 2), (2, 3), (1, 2)] := by decide

/-! ### non-vacuity: a concrete template with 201, nested replication, a bitmap and marker operators -/
end Bufr

namespace Bufr.C08Ex
open Bufr Bufr.C08 Bufr.C08W Bufr.C08D

def e1 : Elem := { id := 1001, kind := .numeric, nbits := 7, scale := 0, ref := 0 }
def e2 : Elem := { id := 12001, kind := .numeric, nbits := 12, scale := 1, ref := 0 }
def eF : Elem := { id := 31001, kind := .numeric, nbits := 8, scale := 0, ref := 0 }
def eB : Elem := { id := 31031, kind := .codeflag, nbits := 1, scale := 0, ref := 0 }
def eQ : Elem := { id := 33007, kind := .numeric, nbits := 7, scale := 0, ref := 0 }

def tmpl : List Desc :=
  [ .op 201130, .elem e2, .op 201000,
    .fixedRep 101002 [ .delayedRep 101000 (.elem eF) [ .elem e1 ] ],
    .op 222000, .fixedRep 101003 [ .elem eB ], .fixedRep 101002 [ .elem eQ ],
    .elem e1,
    .op 223000, .op 237000, .op 223255, .op 223255 ]

def bits : Bits :=
  toBits 14 1234 ++ toBits 8 1 ++ toBits 7 5 ++ toBits 8 2 ++ toBits 7 6 ++ toBits 7 7 ++
  [false, true, false] ++ toBits 7 70 ++ toBits 7 71 ++ toBits 7 9 ++ toBits 8 200 ++ toBits 7 100 ++ [true, true]

def progOf (t : List Desc) : List Stmt := match compile t with | .ok p => p | .error _ => []
def isOk {α : Type} (x : CM α) : Bool := match x with | .ok _ => true | .error _ => false

theorem compile_progOf (t : List Desc) (h : isOk (compile t) = true) : compile t = .ok (progOf t) := by
  unfold progOf
  cases hc : compile t with
  | error e => rw [hc] at h; cases h
  | ok p => rfl

example : scopeClosed tmpl = true := by decide +kernel
example : isOk (compile tmpl) = true := by decide +kernel

def expected : SubsetOut :=
  { descs := [.plain e2, .plain eF, .plain e1, .plain eF, .plain e1, .plain e1, .oper 222000, .plain eB, .plain eB, .plain eB,
              .plain eQ, .plain eQ, .plain e1, .oper 223000, .oper 237000, .marker 223255 eF, .marker 223255 e1],
    vals := [.num 1234 1, .int 1, .int 5, .int 2, .int 6, .int 7, .int 0, .int 0, .int 1, .int 0, .int 70, .int 71, .int 9,
             .int 0, .int 0, .int 200, .int 100],
    links := [(10, 3), (11, 5), (15, 3), (16, 5)] }

example : decodeData tmpl false 1 bits = .ok ([expected], [true, true]) := by decide +kernel
example : decodeDataC (progOf tmpl) false 1 bits = .ok ([expected], [true, true]) := by decide +kernel
/-- the theorem applied: hypotheses discharged by evaluation -/
example : decodeDataC (progOf tmpl) false 1 bits = decodeData tmpl false 1 bits :=
  C08_decodeDataC_eq tmpl _ (by decide +kernel) (compile_progOf tmpl (by decide +kernel)) false 1 bits

/-- encoding the decoded values gives the bits back (without the two unread ones), compiled or not -/
example : encodeData tmpl false [expected.vals] = .ok ([expected], bits.take 90) := by decide +kernel
example : encodeDataC (progOf tmpl) false [expected.vals] = .ok ([expected], bits.take 90) := by decide +kernel
/-- compressed, two identical subsets -/
example : isOk (encodeData tmpl true [expected.vals, expected.vals]) = true := by decide +kernel
example : encodeDataC (progOf tmpl) true [expected.vals, expected.vals] = encodeData tmpl true [expected.vals, expected.vals] :=
  C08_encodeDataC_eq tmpl _ (by decide +kernel) (compile_progOf tmpl (by decide +kernel)) true _

/-- save / load over a five-entry Table B -/
def T0 : Tables :=
  { b := fun id => if id = 1001 then some e1 else if id = 12001 then some e2 else if id = 31001 then some eF
          else if id = 31031 then some eB else if id = 33007 then some eQ else none,
    d := fun _ => none }

example : TablesOk T0 := by
  intro id e h
  simp only [T0] at h
  split at h
  · next hid => cases h; subst hid; exact ⟨rfl, by omega⟩
  split at h
  · next hid => cases h; subst hid; exact ⟨rfl, by omega⟩
  split at h
  · next hid => cases h; subst hid; exact ⟨rfl, by omega⟩
  split at h
  · next hid => cases h; subst hid; exact ⟨rfl, by omega⟩
  split at h
  · next hid => cases h; subst hid; exact ⟨rfl, by omega⟩
  · cases h

theorem twfl_tmpl : TWFL T0 tmpl := by
  simp only [tmpl, TWFL, TWF, elemOk]
  decide +kernel

/-- the compiled template survives save / load, and the reloaded program decodes like the template -/
example (p : List Stmt) (hp : compile tmpl = .ok p) : load T0 (dump p) = .ok p :=
  C08_load_dump T0 p (C08_compile_wf T0 tmpl twfl_tmpl p hp)

example (p : List Stmt) (hp : compile tmpl = .ok p) :
    (load T0 (dump p) >>= fun q => decodeDataC q false 1 bits) = .ok ([expected], [true, true]) := by
  rw [C08_load_dump T0 p (C08_compile_wf T0 tmpl twfl_tmpl p hp)]
  show decodeDataC p false 1 bits = _
  rw [C08_decodeDataC_eq tmpl p (by decide +kernel) hp]
  decide +kernel

/-- stage A: an operator-free template with nested replications needs no scope hypothesis -/
example : opFreeL [.seq 301001 [.fixedRep 102002 [.elem e1, .delayedRep 101000 (.elem eF) [.elem e2]]]] = true := by
  decide


/-! ### the class hypothesis is needed: the open finding F7d inside the model -/

def eF2 : Elem := { id := 31002, kind := .numeric, nbits := 16, scale := 0, ref := 0 }

/-- a bitmap whose length is given by a delayed replication; with factor 0 the interpreted walk stays in
    the waiting stage and defines no bitmap, the compiled program runs `define_bitmap` and fails -/
def open7d : List Desc := [ .elem e1, .op 222000, .delayedRep 101000 (.elem eF2) [ .elem eB ], .elem e1 ]
def bits7d : Bits := toBits 7 5 ++ toBits 16 0 ++ toBits 7 6

example : scopeClosed open7d = false := by decide +kernel
example : isOk (compile open7d) = true := by decide +kernel
example : isOk (decodeData open7d false 1 bits7d) = true := by decide +kernel
example : decodeDataC (progOf open7d) false 1 bits7d = .error .lib := by decide +kernel

end Bufr.C08Ex
