/-
  C08 — template compilation preserves behaviour: the TEMPLATE-level theorems.

  `C08_exec_compile_eq_walk` (full, for the whole class `scopeClosed`): executing the compiled program of
  a template equals the interpreted walk of the template — same bits, labels, values, links, or the same
  error — for every primitive set that satisfies the frame law (`C08_frame_prims`: decoder and encoder,
  uncompressed and compressed).  All descriptor types: elements, sequences, fixed and delayed replication
  (arbitrarily nested), the operators 201-208, 221, the bitmap-definition machine, 222-225/232 with
  marker operators, 235, 236, 237.

  Lemmas: `Lemmas/CompilerWalk.lean` (prelude / operator / marker / loop simulations and the mutual
  induction over `Desc`), on top of `Lemmas/CompilerSim.lean`.
-/
import BufrModel.Lemmas.CompilerWalk
import BufrModel.Lemmas.CompilerDump
namespace Bufr
open Bufr.C08 Bufr.C08W Bufr.C08D

/-- Stage C = the general statement.  For every template `t`, compile-time registers `c0` from which the
    checking compiler (`chk = 1`: the class `scopeClosed`) accepts `t`, and every pair of run-time states
    related to `c0` (`RelR`: the walking state's operator registers are the ones `c0` describes, the
    executing state shares the run-time registers), executing the compiled program and walking the
    template give `Sim`-related results: the same error, or final states that are equal up to the
    registers and are again related, now to the compile-time registers `c1` the compiler ended with. -/
theorem C08_exec_compile_eq_walk_stageC (P : Prims) (hP : Frame P) (t : List Desc) (c0 : CRegs)
    (prog : List Stmt) (c1 : CRegs) (hc : compileList 1 t c0 = .ok (prog, c1))
    (s : St) (r' : Regs) (h : RelR c0 s.regs r') :
    Sim c1 (walkList P t s) (exec P prog (withRegs s r')) :=
  list_sim P hP t c0 prog c1 hc s r' h

/-- FULL.  For every `scopeClosed` template, the program the compiler produces, and every start state
    with fresh registers (what `process_template_data` creates), execution of the compiled program and
    the interpreted walk agree: both fail with the same error, or both succeed in states that differ at
    most in the operator registers (same bits, labels, values, value index, links). -/
theorem C08_exec_compile_eq_walk (P : Prims) (hP : Frame P) (t : List Desc) (prog : List Stmt)
    (hs : scopeClosed t = true) (hc : compile t = .ok prog) (s : St) (hr : s.regs = {}) :
    obs (exec P prog s) = obs (walkList P t s) := by
  obtain ⟨p, c1, h1⟩ := (scopeClosed_iff t).mp hs
  have h2 := compile_of_scopeClosed t p c1 h1
  rw [hc] at h2
  cases h2
  have h3 := list_sim P hP t {} prog c1 h1 s {} (by rw [hr]; exact relR_init)
  have h4 : withRegs s {} = s := by rw [← hr]; rfl
  rw [h4] at h3
  exact sim_obs h3


/-! ### data-section level (`process_template_data` with and without a compiled template) -/

/-- FULL.  Decoding a data section with the compiled template equals decoding it with the template,
    uncompressed (any number of subsets, each from a fresh state) and compressed: same per-subset
    labels, values, links and remaining bits, or the same error. -/
theorem C08_decodeDataC_eq (t : List Desc) (prog : List Stmt) (hs : scopeClosed t = true)
    (hc : compile t = .ok prog) (compressed : Bool) (n : Nat) (bits : Bits) :
    decodeDataC prog compressed n bits = decodeData t compressed n bits :=
  decodeDataC_eq (fun P hP s hr => C08_exec_compile_eq_walk P hP t prog hs hc s hr) compressed n bits

/-- FULL.  Encoding with the compiled template equals encoding with the template: same bits, same
    reported labels / links, or the same error; uncompressed and compressed. -/
theorem C08_encodeDataC_eq (t : List Desc) (prog : List Stmt) (hs : scopeClosed t = true)
    (hc : compile t = .ok prog) (compressed : Bool) (valss : List (List Val)) :
    encodeDataC prog compressed valss = encodeData t compressed valss :=
  encodeDataC_eq (fun P hP s hr => C08_exec_compile_eq_walk P hP t prog hs hc s hr) compressed valss

/-! ### save / load -/

/-- FULL for well-formed programs.  `loads_compiled_template(to_dict(prog))` is `prog`, for every program
    `prog` that is well formed over the table group `T` it is loaded with (`WFList`): descriptor
    arguments are Table B entries of `T` under their own id (`ElementDescriptor`), operator ids
    (`OperatorDescriptor`), or the pseudo descriptors `A`/`S` of a `process_codeflag` call carrying their
    own width; marker descriptors do not occur (they exist at run time only); loops nest arbitrarily. -/
theorem C08_load_dump (T : Tables) (prog : List Stmt) (h : WFList T prog) : load T (dump prog) = .ok prog :=
  load_dump T prog h

/-- every program the compiler produces from a template whose elements are entries of `T` is well formed
    (whether or not the template is `scopeClosed`) -/
theorem C08_compile_wf (T : Tables) (t : List Desc) (ht : TWFL T t) (prog : List Stmt)
    (hc : compile t = .ok prog) : WFList T prog :=
  compile_wf T t ht prog hc

/-- FULL.  For a template built from descriptor ids over tables keyed by the ids of their entries
    (`TablesOk`), saving the compiled template and loading it with the same tables gives it back. -/
theorem C08_load_dump_compile (T : Tables) (hT : TablesOk T) (ids : List Nat) (t : List Desc)
    (hb : build T ids = .ok t) (prog : List Stmt) (hc : compile t = .ok prog) :
    load T (dump prog) = .ok prog :=
  load_dump T prog (compile_wf T t (twfl_build T hT ids t hb) prog hc)

/-- FULL.  Decoding with the saved-and-reloaded compiled template equals decoding with the template. -/
theorem C08_decodeData_reload (T : Tables) (hT : TablesOk T) (ids : List Nat) (t : List Desc)
    (hb : build T ids = .ok t) (prog : List Stmt) (hs : scopeClosed t = true) (hc : compile t = .ok prog)
    (compressed : Bool) (n : Nat) (bits : Bits) :
    (load T (dump prog) >>= fun p => decodeDataC p compressed n bits) = decodeData t compressed n bits := by
  rw [C08_load_dump_compile T hT ids t hb prog hc]
  exact C08_decodeDataC_eq t prog hs hc compressed n bits

/-- FULL.  Encoding with the saved-and-reloaded compiled template equals encoding with the template. -/
theorem C08_encodeData_reload (T : Tables) (hT : TablesOk T) (ids : List Nat) (t : List Desc)
    (hb : build T ids = .ok t) (prog : List Stmt) (hs : scopeClosed t = true) (hc : compile t = .ok prog)
    (compressed : Bool) (valss : List (List Val)) :
    (load T (dump prog) >>= fun p => encodeDataC p compressed valss) = encodeData t compressed valss := by
  rw [C08_load_dump_compile T hT ids t hb prog hc]
  exact C08_encodeDataC_eq t prog hs hc compressed valss

end Bufr
