/-
  C08 — template compilation preserves behaviour: the TEMPLATE-level theorems.

  `C08_exec_compile_eq_walk` (full, for the whole class `scopeClosed`): executing the compiled program of
  a template equals the interpreted walk of the template — same bits, labels, values, links, or the same
  error — for every primitive set that satisfies the frame law (`C08_frame_prims`: decoder and encoder,
  uncompressed and compressed).  All descriptor types: elements, sequences, fixed and delayed replication
  (arbitrarily nested), the operators 201-208, 221, the bitmap-definition machine, 222-225/232 with
  marker operators, 235, 236, 237.

  Lemmas: `Lemmas/CompilerWalk.lean` (prelude / operator / marker / loop simulations and the mutual
  induction over `Desc`), on top of `Lemmas/CompilerSim.lean`.
-/
import BufrModel.Lemmas.CompilerWalk
namespace Bufr
open Bufr.C08 Bufr.C08W

/-- Stage C = the general statement.  For every template `t`, compile-time registers `c0` from which the
    checking compiler (`chk = 1`: the class `scopeClosed`) accepts `t`, and every pair of run-time states
    related to `c0` (`RelR`: the walking state's operator registers are the ones `c0` describes, the
    executing state shares the run-time registers), executing the compiled program and walking the
    template give `Sim`-related results: the same error, or final states that are equal up to the
    registers and are again related, now to the compile-time registers `c1` the compiler ended with. -/
theorem C08_exec_compile_eq_walk_stageC (P : Prims) (hP : Frame P) (t : List Desc) (c0 : CRegs)
    (prog : List Stmt) (c1 : CRegs) (hc : compileList 1 t c0 = .ok (prog, c1))
    (s : St) (r' : Regs) (h : RelR c0 s.regs r') :
    Sim c1 (walkList P t s) (exec P prog (withRegs s r')) :=
  list_sim P hP t c0 prog c1 hc s r' h

/-- FULL.  For every `scopeClosed` template, the program the compiler produces, and every start state
    with fresh registers (what `process_template_data` creates), execution of the compiled program and
    the interpreted walk agree: both fail with the same error, or both succeed in states that differ at
    most in the operator registers (same bits, labels, values, value index, links). -/
theorem C08_exec_compile_eq_walk (P : Prims) (hP : Frame P) (t : List Desc) (prog : List Stmt)
    (hs : scopeClosed t = true) (hc : compile t = .ok prog) (s : St) (hr : s.regs = {}) :
    obs (exec P prog s) = obs (walkList P t s) := by
  obtain ⟨p, c1, h1⟩ := (scopeClosed_iff t).mp hs
  have h2 := compile_of_scopeClosed t p c1 h1
  rw [hc] at h2
  cases h2
  have h3 := list_sim P hP t {} prog c1 h1 s {} (by rw [hr]; exact relR_init)
  have h4 : withRegs s {} = s := by rw [← hr]; rfl
  rw [h4] at h3
  exact sim_obs h3

end Bufr
