/-
  C09, text formats, character data — the SHAPE hypotheses the text-converter theorems make of the value token of a
  character value (`ReprOK`, Lemmas/TextBasic.lean) are DERIVED from the model of `repr(bytes)` (View/JsonText.lean,
  `reprBytes`), for every octet string:

  * `C09_repr_bytes_tok`   — `BytesTok (reprBytes b)`: `b<q>…<q>` with `q` a quote and no ` b<q>` before the closing quote
    (inside the quotes `q` only ever follows a backslash), so `rfind(' b' + q, 0, len - 1)` of the nested-text converter
    finds the start of the token whatever the bytes are - a value such as b" b'x" included;
  * `C09_repr_bytes_edges` — the token is not empty and has no white space at either end (`strip()` leaves it alone);
  * `C09_repr_bytes_core`  — hence `ReprCore env ev (.bytes b)` (the part of `ReprOK` the nested text reads; Lemmas/TextBasic.lean)
    for every environment that prints character values with `reprBytes` and every evaluator that extends `evalBytesLiteral`
    (`C09_bytes_repr_roundtrip` gives `eval_repr`), with NO hypothesis left about the token;
    `C09_repr_bytes_ok` — `ReprOK env ev (.bytes b)`: the two hypotheses about the TUPLE token of a flag-table element stay
    (`FlagTokOK`): the flat text reads them only when a character value sits at a flag-table element, which no decoder
    produces, but `ReprOK` carries them for every value;
  * `C09_nested_text_to_flat_bytes_partial` — the nested text converter theorem with the token hypotheses (`ReprCore`) asked
    of the values that are NOT character values only, nothing about character values;
    `C09_flat_text_to_flat_at` — the flat text converter theorem with the token hypotheses stated per (label, value) pair
    (`TokAt`: the tuple token is constrained only where the renderer prints a tuple), and
    `C09_flat_text_to_flat_bytes_values` — with character values rendered by `reprBytes` nothing is assumed of their tokens;
    the only condition on a character value is that it does not sit at a flag-table element (decidable; flag-table elements
    are numeric).  (`C09_flat_text_to_flat_bytes`: the earlier form with `FlagTokOK` as a hypothesis.)
-/
import BufrModel.Props.C09Text
import BufrModel.Props.C09Cli
namespace Bufr
open Bufr.C09T C09Cli

namespace C09TB

def sub3 (q : Char) : Line := [' ', 'b', q]

theorem rfind_cons_none (sub : Line) (c : Char) (cs : Line) (h1 : pyRfind sub cs = none)
    (h2 : sub.isPrefixOf (c :: cs) = false) : pyRfind sub (c :: cs) = none := by
  rw [pyRfind, h1]; simp [h2]

theorem prefix3_ne (q c : Char) (cs : Line) (h : c ≠ ' ') : (sub3 q).isPrefixOf (c :: cs) = false := by
  simp [sub3, List.isPrefixOf, h.symm]

theorem hex_ne_blank : ∀ n, n < 16 → hexDigitChar n ≠ ' ' := by decide

/-- the three forms of what `repr` writes for one octet -/
theorem escByte_forms (q : Char) (hq : q = '\'' ∨ q = '"') (x : UInt8) :
    (∃ c, escByte q x = ['\\', c] ∧ c ≠ ' ') ∨
    (∃ h1 h2, escByte q x = ['\\', 'x', h1, h2] ∧ h1 ≠ ' ' ∧ h2 ≠ ' ') ∨
    (∃ c, escByte q x = [c] ∧ c ≠ q ∧ c ≠ '\\') := by
  have hx := UInt8.toNat_lt x
  have hqn := isQuote_cases q hq
  have hc : (Char.ofNat x.toNat).toNat = x.toNat := latin1_char x
  unfold escByte
  split
  · rename_i h
    left
    refine ⟨_, rfl, ?_⟩
    intro e
    have := congrArg Char.toNat e
    rw [hc] at this
    have : x.toNat = 32 := by simpa using this
    rcases h with h | h <;> rcases hqn with g | g <;> omega
  split
  · left; exact ⟨_, rfl, by decide⟩
  split
  · left; exact ⟨_, rfl, by decide⟩
  split
  · left; exact ⟨_, rfl, by decide⟩
  split
  · right; left
    exact ⟨_, _, rfl, hex_ne_blank _ (by omega), hex_ne_blank _ (Nat.mod_lt _ (by decide))⟩
  · rename_i h0 _ _ _ _
    right; right
    refine ⟨_, rfl, ?_, ?_⟩
    · intro e
      have := congrArg Char.toNat e
      rw [hc] at this
      exact h0 (Or.inl this)
    · intro e
      have := congrArg Char.toNat e
      rw [hc] at this
      exact h0 (Or.inr this)

/-- inside the quotes nothing starts with the quote -/
theorem body_head_ne (q : Char) (hq : q = '\'' ∨ q = '"') (r : List UInt8) :
    (r.flatMap (escByte q)).head? ≠ some q := by
  have hq5 : q ≠ '\\' := by rcases hq with rfl | rfl <;> decide
  cases r with
  | nil => simp
  | cons x r =>
    rw [List.flatMap_cons]
    rcases escByte_forms q hq x with ⟨c, e, _⟩ | ⟨h1, h2, e, _, _⟩ | ⟨c, e, hcq, _⟩
    · rw [e]; simp; exact fun h => hq5 h.symm
    · rw [e]; simp; exact fun h => hq5 h.symm
    · rw [e]; simp; exact hcq

theorem prefix_bq (q : Char) (hq : q = '\'' ∨ q = '"') (r : List UInt8) :
    List.isPrefixOf ['b', q] (r.flatMap (escByte q)) = false := by
  cases r with
  | nil => simp [List.isPrefixOf]
  | cons x r =>
    rw [List.flatMap_cons]
    rcases escByte_forms q hq x with ⟨c, e, _⟩ | ⟨h1, h2, e, _, _⟩ | ⟨c, e, _, _⟩
    · rw [e]; simp [List.isPrefixOf]
    · rw [e]; simp [List.isPrefixOf]
    · rw [e]
      have hh := body_head_ne q hq r
      cases hL : r.flatMap (escByte q) with
      | nil => simp [List.isPrefixOf]
      | cons d ds =>
        rw [hL] at hh
        have hd : d ≠ q := by simpa using hh
        simp [List.isPrefixOf, Ne.symm hd]

/-- ` b<q>` does not occur inside the quotes -/
theorem rfind_body (q : Char) (hq : q = '\'' ∨ q = '"') (r : List UInt8) :
    pyRfind (sub3 q) (r.flatMap (escByte q)) = none := by
  induction r with
  | nil => simp [pyRfind]
  | cons x r ih =>
    rw [List.flatMap_cons]
    rcases escByte_forms q hq x with ⟨c, e, hc⟩ | ⟨h1, h2, e, hh1, hh2⟩ | ⟨c, e, _, _⟩
    · rw [e]
      simp only [List.cons_append, List.nil_append]
      exact rfind_cons_none _ _ _ (rfind_cons_none _ _ _ ih (prefix3_ne q c _ hc)) (prefix3_ne q _ _ (by decide))
    · rw [e]
      simp only [List.cons_append, List.nil_append]
      exact rfind_cons_none _ _ _ (rfind_cons_none _ _ _ (rfind_cons_none _ _ _ (rfind_cons_none _ _ _ ih
        (prefix3_ne q h2 _ hh2)) (prefix3_ne q h1 _ hh1)) (prefix3_ne q _ _ (by decide))) (prefix3_ne q _ _ (by decide))
    · rw [e]
      simp only [List.cons_append, List.nil_append]
      apply rfind_cons_none _ _ _ ih
      by_cases hb : c = ' '
      · subst hb
        have := prefix_bq q hq r
        simp only [sub3, List.isPrefixOf, beq_self_eq_true, Bool.true_and]
        exact this
      · exact prefix3_ne q c _ hb

end C09TB
open C09TB

theorem C09_repr_quote (b : List UInt8) : reprQuote b = '\'' ∨ reprQuote b = '"' := by
  unfold reprQuote; split <;> simp

/-- **shape of the token of a character value, derived**: `repr(b)` is `b<q>…<q>` and ` b<q>` does not occur before the
    closing quote - for EVERY octet string -/
theorem C09_repr_bytes_tok (b : List UInt8) : BytesTok (reprBytes b) := by
  have hq := C09_repr_quote b
  refine ⟨reprQuote b, b.flatMap (escByte (reprQuote b)), hq.symm, by simp [reprBytes], ?_⟩
  have hq' : reprQuote b ≠ ' ' := by rcases hq with h | h <;> rw [h] <;> decide
  exact rfind_cons_none _ _ _ (rfind_cons_none _ _ _ (rfind_body _ hq b) (prefix3_ne _ _ _ hq')) (prefix3_ne _ _ _ (by decide))

/-- the token is not empty and `strip()` leaves it alone -/
theorem C09_repr_bytes_edges (b : List UInt8) : EdgesOK (reprBytes b) := by
  have hq := C09_repr_quote b
  refine ⟨by simp [reprBytes], ?_, ?_⟩
  · intro c hc
    simp [reprBytes] at hc
    subst hc; decide
  · intro c hc
    have e : reprBytes b = [] ++ 'b' :: ((reprQuote b :: b.flatMap (escByte (reprQuote b))) ++ [reprQuote b]) := by
      simp [reprBytes]
    rw [e, getLast?_append_cons_concat] at hc
    have : c = reprQuote b := by simpa using hc.symm
    subst this
    rcases hq with h | h <;> rw [h] <;> decide

/-- what is left to assume of the TUPLE token (flat text, flag-table elements) for a value -/
def FlagTokOK (env : TextEnv) (ev : Line → Option PyLit) (v : Val) : Prop :=
  (∀ bits, ev (env.reprFlag v bits) = some (.tuple v)) ∧ ∀ bits, EdgesOK (env.reprFlag v bits)

/-- **`ReprOK` for a character value without a tested hypothesis about its token**: the environment prints character
    values with `reprBytes`, the evaluator extends `evalBytesLiteral` -/
theorem C09_repr_bytes_ok (env : TextEnv) (ev : Line → Option PyLit)
    (hrepr : ∀ b, env.reprV (.bytes b) = reprBytes b)
    (hev : ∀ tok b, evalBytesLiteral tok = some b → ev tok = some (.val (.bytes b)))
    (b : List UInt8) (hflag : FlagTokOK env ev (.bytes b)) : ReprOK env ev (.bytes b) where
  eval_repr := by rw [hrepr]; exact hev _ _ (C09_bytes_repr_roundtrip b)
  eval_flag := hflag.1
  edges := by rw [hrepr]; exact C09_repr_bytes_edges b
  flag_edges := hflag.2
  bytes_tok := by intro b' _; rw [hrepr]; exact C09_repr_bytes_tok b
  plain_tok := by intro h; exact absurd rfl (h b)

/-- `ReprOK` of every value of a list from: `ReprOK` of the values that are not character values + the above -/
theorem C09_repr_ok_of_bytes_model (env : TextEnv) (ev : Line → Option PyLit)
    (hrepr : ∀ b, env.reprV (.bytes b) = reprBytes b)
    (hev : ∀ tok b, evalBytesLiteral tok = some b → ev tok = some (.val (.bytes b)))
    (v : Val) (hother : (∀ b, v ≠ .bytes b) → ReprOK env ev v) (hflag : ∀ b, v = .bytes b → FlagTokOK env ev v) :
    ReprOK env ev v := by
  cases v with
  | bytes b => exact C09_repr_bytes_ok env ev hrepr hev b (hflag b rfl)
  | missing => exact hother (by intro b h; cases h)
  | int i => exact hother (by intro b h; cases h)
  | num m s => exact hother (by intro b h; cases h)

/-- **flat text -> flat with character values rendered by `reprBytes`**: `ReprOK` is asked of the other values only -/
theorem C09_flat_text_to_flat_bytes (env : TextEnv) (ev : Line → Option PyLit) (outs : List SubsetOut)
    (hdr : Line) (rest : List Line) (hhdr : startsWith sectionMark hdr = true)
    (hrepr : ∀ b, env.reprV (.bytes b) = reprBytes b)
    (hev : ∀ tok b, evalBytesLiteral tok = some b → ev tok = some (.val (.bytes b)))
    (hother : ∀ o ∈ outs, ∀ v ∈ o.vals, (∀ b, v ≠ .bytes b) → ReprOK env ev v)
    (hflag : ∀ o ∈ outs, ∀ v ∈ o.vals, ∀ b, v = .bytes b → FlagTokOK env ev v)
    (hlen : ∀ o ∈ outs, o.descs.length = o.vals.length) :
    flatTextToFlat ev PyLit.untuple (flatTextLines env outs ++ hdr :: rest) =
      .ok (hdr :: rest, outs.map fun o => o.vals.map PyLit.val) :=
  C09_flat_text_to_flat_values env ev outs hdr rest hhdr
    (fun o ho v hv => C09_repr_ok_of_bytes_model env ev hrepr hev v (hother o ho v hv) (hflag o ho v hv)) hlen

/-- **`ReprCore` for a character value with no hypothesis about its token** -/
theorem C09_repr_bytes_core (env : TextEnv) (ev : Line → Option PyLit)
    (hrepr : ∀ b, env.reprV (.bytes b) = reprBytes b)
    (hev : ∀ tok b, evalBytesLiteral tok = some b → ev tok = some (.val (.bytes b)))
    (b : List UInt8) : ReprCore env ev (.bytes b) where
  eval_repr := by rw [hrepr]; exact hev _ _ (C09_bytes_repr_roundtrip b)
  edges := by rw [hrepr]; exact C09_repr_bytes_edges b
  bytes_tok := by intro b' _; rw [hrepr]; exact C09_repr_bytes_tok b
  plain_tok := by intro h; exact absurd rfl (h b)

theorem C09_repr_core_of_bytes_model (env : TextEnv) (ev : Line → Option PyLit)
    (hrepr : ∀ b, env.reprV (.bytes b) = reprBytes b)
    (hev : ∀ tok b, evalBytesLiteral tok = some b → ev tok = some (.val (.bytes b)))
    (v : Val) (hother : (∀ b, v ≠ .bytes b) → ReprCore env ev v) : ReprCore env ev v := by
  cases v with
  | bytes b => exact C09_repr_bytes_core env ev hrepr hev b
  | missing => exact hother (by intro b h; cases h)
  | int i => exact hother (by intro b h; cases h)
  | num m s => exact hother (by intro b h; cases h)

/-- **nested text -> flat with character values rendered by `reprBytes`**: nothing is assumed of the tokens of character
    values (`_partial` exactly as `C09_nested_text_to_flat_partial`: the side conditions on the wired tree are hypotheses) -/
theorem C09_nested_text_to_flat_bytes_partial (env : TextEnv) (ev : Line → Option PyLit) (t : List Desc)
    (subs : List TextSubset) (lines : List Line) (hdr : Line) (rest : List Line)
    (hhdr : ntClassify ev hdr = .stop)
    (hok : ∀ s ∈ subs, s.OK t)
    (hrepr : ∀ b, env.reprV (.bytes b) = reprBytes b)
    (hev : ∀ tok b, evalBytesLiteral tok = some b → ev tok = some (.val (.bytes b)))
    (hother : ∀ s ∈ subs, ∀ v ∈ s.out.vals, (∀ b, v ≠ .bytes b) → ReprCore env ev v)
    (hl : nestedTextLines env (subs.map (·.out)) (subs.map (·.tree)) = .ok lines) :
    nestedTextToFlat ev (lines ++ hdr :: rest) = .ok (hdr :: rest, subs.map fun s => s.out.vals.map PyLit.val) :=
  C09_nested_text_to_flat_partial env ev t subs lines hdr rest hhdr hok
    (fun s hs v hv => C09_repr_core_of_bytes_model env ev hrepr hev v (hother s hs v hv)) hl

/-! ### flat text: the tuple token is read only at a flag-table element -/
namespace C09TB

/-- what the flat text needs of the token printed for value `v` under label `d`: the plain token hypotheses, and those of
    the tuple token only where the renderer prints a tuple (`v` not missing and `d` a flag-table element) -/
def TokAt (env : TextEnv) (ev : Line → Option PyLit) (d : DDesc) (v : Val) : Prop :=
  ReprCore env ev v ∧ ((v != .missing && isFlagLabel env d) = true → FlagTokOK env ev v)

theorem flatTok_eval_at (env : TextEnv) (ev : Line → Option PyLit) (d : DDesc) (v : Val) (h : TokAt env ev d v) :
    ∃ x, ev (pyStrip (flatTok env d v)) = some x ∧ x.untuple = .val v := by
  unfold flatTok
  split
  · rename_i hc
    obtain ⟨he, hedge⟩ := h.2 hc
    exact ⟨.tuple v, by rw [pyStrip_edges _ (hedge _), he], rfl⟩
  · exact ⟨.val v, by rw [pyStrip_edges _ h.1.edges, h.1.eval_repr], rfl⟩

theorem ftLoop_lines_at (env : TextEnv) (ev : Line → Option PyLit) (links : List (Nat × Nat)) :
    ∀ (ds : List DDesc) (vs : List Val) (idx : Nat) (pre : List (List PyLit)) (cur : List PyLit) (rest : List Line),
      (∀ p ∈ ds.zip vs, TokAt env ev p.1 p.2) →
      ftLoop ev PyLit.untuple (flatLinesFrom env links idx ds vs ++ rest) (pre ++ [cur]) =
        ftLoop ev PyLit.untuple rest (pre ++ [cur ++ (vs.take ds.length).map PyLit.val])
  | [], vs, idx, pre, cur, rest, _ => by
    cases vs <;> simp [flatLinesFrom]
  | d :: ds, [], idx, pre, cur, rest, _ => by simp [flatLinesFrom]
  | d :: ds, v :: vs, idx, pre, cur, rest, h => by
    obtain ⟨hs, hm⟩ := flatLine_not_header env links idx d v
    obtain ⟨x, hx, hu⟩ := flatTok_eval_at env ev d v (h (d, v) (by simp))
    rw [flatLinesFrom, List.cons_append, ftLoop]
    simp only [hs, hm, Bool.false_eq_true, if_false, flatLine_drop, hx, modifyLast_concat, hu]
    rw [ftLoop_lines_at env ev links ds vs (idx + 1) pre _ rest (fun w hw => h w (by simp [hw]))]
    simp

theorem ftLoop_subsets_at (env : TextEnv) (ev : Line → Option PyLit) (n : Nat) (hdr : Line) (rest : List Line)
    (hhdr : startsWith sectionMark hdr = true) :
    ∀ (outs : List SubsetOut) (i : Nat) (pre : List (List PyLit)),
      (∀ o ∈ outs, ∀ p ∈ o.descs.zip o.vals, TokAt env ev p.1 p.2) →
      ftLoop ev PyLit.untuple (flatSubsetsFrom env n i outs ++ hdr :: rest) pre =
        .ok (hdr :: rest, pre ++ outs.map flatBack)
  | [], i, pre, _ => by
    simp [flatSubsetsFrom, ftLoop, hhdr]
  | o :: os, i, pre, h => by
    obtain ⟨h1, h2⟩ := subsetHeader_marks (i + 1) n
    rw [flatSubsetsFrom, List.cons_append, List.cons_append, ftLoop]
    simp only [h1, h2, Bool.false_eq_true, if_false, if_true, List.append_assoc]
    rw [ftLoop_lines_at env ev o.links o.descs o.vals 0 pre [] _ (h o (by simp))]
    rw [ftLoop_subsets_at env ev n hdr rest hhdr os (i + 1) _ (fun o' ho' => h o' (by simp [ho']))]
    simp [flatBack]

end C09TB

/-- flat text -> flat with the token hypotheses stated per (label, value) pair: the tuple token is constrained only where a
    tuple is printed.  (`C09_flat_text_to_flat` is the special case `ReprOK` for every value.) -/
theorem C09_flat_text_to_flat_at (env : TextEnv) (ev : Line → Option PyLit) (outs : List SubsetOut)
    (hdr : Line) (rest : List Line) (hhdr : startsWith sectionMark hdr = true)
    (htok : ∀ o ∈ outs, ∀ p ∈ o.descs.zip o.vals, TokAt env ev p.1 p.2) :
    flatTextToFlat ev PyLit.untuple (flatTextLines env outs ++ hdr :: rest) =
      .ok (hdr :: rest, outs.map fun o => (o.vals.take o.descs.length).map PyLit.val) := by
  unfold flatTextToFlat flatTextLines
  rw [ftLoop_subsets_at env ev outs.length hdr rest hhdr outs 0 [] htok]
  rfl

/-- **flat text -> flat with character values rendered by `reprBytes`, nothing assumed of their tokens**: the token
    hypotheses are asked of the pairs whose value is NOT a character value; of a character value only that it does not sit at
    a flag-table element (decidable on the flat lists; no decoder produces it: flag-table elements are numeric) -/
theorem C09_flat_text_to_flat_bytes_values (env : TextEnv) (ev : Line → Option PyLit) (outs : List SubsetOut)
    (hdr : Line) (rest : List Line) (hhdr : startsWith sectionMark hdr = true)
    (hrepr : ∀ b, env.reprV (.bytes b) = reprBytes b)
    (hev : ∀ tok b, evalBytesLiteral tok = some b → ev tok = some (.val (.bytes b)))
    (hother : ∀ o ∈ outs, ∀ p ∈ o.descs.zip o.vals, (∀ b, p.2 ≠ .bytes b) → TokAt env ev p.1 p.2)
    (hnoflag : ∀ o ∈ outs, ∀ p ∈ o.descs.zip o.vals, ∀ b, p.2 = .bytes b → isFlagLabel env p.1 = false)
    (hlen : ∀ o ∈ outs, o.descs.length = o.vals.length) :
    flatTextToFlat ev PyLit.untuple (flatTextLines env outs ++ hdr :: rest) =
      .ok (hdr :: rest, outs.map fun o => o.vals.map PyLit.val) := by
  rw [C09_flat_text_to_flat_at env ev outs hdr rest hhdr]
  · congr 2
    apply List.map_congr_left
    intro o ho
    rw [hlen o ho, List.take_length]
  · intro o ho p hp
    by_cases hb : ∃ b, p.2 = .bytes b
    · obtain ⟨b, hb⟩ := hb
      refine ⟨?_, ?_⟩
      · rw [hb]; exact C09_repr_bytes_core env ev hrepr hev b
      · intro hc
        rw [hnoflag o ho p hp b hb] at hc
        simp at hc
    · exact hother o ho p hp (fun b h => hb ⟨b, h⟩)

-- the case the hypothesis was feared for: b" b'x" - its repr contains ` b'`, not ` b"`
example : reprBytes [0x20, 0x62, 0x27, 0x78] = ['b', '"', ' ', 'b', '\'', 'x', '"'] := by decide
example : BytesTok ['b', '"', ' ', 'b', '\'', 'x', '"'] := C09_repr_bytes_tok [0x20, 0x62, 0x27, 0x78]
-- both quotes: the quote in use is escaped, so ` b'` cannot appear unescaped: b' b\'"'
example : reprBytes [0x20, 0x62, 0x27, 0x22] = ['b', '\'', ' ', 'b', '\\', '\'', '"', '\''] := by decide

-- the hypotheses `hrepr` / `hev` of the corollaries are satisfiable together: print character values with `reprBytes`, evaluate
-- bytes tokens with `evalBytesLiteral`
example : ∃ (env : TextEnv) (ev : Line → Option PyLit), (∀ b, env.reprV (.bytes b) = reprBytes b) ∧
    (∀ tok b, evalBytesLiteral tok = some b → ev tok = some (.val (.bytes b))) :=
  ⟨{ reprV := fun v => match v with | .bytes b => reprBytes b | _ => ['N', 'o', 'n', 'e'],
     reprFlag := fun _ _ => [], name := fun _ => [], isFlag := fun _ => false },
   fun tok => (evalBytesLiteral tok).map fun b => .val (.bytes b),
   fun _ => rfl, fun tok b h => by simp [h]⟩

end Bufr
