/-
  C02 — tie to the Python source (`Gen/PyConstants.lean`, regenerated from `pybufrkit/constants.py` on
  every check): the encoder model's missing pattern and the width of the increment-width field.
-/
import BufrModel.Coder.Encode
import BufrModel.Gen.PyConstants
namespace Bufr
open PyGen.constants

/-- `missingPattern n` is `NUMERIC_MISSING_VALUES[n]` (an index beyond the table is the non-library
    error family: IndexError). -/
theorem C02_src_const_missing_pattern (n : Nat) :
    missingPattern n = match NUMERIC_MISSING_VALUES[n]? with
      | some m => .ok m
      | none => .error .other := by
  have key : NUMERIC_MISSING_VALUES[n]? = if n ≤ 64 then some ((2 ^ n - 1 : Nat) : Int) else none := by
    unfold NUMERIC_MISSING_VALUES
    by_cases h : n < 65
    · have h1 : 1 ≤ 2 ^ n := Nat.one_le_two_pow
      have h2 : n ≤ 64 := by omega
      simp [h, h2, Int.ofNat_sub h1]
    · have h2 : ¬ n ≤ 64 := by omega
      simp [h, h2]
  rw [key]
  unfold missingPattern
  by_cases h : 64 < n
  · have h2 : ¬ n ≤ 64 := by omega
    simp [h, h2]
  · have h2 : n ≤ 64 := by omega
    simp [h, h2]

/-- The all-equal shortcut of a compressed integer column writes the value on the field width and a
    zero on `NBITS_FOR_NBITS_DIFF` bits (`bit_writer.write_uint(0, NBITS_FOR_NBITS_DIFF)`). -/
theorem C02_src_const_nbits_diff_all_equal (raws : List (Option Int)) (nbits : Nat) :
    encIntColumn true raws nbits =
      match raws.headD none with
      | none => catBits [(do fieldUInt (← missingPattern nbits) nbits), fieldUInt 0 NBITS_FOR_NBITS_DIFF.toNat]
      | some v => catBits [fieldUInt v nbits, fieldUInt 0 NBITS_FOR_NBITS_DIFF.toNat] := by
  rfl

/-- The general case writes the minimum, the increment width on `NBITS_FOR_NBITS_DIFF` bits, then the
    increments. -/
theorem C02_src_const_nbits_diff_general (raws : List (Option Int)) (nbits : Nat) :
    intColumnBits raws nbits =
      match minmaxOpt raws with
      | none => .error .other
      | some (lo, hi) =>
        let nd := nbitsForUInt (hi - lo + 1).toNat
        catBits (fieldUInt lo nbits :: fieldUInt nd NBITS_FOR_NBITS_DIFF.toNat ::
          raws.map fun r => match r with
            | none => (do fieldUInt (← missingPattern nd) nd)
            | some v => fieldUInt (v - lo) nd) := by
  rfl

end Bufr
