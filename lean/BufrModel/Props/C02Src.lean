/-
  C02 — tie to the Python source (`Gen/PyConstants.lean`, regenerated from `pybufrkit/constants.py` on
  every check): the encoder model's missing pattern and the width of the increment-width field.
-/
import BufrModel.Coder.Encode
import BufrModel.Gen.PyConstants
import BufrModel.Gen.PyEncoder
import BufrModel.Lemmas.NbitsSrc
namespace Bufr
open PyGen.constants

/-- `missingPattern n` is `NUMERIC_MISSING_VALUES[n]` (an index beyond the table is the non-library
    error family: IndexError). -/
theorem C02_src_const_missing_pattern (n : Nat) :
    missingPattern n = match NUMERIC_MISSING_VALUES[n]? with
      | some m => .ok m
      | none => .error .other := by
  have key : NUMERIC_MISSING_VALUES[n]? = if n ≤ 64 then some ((2 ^ n - 1 : Nat) : Int) else none := by
    unfold NUMERIC_MISSING_VALUES
    by_cases h : n < 65
    · have h1 : 1 ≤ 2 ^ n := Nat.one_le_two_pow
      have h2 : n ≤ 64 := by omega
      simp [h, h2, Int.ofNat_sub h1]
    · have h2 : ¬ n ≤ 64 := by omega
      simp [h, h2]
  rw [key]
  unfold missingPattern
  by_cases h : 64 < n
  · have h2 : ¬ n ≤ 64 := by omega
    simp [h, h2]
  · have h2 : n ≤ 64 := by omega
    simp [h, h2]

/-- The all-equal shortcut of a compressed integer column writes the value on the field width and a
    zero on `NBITS_FOR_NBITS_DIFF` bits (`bit_writer.write_uint(0, NBITS_FOR_NBITS_DIFF)`). -/
theorem C02_src_const_nbits_diff_all_equal (raws : List (Option Int)) (nbits : Nat) :
    encIntColumn true raws nbits =
      match raws.headD none with
      | none => catBits [(do fieldUInt (← missingPattern nbits) nbits), fieldUInt 0 NBITS_FOR_NBITS_DIFF.toNat]
      | some v => catBits [fieldUInt v nbits, fieldUInt 0 NBITS_FOR_NBITS_DIFF.toNat] := by
  rfl

/-- The general case writes the minimum, the increment width on `NBITS_FOR_NBITS_DIFF` bits, then the
    increments. -/
theorem C02_src_const_nbits_diff_general (raws : List (Option Int)) (nbits : Nat) :
    intColumnBits raws nbits =
      match minmaxOpt raws with
      | none => .error .other
      | some (lo, hi) =>
        let nd := nbitsForUInt (hi - lo + 1).toNat
        catBits (fieldUInt lo nbits :: fieldUInt nd NBITS_FOR_NBITS_DIFF.toNat ::
          raws.map fun r => match r with
            | none => (do fieldUInt (← missingPattern nd) nd)
            | some v => fieldUInt (v - lo) nd) := by
  rfl

/-! ### `encoder.py nbits_for_uint` (regenerated into `Gen/PyEncoder.lean`) -/

/-- `nbits_for_uint(x)` — `bin(x)[2:]`, its length, one more when `binx.count('1') == len(binx)` — is the
    encoder model's width rule `nbitsForUInt`, for every non-negative int (the encoder calls it with
    `max - min + 1 ≥ 1`).  The generated function has no exception path (its type is `Int`, not `Except`). -/
theorem C02_src_nbits_for_uint (x : Nat) :
    PyGen.encoder.nbits_for_uint (x : Int) = (nbitsForUInt x : Int) :=
  NbitsSrc.gen_nbits_for_uint x

/-- hence the width computed by the source reserves the all-ones pattern and is the least such width -/
theorem C02_src_nbits_for_uint_least (x : Nat) :
    x + 2 ≤ 2 ^ (PyGen.encoder.nbits_for_uint (x : Int)).toNat ∧
    ∀ k, x + 2 ≤ 2 ^ k → (PyGen.encoder.nbits_for_uint (x : Int)).toNat ≤ k := by
  rw [C02_src_nbits_for_uint]
  exact ⟨nbitsForUInt_fits x, nbitsForUInt_least x⟩

/-- outside the domain of the model (`Nat`): a negative argument is not an error in Python,
    `bin(-5)[2:] = 'b101'`, so the result is 4 (checked on the real function) -/
example : PyGen.encoder.nbits_for_uint (-5) = 4 := by decide

end Bufr
