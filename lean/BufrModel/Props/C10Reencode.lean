/-
  C10, the RE-ENCODE / DECODE half:  decode (encode (subset idxs m)).

  `Props/C10.lean` says what `subset` hands to the encoder.  This file composes that with the
  walk-level round-trip theorems of the coder model — `C03_walk_roundtrip_data` (uncompressed) and
  `C05_walk_compressed_roundtrip` / `C05_walk_subset_canon` (compressed) — and says what a decoder
  reads back from what the encoder writes for it.

  Setting.  The decoded values of the message are coder values (`β := Val`).  `t` is the template
  of the message, `compressed` its compression flag (both are copied by `subset`:
  `C10_subset_values`, "every other parameter").  `p` is the template-data parameter, `rows` its
  value lists, one per subset.

  Hypotheses, all explicit:
    * `hn`, `hwf`   the decoder's invariants (integer `n_subsets = n`, one value list per subset);
    * `hne`, `hr`   a non-empty collection of in-range indices (any order, any repeats);
    * `hacc`        the CHECKED encoder of the data section (`encodeDataX`: `encodeDataUX` of
                    `Props/C03Walk.lean`, `encodeCompressedT` of `Props/C05Walk.lean`) accepts the
                    SELECTED rows.  Whatever it accepts the real encoder accepts with the same
                    result; it refuses in addition the inputs on which a decoder is provably not
                    in lock-step with the encoder (a field wider than 64 bits, a replication
                    factor / bitmap entry that does not read back as supplied, and for compressed
                    data subsets that do not share structure or a missing value in a one-bit
                    field next to present ones) — see the headers of those two files.
  Nothing is assumed about the rows that are NOT selected.

  Conclusion: `subset` succeeds; the encoder is given exactly the rows at the sorted distinct indices
  and their number as `n_subsets`; it writes them; and the decoder, run on those bits (followed by
  anything) with that subset count, consumes exactly those bits and returns as many subsets as
  there are distinct indices, the `i`-th of which carries the descriptor labels and attribute
  links the encoder reported for it and — value for value — the canonical form (`CanonOf`:
  quantised numeric, all-ones ↦ missing, padded string, exact structural values) of the values of
  the source subset with the `i`-th smallest selected index.
-/
import BufrModel.Props.C10
import BufrModel.Props.C05Walk
namespace Bufr.Subset
open Bufr.Subset.Spec Bufr

variable {α : Type}

/-- the value lists of the selected subsets, in increasing index order -/
def selectedRows {β : Type} (idxs : List Int) (rows : List (List β)) : List (List β) :=
  (sortedDistinct idxs).map fun j => rows.getD j.toNat []

/-- the checked encoder of a whole data section, compressed or not: what the encoder reports per
    subset, the canonical values per subset, the bits in order -/
def encodeDataX (t : List Desc) (compressed : Bool) (valss : List (List Val)) :
    CM (List SubsetOut × List (List Val) × Bits) :=
  if compressed then
    match encodeCompressedT t valss with
    | .error e => .error e
    | .ok (os, cs, b) => .ok (os, cs, b.reverse)
  else encodeDataUX t valss

/-- helper: per-subset view of the checked uncompressed encoder on several subsets -/
theorem c10r_subsetsX_get {t : List Desc} :
    ∀ {valss : List (List Val)} {pre : Bits} {os : List SubsetOut} {canons : List (List Val)} {b : Bits},
    encodeSubsetsX t valss pre = .ok (os, canons, b) →
    os.length = valss.length ∧ canons.length = valss.length ∧
      ∀ (k : Nat) (row : List Val), valss[k]? = some row →
        ∃ pre' o c b', encodeSubsetX t row pre' = .ok (o, c, b') ∧ os[k]? = some o ∧ canons[k]? = some c
  | [], pre, os, canons, b, h => by
    simp only [encodeSubsetsX] at h
    cases h
    exact ⟨rfl, rfl, fun k row hk => by simp at hk⟩
  | v :: vs, pre, os, canons, b, h => by
    simp only [encodeSubsetsX] at h
    cases h1 : encodeSubsetX t v pre with
    | error e => rw [h1] at h; cases h
    | ok r1 =>
      obtain ⟨o, c, pre'⟩ := r1
      rw [h1] at h
      dsimp only at h
      cases h2 : encodeSubsetsX t vs pre' with
      | error e => rw [h2] at h; cases h
      | ok r2 =>
        obtain ⟨os', cs', pre''⟩ := r2
        rw [h2] at h
        dsimp only at h
        cases h
        obtain ⟨hl1, hl2, hget⟩ := c10r_subsetsX_get h2
        refine ⟨by simp [hl1], by simp [hl2], fun k row hk => ?_⟩
        cases k with
        | zero =>
          simp only [List.getElem?_cons_zero, Option.some.injEq] at hk
          subst hk
          exact ⟨pre, o, c, pre', h1, rfl, rfl⟩
        | succ k =>
          simp only [List.getElem?_cons_succ] at hk
          obtain ⟨p', o', c', b', he, ho, hc⟩ := hget k row hk
          exact ⟨p', o', c', b', he, by simpa using ho, by simpa using hc⟩

/-- helper: the `k`-th subset a decoder reports -/
theorem c10r_withCanon_get {os : List SubsetOut} {canons : List (List Val)} {k : Nat}
    {o : SubsetOut} {c : List Val} (ho : os[k]? = some o) (hc : canons[k]? = some c) :
    (withCanon os canons)[k]? = some { o with vals := c } := by
  induction os generalizing canons k with
  | nil => simp at ho
  | cons o' os ih =>
    cases canons with
    | nil => simp at hc
    | cons c' cs =>
      cases k with
      | zero =>
        simp only [List.getElem?_cons_zero, Option.some.injEq] at ho hc
        subst ho; subst hc
        simp [withCanon]
      | succ k =>
        simp only [List.getElem?_cons_succ] at ho hc
        have := ih ho hc
        simpa [withCanon] using this

/-- helper: what the checked encoder of the data section accepts (compressed or not), the encoder
    writes and the decoder reads back; per subset the checked single-subset encoder accepts the row -/
theorem c10r_dataX {t : List Desc} {compressed : Bool} {valss : List (List Val)}
    {os : List SubsetOut} {canons : List (List Val)} {bits : Bits}
    (h : encodeDataX t compressed valss = .ok (os, canons, bits)) :
    encodeData t compressed valss = .ok (os, bits) ∧
      (∀ rest, decodeData t compressed valss.length (bits ++ rest) = .ok (withCanon os canons, rest)) ∧
      os.length = valss.length ∧ canons.length = valss.length ∧
      ∀ (k : Nat) (row : List Val), valss[k]? = some row →
        ∃ pre' o c b', encodeSubsetX t row pre' = .ok (o, c, b') ∧ os[k]? = some o ∧ canons[k]? = some c := by
  cases compressed with
  | true =>
    simp only [encodeDataX, if_true] at h
    cases hT : encodeCompressedT t valss with
    | error e => rw [hT] at h; cases h
    | ok r =>
      obtain ⟨os', cs', b'⟩ := r
      rw [hT] at h
      cases h
      obtain ⟨heC, hdC⟩ := C05_walk_compressed_roundtrip hT
      obtain ⟨hl1, hl2⟩ := C05_walk_T_lengths hT
      refine ⟨by simp [encodeData, heC], fun rest => ?_, hl1, hl2, fun k row hk => ?_⟩
      · simpa [decodeData] using hdC rest
      · obtain ⟨o, c, b'', he, ho, hc⟩ := C05_walk_subset_canon hT hk []
        exact ⟨[], o, c, b'', he, ho, hc⟩
  | false =>
    have hU : encodeDataUX t valss = .ok (os, canons, bits) := by simpa [encodeDataX] using h
    obtain ⟨heU, hdU⟩ := C03_walk_roundtrip_data hU
    unfold encodeDataUX at hU
    cases h1 : encodeSubsetsX t valss [] with
    | error e => rw [h1] at hU; cases hU
    | ok r =>
      obtain ⟨o, c, b⟩ := r
      rw [h1] at hU
      cases hU
      obtain ⟨hl1, hl2, hget⟩ := c10r_subsetsX_get h1
      exact ⟨heU, hdU, hl1, hl2, hget⟩

/-- RE-ENCODE / DECODE of a subset selection (see the file header for the hypotheses). -/
theorem C10_reencode_decode (m : Msg α Val) (idxs : List Int) (n : Nat)
    (hn : m.nSubsets? = some (n : Int)) (hwf : m.wf n = true)
    (hne : idxs ≠ []) (hr : ∀ i ∈ idxs, 0 ≤ i ∧ i < (n : Int))
    (t : List Desc) (compressed : Bool)
    (p : Param α Val) (rows : List (List Val)) (hd : p.isData = true) (hv : p.value = .data rows)
    {os : List SubsetOut} {canons : List (List Val)} {bits : Bits}
    (hacc : encodeDataX t compressed (selectedRows idxs rows) = .ok (os, canons, bits)) :
    -- subset() succeeds and gives the encoder, for the template data, exactly the selected rows,
    -- as many as there are distinct indices (the value it writes into every `n_subsets`)
    subset idxs m = .ok (expected (sortedDistinct idxs) m) ∧
    expectedParam (sortedDistinct idxs) p = .data (selectedRows idxs rows) ∧
    (selectedRows idxs rows).length = distinctCount idxs ∧
    -- the encoder writes them
    encodeData t compressed (selectedRows idxs rows) = .ok (os, bits) ∧
    -- the decoder, told that count, reads them back and leaves what followed
    (∀ rest, decodeData t compressed (distinctCount idxs) (bits ++ rest) = .ok (withCanon os canons, rest)) ∧
    os.length = distinctCount idxs ∧ canons.length = distinctCount idxs ∧
    -- the i-th decoded subset = canonical form of the source subset with the i-th smallest selected index
    ∀ (i : Nat) (hi : i < (sortedDistinct idxs).length),
      ((sortedDistinct idxs)[i]).toNat < n ∧
      ∃ o c, (withCanon os canons)[i]? = some { o with vals := c } ∧ os[i]? = some o ∧
        c.length ≤ (rows.getD ((sortedDistinct idxs)[i]).toNat []).length ∧
        ∀ (j : Nat) (v w : Val), (rows.getD ((sortedDistinct idxs)[i]).toNat [])[j]? = some v →
          c[j]? = some w → CanonOf v w := by
  obtain ⟨henc, hdec, hl1, hl2, hget⟩ := c10r_dataX hacc
  have hlen : (selectedRows idxs rows).length = distinctCount idxs := by
    simp [selectedRows, length_sortedDistinct]
  refine ⟨C10_subset_values m idxs n hn hwf hne hr, ?_, hlen, henc, ?_, hl1.trans hlen, hl2.trans hlen, ?_⟩
  · simp [expectedParam, hd, hv, selectedRows]
  · intro rest
    rw [← hlen]
    exact hdec rest
  · intro i hi
    refine ⟨C10_selected_in_range idxs n hr _ (List.getElem_mem hi), ?_⟩
    have hrow : (selectedRows idxs rows)[i]? = some (rows.getD ((sortedDistinct idxs)[i]).toNat []) := by
      simp [selectedRows, hi]
    obtain ⟨pre', o, c, b', he, ho, hc⟩ := hget i _ hrow
    obtain ⟨hcl, hcan⟩ := C03_walk_canon he
    exact ⟨o, c, c10r_withCanon_get ho hc, ho, hcl, hcan⟩

/-! ### non-vacuity -/

namespace C10ReencodeEx

/-- a numeric element (12 bits, scale 1, reference -100) and a 4-bit code-table element -/
def tmpl : List Desc :=
  [ .elem { id := 12001, kind := .numeric, nbits := 12, scale := 1, ref := -100 },
    .elem { id := 20003, kind := .codeflag, nbits := 4, scale := 0, ref := 0 } ]

/-- 21.5 / 3;  22.0 / missing;  21.5 / 15 (the all-ones pattern of the 4-bit field);  30.0 / 2 -/
def rows : List (List Val) :=
  [ [.num 215 1, .int 3], [.num 220 1, .missing], [.num 215 1, .int 15], [.num 300 1, .int 2] ]

def msg (compressed : String) : Msg String Val :=
  [[⟨"start_signature", "bytes", .other "BUFR"⟩],
   [⟨"section_length", "uint", .int 11⟩, ⟨"n_subsets", "uint", .int 4⟩,
    ⟨"is_compressed", "bool", .other compressed⟩,
    ⟨"unexpanded_descriptors", "unexpanded_descriptors", .other "[012001, 020003]"⟩],
   [⟨"section_length", "uint", .int 12⟩, ⟨"template_data", "template_data", .data rows⟩]]

def dataParam : Param String Val := ⟨"template_data", "template_data", .data rows⟩

/-- the selection [3, 0, 2, 0]: subsets 0, 2, 3 in that order -/
theorem selected : selectedRows [3, 0, 2, 0] rows =
    [ [.num 215 1, .int 3], [.num 215 1, .int 15], [.num 300 1, .int 2] ] := by decide

/-- the checked encoder accepts the selected rows, uncompressed and compressed, and the canonical
    values are the selected rows with the all-ones code value read as missing -/
theorem acceptedU : (encodeDataX tmpl false (selectedRows [3, 0, 2, 0] rows)).map (fun x => (x.2.1, x.2.2.length)) =
    .ok ([ [.num 215 1, .int 3], [.num 215 1, .missing], [.num 300 1, .int 2] ], 48) := by decide +kernel

theorem acceptedC : (encodeDataX tmpl true (selectedRows [3, 0, 2, 0] rows)).map (fun x => x.2.1) =
    .ok [ [.num 215 1, .int 3], [.num 215 1, .missing], [.num 300 1, .int 2] ] := by decide +kernel

/-- the hypotheses of `C10_reencode_decode` are satisfiable (uncompressed), and its conclusion is what
    one expects: three subsets come back, those of the source indices 0, 2, 3 in this order -/
example : ∃ os bits, encodeData tmpl false (selectedRows [3, 0, 2, 0] rows) = .ok (os, bits) ∧
    ∀ rest, (decodeData tmpl false 3 (bits ++ rest)).map (fun x => (x.1.map (·.vals), x.2)) =
      .ok ([ [.num 215 1, .int 3], [.num 215 1, .missing], [.num 300 1, .int 2] ], rest) := by
  cases h : encodeDataX tmpl false (selectedRows [3, 0, 2, 0] rows) with
  | error e => have := acceptedU; rw [h] at this; cases this
  | ok r =>
    obtain ⟨os, canons, bits⟩ := r
    have hc := acceptedU
    rw [h] at hc
    have hc' : canons = [ [.num 215 1, .int 3], [.num 215 1, .missing], [.num 300 1, .int 2] ] := by
      simp only [Except.map, Except.ok.injEq, Prod.mk.injEq] at hc
      exact hc.1
    obtain ⟨_, _, hcnt, henc, hdec, hos, _, _⟩ :=
      C10_reencode_decode (msg "False") [3, 0, 2, 0] 4 (by decide) (by decide) (by decide) (by decide)
        tmpl false dataParam rows (by decide) rfl h
    have h3 : distinctCount [3, 0, 2, 0] = 3 := by decide
    rw [h3] at hdec hos
    refine ⟨os, bits, henc, fun rest => ?_⟩
    rw [hdec rest]
    subst hc'
    match os, hos with
    | [a, b, c], _ => simp [Except.map, withCanon]

/-- ... and compressed -/
example : ∃ os bits, encodeData tmpl true (selectedRows [3, 0, 2, 0] rows) = .ok (os, bits) ∧
    ∀ rest, (decodeData tmpl true 3 (bits ++ rest)).map (fun x => (x.1.map (·.vals), x.2)) =
      .ok ([ [.num 215 1, .int 3], [.num 215 1, .missing], [.num 300 1, .int 2] ], rest) := by
  cases h : encodeDataX tmpl true (selectedRows [3, 0, 2, 0] rows) with
  | error e => have := acceptedC; rw [h] at this; cases this
  | ok r =>
    obtain ⟨os, canons, bits⟩ := r
    have hc := acceptedC
    rw [h] at hc
    have hc' : canons = [ [.num 215 1, .int 3], [.num 215 1, .missing], [.num 300 1, .int 2] ] := by
      simpa [Except.map] using hc
    obtain ⟨_, _, hcnt, henc, hdec, hos, _, _⟩ :=
      C10_reencode_decode (msg "True") [3, 0, 2, 0] 4 (by decide) (by decide) (by decide) (by decide)
        tmpl true dataParam rows (by decide) rfl h
    have h3 : distinctCount [3, 0, 2, 0] = 3 := by decide
    rw [h3] at hdec hos
    refine ⟨os, bits, henc, fun rest => ?_⟩
    rw [hdec rest]
    subst hc'
    match os, hos with
    | [a, b, c], _ => simp [Except.map, withCanon]

/-- The hypothesis `hacc` speaks about the SELECTED rows only, and it matters which are selected:
    a compressed column whose selected values are the all-ones pattern in one subset and missing in
    another is accepted alone, the unselected rows play no role. -/
example : (encodeDataX tmpl true (selectedRows [1, 2] rows)).map (fun x => x.2.1) =
    .ok [ [.num 220 1, .missing], [.num 215 1, .missing] ] := by decide +kernel

end C10ReencodeEx

end Bufr.Subset
