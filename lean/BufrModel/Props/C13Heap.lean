/-
  C13 — no hidden state, at the level of Python objects (model: `Msg/Heap.lean`, helper lemmas:
  `Lemmas/Heap.lean`).

  The process state is a store of mutable objects addressed by references.  The table-group cache
  holds references to table groups whose Table B / D entries are references to descriptor OBJECTS;
  templates, compiled templates and decoded messages refer to those same objects; `CoderState` builds
  `[[]] * n` for compressed data; `wire()` mutates the message object in place; the Table C memo of a
  cached group grows while templates are built.  Every operation may in addition perform arbitrary
  EXTRA writes `W op s` (what a change of the code could add).

  Proved for histories of ANY length:
    * `Sep` (everything reachable from a cache or a kept message has been allocated, so that what is
      allocated next is owned by nobody; a kept message is held under one key; it is a message) is
      an invariant, provided the extra writes satisfy the write discipline `Disciplined W`: no extra
      write goes to a cell reachable from a cache or a kept message;
    * under that discipline the heap model REFINES the immutable model of `Msg/Cache.lean`: same
      outputs, and the heap state read through every reference (`abs`) is the value state;
    * hence the C13 theorems transfer: every output after any history is the output of the same
      operation in a fresh process;
    * the discipline is NECESSARY: a decode that patches `nbits` of the cached descriptor object
      (proved negation, concrete witness) answers differently the second time.
    * `CoderState`: with the aliased construction all n subsets show the same descriptors and links
      whatever is appended through whichever alias; with the separate construction a write through the
      alias of subset i never changes what subset j shows; and the aliased construction on
      uncompressed data does (proved negation).
-/
import BufrModel.Msg.Heap
import BufrModel.Lemmas.Heap
import BufrModel.Props.C13
namespace Bufr.Heap
open Bufr.Cache
set_option linter.unusedSectionVars false

section
variable {κ ι π ν φ ω : Type} [DecidableEq κ] [DecidableEq ι] [Inhabited π]
variable (H : HParams κ ι π ν φ ω) (W : Writes κ ι π ν φ)

/-- The ownership invariant `Sep` holds after every history whose operations respect the write
    discipline (the writes of the code as modelled — allocation, `wire()` on the message's own object,
    the Table C memo — are part of `hCore` and are covered). -/
theorem C13_heap_sep_invariant (hW : Disciplined W) (hist : List (Op ι φ)) :
    Sep (hRun H W (HState.init : HState κ ι π ν) hist).1 :=
  (hRun_spec H W hW hist HState.init State.init Sep.init Sim.init).1

/-- One operation: from any state satisfying `Sep`, the heap operation followed by reading every
    reference through is the value operation on the state read through (`abs` commutes with the
    operation; kept message objects up to shadowed entries, which no operation can reach), and the
    outputs are equal. -/
theorem C13_heap_abs_commutes (hW : Disciplined W) (s : HState κ ι π ν) (hs : Sep s) (op : Op ι φ) :
    Sep (hStep H W s op).1 ∧ Sim (hStep H W s op).1 (step H.toParams (abs s) op).1 ∧
    (hStep H W s op).2 = (step H.toParams (abs s) op).2 :=
  hStep_spec H W hW s (abs s) op hs ⟨rfl, fun _ => rfl, fun _ => rfl⟩

/-- REFINEMENT: for every history, the heap model (aliasing, in-place mutation, any disciplined extra
    writes) produces exactly the outputs of the immutable model of `Msg/Cache.lean`, and its final
    state represents the value model's final state. -/
theorem C13_heap_refines_value_model (hW : Disciplined W) (hist : List (Op ι φ)) :
    (hRun H W (HState.init : HState κ ι π ν) hist).2 =
      (run H.toParams (State.init : State κ GroupV CompV ι (MsgV π) ν) hist).2 ∧
    Sim (hRun H W (HState.init : HState κ ι π ν) hist).1
      (run H.toParams (State.init : State κ GroupV CompV ι (MsgV π) ν) hist).1 :=
  let h := hRun_spec H W hW hist HState.init State.init Sep.init Sim.init
  ⟨h.2.2, h.2.1⟩

/-- The output of an operation after any history, on the heap, is the stateless reference output. -/
theorem C13_heap_output_is_stateless (hW : Disciplined W) (hist : List (Op ι φ)) (op : Op ι φ) :
    (hStep H W (hRun H W (HState.init : HState κ ι π ν) hist).1 op).2 = pureOut H.toParams op := by
  obtain ⟨a, b, _⟩ := hRun_spec H W hW hist HState.init State.init Sep.init Sim.init
  rw [(hStep_spec H W hW _ _ op a b).2.2]
  exact C13_output_is_stateless H.toParams hist op

/-- HISTORY INDEPENDENCE on the heap: whatever was decoded, encoded, wired, rendered, evicted before —
    with shared descriptor objects, aliased per-subset lists and in-place wiring — an operation
    returns what it returns as the first operation of a fresh process. -/
theorem C13_heap_history_independent (hW : Disciplined W) (hist : List (Op ι φ)) (op : Op ι φ) :
    (hStep H W (hRun H W (HState.init : HState κ ι π ν) hist).1 op).2 =
    (hStep H W (HState.init : HState κ ι π ν) op).2 := by
  rw [C13_heap_output_is_stateless H W hW hist op]
  exact (C13_heap_output_is_stateless H W hW [] op).symm

/-- Per-message objects are fresh: the message object a decode returns, and nothing else it
    allocates, was reachable from a cache or a kept message before (its reference is beyond every
    protected cell of the state before). -/
theorem C13_heap_message_objects_fresh (s : HState κ ι π ν) (hs : Sep s) (c : Nat) (dir : Dir) (m : ι) (o : Ref)
    (h : (hFetch H s c dir m).2 = .ok o) : ¬ Protected s o := by
  intro hp
  obtain ⟨r, hr, hx⟩ := hp
  have h1 : o < s.next := hs.closed r hr o hx
  have h2 := (hFetch_spec H s (abs s) c dir m hs ⟨rfl, fun _ => rfl, fun _ => rfl⟩).2.2.2.2
  rw [h] at h2
  exact absurd h1 (Nat.not_lt.2 h2.2.2.2.2.1)

end

/-! ### CoderState: `[[]] * n` against `[[] for _ in range(n)]` -/

section CoderState
variable {π ν : Type}

/-- COMPRESSED data (`[[]] * n`, `[{}] * n`): whatever is appended or linked, through whichever alias,
    after whatever context switches — all n subsets of the finished `TemplateData` show the same
    descriptor list and the same links, namely the ONE shared list and dict. -/
theorem C13_compressed_subsets_share (n : Nat) (h : Heap π ν) (next : Ref) (acts : List CAct) (i j : Nat)
    (hi : i < n) (hj : j < n) :
    let r := cRun ((mkCState true n h next).1, (mkCState true n h next).2.1) acts
    subsetView r.1 r.2 i = subsetView r.1 r.2 j ∧
    subsetView r.1 r.2 i = (getList r.2 next, getLinks r.2 (next + 1)) := by
  intro r
  obtain ⟨h1, h2⟩ := cRun_all ((mkCState true n h next).1, (mkCState true n h next).2.1) acts
  have d1 : r.1.descAll = List.replicate n next := by rw [show r.1.descAll = _ from h1]; simp [mkCState]
  have d2 : r.1.linkAll = List.replicate n (next + 1) := by rw [show r.1.linkAll = _ from h2]; simp [mkCState]
  have e : ∀ k, k < n → subsetView r.1 r.2 k = (getList r.2 next, getLinks r.2 (next + 1)) := by
    intro k hk
    unfold subsetView
    rw [d1, d2]
    simp [List.getD, hk]
  exact ⟨(e i hi).trans (e j hj).symm, e i hi⟩

/-- UNCOMPRESSED data (n distinct lists and dicts): an append or a link made through the alias of
    subset i never changes what subset j shows (and the well-formedness is kept, so this holds for
    any sequence of such writes). -/
theorem C13_uncompressed_subsets_separate (s : CState) (h : Heap π ν) (hw : CWf s h) (i j : Nat)
    (hi : i < s.descAll.length) (hi' : i < s.linkAll.length) (hj : j < s.descAll.length) (hj' : j < s.linkAll.length)
    (hij : i ≠ j) (it : Item) (k v : Nat) :
    subsetView s (appendDesc (s.switch i) it h) j = subsetView s h j ∧
    subsetView s (setLink (s.switch i) k v h) j = subsetView s h j ∧
    CWf s (appendDesc (s.switch i) it h) ∧ CWf s (setLink (s.switch i) k v h) := by
  obtain ⟨n1, n2, dj, t1, t2⟩ := hw
  have mi : s.descAll.getD i 0 ∈ s.descAll := getD_mem hi
  have mi' : s.linkAll.getD i 0 ∈ s.linkAll := getD_mem hi'
  have mj : s.descAll.getD j 0 ∈ s.descAll := getD_mem hj
  have mj' : s.linkAll.getD j 0 ∈ s.linkAll := getD_mem hj'
  obtain ⟨is0, e1⟩ := t1 _ mi
  obtain ⟨l0, e2⟩ := t2 _ mi'
  have a1 := lst_write_frame (is' := getItems h (s.descAll.getD i 0) ++ [it]) e1
  have a2 := links_write_frame (l' := getLinks h (s.linkAll.getD i 0) ++ [(k, v)]) e2
  have nd : s.descAll.getD j 0 ≠ s.descAll.getD i 0 := getD_ne_of_nodup n1 hi hj hij
  have nl : s.linkAll.getD j 0 ≠ s.linkAll.getD i 0 := getD_ne_of_nodup n2 hi' hj' hij
  have x1 : s.linkAll.getD j 0 ≠ s.descAll.getD i 0 := fun e => dj _ mi (e ▸ mj')
  have x2 : s.descAll.getD j 0 ≠ s.linkAll.getD i 0 := fun e => dj _ mj (e ▸ mi')
  refine ⟨?_, ?_, ⟨n1, n2, dj, ?_, ?_⟩, ⟨n1, n2, dj, ?_, ?_⟩⟩
  · unfold subsetView appendDesc CState.switch
    simp only
    rw [a1.1 _ nd, a1.2 _ x1]
  · unfold subsetView setLink CState.switch
    simp only
    rw [a2.1 _ x2, a2.2 _ nl]
  · intro r hr
    unfold appendDesc CState.switch
    simp only
    rw [List.lookup_cons]
    cases hb : r == s.descAll.getD i 0 with
    | true => exact ⟨_, rfl⟩
    | false => exact t1 r hr
  · intro r hr
    unfold appendDesc CState.switch
    simp only
    rw [List.lookup_cons]
    cases hb : r == s.descAll.getD i 0 with
    | true => exact absurd mi (by rw [← (beq_iff_eq.1 hb)]; exact fun hm => dj _ hm hr)
    | false => exact t2 r hr
  · intro r hr
    unfold setLink CState.switch
    simp only
    rw [List.lookup_cons]
    cases hb : r == s.linkAll.getD i 0 with
    | true => exact absurd mi' (by rw [← (beq_iff_eq.1 hb)]; exact dj _ hr)
    | false => exact t1 r hr
  · intro r hr
    unfold setLink CState.switch
    simp only
    rw [List.lookup_cons]
    cases hb : r == s.linkAll.getD i 0 with
    | true => exact ⟨_, rfl⟩
    | false => exact t2 r hr

end CoderState

/-! ### Non-vacuity, and the NEGATIONS: what happens without the write discipline -/

/-- a small process: key `k` has Table B 001001 with `8 + k` bits; the decoded payload is that width
    (plus the compiled code), so that a patched descriptor shows in every later output -/
def exH : HParams Nat Nat Nat Nat Nat Nat where
  limit := 2
  cacheMax := fun c => if c = 0 then none else some 2
  header := fun _ m => if m = 7 then .error .bitRead else .ok (m % 3, [1001, 201130, 301001])
  loadFile := fun k => .ok ([(1001, ⟨1001, 8 + k, 0, 0⟩), (1002, ⟨1002, 7, 0, 0⟩)], [(301001, [1001, 1002])])
  buildIds := fun _ ids => .ok (ids.filter (· < 100000))
  compileIds := fun _ t => .ok (t.map (·.id), t.length)
  decode := fun _ g _ oc m =>
    .ok (m % 2 == 1, 2, fun i => ([.tab 1001, .pseudo ⟨1001, 9 + i, 0, 0⟩], [(1, 0)]),
         (lookupD g.b 1001).nbits + (oc.map (·.code)).getD 0)
  wireFn := fun d => .ok [d.payload]
  view := fun q d ns => .ok (q + d.payload + ns.length + (d.subsets.map fun s => (s.1.map (·.nbits)).sum).sum)

def outNat : Out (MsgV Nat) Nat → Nat
  | .data d => d.payload + (d.subsets.map fun s => (s.1.map (·.nbits)).sum).sum
  | .obs o => 1000 + o
  | .done => 0
  | .err _ => 999

/-- an extra write that RESPECTS the discipline (it goes to a cell nobody owns) -/
def Wfresh : Writes Nat Nat Nat Nat Nat := fun _ s => [(s.next + 1, .desc ⟨0, 99, 0, 0⟩)]

/-- the hypothesis `Disciplined` is satisfiable by a `W` that does write -/
theorem C13_heap_discipline_satisfiable : Disciplined Wfresh := by
  intro op s hs w hw hp
  simp only [Wfresh, List.mem_singleton] at hw
  subst hw
  obtain ⟨r, hr, hx⟩ := hp
  have := hs.closed r hr _ hx
  omega

def exHist : List (Op Nat Nat) :=
  [.proc 1 .decode 0 false, .proc 1 .decode 1 true, .view 1 .decode 0 5, .proc 0 .decode 3 true, .proc 1 .decode 7 false,
   .proc 1 .decode 2 false, .wire 1 .decode 1, .invalidate, .view 1 .decode 1 2, .proc 1 .decode 4 true]

/-- the refinement, executed: shared descriptor objects, an aliased (compressed: odd inputs) and a
    separate per-subset construction, in-place wiring, an eviction, a failing decode, extra writes to
    fresh cells — outputs equal those of the immutable model -/
example : ((hRun exH Wfresh HState.init exHist).2.map outNat) = ((run exH.toParams State.init exHist).2.map outNat) := by
  decide

/-- the descriptor object of Table B 001001 of the cached group: the FIRST decode's message and the
    cache refer to the same cell (cell 0), the per-message marker is inline -/
example : getItems (hRun exH Wfresh HState.init [.proc 1 .decode 0 false]).1.heap 6 = [.ref 0, .own ⟨1001, 9, 0, 0⟩] ∧
    groupB (hRun exH Wfresh HState.init [.proc 1 .decode 0 false]).1.heap 3 = [(1001, 0), (1002, 1)] := by
  decide

/-- A DECODE THAT PATCHES THE CACHED DESCRIPTOR: after each `proc` the width of the first Table B
    object of the first cached group is increased by 2 (as a decoder would do that applies 201YYY by
    assignment to `descriptor.nbits` and never restores it). -/
def Wpatch : Writes Nat Nat Nat Nat Nat := fun op s =>
  match op, s.tables with
  | .proc .., (_, g) :: _ =>
    match groupB s.heap g with
    | (_, r) :: _ => [(r, .desc { getDesc s.heap r with nbits := (getDesc s.heap r).nbits + 2 })]
    | [] => []
  | _, _ => []

/-- NEGATION (the hypothesis `Disciplined` is necessary): with `Wpatch` the same decode answers
    differently the second time — history independence fails. -/
example : outNat (hStep exH Wpatch (hRun exH Wpatch HState.init [.proc 0 .decode 0 false]).1 (.proc 0 .decode 0 false)).2 ≠
    outNat (hStep exH Wpatch HState.init (.proc 0 .decode 0 false)).2 := by decide

/-- ... and it is `Wpatch` that violates the discipline: its target IS a protected cell -/
example : ¬ Disciplined Wpatch := by
  intro h
  have hs : Sep (hCore exH HState.init (.proc 0 .decode 0 false)).1 :=
    (hCore_spec exH HState.init State.init _ Sep.init Sim.init).1
  have hw : Wpatch (.proc 0 .decode 0 false) (hCore exH HState.init (.proc 0 .decode 0 false)).1 = [(0, .desc ⟨1001, 10, 0, 0⟩)] := rfl
  refine h (.proc 0 .decode 0 false) _ hs (0, .desc ⟨1001, 10, 0, 0⟩) (by rw [hw]; exact List.mem_singleton.2 rfl) ?_
  exact ⟨3, Or.inl ⟨(0, 3), by decide, rfl⟩, by decide⟩

/-- the kept message object is hit too: a later view of the object kept from the first decode differs
    from a view in a fresh process -/
example : outNat (hStep exH Wpatch (hRun exH Wpatch HState.init [.proc 0 .decode 0 false, .proc 0 .decode 3 false]).1 (.view 0 .decode 0 1)).2 ≠
    outNat (hStep exH Wpatch HState.init (.view 0 .decode 0 1)).2 := by decide

/-- `[[] for _ in range(3)]`: the well-formedness hypothesis of `C13_uncompressed_subsets_separate` holds
    of what `CoderState.__init__` builds for uncompressed data -/
example : CWf (mkCState (π := Nat) (ν := Nat) false 3 [] 5).1 (mkCState (π := Nat) (ν := Nat) false 3 [] 5).2.1 := by
  refine ⟨by decide, by decide, by decide, ?_, ?_⟩
  · intro r hr
    have : r = 5 ∨ r = 6 ∨ r = 7 := by simpa [mkCState, List.range'] using hr
    rcases this with rfl | rfl | rfl <;> exact ⟨_, rfl⟩
  · intro r hr
    have : r = 8 ∨ r = 9 ∨ r = 10 := by simpa [mkCState, List.range'] using hr
    rcases this with rfl | rfl | rfl <;> exact ⟨_, rfl⟩

/-- uncompressed, separate lists: appending to subset 0 leaves subset 1 alone -/
example : let x := mkCState (π := Nat) (ν := Nat) false 2 [] 0
    subsetView x.1 (appendDesc (x.1.switch 0) (.own ⟨1, 2, 0, 0⟩) x.2.1) 1 = subsetView x.1 x.2.1 1 := by decide

/-- NEGATION: an UNCOMPRESSED `CoderState` built with `[[]] * n` — appending to subset 0 shows up in
    subset 1 -/
example : let x := mkCStateAliased (π := Nat) (ν := Nat) 2 [] 0
    subsetView x.1 (appendDesc (x.1.switch 0) (.own ⟨1, 2, 0, 0⟩) x.2.1) 1 ≠ subsetView x.1 x.2.1 1 := by decide

/-- compressed: one append through the alias of subset 0 is seen by all three subsets -/
example : let x := mkCState (π := Nat) (ν := Nat) true 3 [] 0
    let r := cRun (x.1, x.2.1) [.app (.own ⟨1, 2, 0, 0⟩), .link 4 2]
    subsetView r.1 r.2 2 = ([⟨1, 2, 0, 0⟩], [(4, 2)]) := by decide

end Bufr.Heap
