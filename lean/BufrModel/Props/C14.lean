import BufrModel.Basic.Template
import BufrModel.Spec.FlatExpand
namespace Bufr
end Bufr
