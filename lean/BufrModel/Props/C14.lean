/-
  C14 — templates are built from descriptor lists exactly as FM-94 prescribes.

  Model: `Basic/Desc.lean` (`buildD`, `build`: `tables.py _descriptors_from_ids_iter`, `TableD`
  by value), `Basic/Template.lean` (`originalIds`, `originalIdsQ`, `flatMemberIds`, `leaves`,
  `normalizeTablesSn`, `walkSkel`).  Specification: `Spec/FlatExpand.lean` (counting machine on the
  flat id list).  Everything below is for ARBITRARY tables `T` and id lists of any length and
  nesting.  `T.Keyed` (a Table B entry carries the id it is filed under) holds by construction of
  `TableB.__init__` and of every table the driver loads, and is re-evaluated by `tables-wf`.

  All statements about `build` are instances (`depth = defaultDepth`) of statements proved for
  every nesting bound `n` of Table D references (`buildD T n`).
-/
import BufrModel.Lemmas.Template
namespace Bufr
open Spec

/-! ### flattening returns the list the template was built from -/

/-- Flattening a built template returns the original id list.  Unconditional: no well-countedness
    is needed, because an ill-counted replication quietly owns the ids that are left
    (`generate_quiet`) and a missing factor makes `build` fail. -/
theorem C14_flatten_build (T : Tables) (hK : T.Keyed) (n : Nat) (ids : List Nat) (t : List Desc)
    (h : buildD T n ids = .ok t) : originalIds t = ids :=
  flatten_buildD T hK n ids t h

/-- the same for the queue algorithm that `original_descriptor_ids` literally is -/
theorem C14_flatten_build_queue (T : Tables) (hK : T.Keyed) (ids : List Nat) (t : List Desc)
    (h : build T ids = .ok t) : originalIdsQ t = ids := by
  rw [originalIdsQ_eq]; exact flatten_buildD T hK _ ids t h

/-- in particular for well-counted lists (the form announced in DESIGN.md) -/
theorem C14_flatten_build_wellcounted (T : Tables) (hK : T.Keyed) (ids : List Nat) (t : List Desc)
    (_hwc : WellCounted ids = true) (h : build T ids = .ok t) : originalIds t = ids :=
  flatten_buildD T hK _ ids t h

example : originalIds [Desc.fixedRep 101002 [.op 201000], .seq 301001 []] = [101002, 201000, 301001] := by
  simp [originalIds, Desc.originalIds]
example : WellCounted [101002, 201000, 301001] = true := by decide

/-! ### a replication owns the next X ids -/

/-- Fixed replication `1XXYYY` (`YYY ≠ 0`): members are built from the next `X` ids, the rest of
    the template from what follows them. -/
theorem C14_replication_owns_next_X (T : Tables) (id : Nat) (rest : List Nat)
    (h1 : 100000 ≤ id) (h2 : id < 200000) (h3 : id % 1000 ≠ 0) :
    build T (id :: rest) = (do
      let members ← build T (rest.take (xOf id))
      let tl ← build T (rest.drop (xOf id))
      pure (.fixedRep id members :: tl)) :=
  buildD_fixed T _ id rest h1 h2 h3

/-- Delayed replication `1XX000`: the next id is the factor, looked up in Table B (an undefined
    placeholder when it is not there); members are the `X` ids after it. -/
theorem C14_replication_owns_next_X_delayed (T : Tables) (id f : Nat) (rest : List Nat)
    (h1 : 100000 ≤ id) (h2 : id < 200000) (h3 : id % 1000 = 0) :
    build T (id :: f :: rest) = (do
      let members ← build T (rest.take (xOf id))
      let tl ← build T (rest.drop (xOf id))
      pure (.delayedRep id (T.lookupB f) members :: tl)) :=
  buildD_delayed T _ id f rest h1 h2 h3

/-- a delayed replication at the very end has no factor: `StopIteration` escapes (`Err.other`) -/
theorem C14_replication_missing_factor (T : Tables) (id : Nat)
    (h1 : 100000 ≤ id) (h2 : id < 200000) (h3 : id % 1000 = 0) : build T [id] = .error .other :=
  buildD_delayed_nofactor T _ id h1 h2 h3

/-- what a successfully built replication owns, in terms of the original ids: exactly the next
    `X` ids (all that are left if fewer), and the rest of the template gets the others -/
theorem C14_replication_owns_exactly (T : Tables) (hK : T.Keyed) (id : Nat) (rest : List Nat) (t : List Desc)
    (h1 : 100000 ≤ id) (h2 : id < 200000) (h3 : id % 1000 ≠ 0) (h : build T (id :: rest) = .ok t) :
    ∃ ms tl, t = .fixedRep id ms :: tl ∧ originalIds ms = rest.take (xOf id) ∧
      originalIds tl = rest.drop (xOf id) := by
  rw [C14_replication_owns_next_X T id rest h1 h2 h3] at h
  simp only [bind_ok, pure_ok] at h
  obtain ⟨ms, hms, tl, htl, rfl⟩ := h
  exact ⟨ms, tl, rfl, flatten_buildD T hK _ _ ms hms, flatten_buildD T hK _ _ tl htl⟩

theorem C14_replication_owns_exactly_delayed (T : Tables) (hK : T.Keyed) (id f : Nat) (rest : List Nat)
    (t : List Desc) (h1 : 100000 ≤ id) (h2 : id < 200000) (h3 : id % 1000 = 0)
    (h : build T (id :: f :: rest) = .ok t) :
    ∃ ms tl, t = .delayedRep id (T.lookupB f) ms :: tl ∧ originalIds ms = rest.take (xOf id) ∧
      originalIds tl = rest.drop (xOf id) := by
  rw [C14_replication_owns_next_X_delayed T id f rest h1 h2 h3] at h
  simp only [bind_ok, pure_ok] at h
  obtain ⟨ms, hms, tl, htl, rfl⟩ := h
  exact ⟨ms, tl, rfl, flatten_buildD T hK _ _ ms hms, flatten_buildD T hK _ _ tl htl⟩

example : xOf 103000 = 3 ∧ 100000 ≤ 103000 ∧ 103000 < 200000 ∧ 103000 % 1000 = 0 := by decide

/-! ### expansion = direct expansion of the flat list -/

/-- Soundness of the flat specification, for every list it accepts (any tables, any depth):
    the tree-free counting machine and the flattened tree agree. -/
theorem C14_expand_sound (T : Tables) (hK : T.Keyed) (n : Nat) (ids out : List Nat)
    (h : expand T n ids = some out) : ∃ t, buildD T n ids = .ok t ∧ flatMemberIds t = out :=
  flatB_some.mp (expand_sound T hK n ids out h)

/-- Every well-counted list whose sequence ids satisfy `rowOK` (acyclic to depth `n`, rows well
    counted — both decidable, evaluated by the driver on the loaded tables) builds, and flattening
    the tree gives exactly the direct expansion. -/
theorem C14_expand_eq_direct_list (T : Tables) (hK : T.Keyed) (n : Nat) (ids : List Nat)
    (hwc : WellCounted ids = true) (hrows : ∀ m ∈ ids, 300000 ≤ m → rowOK T n m = true) :
    ∃ t, buildD T n ids = .ok t ∧ expand T n ids = some (flatMemberIds t) :=
  expand_eq_build_list T hK n ids hwc hrows

/-- **Every Table D entry**: for an id whose row satisfies `rowOK`, the sequence descriptor built
    for it flattens to the direct expansion of its row. -/
theorem C14_expand_eq_direct (T : Tables) (hK : T.Keyed) (n id : Nat) (row : List Nat)
    (h3 : 300000 ≤ id) (hd : T.d id = some row) (hok : rowOK T (n + 1) id = true) :
    ∃ ms, buildD T (n + 1) [id] = .ok [.seq id ms] ∧ expandRow T n id = some (flatMemberIds ms) :=
  expand_eq_build_row T hK n id row h3 hd hok

/-- the instance the driver evaluates (`build` = depth 64; `tables-wf` reports `rowOK T 64 id`) -/
theorem C14_expand_eq_direct_build (T : Tables) (hK : T.Keyed) (id : Nat) (row : List Nat)
    (h3 : 300000 ≤ id) (hd : T.d id = some row) (hok : rowOK T defaultDepth id = true) :
    ∃ ms, build T [id] = .ok [.seq id ms] ∧
      expandRow T (defaultDepth - 1) id = some (flatMemberIds ms) :=
  expand_eq_build_row T hK 63 id row h3 hd hok

/-- Every list that builds at all — ill-counted ones included, e.g. the bundled rows 313043
    (master version 6) and 312209 (local 98_0) whose replication runs past the end of the row —
    flattens to the count-free direct expansion of the flat list (`Spec.loose`: copy, splice
    Table D rows, never expand a factor). -/
theorem C14_expand_eq_loose (T : Tables) (hK : T.Keyed) (n : Nat) (ids : List Nat) (t : List Desc)
    (h : buildD T n ids = .ok t) : loose T n ids = some (flatMemberIds t) :=
  loose_buildD T hK n ids t h

section NonVacuity
/-- a two-level table: 300010 = 101000 031001 300011 ; 300011 = 001001 -/
private def Tx : Tables :=
  { b := fun i => if i = 1001 then some ⟨1001, .numeric, 7, 0, 0⟩ else if i = 31001 then some ⟨31001, .numeric, 8, 0, 0⟩ else none,
    d := fun i => if i = 300010 then some [101000, 31001, 300011] else if i = 300011 then some [1001] else none }
example : rowOK Tx 2 300010 = true := by decide
example : expandRow Tx 1 300010 = some [101000, 31001, 1001] := by decide
example : WellCounted [104000, 31001, 300011] = false ∧ loose Tx 1 [104000, 31001, 300011] = some [104000, 31001, 1001] := by decide
example : WellCounted [101000, 31001, 300011] = true ∧ WellCounted [102000, 31001, 300011] = false := by decide
end NonVacuity

/-! ### Table B attributes arrive unchanged -/

/-- Every Table B position of a built tree (element leaves and replication factors, at any depth,
    inside sequences too) is exactly what Table B holds for its id: the unchanged entry, or the
    undefined placeholder when there is none. -/
theorem C14_elem_attrs_intact (T : Tables) (hK : T.Keyed) (n : Nat) (ids : List Nat) (t : List Desc)
    (h : buildD T n ids = .ok t) : ∀ d ∈ leaves t, d = T.lookupB d.id :=
  leaves_buildD T hK n ids t h

/-- … so an element leaf carries exactly the (kind, scale, reference, width) of its table entry -/
theorem C14_elem_attrs_intact_elem (T : Tables) (hK : T.Keyed) (n : Nat) (ids : List Nat) (t : List Desc)
    (h : buildD T n ids = .ok t) (e : Elem) (he : Desc.elem e ∈ leaves t) : T.b e.id = some e := by
  have := leaves_buildD T hK n ids t h _ he
  simp only [Desc.id, Tables.lookupB] at this
  split at this
  · rename_i e' h'; cases this; exact h'
  · cases this

/-! ### undefined ids become placeholders, nothing is dropped -/

/-- An id that is in no table becomes a placeholder at its own position and construction goes on
    with the rest of the list (nothing is skipped: by `C14_flatten_build` the placeholders carry
    the ids); the flat expansion keeps the id. -/
theorem C14_undefined_is_placeholder (T : Tables) (id : Nat) (rest : List Nat) :
    (id < 100000 → T.b id = none →
      build T (id :: rest) = (do let tl ← build T rest; pure (.undefElem id :: tl))) ∧
    (300000 ≤ id → T.d id = none →
      build T (id :: rest) = (do let tl ← build T rest; pure (.undefSeq id :: tl))) ∧
    (∀ tl, flatMemberIds (.undefElem id :: tl) = id :: flatMemberIds tl ∧
           flatMemberIds (.undefSeq id :: tl) = id :: flatMemberIds tl) := by
  refine ⟨fun h hb => ?_, fun h hd => buildD_undefSeq T _ id rest h hd, fun tl => ?_⟩
  · have := buildD_plain T defaultDepth id rest h
    simpa [build, Tables.lookupB, hb] using this
  · simp [flatMemberIds, Desc.flatIds]

/-! ### an undefined descriptor makes the walk fail

Stated on the dispatch skeleton of `process_members` (`walkSkel`: every step on known members is an
arbitrary state transformer).  The tie of the real decoder to this skeleton is the correspondence
stream "unknown" of harness/props/c14.py; the full coder model refines the skeleton. -/

/-- members at which the dispatch raises `UnknownDescriptor` on sight -/
def Desc.unknownOnSight : Desc → Bool
  | .undefElem _ => true
  | .undefSeq _ => true
  | .delayedRep _ (.elem _) _ => false
  | .delayedRep _ _ _ => true          -- factor that is not a Table B entry
  | _ => false

/-- If the walk gets as far as an undefined member (everything before it processed without error,
    the prelude of the member too), it fails with the unknown-descriptor error: the member is
    never skipped. -/
theorem C14_unknown_descriptor_fails {σ : Type} (S : Steps σ) (pre post : List Desc) (d : Desc)
    (s s1 s2 : σ) (hd : d.unknownOnSight = true) (hpre : walkSkelL S s pre = .ok s1)
    (hp : S.pre s1 d = .ok s2) : walkSkelL S s (pre ++ d :: post) = .error .unknownDescr := by
  rw [walkSkelL_append, hpre]
  simp only [walkSkelL, hp]
  cases d with
  | undefElem i => simp [walkSkel]
  | undefSeq i => simp [walkSkel]
  | delayedRep i f ms => cases f <;> simp_all [walkSkel, Desc.unknownOnSight]
  | elem e => simp [Desc.unknownOnSight] at hd
  | op i => simp [Desc.unknownOnSight] at hd
  | seq i ms => simp [Desc.unknownOnSight] at hd
  | fixedRep i ms => simp [Desc.unknownOnSight] at hd

/-- the same one level down: inside a sequence, and in the first pass of a fixed replication -/
theorem C14_unknown_descriptor_fails_nested {σ : Type} (S : Steps σ) (pre post : List Desc) (d : Desc)
    (s s1 s2 : σ) (hd : d.unknownOnSight = true) (hpre : walkSkelL S s pre = .ok s1)
    (hp : S.pre s1 d = .ok s2) (i : Nat) :
    walkSkel S s (.seq i (pre ++ d :: post)) = .error .unknownDescr ∧
    (0 < yOf i → walkSkel S s (.fixedRep i (pre ++ d :: post)) = .error .unknownDescr) := by
  have h := C14_unknown_descriptor_fails S pre post d s s1 s2 hd hpre hp
  refine ⟨by simp [walkSkel, h], fun hy => ?_⟩
  obtain ⟨k, hk⟩ := Nat.exists_eq_succ_of_ne_zero (Nat.pos_iff_ne_zero.mp hy)
  simp [walkSkel, hk, iterE, h]

/-- what `build` makes of an id in no table is such a member -/
example (T : Tables) (id : Nat) (h : T.b id = none) : (T.lookupB id).unknownOnSight = true := by
  simp [Tables.lookupB, h, Desc.unknownOnSight]

/-! ### table selection -/

/-- The result of `normalize_tables_sn` lies in the documented fall-back chain and names existing
    directories or the defaults:
    * master table number: the requested one if its directory exists, else 0;
    * WMO tables: `<m>/0_0/<version>` if it exists, else `<m>/0_0/33` — never replaced needlessly;
    * local tables: none when the local version is 0; else the first *existing* of
      `<m>/<centre>_<sub>/<v>`, `<m>/<centre>_0/<v>`; none if neither exists. -/
theorem C14_normalize (isMaster : Nat → Bool) (isDir : TablesSn → Bool) (mtn c s mtv ltv : Nat) :
    let r := normalizeTablesSn isMaster isDir mtn c s mtv ltv
    let m := if isMaster mtn then mtn else 0
    (r.1 = ⟨m, 0, 0, mtv⟩ ∨ r.1 = ⟨m, 0, 0, 33⟩) ∧
    (isDir r.1 = true ∨ r.1.ver = 33) ∧
    (isDir ⟨m, 0, 0, mtv⟩ = true → r.1 = ⟨m, 0, 0, mtv⟩) ∧
    (ltv = 0 → r.2 = none) ∧
    (∀ l, r.2 = some l → isDir l = true ∧ (l = ⟨m, c, s, ltv⟩ ∨ (l = ⟨m, c, 0, ltv⟩ ∧ isDir ⟨m, c, s, ltv⟩ = false))) ∧
    (ltv ≠ 0 → r.2 = none → isDir ⟨m, c, s, ltv⟩ = false ∧ isDir ⟨m, c, 0, ltv⟩ = false) := by
  simp only [normalizeTablesSn, defaultMasterTableNumber]
  generalize (if isMaster mtn = true then mtn else 0) = m
  simp only [normalizeUnder, defaultMasterTableVersion, defaultSubcentre]
  by_cases h1 : isDir ⟨m, 0, 0, mtv⟩ = true <;> by_cases h2 : isDir ⟨m, c, s, ltv⟩ = true <;>
    by_cases h3 : isDir ⟨m, c, 0, ltv⟩ = true <;> by_cases h0 : ltv = 0 <;> simp_all

/-- `get_tables_sn` never looks at the file system: the request comes back unchanged -/
theorem C14_get_tables_sn (mtn c s mtv ltv : Nat) :
    getTablesSn mtn c s mtv ltv = (⟨mtn, 0, 0, mtv⟩, if ltv = 0 then none else some ⟨mtn, c, s, ltv⟩) := by
  simp only [getTablesSn]
  split <;> simp_all

example : normalizeTablesSn (fun n => n == 0) (fun d => d == ⟨0, 0, 0, 33⟩ || d == ⟨0, 98, 0, 1⟩) 7 98 5 40 1
    = (⟨0, 0, 0, 33⟩, some ⟨0, 98, 0, 1⟩) := by decide

end Bufr
