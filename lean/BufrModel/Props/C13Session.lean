/-
  C13 — no hidden state, second part: the session model (`Msg/Session.lean`, lemmas `Lemmas/Session.lean`).

  State components that are INSIDE the model here and written by the operations: the cache limit (module
  attribute), the process-wide table-group cache, per Decoder / Encoder object its compiled-template cache
  and the registers (`CoderState`) the last message left behind - complete or, after a failure, as they
  were where the exception left -, per renderer / querent object the scratch its last call left behind,
  the message objects the caller keeps with their wire-once flag.  Operations: decode / encode (success, or
  failure at the stage the input determines: head, tables, template, compilation, data, wiring), wire,
  render / query through a kept viewer object, release of message objects, invalidation and change of the
  cache limit, direct table-group requests.

  Main statement: REFINEMENT.  For every list of operations - any length, any coder / viewer objects, any
  interleaving of successes and failures - the list of outputs of the state machine equals the list given by
  the stateless specification `specRun` (every output a function of the operation and of the limit the
  caller has set by then).  Hypothesis: the caller never sets the limit to 0 in mid-session (`PosLimits`;
  the session may START with limit 0).  Why it is needed is shown on a witness below: with limit 0 a fresh
  process cannot load any table, while a message object obtained earlier still renders - the code really
  behaves like that and the property does not speak about a limit of 0.

  All theorems hold for arbitrary `Params` (the coder walk, compiler, wiring pass, renderers and queries are
  arbitrary, possibly failing functions that may do anything to registers and scratch).
-/
import BufrModel.Msg.Session
import BufrModel.Lemmas.Session
namespace Bufr.Session
open Bufr.Cache

section
variable {κ γ τ χ ι ρ δ ν σ φ ω : Type} [DecidableEq κ] [DecidableEq ι]
variable (P : Params κ γ τ χ ι ρ δ ν σ φ ω)

/-- Refinement: a session of any length produces exactly the outputs of the stateless specification. -/
theorem C13_session_refines_stateless_spec (lim : Nat) (hist : List (Op κ ι φ)) (hpos : PosLimits hist) :
    (run P (State.init P lim : State κ γ χ ι ρ δ ν σ) hist).2 = specRun P lim hist :=
  (run_spec P _ hist (Inv.init P lim) hpos).2

/-- The output of an operation after any history is `pureOut` under the limit in force: a function of the
    operation and of that one configuration value. -/
theorem C13_session_output_is_stateless (lim : Nat) (hist : List (Op κ ι φ)) (op : Op κ ι φ)
    (hpos : PosLimits (hist ++ [op])) :
    (step P (run P (State.init P lim : State κ γ χ ι ρ δ ν σ) hist).1 op).2 = pureOut P (cfgRun lim hist) op := by
  have hh : PosLimits hist := fun n hn => hpos n (List.mem_append_left _ hn)
  obtain ⟨i, _⟩ := run_spec P (State.init P lim) hist (Inv.init P lim) hh
  have hl := run_limit P (State.init P lim) hist (Inv.init P lim) hh
  have := (step_spec P _ op i (fun n hn => hpos n (by rw [hn]; simp))).2.1
  rw [this, hl]
  rfl

/-- History independence: after any history an operation returns what it returns as the FIRST operation
    of a fresh process that runs with the same cache limit. -/
theorem C13_session_history_independent (lim : Nat) (hist : List (Op κ ι φ)) (op : Op κ ι φ)
    (hpos : PosLimits (hist ++ [op])) :
    (step P (run P (State.init P lim : State κ γ χ ι ρ δ ν σ) hist).1 op).2 =
    (step P (State.init P (cfgRun lim hist) : State κ γ χ ι ρ δ ν σ) op).2 := by
  rw [C13_session_output_is_stateless P lim hist op hpos]
  have := (step_spec P (State.init P (cfgRun lim hist)) op (Inv.init P _) (fun n hn => hpos n (by rw [hn]; simp))).2.1
  rw [this]
  rfl

/-- Registers and scratch are write-only: two states that differ ONLY in what the coder objects' last
    messages left in their registers and in the scratch of the renderer / querent objects produce the same
    outputs for every future.  (Stated for reachable states through the refinement: both futures equal the
    specification.) -/
theorem C13_session_registers_and_scratch_never_read (s s' : State κ γ χ ι ρ δ ν σ)
    (h : Inv P s) (h' : Inv P s') (hl : s'.limit = s.limit) (future : List (Op κ ι φ)) (hpos : PosLimits future) :
    (run P s future).2 = (run P s' future).2 := by
  rw [(run_spec P s future h hpos).2, (run_spec P s' future h' hpos).2, hl]

/-- Any operation - a decode that fails at any stage, a rendering, a release of objects, an eviction -
    leaves a state that no later operation can tell from the state before (except through the limit it set). -/
theorem C13_session_op_leaves_state_equivalent (lim : Nat) (hist : List (Op κ ι φ)) (op : Op κ ι φ) (future : List (Op κ ι φ))
    (hpos : PosLimits (hist ++ op :: future)) (hcfg : ∀ n, op ≠ .setLimit n) :
    (run P (step P (run P (State.init P lim : State κ γ χ ι ρ δ ν σ) hist).1 op).1 future).2 =
    (run P (run P (State.init P lim : State κ γ χ ι ρ δ ν σ) hist).1 future).2 := by
  have hh : PosLimits hist := fun n hn => hpos n (List.mem_append_left _ hn)
  have hf : PosLimits future := fun n hn => hpos n (List.mem_append_right _ (List.mem_cons_of_mem _ hn))
  obtain ⟨i0, _⟩ := run_spec P (State.init P lim) hist (Inv.init P lim) hh
  obtain ⟨i1, _, l1⟩ := step_spec P _ op i0 (fun n hn => absurd hn (hcfg n))
  rw [(run_spec P _ future i1 hf).2, (run_spec P _ future i0 hf).2, l1]
  cases op <;> first | rfl | exact absurd rfl (hcfg _)

/-- Both caches stay memo tables of pure functions after any history (table groups: `loadGroup` of the key;
    compiled templates: load the group of the key, build the template of the key's ids, compile), with
    distinct keys; the compiled cache of a coder never exceeds its `cache_max`. -/
theorem C13_session_caches_invariant (lim : Nat) (hist : List (Op κ ι φ)) (hpos : PosLimits hist) (c : Nat) :
    let s := (run P (State.init P lim : State κ γ χ ι ρ δ ν σ) hist).1
    (∀ k g, (k, g) ∈ s.tables → P.loadGroup k = .ok g) ∧ s.tables.keys.Nodup ∧
    (∀ ck x, (ck, x) ∈ (s.coders c).compiled → compileFor P ck = .ok x) ∧ (s.coders c).compiled.keys.Nodup ∧
    (s.coders c).compiled.length ≤ (P.cacheMax c).getD 0 := by
  intro s
  have i := (run_spec P (State.init P lim) hist (Inv.init P lim) hpos).1
  exact ⟨fun k g hm => i.tables.1 (k, g) hm, i.tables.2, fun ck x hm => (i.compiled c).1 (ck, x) hm,
    (i.compiled c).2.1, (i.compiled c).2.2⟩

/-- A decode / encode fails exactly when the stateless pipeline has a failing stage, and that stage is a
    function of the input (and the limit): "failure at point k" is not influenced by the history. -/
theorem C13_session_fail_stage (lim : Nat) (hist : List (Op κ ι φ)) (c : Nat) (dir : Dir) (m : ι) (w : Bool)
    (hpos : PosLimits hist) :
    (step P (run P (State.init P lim : State κ γ χ ι ρ δ ν σ) hist).1 (.proc c dir m w)).2.isErr =
    (failStage P (cfgRun lim hist) c dir m w).isSome := by
  have hp : PosLimits (hist ++ [Op.proc c dir m w]) := by
    intro n hn
    rcases List.mem_append.mp hn with h | h
    · exact hpos n h
    · simp at h
  rw [C13_session_output_is_stateless P lim hist _ hp]
  simp only [pureOut, failStage, pureFetch]
  cases P.header dir m with
  | error e => rfl
  | ok kid =>
    simp only
    cases loadVia P (cfgRun lim hist) kid.1 with
    | error e => rfl
    | ok g =>
      simp only
      cases P.build g kid.2 with
      | error e => rfl
      | ok t =>
        simp only
        cases P.cacheMax c with
        | none =>
          simp only
          cases (P.walk dir g t none m (P.freshRegs dir m)).2 with
          | error e => rfl
          | ok d =>
            cases w with
            | false => rfl
            | true => simp only [if_true]; cases P.wireFn d <;> rfl
        | some mx =>
          simp only
          cases P.compile g t with
          | error e => rfl
          | ok x =>
            simp only [Except.map]
            cases (P.walk dir g t (some x) m (P.freshRegs dir m)).2 with
            | error e => rfl
            | ok d =>
              cases w with
              | false => rfl
              | true => simp only [if_true]; cases P.wireFn d <;> rfl

/-- Frame of a decode / encode, successful or failing at any stage: the kept message objects (unless it
    succeeds: then exactly one is added), the cache limit, every renderer / querent object and every OTHER
    coder object are untouched. -/
theorem C13_session_proc_frame (s : State κ γ χ ι ρ δ ν σ) (h : Inv P s) (c : Nat) (dir : Dir) (m : ι) (w : Bool) :
    let s' := (step P s (.proc c dir m w)).1
    s'.limit = s.limit ∧ s'.viewers = s.viewers ∧ (∀ c', c' ≠ c → s'.coders c' = s.coders c') ∧
    ((step P s (.proc c dir m w)).2.isErr = true → s'.objs = s.objs) := by
  intro s'
  obtain ⟨_, _, f⟩ := fetch_spec P s c dir m h
  show (step P s (.proc c dir m w)).1.limit = s.limit ∧ (step P s (.proc c dir m w)).1.viewers = s.viewers ∧
    (∀ c', c' ≠ c → (step P s (.proc c dir m w)).1.coders c' = s.coders c') ∧
    ((step P s (.proc c dir m w)).2.isErr = true → (step P s (.proc c dir m w)).1.objs = s.objs)
  simp only [step]
  cases hr : (fetch P s c dir m).2 with
  | error e => exact ⟨f.limit, f.viewers, f.others, fun _ => f.objs⟩
  | ok d =>
    simp only
    cases w with
    | false => exact ⟨f.limit, f.viewers, f.others, fun he => by simp [Out.isErr] at he⟩
    | true =>
      simp only [if_true]
      cases hw : (Obj.wire P.wireFn ({ data := d, nodes := [], isWired := false } : Obj δ ν)).2 with
      | error e => exact ⟨f.limit, f.viewers, f.others, fun _ => f.objs⟩
      | ok u => exact ⟨f.limit, f.viewers, f.others, fun he => by simp [Out.isErr] at he⟩

/-- A decode / encode that fails in the head (truncated / damaged sections 0-3) changes NOTHING. -/
theorem C13_session_header_failure_changes_nothing (s : State κ γ χ ι ρ δ ν σ) (c : Nat) (dir : Dir) (m : ι) (w : Bool)
    (e : Err) (hh : P.header dir m = .error e) : (step P s (.proc c dir m w)).1 = s := by
  simp [step, fetch, fetchWith, hh]

end

/-! ### Non-vacuity, witnesses, and the two leaky variants

  Concrete instance: table group keys are numbers (key 9 cannot be loaded), the registers are a counter
  that the walk increments and that influences the decoded value when it does not start at 0 (a register
  surviving from the previous message), the walk of inputs >= 5 fails half way (registers left dirty), the
  viewer scratch is a number the view adds to its result and then sets to the request. -/

deriving instance DecidableEq for Bufr.Cache.Out

def exLoad (k : Nat) : Except Err Nat := if k = 9 then .error .lib else .ok (k + 100)

def exP : Params Nat Nat Nat Nat Nat Nat Nat Nat Nat Nat Nat where
  cacheMax := fun c => if c = 0 then none else some (c - 1)
  header := fun _ m => if m = 7 then .error .bitRead else .ok (if m = 9 then 9 else m % 4, [m])
  loadGroup := exLoad
  build := fun g ids => .ok (g + ids.length)
  compile := fun g t => .ok (g * 1000 + t)
  freshRegs := fun _ _ => 0
  walk := fun _ g t oc m r => if m < 5 then (r + 1, .ok (g + t + m + oc.getD 0 + 1000 * r)) else (r + 7, .error .lib)
  wireFn := fun d => if d % 2 = 0 then .ok [d, d] else .error .other
  viewerInit := 0
  view := fun v d ns s => (v + 1, .ok (v + d + ns.length + 100000 * s))

/-- the hypotheses are satisfiable and the machine does something: a session with failures at four
    different stages, evictions (limit 2, then 1), a compiled cache of size 1, re-rendering with two viewer
    objects, releases - and every output is the specification's. -/
def exHist : List (Op Nat Nat Nat) :=
  [.proc 2 .decode 1 true, .proc 2 .decode 2 true, .proc 2 .decode 11 false, .view 0 2 .decode 2 5,
   .proc 2 .decode 7 true, .view 0 2 .decode 1 6, .setLimit 1, .proc 0 .encode 3 false, .view 1 0 .encode 3 5,
   .drop 2 .decode 2, .view 0 2 .decode 2 5, .dropAll, .proc 2 .decode 9 true, .tables 3, .tables 9, .invalidate, .wire 2 .decode 2]

example : PosLimits exHist := by
  intro n hn
  simp [exHist] at hn
  omega

example : (run exP (State.init exP 2) exHist).2 = specRun exP 2 exHist := by decide

/-- the hypotheses of `C13_session_registers_and_scratch_never_read` are met by two DIFFERENT states: the state after
    that session and a fresh one with the same limit both satisfy the invariant, and they differ in registers, scratch,
    caches and kept objects -/
example : Inv exP (run exP (State.init exP 2) exHist).1 ∧ Inv exP (State.init exP 1 : State Nat Nat Nat Nat Nat Nat Nat Nat) ∧
    (run exP (State.init exP 2) exHist).1.limit = (State.init exP 1 : State Nat Nat Nat Nat Nat Nat Nat Nat).limit ∧
    ((run exP (State.init exP 2) exHist).1.coders 2).regs ≠ ((State.init exP 1 : State Nat Nat Nat Nat Nat Nat Nat Nat).coders 2).regs :=
  ⟨(run_spec exP _ exHist (Inv.init exP 2) (by intro n hn; simp [exHist] at hn; omega)).1, Inv.init exP 1, by decide, by decide⟩

/-- the hypothesis of `C13_session_header_failure_changes_nothing` is met (input 7: damaged head) -/
example : exP.header .decode 7 = .error .bitRead := by decide

/-- in that session the registers of coder 2 and the scratch of viewer 0 really are dirty at the end -/
example : ((run exP (State.init exP 2) exHist).1.coders 2).regs = some 1 ∧
    (run exP (State.init exP 2) exHist).1.viewers 0 = 6 ∧
    ((run exP (State.init exP 2) (exHist.take 3)).1.coders 2).regs = some 7 := by decide

/-- failure stages are reached: head, tables, data, wiring -/
example : failStage exP 2 2 .decode 7 true = some .header ∧ failStage exP 2 2 .decode 9 true = some .tables ∧
    failStage exP 2 2 .decode 11 false = some .data ∧ failStage exP 2 0 .decode 2 true = some .wire ∧
    failStage exP 2 2 .decode 2 true = none := by decide

/-- LEAKY WALK (no new register set per message): after a decode that died in the data section the same
    input decodes to another value - the hidden state the property excludes.  The model's `stageWalk`
    (a new `CoderState` per message, as the code has it) returns the specification's value. -/
example :
    let s0 : State Nat Nat Nat Nat Nat Nat Nat Nat := State.init exP 2
    let s1 := (stageWalkLeaky exP s0 0 .decode 101 102 none 11).1      -- fails, registers left at 7
    (stageWalkLeaky exP s1 0 .decode 101 102 none 2).2 = .ok 7205 ∧
    (stageWalk exP s1 0 .decode 101 102 none 2).2 = .ok 205 ∧
    (exP.walk .decode 101 102 none 2 (exP.freshRegs .decode 2)).2 = .ok 205 := by decide

/-- LEAKY VIEWER (no `reset()`): the second rendering with the same object differs from the first. -/
example :
    let s0 : State Nat Nat Nat Nat Nat Nat Nat Nat := State.init exP 2
    let s1 := (runViewerLeaky exP s0 0 5 200 [1, 1]).1
    (runViewerLeaky exP s1 0 5 200 [1, 1]).2 = .ok 600207 ∧ (runViewer exP s1 0 5 200 [1, 1]).2 = .ok 207 := by decide

/-- Why `PosLimits`: setting the limit to 0 in mid-session makes a fresh process unable to load tables
    (the specification says error) while the object decoded before still renders.  The implementation
    does exactly this (`KeyError` out of the `popitem` loop on every miss, kept objects unaffected). -/
example : (run exP (State.init exP 2) [.proc 0 .decode 3 true, .setLimit 0, .view 0 0 .decode 3 5]).2 ≠
    specRun exP 2 [.proc 0 .decode 3 true, .setLimit 0, .view 0 0 .decode 3 5] := by decide

end Bufr.Session

