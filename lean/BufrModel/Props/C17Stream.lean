/-
  C17, stream level — the metadata-only scan of a stream (`generate_bufr_message(..., info_only=True)`,
  model `Msg/Stream.lean: scan` with `infoOnly := true`) is invariant under replacing the data-section
  content of any of its messages by other bytes of the same length.

  `C17_stream_scan_depends_on_info_decodes_only` is the abstract statement for every per-offset decoder:
  the scan consults only the metadata-only decoder `dec true` (never `dec false`), so two streams whose
  messages are pairwise indistinguishable for it give the same items.  `C17_ofSections_info_blind` lifts
  `C17_bundled_info_ignores_data_content` (bits) to the per-offset decoder of the section model (bytes,
  anything may follow), and `C17_stream_info_ignores_data_content` puts the two together for the bundled
  layout family and EVERY data coder, continue-on-error setting and metadata filter.  Nothing in the
  statements looks at the header values: they hold for every data category (11 included), every number
  of subsets, compressed or not — the data category is just one of the section-1 parameters that come
  back unchanged in `sections`.
-/
import BufrModel.Props.C17
import BufrModel.Lemmas.StreamInfo
import BufrModel.Lemmas.SectionsTrunc
namespace Bufr.Stream
open Bufr

/-- **the metadata-only scan depends on the messages only through their metadata-only decodings**: for
    every per-offset decoder, every continue-on-error setting and every filter, two streams with the same
    (quiet) separators whose messages are pairwise twins — same length, and metadata-only decodings that
    succeed whatever follows, declare the message's length and agree in `consumed`, in the view `f` and
    under the filter — give the same items (offset, length, reported lengths, view) and end normally.
    The full decoder `dec false` does not occur in the hypotheses: it is never consulted. -/
theorem C17_stream_scan_depends_on_info_decodes_only {μ ν : Type} (dec : Dec μ) (cfg : Cfg μ) (f : μ → ν)
    (hinfo : cfg.infoOnly = true) (sep0 : Bytes) (h0 : ¬ sig <:+: sep0) (l : List (Piece × Piece))
    (h : ∀ q ∈ l, Twins dec cfg f q.1 q.2) :
    (scan dec cfg (sep0 ++ body (l.map (·.1)))).1.map (Item.view f) =
      (scan dec cfg (sep0 ++ body (l.map (·.2)))).1.map (Item.view f) ∧
    (scan dec cfg (sep0 ++ body (l.map (·.1)))).2 = .done ∧
    (scan dec cfg (sep0 ++ body (l.map (·.2)))).2 = .done :=
  scan_info_twins dec cfg f hinfo sep0 (quiet_of_not_infix _ h0) l h

/-! ## the section model -/

/-- a decoded message without its raw bytes -/
def msgView {α : Type} (m : DecMsg α) : List DecSection × Option α × Nat := (m.sections, m.data, m.nbits)

/-- number of bits of the data content of a metadata-only decoded message: the extent of its last section
    (the cut section 4) minus the 32 header bits -/
def dataBits {α : Type} (m : DecMsg α) : Nat :=
  match m.sections.getLast? with
  | some s => s.nbits - 32
  | none => 0

/-- bit offset at which the data content starts -/
def dataStart {α : Type} (m : DecMsg α) : Nat := m.nbits - dataBits m

/-- **the per-offset metadata-only decoder of the section model is blind to the data octets** (bundled
    layouts, every data coder).  If the metadata-only decoding of `P ++ Z ++ T` succeeds with `i`, and the
    octets `Z` lie inside the data content (`dataStart ≤ 8·|P|`, `8·(|P| + |Z|) ≤ nbits`: after the 4-octet
    header of section 4, before its declared end), then for ANY `Z'` of the same length and ANY bytes `x`
    behind the message the decoding of `P ++ Z' ++ T ++ x` succeeds with one and the same `i'`, which
    agrees with `i` in `consumed`, `declared` and everything of the message but the raw bytes. -/
theorem C17_ofSections_info_blind {α : Type} (dc : DataCoder α) (ie : Bool) (P Z Z' T : Bytes)
    (i : MsgInfo (DecMsg α)) (hi : ofSections Gen.layouts dc ie true (P ++ Z ++ T) = .ok i)
    (hlen : Z'.length = Z.length) (hlo : dataStart i.msg ≤ 8 * P.length)
    (hhi : 8 * (P.length + Z.length) ≤ i.msg.nbits) :
    ∃ i', (∀ x, ofSections Gen.layouts dc ie true (P ++ Z' ++ T ++ x) = .ok i') ∧
      i'.consumed = i.consumed ∧ i'.declared = i.declared ∧ msgView i'.msg = msgView i.msg := by
  unfold ofSections at hi
  split at hi
  · cases hi
  rename_i dm hdm
  split at hi
  case h_2 => cases hi
  rename_i v hv
  cases hi
  unfold decodeAt at hdm
  split at hdm
  · cases hdm
  rename_i out r hbits
  cases hdm
  simp only [dataStart, dataBits] at hlo hhi
  -- the bit-level theorem, and the extent of what was decoded
  obtain ⟨last, pre, a, hlast, _, hx, halen, hblind⟩ :=
    C17_bundled_info_ignores_data_content dc ie _ out r hbits
  let dc0 : DataCoder α := { dec := fun _ => R.fail .other }
  have hdc0 : ∀ reg, Local (dc0.dec reg) := fun _ => Local.fail _
  have heq := (C17_info_never_runs_data_reader Gen.layouts dc dc0 ie).1
  have hbits0 := hbits
  rw [heq] at hbits0
  obtain ⟨p, hp1, hp2, _⟩ := C17_info_ignores_trailing Gen.layouts dc0 hdc0 ie _ out r hbits0
  have hpa : pre ++ a = p := by
    have : (pre ++ a) ++ r = p ++ r := by rw [← hx, ← hp1]
    exact List.append_cancel_right this
  have hn : pre.length + a.length = out.nbits := by rw [← hp2, ← hpa, List.length_append]
  rw [hlast] at hlo
  simp only at hlo
  have hda : last.nbits - 32 = a.length := by omega
  rw [hda] at hlo
  -- split the bits of the message along the octet boundaries
  have hb : bytesToBits (P ++ Z ++ T) = bytesToBits P ++ (bytesToBits Z ++ bytesToBits T) := by
    rw [st_bytesToBits_append, st_bytesToBits_append, List.append_assoc]
  have hlP := bytesToBits_length P
  have hlZ := bytesToBits_length Z
  have hlZ' := bytesToBits_length Z'
  have hlT := bytesToBits_length T
  obtain ⟨u, hu1, hu2⟩ := split_of_le (bytesToBits P) (bytesToBits Z ++ bytesToBits T) pre (a ++ r)
    (by rw [← hb, hx, List.append_assoc]) (by omega)
  have hul : u.length = 8 * P.length - pre.length := by
    have := congrArg List.length hu1
    simp only [List.length_append] at this
    omega
  obtain ⟨w, hw1, hw2⟩ := split_of_le a r (u ++ bytesToBits Z) (bytesToBits T)
    (by rw [hu2, List.append_assoc]) (by simp only [List.length_append]; omega)
  -- the replaced message, followed by anything
  have hall : ∀ x, decodeBits Gen.layouts dc { infoOnly := true, ignoreExpect := ie } (bytesToBits (P ++ Z' ++ T ++ x)) =
      .ok (out, r ++ bytesToBits x) := by
    intro x
    have hb' : bytesToBits (P ++ Z' ++ T ++ x) = pre ++ (u ++ bytesToBits Z' ++ w) ++ (r ++ bytesToBits x) := by
      rw [st_bytesToBits_append, st_bytesToBits_append, st_bytesToBits_append, hu1, hw2]
      simp only [List.append_assoc]
    rw [hb']
    apply hblind
    rw [hw1]
    simp only [List.length_append]
    omega
  have hk : out.nbits / 8 ≤ (P ++ Z' ++ T).length := by
    have h1 : (bytesToBits (P ++ Z ++ T)).length = 8 * (P ++ Z ++ T).length := bytesToBits_length _
    rw [hp1] at h1
    simp only [List.length_append] at h1 ⊢
    omega
  refine ⟨{ consumed := ((P ++ Z' ++ T).take (out.nbits / 8)).length, declared := v.toNat,
            msg := { sections := out.sections, data := out.data, nbits := out.nbits,
                     serialized := (P ++ Z' ++ T).take (out.nbits / 8) } }, ?_, ?_, rfl, rfl⟩
  · intro x
    simp only [ofSections, decodeAt, hall x, hv, List.take_append_of_le_length hk]
  · simp only [List.length_take, List.length_append, hlen]

/-- one message of a stream with its data octets singled out, the octets that replace them, and the
    separator behind it: `pre ++ data ++ post` becomes `pre ++ data' ++ post` -/
structure Swap where
  pre : Bytes
  data : Bytes
  data' : Bytes
  post : Bytes
  sep : Bytes

def Swap.orig (m : Swap) : Piece := ⟨m.pre ++ m.data ++ m.post, m.sep⟩
def Swap.repl (m : Swap) : Piece := ⟨m.pre ++ m.data' ++ m.post, m.sep⟩

/-- **Stream level: the metadata-only scan ignores the data content of every message.**  Section model over
    the bundled layouts, any data coder `dc` (it is never run), any `ignore_value_expectation`, any
    continue-on-error setting, no filter or a filter that looks at the decoded sections only (what
    `filter_expr` over `%name` queries does).  The stream is `sep0 ++ m1 ++ sep1 ++ … ++ mk ++ sepk` with
    separators free of the start signature; each message `m = pre ++ data ++ post` starts with the
    signature, has a metadata-only decoding `i` whose declared total length is the message's length, and
    `data` lies inside its data content (behind the 4-octet header of section 4, before the declared end
    of that section).  Replacing, in every message at once, `data` by arbitrary octets `data'` of the same
    length leaves the scan unchanged: the same items at the same offsets with the same lengths, the same
    reported lengths and the same sections (all header values, the data category among them), and both
    scans end normally — whatever the data category, the number of subsets or the compression flag of
    any of the messages say, and whether or not the new octets could be decoded as data. -/
theorem C17_stream_info_ignores_data_content {α : Type} (dc : DataCoder α) (ie : Bool)
    (cfg : Cfg (DecMsg α)) (hinfo : cfg.infoOnly = true)
    (hfilt : ∀ pred, cfg.filter = some pred → ∀ j j' : MsgInfo (DecMsg α),
      j.msg.sections = j'.msg.sections → pred j = pred j')
    (sep0 : Bytes) (h0 : ¬ sig <:+: sep0) (ms : List Swap)
    (h : ∀ m ∈ ms, (∃ m', m.pre = sig ++ m') ∧ m.data'.length = m.data.length ∧ ¬ sig <:+: m.sep ∧
      ∃ i, ofSections Gen.layouts dc ie true (m.pre ++ m.data ++ m.post) = .ok i ∧
        i.declared = (m.pre ++ m.data ++ m.post).length ∧
        dataStart i.msg ≤ 8 * m.pre.length ∧ 8 * (m.pre.length + m.data.length) ≤ i.msg.nbits ∧
        ∀ pred, cfg.filter = some pred → ∃ k, pred i = .ok k) :
    let dec := ofSections Gen.layouts dc ie
    (scan dec cfg (sep0 ++ body (ms.map Swap.orig))).1.map (Item.view msgView) =
      (scan dec cfg (sep0 ++ body (ms.map Swap.repl))).1.map (Item.view msgView) ∧
    (scan dec cfg (sep0 ++ body (ms.map Swap.orig))).2 = .done ∧
    (scan dec cfg (sep0 ++ body (ms.map Swap.repl))).2 = .done := by
  intro dec
  have key := C17_stream_scan_depends_on_info_decodes_only dec cfg msgView hinfo sep0 h0
    (ms.map fun m => (m.orig, m.repl)) (by
      intro q hq
      obtain ⟨m, hm, rfl⟩ := List.mem_map.mp hq
      obtain ⟨⟨m', hst⟩, hl, hsep, i, hi, hdecl, hlo, hhi, hfk⟩ := h m hm
      obtain ⟨i1, e1, c1, d1, v1⟩ := C17_ofSections_info_blind dc ie m.pre m.data m.data m.post i hi rfl hlo hhi
      obtain ⟨i2, e2, c2, d2, v2⟩ := C17_ofSections_info_blind dc ie m.pre m.data m.data' m.post i hi hl hlo hhi
      have hs1 : i1.msg.sections = i.msg.sections := congrArg (·.1) v1
      have hs2 : i2.msg.sections = i.msg.sections := congrArg (·.1) v2
      have hlen : (m.pre ++ m.data ++ m.post).length = (m.pre ++ m.data' ++ m.post).length := by
        simp only [List.length_append, hl]
      refine ⟨rfl, hlen, i1, i2, ?_, ?_, by rw [c1, c2], by rw [v1, v2], ?_⟩
      · refine ⟨⟨m' ++ m.data ++ m.post, by simp only [Swap.orig, hst, List.append_assoc]⟩, e1, by rw [d1, hdecl]; rfl,
          ?_, quiet_of_not_infix _ hsep⟩
        intro pred hp
        obtain ⟨k, hk⟩ := hfk pred hp
        exact ⟨k, by rw [hfilt pred hp i1 i hs1, hk]⟩
      · refine ⟨⟨m' ++ m.data' ++ m.post, by simp only [Swap.repl, hst, List.append_assoc]⟩, e2,
          by rw [d2, hdecl, hlen]; rfl, ?_, quiet_of_not_infix _ hsep⟩
        intro pred hp
        obtain ⟨k, hk⟩ := hfk pred hp
        exact ⟨k, by rw [hfilt pred hp i2 i hs2, hk]⟩
      · intro pred hp
        exact hfilt pred hp i1 i2 (by rw [hs1, hs2]))
  simp only [List.map_map] at key
  exact key

/-! ## non-vacuity: the edition-3 message of `Props/C17.lean` with data category 11 (table definitions), the raw
    data coder, a stream of two messages with separators -/

def C17_msg11 : List UInt8 := C17_msg.set 16 11
def C17_swap11 : Swap := ⟨C17_msg11.take 48, [176, 0], [255, 255], [55, 55, 55, 55], [13, 10]⟩
def C17_swap2 : Swap := ⟨C17_msg.take 48, [176, 0], [0, 7], [55, 55, 55, 55], [66, 85, 70]⟩

example : C17_swap11.orig.msg = C17_msg11 ∧ C17_swap2.orig.msg = C17_msg := by decide +kernel

/-- the hypotheses of `C17_ofSections_info_blind` / `C17_stream_info_ignores_data_content` on these messages: the
    metadata-only decoding succeeds, the data content is the bit range [384, 400) = octets 48, 49, the declared
    total length is the length of the message -/
example : (ofSections Gen.layouts (rawCoder 5) false true C17_msg11).map
    (fun i => (dataStart i.msg, i.msg.nbits, i.declared, i.consumed)) = .ok (384, 400, 54, 50) := by decide +kernel

/-- the scan of `sep0 ++ m11 ++ sep ++ m2 ++ sep'`, metadata only: two items, data categories 11 and 2 -/
example : (scan (ofSections Gen.layouts (rawCoder 5) false) { infoOnly := true }
      ([1, 2] ++ body [C17_swap11.orig, C17_swap2.orig])).1.map
      (fun it => (it.offset, it.bytes.length,
        it.info.msg.sections.findSome? fun s => s.params.lookup "data_category")) =
    [(2, 54, some (.int 11)), (58, 54, some (.int 2))] := by decide +kernel

/-- ... and the same after both data sections were overwritten (0xFF 0xFF cannot be decoded as data by a
    table-driven coder; here nobody tries): offsets, lengths, reported lengths; sections, data, extent -/
example : (scan (ofSections Gen.layouts (rawCoder 5) false) { infoOnly := true }
      ([1, 2] ++ body [C17_swap11.orig, C17_swap2.orig])).1.map
      (fun it => (it.offset, it.bytes.length, it.info.consumed, it.info.declared)) =
    (scan (ofSections Gen.layouts (rawCoder 5) false) { infoOnly := true }
      ([1, 2] ++ body [C17_swap11.repl, C17_swap2.repl])).1.map
      (fun it => (it.offset, it.bytes.length, it.info.consumed, it.info.declared)) := by decide +kernel
example : (scan (ofSections Gen.layouts (rawCoder 5) false) { infoOnly := true }
      ([1, 2] ++ body [C17_swap11.orig, C17_swap2.orig])).1.map (fun it => msgView it.info.msg) =
    (scan (ofSections Gen.layouts (rawCoder 5) false) { infoOnly := true }
      ([1, 2] ++ body [C17_swap11.repl, C17_swap2.repl])).1.map (fun it => msgView it.info.msg) := by decide +kernel

/-- the theorem applies to that stream: its hypotheses hold (the existential witnesses come from the computed
    decodings above) -/
example : (scan (ofSections Gen.layouts (rawCoder 5) false) { infoOnly := true, continueOnError := true }
      ([1, 2] ++ body ([C17_swap11, C17_swap2].map Swap.orig))).1.map (Item.view msgView) =
    (scan (ofSections Gen.layouts (rawCoder 5) false) { infoOnly := true, continueOnError := true }
      ([1, 2] ++ body ([C17_swap11, C17_swap2].map Swap.repl))).1.map (Item.view msgView) := by
  have hyp : ∀ m ∈ [C17_swap11, C17_swap2], (∃ m', m.pre = sig ++ m') ∧ m.data'.length = m.data.length ∧ ¬ sig <:+: m.sep ∧
      ∃ i, ofSections Gen.layouts (rawCoder 5) false true (m.pre ++ m.data ++ m.post) = .ok i ∧
        i.declared = (m.pre ++ m.data ++ m.post).length ∧
        dataStart i.msg ≤ 8 * m.pre.length ∧ 8 * (m.pre.length + m.data.length) ≤ i.msg.nbits ∧
        ∀ pred, ({ infoOnly := true, continueOnError := true } : Cfg (DecMsg Bits)).filter = some pred → ∃ k, pred i = .ok k := by
    intro m hm
    have facts : ∀ m ∈ [C17_swap11, C17_swap2],
        (ofSections Gen.layouts (rawCoder 5) false true (m.pre ++ m.data ++ m.post)).map
          (fun i => (dataStart i.msg, i.msg.nbits, i.declared)) = .ok (384, 400, 54) ∧
        m.pre.length = 48 ∧ m.data.length = 2 ∧ m.data'.length = 2 ∧ m.post.length = 4 ∧
        sig <+: m.pre ∧ ¬ sig <:+: m.sep := by decide +kernel
    obtain ⟨f1, f2, f3, f4, f5, f6, f7⟩ := facts m hm
    obtain ⟨t, ht⟩ := f6
    refine ⟨⟨t, ht.symm⟩, by rw [f3, f4], f7, ?_⟩
    · cases hd : ofSections Gen.layouts (rawCoder 5) false true (m.pre ++ m.data ++ m.post) with
      | error e => rw [hd] at f1; cases f1
      | ok i =>
        rw [hd] at f1
        simp only [Except.map, Except.ok.injEq, Prod.mk.injEq] at f1
        obtain ⟨g1, g2, g3⟩ := f1
        refine ⟨i, rfl, ?_, ?_, ?_, ?_⟩
        · rw [g3]; simp only [List.length_append, f2, f3, f5]
        · rw [g1, f2]; omega
        · rw [g2, f2, f3]; omega
        · intro pred hp; cases hp
  exact (C17_stream_info_ignores_data_content (rawCoder 5) false { infoOnly := true, continueOnError := true } rfl
    (fun pred hp => by cases hp) [1, 2] (by decide) [C17_swap11, C17_swap2] hyp).1

end Bufr.Stream
