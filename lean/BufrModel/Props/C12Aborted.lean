/-
  C12 — … and isolated to one message: a template walk that was ABORTED leaves no trace.

  The damaged message of the property is rejected while its template is being walked: an undefined descriptor
  is reached, the bits run out, a replication factor is refused — with operators 201/202/203/204/207/208 in force,
  a bitmap half defined, the 221 / 206 counters half run down.  "Every other message is still delivered unchanged"
  then needs that NOTHING of that walk reaches the next one, on the same Decoder object or on any other object of
  the process.  `Coder/Process.lean` models the coder state across walks: every walk starts from
  `reset (what the previous walk left)`, where `reset` is `CoderState.reset_template_state`; an aborted walk leaves
  ANY register file (the history chooses it).

  * `C12_aborted_reset_assigns_every_register`   `Regs.reset r = {}` for every `r`: the reset assigns all 16
                                                 registers of the model (none keeps its old value);
  * `C12_aborted_data_eq`                        `decodeDataW` (registers threaded through subsets and messages)
                                                 gives the result of the stateless `decodeData`, whatever was left;
  * `C12_aborted_walk_leaves_no_trace`           after ANY history of decodes — successful or aborted at any point,
                                                 leaving any registers — a decode gives the stateless model's result;
  * `C12_aborted_all_later_results`              … and so do ALL decodes that follow (induction over the list);
  * `C12_aborted_needs_full_reset`               the hypothesis is what carries it: with the reset of seeded change
                                                 C12-4 (the 204 stack shared) one walk aborted between 204004 and
                                                 204000 makes the next, valid, message fail with a bit-read error.
  All of `Props/C12.lean`, `C12Msg.lean`, `C12Stream.lean`, `C12History.lean` is stated for `decodeData` /
  `Stream.tableCoder`; `C12_aborted_tableCoder` transfers it to the data coder of a process with any history, and
  `C12_aborted_decoder_history_irrelevant` combines both state machines: the Decoder object's table of section
  configurations AND the registers left by the last walk, over any history of operations.

  What this cannot show: that Python's `reset_template_state` gives every register an object of its OWN (aliasing
  is below the model).  Part (F) of the check does: after every aborted walk the registers of a new `CoderState`
  and of a dirtied one after `reset_template_state` are compared with `Regs.reset`'s values, and valid messages are
  decoded on the same, another and a new Decoder and compared with a fresh process and with this model.
-/
import BufrModel.Coder.Process
import BufrModel.Lemmas.CoderProcess
import BufrModel.Props.C12History
namespace Bufr

/-- `reset_template_state` assigns every register: whatever the registers were, afterwards they are the initial
    ones -/
theorem C12_aborted_reset_assigns_every_register (r : Regs) : r.reset = {} := by
  cases r; rfl

/-- **the registers a walk starts from do not matter**: `process_template_data` in a process whose last walk left
    ANY registers `r` gives the result of the stateless model -/
theorem C12_aborted_data_eq (reset : Regs → Regs) (hreset : ∀ r, reset r = {}) (tmpl : List Desc) (c : Bool) (n : Nat)
    (r : Regs) (bits : Bits) : dropRegs (decodeDataW reset tmpl c n r bits) = decodeData tmpl c n bits :=
  decodeDataW_eq reset hreset tmpl c n r bits

/-- **an aborted walk leaves no trace**: after ANY history of decodes in the process — valid messages, messages
    whose walk was aborted at any point and left any registers behind (`POp.left` is arbitrary), compressed or not,
    any templates — starting from ANY registers, a decode gives exactly what the stateless model `decodeData`
    gives for it. -/
theorem C12_aborted_walk_leaves_no_trace (reset : Regs → Regs) (hreset : ∀ r, reset r = {}) (hist : List POp) (r0 : Regs)
    (op : POp) : (op.run reset (runP reset hist r0)).1 = decodeData op.tmpl op.compressed op.n op.bits := by
  rw [POp.run_fst, C12_aborted_data_eq reset hreset]

/-- the state after a history is equivalent to the initial one for EVERY later sequence of decodes: all their
    results are the stateless model's (induction over the list of later operations; the history before is
    arbitrary) -/
theorem C12_aborted_all_later_results (reset : Regs → Regs) (hreset : ∀ r, reset r = {}) (hist later : List POp) (r0 : Regs) :
    resultsP reset later (runP reset hist r0) =
      later.map fun op => decodeData op.tmpl op.compressed op.n op.bits := by
  generalize runP reset hist r0 = r
  induction later generalizing r with
  | nil => rfl
  | cons op ops ih =>
    simp only [resultsP, List.map_cons]
    rw [ih, POp.run_fst, C12_aborted_data_eq reset hreset]

/-- … in particular for the reset of the code (`Regs.reset`), and for two histories -/
theorem C12_aborted_any_two_histories (h1 h2 : List POp) (r1 r2 : Regs) (op : POp) :
    (op.run Regs.reset (runP Regs.reset h1 r1)).1 = (op.run Regs.reset (runP Regs.reset h2 r2)).1 := by
  rw [C12_aborted_walk_leaves_no_trace _ C12_aborted_reset_assigns_every_register,
      C12_aborted_walk_leaves_no_trace _ C12_aborted_reset_assigns_every_register]

/-- every theorem about `Stream.tableCoder` (message level, streams, Decoder histories) holds for the data coder of
    a process with any coder-state history -/
theorem C12_aborted_tableCoder (reset : Regs → Regs) (hreset : ∀ r, reset r = {}) (T : Tables) (r : Regs) :
    tableCoderW reset T r = Stream.tableCoder T :=
  tableCoderW_eq reset hreset T r

/-- **Decoder object and coder registers together**: after ANY history of operations on one Decoder — strict, lenient,
    metadata-only, failing decodes, scans with any flags — each of which may have aborted template walks anywhere and left
    any registers behind, an operation gives the result of the stateless model over `Stream.tableCoder T`; so every
    C12 / C11 theorem stated for the stateless model holds for a Decoder in a process with any such history. -/
theorem C12_aborted_decoder_history_irrelevant (reset : Regs → Regs) (hreset : ∀ r, reset r = {}) (L : Layouts) (T : Tables)
    (hist : List (Stream.Op (List SubsetOut) × Regs)) (r0 : Regs) (op : Stream.Op (List SubsetOut)) :
    (op.run L (tableCoderW reset T (runHistW reset L T hist ([], r0)).2) (runHistW reset L T hist ([], r0)).1).1 =
      op.pure L (Stream.tableCoder T) := by
  rw [C12_aborted_tableCoder reset hreset, runHistW_fst reset hreset]
  exact Stream.C12_history_irrelevant L (Stream.tableCoder T) _ op

/-! ## non-vacuity, and why the hypothesis is needed -/

namespace C12Ab
def e31021 : Elem := { id := 31021, kind := .codeflag, nbits := 6, scale := 0, ref := 0 }
def e1001 : Elem := { id := 1001, kind := .numeric, nbits := 7, scale := 0, ref := 0 }
def e12001 : Elem := { id := 12001, kind := .numeric, nbits := 12, scale := 1, ref := 0 }
/-- `204004 031021 <063255> 204000 001001`: an undefined element between 204YYY and 204000 -/
def damaged : List Desc := [.op 204004, .elem e31021, .undefElem 63255, .op 204000, .elem e1001]
/-- a valid template with an associated field: `204004 031021 001001 204000 012001` -/
def valid : List Desc := [.op 204004, .elem e31021, .elem e1001, .op 204000, .elem e12001]
/-- 6 bits significance, 4 bits associated field, 7 bits 001001, 12 bits 012001 (29 bits a subset), 3 more bits -/
def bits : Bits :=
  [false, false, false, false, false, true,   true, false, true, false,   false, true, false, false, true, false, true,
   false, false, false, true, false, false, true, false, true, true, false, false,   false, false, false]
/-- the walk of the damaged message is aborted at the undefined element with `[4]` on the 204 stack, 201 and a
    bitmap definition could be anything else: these are the registers it leaves -/
def opDamaged : POp := { tmpl := damaged, compressed := false, n := 1, bits := bits, left := { assocStack := [4] } }
def opValid : POp := { tmpl := valid, compressed := false, n := 2, bits := bits ++ bits }
def opValidC : POp := { tmpl := valid, compressed := true, n := 1, bits := bits }
/-- every register dirty -/
def dirty : Regs :=
  { nbitsOffset := 3, scaleOffset := -1, nbitsNewRefval := 9, newRefvals := [(1001, 5)],
    assocStack := [4, 2], nbitsSkipped := 8, y207 := 2, newNbytes := 3, dnpCount := 2,
    qa := .processing, bitmapDef := .counting, n031031 := 3, bitmapped := some [(0, e1001)],
    bmIter := some [], backBoundary := 7, backRefs := some [(0, e1001)] }
def hist : List POp := [opValid, opDamaged, { opDamaged with left := dirty }, opValidC]
end C12Ab

open C12Ab in
/-- the damaged message is refused with UnknownDescriptor, the valid one decodes (two subsets, four values each, six
    bits are left) — directly and after the history, by evaluation of the state machine -/
example :
    (opDamaged.run Regs.reset {}).1 = .error .unknownDescr ∧
    ((opValid.run Regs.reset {}).1.map fun x => (x.1.map (·.vals.length), x.2.length)) = .ok ([4, 4], 6) ∧
    (opValid.run Regs.reset (runP Regs.reset hist {})).1 = (opValid.run Regs.reset {}).1 := by
  decide +kernel

open C12Ab in
/-- the same through the theorem (any history, any starting registers) -/
example (r0 : Regs) : (opValid.run Regs.reset (runP Regs.reset hist r0)).1 = decodeData valid false 2 (bits ++ bits) :=
  C12_aborted_walk_leaves_no_trace _ C12_aborted_reset_assigns_every_register hist r0 opValid

open C12Ab in
/-- the combined statement instantiated: the reset of the code, the bundled layouts, a table group, a history of a
    strict decode that leaves every register dirty and a lenient continue-on-error scan that leaves `[4]` on the 204 stack -/
example (T : Tables) (op : Stream.Op (List SubsetOut)) :
    let hist : List (Stream.Op (List SubsetOut) × Regs) :=
      [(.process true false false C12Msg.msg, dirty), (.scan false true true none (C12Msg.msg ++ C12Msg.msg), { assocStack := [4] })]
    (op.run Gen.layouts (tableCoderW Regs.reset T (runHistW Regs.reset Gen.layouts T hist ([], {})).2)
        (runHistW Regs.reset Gen.layouts T hist ([], {})).1).1 = op.pure Gen.layouts (Stream.tableCoder T) :=
  C12_aborted_decoder_history_irrelevant _ C12_aborted_reset_assigns_every_register _ _ _ _ _

open C12Ab in
/-- **the hypothesis carries the result**: with the reset of seeded change C12-4 (`Regs.resetShared204`: the 204
    stack is the shared default, everything else is reset) the SAME history — one walk aborted between 204004 and
    204000 — makes the valid message that follows fail: its associated fields are read 8 bits wide and the bits run
    out; on fresh registers that reset decodes the message like the stateless model.  So
    `C12_aborted_walk_leaves_no_trace` is a statement about `reset_template_state` assigning EVERY register, not
    an artefact of registers that are never read. -/
theorem C12_aborted_needs_full_reset :
    (C12Ab.opValid.run Regs.resetShared204 (runP Regs.resetShared204 [C12Ab.opDamaged] {})).1 = .error .bitRead ∧
    (C12Ab.opValid.run Regs.resetShared204 {}).1 = decodeData C12Ab.valid false 2 (C12Ab.bits ++ C12Ab.bits) ∧
    (∃ r, Regs.resetShared204 r ≠ {}) := by
  refine ⟨by decide +kernel, by decide +kernel, ⟨{ assocStack := [4] }, ?_⟩⟩
  intro h
  have := congrArg Regs.assocStack h
  revert this
  decide

end Bufr
