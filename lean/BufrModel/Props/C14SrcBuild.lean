/-
  C14 — tie to the Python source, template building (`tables.py _descriptors_from_ids_iter`, `TableR.lookup`).

  NOT the whole function: it works on an iterator (`next_id`, `generate_quiet`, `functools.partial(next, g)`,
  `try … except StopIteration: break`) and on descriptor objects it mutates (`descriptor.factor = …`,
  `descriptor.members = …`), outside the translated subset.  What is regenerated from the source on every check
  are the four tests that decide what is built from an id (`Gen/PyTables.lean`, fragments):
      `id_ >= 300000`  -> Table D,   `id_ >= 200000` -> Table C,   `id_ >= 100000` -> replication,
      `id_ % 1000 == 0` (TableR.lookup) -> delayed replication,
  and (already tied, `C14_src_replication_n_items`) the number of ids a replication takes, `(id // 1000) % 100`.
  `C14_src_build_dispatch_partial` restates the model's `buildD` with these tests in place of its literals.
-/
import BufrModel.Basic.Desc
import BufrModel.Gen.PyTables
import BufrModel.Lemmas.BuildSrc
namespace Bufr
open PyGen.tables

theorem src_is_sequence (id : Nat) : build_is_sequence (id : Int) = decide (300000 ≤ id) := by
  simp [build_is_sequence]; omega
theorem src_is_operator (id : Nat) : build_is_operator (id : Int) = decide (200000 ≤ id) := by
  simp [build_is_operator]; omega
theorem src_is_replication (id : Nat) : build_is_replication (id : Int) = decide (100000 ≤ id) := by
  simp [build_is_replication]; omega
theorem src_is_delayed (id : Nat) : replication_is_delayed (id : Int) = decide (id % 1000 = 0) := by
  have h : Int.fmod (id : Int) (Int.ofNat 1000) = (id : Int) % 1000 := by
    simp [Int.fmod_eq_emod_of_nonneg]
  simp only [replication_is_delayed, h]
  by_cases h0 : id % 1000 = 0
  · have : (id : Int) % 1000 = Int.ofNat 0 := by simp; omega
    simp [h0, this]
  · have : ¬ (id : Int) % 1000 = 0 := by omega
    simp [h0, this]

/-- **The dispatch of template building, as far as it is tied to the source** (`_partial`: the iterator protocol —
    which ids a replication takes: the next `n_items` of its own iterator, fewer when it runs out; the factor id
    first; `StopIteration` for a missing factor — and the construction / mutation of the descriptor objects are NOT
    translated; they stay tied by the C14 correspondence run).  One step of the model's `buildD`, with the four
    tests of the source (regenerated on every check) deciding the branch, for every table group, depth, id and
    remaining ids. -/
theorem C14_src_build_dispatch_partial (T : Tables) (depth : Nat) (id : Nat) (rest : List Nat) :
    buildD T depth (id :: rest) =
      if build_is_sequence (id : Int) then
        match T.d id with
        | none => (do
            let tl ← buildD T depth rest
            pure (.undefSeq id :: tl))
        | some ms =>
          match depth with
          | 0 => .error .other
          | depth' + 1 => (do
            let members ← buildD T depth' ms
            let tl ← buildD T (depth' + 1) rest
            pure (.seq id members :: tl))
      else if build_is_operator (id : Int) then (do
        let tl ← buildD T depth rest
        pure (.op id :: tl))
      else if build_is_replication (id : Int) then
        if replication_is_delayed (id : Int) then
          match rest with
          | [] => .error .other
          | f :: rest' => (do
            let members ← buildD T depth (rest'.take (xOf id))
            let tl ← buildD T depth (rest'.drop (xOf id))
            pure (.delayedRep id (T.lookupB f) members :: tl))
        else (do
          let members ← buildD T depth (rest.take (xOf id))
          let tl ← buildD T depth (rest.drop (xOf id))
          pure (.fixedRep id members :: tl))
      else (do
        let tl ← buildD T depth rest
        pure (T.lookupB id :: tl)) := by
  rw [buildD.eq_def]
  simp only [src_is_sequence, src_is_operator, src_is_replication, src_is_delayed, decide_eq_true_eq]
  rfl

/-- the four tests on concrete ids (non-vacuity / sanity) -/
example : build_is_sequence 301011 = true ∧ build_is_operator 201129 = true ∧ build_is_operator 301011 = true ∧
    build_is_replication 101000 = true ∧ replication_is_delayed 101000 = true ∧ replication_is_delayed 103002 = false ∧
    build_is_replication 31001 = false := by decide

/-! ### the whole builder (`_descriptors_from_ids_iter`, `TableR.lookup`) -/

open Bufr.BuildSrc in
/-- **Template building as translated from the source is the model's `buildD`.**  The generated
    `_descriptors_from_ids_iter` (the id iterator as the list of remaining ids: `next_id()` takes the head, its
    `StopIteration` is the empty list; `generate_quiet(range(n_items), next_id)` handed to the recursive call is
    the next `n_items` ids, fewer when the list runs out; a replication descriptor is created by the translated
    `TableR.lookup`, receives its factor from Table B first when it is a delayed one and then its members from the
    recursive call) run on the table group of `T` as lookup functions (`envOf`: Table B, Table C, and Table D as the
    sequence objects built when the tables were loaded) returns, for EVERY id list and every fuel above its length,
    the object tree (`reprL`) of what `buildD T (depth + 1)` returns; and it raises `StopIteration` — the missing
    factor of a delayed replication at the end of its iterator — exactly when `buildD` fails.  No other exception,
    no running out of fuel (the Python loop and recursion terminate).
    Hypothesis `Loads T depth`: every sequence of Table D builds within `depth` levels (the table group could be
    loaded; Python builds all sequences in `TableD.__init__`).  The tree stands for Python's object graph under the
    assumption that descriptor objects are not mutated after the tables are loaded (sharing of a sequence object
    between templates is then unobservable; the C13 heap audit checks it at run time). -/
theorem C14_src_build_eq (T : Tables) (depth : Nat) (hL : Loads T depth) (ids : List Nat) (fuel : Nat)
    (hf : ids.length < fuel) :
    _descriptors_from_ids_iter (envOf T depth) fuel (ids.map Int.ofNat) =
      match buildD T (depth + 1) ids with
      | .ok r => .ok (reprL r)
      | .error _ => .error (.raised "StopIteration") := by
  unfold _descriptors_from_ids_iter
  rw [loop_eq T depth hL fuel ids [] hf]
  cases buildD T (depth + 1) ids <;> simp [outcome]

open Bufr.BuildSrc in
/-- the same for the model's `build` (the depth the driver uses) -/
theorem C14_src_build_eq_default (T : Tables) (hL : Loads T (defaultDepth - 1)) (ids : List Nat) :
    _descriptors_from_ids_iter (envOf T (defaultDepth - 1)) (ids.length + 1) (ids.map Int.ofNat) =
      match build T ids with
      | .ok r => .ok (reprL r)
      | .error _ => .error (.raised "StopIteration") :=
  C14_src_build_eq T (defaultDepth - 1) hL ids (ids.length + 1) (by omega)

open Bufr.BuildSrc in
/-- the hypothesis is satisfiable (a table group without sequences loads at every depth) -/
example : Loads { b := fun _ => none, d := fun _ => none } 5 := by
  intro id ms h; cases h

open Bufr.BuildSrc in
/-- a delayed replication at the end of the id list: the factor is missing, `StopIteration` escapes
    (checked on the real function: `_descriptors_from_ids(b, c, r, d, [101000])` raises StopIteration) -/
example : _descriptors_from_ids_iter (envOf { b := fun _ => none, d := fun _ => none } 5) 3 [101000] =
    .error (.raised "StopIteration") := by rfl

end Bufr
