/-
  C14 — tie to the Python source, template building (`tables.py _descriptors_from_ids_iter`, `TableR.lookup`).

  NOT the whole function: it works on an iterator (`next_id`, `generate_quiet`, `functools.partial(next, g)`,
  `try … except StopIteration: break`) and on descriptor objects it mutates (`descriptor.factor = …`,
  `descriptor.members = …`), outside the translated subset.  What is regenerated from the source on every check
  are the four tests that decide what is built from an id (`Gen/PyTables.lean`, fragments):
      `id_ >= 300000`  -> Table D,   `id_ >= 200000` -> Table C,   `id_ >= 100000` -> replication,
      `id_ % 1000 == 0` (TableR.lookup) -> delayed replication,
  and (already tied, `C14_src_replication_n_items`) the number of ids a replication takes, `(id // 1000) % 100`.
  `C14_src_build_dispatch_partial` restates the model's `buildD` with these tests in place of its literals.
-/
import BufrModel.Basic.Desc
import BufrModel.Gen.PyTables
import BufrModel.Lemmas.BuildSrc
import BufrModel.Props.C14
namespace Bufr
open PyGen.tables

theorem src_is_sequence (id : Nat) : build_is_sequence (id : Int) = decide (300000 ≤ id) := by
  simp [build_is_sequence]; omega
theorem src_is_operator (id : Nat) : build_is_operator (id : Int) = decide (200000 ≤ id) := by
  simp [build_is_operator]; omega
theorem src_is_replication (id : Nat) : build_is_replication (id : Int) = decide (100000 ≤ id) := by
  simp [build_is_replication]; omega
theorem src_is_delayed (id : Nat) : replication_is_delayed (id : Int) = decide (id % 1000 = 0) := by
  have h : Int.fmod (id : Int) (Int.ofNat 1000) = (id : Int) % 1000 := by
    simp [Int.fmod_eq_emod_of_nonneg]
  simp only [replication_is_delayed, h]
  by_cases h0 : id % 1000 = 0
  · have : (id : Int) % 1000 = Int.ofNat 0 := by simp; omega
    simp [h0, this]
  · have : ¬ (id : Int) % 1000 = 0 := by omega
    simp [h0, this]

/-- **The dispatch of template building, as far as it is tied to the source** (`_partial`: the iterator protocol —
    which ids a replication takes: the next `n_items` of its own iterator, fewer when it runs out; the factor id
    first; `StopIteration` for a missing factor — and the construction / mutation of the descriptor objects are NOT
    translated; they stay tied by the C14 correspondence run).  One step of the model's `buildD`, with the four
    tests of the source (regenerated on every check) deciding the branch, for every table group, depth, id and
    remaining ids. -/
theorem C14_src_build_dispatch_partial (T : Tables) (depth : Nat) (id : Nat) (rest : List Nat) :
    buildD T depth (id :: rest) =
      if build_is_sequence (id : Int) then
        match T.d id with
        | none => (do
            let tl ← buildD T depth rest
            pure (.undefSeq id :: tl))
        | some ms =>
          match depth with
          | 0 => .error .other
          | depth' + 1 => (do
            let members ← buildD T depth' ms
            let tl ← buildD T (depth' + 1) rest
            pure (.seq id members :: tl))
      else if build_is_operator (id : Int) then (do
        let tl ← buildD T depth rest
        pure (.op id :: tl))
      else if build_is_replication (id : Int) then
        if replication_is_delayed (id : Int) then
          match rest with
          | [] => .error .other
          | f :: rest' => (do
            let members ← buildD T depth (rest'.take (xOf id))
            let tl ← buildD T depth (rest'.drop (xOf id))
            pure (.delayedRep id (T.lookupB f) members :: tl))
        else (do
          let members ← buildD T depth (rest.take (xOf id))
          let tl ← buildD T depth (rest.drop (xOf id))
          pure (.fixedRep id members :: tl))
      else (do
        let tl ← buildD T depth rest
        pure (T.lookupB id :: tl)) := by
  rw [buildD.eq_def]
  simp only [src_is_sequence, src_is_operator, src_is_replication, src_is_delayed, decide_eq_true_eq]
  rfl

/-- the four tests on concrete ids (non-vacuity / sanity) -/
example : build_is_sequence 301011 = true ∧ build_is_operator 201129 = true ∧ build_is_operator 301011 = true ∧
    build_is_replication 101000 = true ∧ replication_is_delayed 101000 = true ∧ replication_is_delayed 103002 = false ∧
    build_is_replication 31001 = false := by decide

/-! ### the whole builder (`_descriptors_from_ids_iter`, `TableR.lookup`) -/

open Bufr.BuildSrc in
/-- **Template building as translated from the source is the model's `buildD`.**  The generated
    `_descriptors_from_ids_iter` (the id iterator as the list of remaining ids: `next_id()` takes the head, its
    `StopIteration` is the empty list; `generate_quiet(range(n_items), next_id)` handed to the recursive call is
    the next `n_items` ids, fewer when the list runs out; a replication descriptor is created by the translated
    `TableR.lookup`, receives its factor from Table B first when it is a delayed one and then its members from the
    recursive call) run on the table group of `T` as lookup functions (`envOf`: Table B, Table C, and Table D as the
    sequence objects built when the tables were loaded) returns, for EVERY id list and every fuel above its length,
    the object tree (`reprL`) of what `buildD T (depth + 1)` returns; and it raises `StopIteration` — the missing
    factor of a delayed replication at the end of its iterator — exactly when `buildD` fails.  No other exception,
    no running out of fuel (the Python loop and recursion terminate).
    Hypothesis `Loads T depth`: every sequence of Table D builds within `depth` levels (the table group could be
    loaded; Python builds all sequences in `TableD.__init__`).  The tree stands for Python's object graph under the
    assumption that descriptor objects are not mutated after the tables are loaded (sharing of a sequence object
    between templates is then unobservable; the C13 heap audit checks it at run time). -/
theorem C14_src_build_eq (T : Tables) (depth : Nat) (hL : Loads T depth) (ids : List Nat) (fuel : Nat)
    (hf : ids.length < fuel) :
    _descriptors_from_ids_iter (envOf T depth) fuel (ids.map Int.ofNat) =
      match buildD T (depth + 1) ids with
      | .ok r => .ok (reprL r)
      | .error _ => .error (.raised "StopIteration") := by
  unfold _descriptors_from_ids_iter
  rw [loop_eq T depth hL fuel ids [] hf]
  cases buildD T (depth + 1) ids <;> simp [outcome]

open Bufr.BuildSrc in
/-- the same for the model's `build` (the depth the driver uses) -/
theorem C14_src_build_eq_default (T : Tables) (hL : Loads T (defaultDepth - 1)) (ids : List Nat) :
    _descriptors_from_ids_iter (envOf T (defaultDepth - 1)) (ids.length + 1) (ids.map Int.ofNat) =
      match build T ids with
      | .ok r => .ok (reprL r)
      | .error _ => .error (.raised "StopIteration") :=
  C14_src_build_eq T (defaultDepth - 1) hL ids (ids.length + 1) (by omega)

open Bufr.BuildSrc in
/-- the hypothesis is satisfiable (a table group without sequences loads at every depth) -/
example : Loads { b := fun _ => none, d := fun _ => none } 5 := by
  intro id ms h; cases h

open Bufr.BuildSrc in
/-- a delayed replication at the end of the id list: the factor is missing, `StopIteration` escapes
    (checked on the real function: `_descriptors_from_ids(b, c, r, d, [101000])` raises StopIteration) -/
example : _descriptors_from_ids_iter (envOf { b := fun _ => none, d := fun _ => none } 5) 3 [101000] =
    .error (.raised "StopIteration") := by rfl

/-! ### `BufrTemplate.original_descriptor_ids` and the round trip on the source -/

open Bufr.BuildSrc PyGen.descriptors in
/-- **`original_descriptor_ids` as translated from the source is the model's queue algorithm `originalIdsQ`** (hence
    `originalIds`, `originalIdsQ_eq`), on the object tree of every member list of the model and for every fuel above
    its size; no exception (no `AttributeError` from `member.factor.id`: a delayed replication of the model has its
    factor), the loop terminates. -/
theorem C14_src_flatten_eq (t : List Desc) (fuel : Nat) (hf : sizeL t < fuel) :
    BufrTemplate.original_descriptor_ids eid fuel (reprL t) = .ok ((originalIds t).map Int.ofNat) := by
  unfold BufrTemplate.original_descriptor_ids
  rw [walk_eq fuel t [] hf, originalIdsQ_eq]
  rfl

open Bufr.BuildSrc PyGen.descriptors in
/-- **The C14 round trip stated on the source**: for every table group that loads (`Loads`) and files its Table B
    entries under their own id (`Keyed`), every id list from which a template can be built, and sufficient fuel, the
    regenerated `original_descriptor_ids` applied to what the regenerated `_descriptors_from_ids_iter` returns gives back
    the id list.  From `C14_src_build_eq`, `C14_src_flatten_eq` and the model's `C14_flatten_build`. -/
theorem C14_src_flatten_build_id (T : Tables) (hK : T.Keyed) (depth : Nat) (hL : Loads T depth) (ids : List Nat)
    (t : List Desc) (ht : buildD T (depth + 1) ids = .ok t) (fuel fuel2 : Nat) (hf : ids.length < fuel)
    (hf2 : sizeL t < fuel2) :
    (_descriptors_from_ids_iter (envOf T depth) fuel (ids.map Int.ofNat) >>= fun ds =>
      BufrTemplate.original_descriptor_ids eid fuel2 ds) = .ok (ids.map Int.ofNat) := by
  rw [C14_src_build_eq T depth hL ids fuel hf, ht]
  show BufrTemplate.original_descriptor_ids eid fuel2 (reprL t) = _
  rw [C14_src_flatten_eq t fuel2 hf2, C14_flatten_build T hK (depth + 1) ids t ht]

open Bufr.BuildSrc in
/-- … and when no template can be built (a delayed replication without its factor) the builder raises, so nothing is
    flattened -/
theorem C14_src_flatten_build_fails (T : Tables) (depth : Nat) (hL : Loads T depth) (ids : List Nat) (e : Err)
    (ht : buildD T (depth + 1) ids = .error e) (fuel : Nat) (hf : ids.length < fuel) :
    _descriptors_from_ids_iter (envOf T depth) fuel (ids.map Int.ofNat) = .error (.raised "StopIteration") := by
  rw [C14_src_build_eq T depth hL ids fuel hf, ht]

open Bufr.BuildSrc in
/-- the hypotheses are satisfiable -/
example : ∃ (T : Tables) (ids : List Nat) (t : List Desc), T.Keyed ∧ Loads T 5 ∧ buildD T 6 ids = .ok t :=
  ⟨{ b := fun _ => none, d := fun _ => none }, [], [], (by intro id e h; cases h), (by intro id ms h; cases h),
   (by rw [buildD])⟩

open Bufr.BuildSrc in
/-- the object tree determines the tree of the model: `C14_src_build_eq` pins the result of `buildD`, not just a
    projection of it -/
theorem C14_src_repr_injective (a b : List Desc) (h : reprL a = reprL b) : a = b := reprL_inj a b h

/-! ### `flat_member_ids` (the expansion that opens sequences) -/

open Bufr.BuildSrc PyGen.descriptors in
/-- **`flat_member_ids` as translated from the source is the model's `flatMemberIds`**: on every descriptor object
    whose members are the object trees of a member list `t` of the model (a template, a sequence, a replication), for
    every fuel above the size of `t`; no exception, the recursion terminates. -/
theorem C14_src_expand_eq (X : Py.Small.Descr Elem) (t : List Desc) (hX : Py.Small.Descr.membersOf X = reprL t)
    (fuel : Nat) (hf : sizeL t < fuel) :
    flat_member_ids eid fuel X = .ok ((flatMemberIds t).map Int.ofNat) :=
  flat_eq fuel X t hX hf

open Bufr.BuildSrc PyGen.descriptors in
/-- the expansion of what the regenerated builder returns (as the members of a template / sequence object with any id)
    is the model's flattening of `buildD` -/
theorem C14_src_expand_build (T : Tables) (depth : Nat) (hL : Loads T depth) (ids : List Nat) (t : List Desc)
    (ht : buildD T (depth + 1) ids = .ok t) (fuel fuel2 : Nat) (hf : ids.length < fuel) (hf2 : sizeL t < fuel2)
    (i : Int) :
    (_descriptors_from_ids_iter (envOf T depth) fuel (ids.map Int.ofNat) >>= fun ds =>
      flat_member_ids eid fuel2 (.seq i ds)) = .ok ((flatMemberIds t).map Int.ofNat) := by
  rw [C14_src_build_eq T depth hL ids fuel hf, ht]
  exact flat_eq fuel2 (.seq i (reprL t)) t rfl hf2

open Bufr.BuildSrc PyGen.descriptors Spec in
/-- **expansion of the regenerated build = the direct expansion of the id list** (`expand`, the tree-free counting
    machine of the model), for every well-counted id list whose sequence ids have acyclic, well-counted rows
    (`rowOK`), over every keyed table group that loads; from `C14_src_build_eq`, `C14_src_expand_eq` and the model's
    `C14_expand_eq_direct_list`. -/
theorem C14_src_expand_build_direct (T : Tables) (hK : T.Keyed) (depth : Nat) (hL : Loads T depth) (ids : List Nat)
    (hwc : WellCounted ids = true) (hrows : ∀ m ∈ ids, 300000 ≤ m → rowOK T (depth + 1) m = true) (i : Int) :
    ∃ out t, expand T (depth + 1) ids = some out ∧ buildD T (depth + 1) ids = .ok t ∧
      ∀ fuel fuel2, ids.length < fuel → sizeL t < fuel2 →
        (_descriptors_from_ids_iter (envOf T depth) fuel (ids.map Int.ofNat) >>= fun ds =>
          flat_member_ids eid fuel2 (.seq i ds)) = .ok (out.map Int.ofNat) := by
  obtain ⟨t, ht, he⟩ := C14_expand_eq_direct_list T hK (depth + 1) ids hwc hrows
  exact ⟨flatMemberIds t, t, he, ht, fun fuel fuel2 hf hf2 => C14_src_expand_build T depth hL ids t ht fuel fuel2 hf hf2 i⟩

open Bufr.BuildSrc in
example : ∃ (X : Py.Small.Descr Elem) (t : List Desc), Py.Small.Descr.membersOf X = reprL t :=
  ⟨.seq 999999 [], [], rfl⟩

end Bufr
