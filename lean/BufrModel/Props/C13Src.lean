/-
  C13 — tie to the Python source (`Gen/PyTables.lean`, regenerated from `pybufrkit/tables.py` on every
  check).  The cache model (`Msg/Cache.lean`) is parametric in the limit and the C13 theorems hold for
  every limit; what is tied here is that the shipped limit is an instance of that parameter (a natural
  number) and not one of the degenerate limits 0 / 1 the theorems single out.
-/
import BufrModel.Msg.Cache
import BufrModel.Gen.PyTables
namespace Bufr
open PyGen.tables

theorem C13_src_const_table_cache_limit :
    ∃ limit : Nat, MAXIMUM_NUMBER_OF_CACHED_TABLE_GROUPS = (limit : Int) ∧ 2 ≤ limit := ⟨MAXIMUM_NUMBER_OF_CACHED_TABLE_GROUPS.toNat, by decide, by decide⟩

end Bufr
