/-
  C11 — tie to the Python source: the signature the stream scanner of the model searches for is
  `MESSAGE_START_SIGNATURE` of `pybufrkit/constants.py` (regenerated on every check).
-/
import BufrModel.Msg.Stream
import BufrModel.Gen.PyConstants
namespace Bufr.Stream
open PyGen.constants

theorem C11_src_const_start_signature : sig = MESSAGE_START_SIGNATURE := by decide

end Bufr.Stream
