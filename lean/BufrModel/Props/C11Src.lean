/-
  C11 — tie to the Python source: the signature the stream scanner of the model searches for is
  `MESSAGE_START_SIGNATURE` of `pybufrkit/constants.py` (regenerated on every check), and the WHOLE scanner:
  `decoder.generate_bufr_message` is translated by `harness/py2lean.py` into `Gen/PyDecoder.lean` on every check (the
  code it calls — `decoder.process`, `ScriptRunner`, `sr.run`, the table-definition side effect, and which exceptions are
  instances of `PyBufrKitError` — is a record `Env` of callbacks; a generator is "the values yielded + how it ended");
  `C11_src_generate_eq` proves, for every byte string, every flag combination and all callbacks, that it does what the
  model's `scan` of `Msg/Stream.lean` says (on which the other C11 / C12 / C17 stream theorems rest).
  Lemmas: `Lemmas/StreamSrc.lean`.
-/
import BufrModel.Msg.Stream
import BufrModel.Gen.PyConstants
import BufrModel.Gen.PyDecoder
import BufrModel.Lemmas.StreamSrc
namespace Bufr.Stream
open PyGen.constants

theorem C11_src_const_start_signature : sig = PyGen.constants.MESSAGE_START_SIGNATURE := by decide

/-- the constant as `decoder.py` imports it -/
theorem C11_src_const_start_signature_decoder : sig = PyGen.decoder.MESSAGE_START_SIGNATURE := by decide


open PyGen.decoder PyGen.decoder.generate_bufr_message in
/-- **The translated stream scanner is the model's `scan`.**  For every byte string `s`, every combination of
    `info_only`, `continue_on_error` and `filter_expr` (`None`, `''`, or an expression whose `ScriptRunner` object is
    `sr`), and ALL callbacks `env` (`decoder.process`, `sr.run`, which exceptions are `PyBufrKitError`s) that satisfy
    `CbOk` (`length.value ≥ 0`; the table-definition side effect does not raise), with
    `r = scan (srcDec env) (srcCfg env info_only continue_on_error filter_expr sr) s`:
      * `r.2 = done`   : the generator yields exactly the messages of `r.1` (in info-only mode with `serialized_bytes`
                          replaced by the slice of the stream) and is exhausted;
      * `r.2 = error e`: it yields those messages, then an exception `x` of the model's class `e` leaves it
                          (a library error without `continue_on_error`, or any non-library exception);
      * `r.2 = loops`  : an iteration advanced by 0 (declared total length 0 in info-only mode or in the skip branch,
                          empty `serialized_bytes`): the fuel of the translated `while` loop (`len(s) + 1`) runs out,
                          after the model's items have been yielded — the real generator never terminates; in the other
                          two cases the fuel suffices, i.e. the real loop terminates. -/
theorem C11_src_generate_eq (env : Env) (hcb : CbOk env) (s : Bytes) (info_only continue_on_error : Bool)
    (filter_expr : Option (List Char)) (sr : Py.Obj)
    (hsr : filter_expr.isSome = true → env.ScriptRunner filter_expr = .ok sr) :
    Agrees env info_only (scan (srcDec env) (srcCfg env info_only continue_on_error filter_expr sr) s)
      (generate_bufr_message env s info_only continue_on_error filter_expr) :=
  generate_sim env hcb s info_only continue_on_error filter_expr sr hsr

open PyGen.decoder PyGen.decoder.generate_bufr_message in
/-- the usual case spelled out: when the model's scan ends normally the translated generator returns exactly its items -/
theorem C11_src_generate_done (env : Env) (hcb : CbOk env) (s : Bytes) (info_only continue_on_error : Bool)
    (filter_expr : Option (List Char)) (sr : Py.Obj)
    (hsr : filter_expr.isSome = true → env.ScriptRunner filter_expr = .ok sr)
    (hd : (scan (srcDec env) (srcCfg env info_only continue_on_error filter_expr sr) s).2 = .done) :
    generate_bufr_message env s info_only continue_on_error filter_expr =
      (yieldsOf info_only (scan (srcDec env) (srcCfg env info_only continue_on_error filter_expr sr) s).1, .ok ()) := by
  have h := C11_src_generate_eq env hcb s info_only continue_on_error filter_expr sr hsr
  simp only [Agrees, hd] at h
  exact h

open PyGen.decoder PyGen.decoder.generate_bufr_message in
/-- a filter expression whose `ScriptRunner` cannot be built: the generator raises at its first `next()` -/
theorem C11_src_generate_bad_filter (env : Env) (s : Bytes) (io coe : Bool) (x : List Char) (e : Py.Exc)
    (h : env.ScriptRunner (some x) = .error e) :
    generate_bufr_message env s io coe (some x) = ([], .error e) :=
  generate_bad_filter env s io coe x e h

open PyGen.decoder PyGen.decoder.generate_bufr_message in
/-- `s.find(MESSAGE_START_SIGNATURE, idx_start)` is the model's `findSig` on the rest of the stream -/
theorem C11_src_find_signature (s : Bytes) (j : Nat) (h : j ≤ s.length) :
    Py.seqFind s PyGen.decoder.MESSAGE_START_SIGNATURE (j : Int) =
      match findSig (s.drop j) with | some k => ((j + k : Nat) : Int) | none => -1 :=
  seqFind_findSig s j h

/-- the hypotheses are satisfiable: callbacks that always fail with a library error -/
example : ∃ env : PyGen.decoder.generate_bufr_message.Env, CbOk env :=
  ⟨{ ScriptRunner := fun _ => .ok {}, decoder_process := fun _ _ => .error (.raised "PyBufrKitError"),
     sr_run := fun _ _ => .ok true, table_definition_process := fun _ => .ok ({}, {}, {}),
     table_cache_invalidate := .ok (), table_cache_add_extra_entries := fun _ _ => .ok (),
     isinstance_PyBufrKitError := fun e => decide (e = .raised "PyBufrKitError") },
   ⟨(fun _ _ _ h => by cases h), ⟨fun _ => ({}, {}, {}), fun _ => rfl⟩, rfl, fun _ _ => rfl⟩⟩

end Bufr.Stream
