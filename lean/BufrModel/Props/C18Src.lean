/-
  C18 — tie to the Python source.  `Gen/PyScript.lean` is regenerated from `pybufrkit/script.py` by
  `harness/py2lean.py` on every check (a mechanical translation of `process_embedded_query_expr`: the
  `while` loop body as a step function over the record of the local variables, the loop as a recursion on
  fuel); the theorems below connect it to the hand-written model `Lang/Script.lean` on which the other C18
  theorems rest.  When the Python function changes behaviour, the regenerated definition changes and these
  theorems stop checking.
-/
import BufrModel.Lang.Script
import BufrModel.Gen.PyScript
import BufrModel.Lemmas.ScriptSrc
import BufrModel.Gen.PyUtils
import BufrModel.Lemmas.FlattenSrc
set_option linter.unusedSimpArgs false
namespace Bufr.Script
open PyGen.script PyGen.script.process_embedded_query_expr

/-- For EVERY input string the translated Python function returns normally (no IndexError, no KeyError,
    the loop terminates within its fuel) and its result is the result of the model's `preprocess`:
    the code string and the substitutions in insertion order. -/
theorem C18_src_preprocess_eq (s : List Char) :
    PyGen.script.process_embedded_query_expr s = .ok (preprocess s) := by
  have hr : Rel s ⟨s, [], [], 0, 0, [], [], [], [], []⟩ ({} : PS) := by
    constructor <;> simp [stTag, STATE_IDLE]
  obtain ⟨v', hl, hr'⟩ := loop_ok s (s.length - 0 + 1) _ _ 0 hr rfl (by omega) (by omega)
  simp only [List.drop_zero] at hr'
  simp only [Nat.sub_zero] at hl
  simp [PyGen.script.process_embedded_query_expr, bind, Except.bind, pure, Except.pure, hl, preprocess, py_join_nil,
    hr'.keep, hr'.subs]

/-- the five state tags of the Python function are pairwise distinct, so its string comparisons
    `state == STATE_X` distinguish exactly the constructors of the model's `St` -/
theorem C18_src_const_states_distinct (a b : St) : stTag a = stTag b ↔ a = b := by
  cases a <;> cases b <;> decide

/-- the two quote states are the quote characters themselves (the code stores `state = c`) -/
theorem C18_src_const_quote_states : stTag .sq = ['\''] ∧ stTag .dq = ['"'] := by decide

/-- `DATA_VALUES_NEST_LEVEL_0/1/2` are the levels 0, 1, 2 of `flattenValues`, `_1` is the default level and
    `_4` falls in the "no flattening" branch (any level from 3 on) -/
theorem C18_src_const_nest_levels :
    DATA_VALUES_NEST_LEVEL_0 = 0 ∧ DATA_VALUES_NEST_LEVEL_1 = (defaultLevel : Int) ∧ DATA_VALUES_NEST_LEVEL_2 = 2 ∧
    3 ≤ DATA_VALUES_NEST_LEVEL_4 := by decide

/-- `utils.flatten_list` translated from the source (a `for` loop over a nested list, `isinstance(entry, list)`,
    recursion; the first argument of the translation is the fuel of the recursion).  For EVERY nested list `ts`
    and every fuel above its nesting depth the function returns normally and gives the model's `flattenList`
    (on which `allValuesFlat` and the nest levels 0, 1, 2 rest) of the corresponding model value. -/
theorem C18_src_flatten_list (ts : List (Py.Tree Py.Obj)) (fuel : Nat) (h : depths (toVals ts) < fuel) :
    PyGen.utils.flatten_list fuel ts = .ok (flattenList (toVals ts)) := by
  have := flatten_list_ok fuel (toVals ts) h
  rwa [ofVals_toVals] at this

/-- in particular the recursion ends: some fuel suffices for every input, and every larger fuel gives the same -/
theorem C18_src_flatten_list_exists_fuel (ts : List (Py.Tree Py.Obj)) :
    ∃ n, ∀ fuel, n ≤ fuel → PyGen.utils.flatten_list fuel ts = .ok (flattenList (toVals ts)) :=
  ⟨depths (toVals ts) + 1, fun fuel h => C18_src_flatten_list ts fuel (by omega)⟩

/-- and stated from the model's side: every nested value of the model is such an input -/
theorem C18_src_flatten_list_model (vs : List (Val Py.Obj)) (fuel : Nat) (h : depths vs < fuel) :
    PyGen.utils.flatten_list fuel (ofVals vs) = .ok (flattenList vs) := flatten_list_ok fuel vs h

example : ∃ (ts : List (Py.Tree Py.Obj)) (fuel : Nat), ts ≠ [] ∧ depths (toVals ts) < fuel :=
  ⟨[.leaf {}, .list [.leaf {}, .list []]], 3, by simp, by decide⟩

end Bufr.Script
