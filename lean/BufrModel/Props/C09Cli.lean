/-
  C09, the SERIALISED JSON formats — character data survives `decode -j [-a]` | `encode -j [-a]`.

  Model: View/JsonText.lean.  The renderers hand `bytes` objects to `json.dumps`; what reaches the file is text,
  and what `pybufrkit encode` reads back is a `str` that `BitWriter.write_bytes` turns into octets again.  The four
  formats "describe the same data" only if that detour is the identity on EVERY octet string.

  * `C09_json_text_bytes_roundtrip`   — for every `b : List UInt8`: `encodeLatin1 (decodeLatin1 b) = some b`.
  * `C09_json_string_escape_roundtrip` — for every string (every `Char`, the quote, the backslash, control
    characters, DEL, everything above `~`, characters outside the basic plane written as a surrogate pair):
    `json.loads(json.dumps(s)) == s`, i.e. `parseStringLiteral (jsonStringLiteral s) = some s`; the literal is pure
    printable ASCII (`C09_json_string_literal_ascii`), so the encoding of the file / pipe it travels through cannot
    matter.
  * `C09_json_file_bytes_roundtrip`   — composed: `bytesOfJsonText (jsonTextOfBytes b) = some b`.
  * `C09_json_text_field_code`        — linked to the encoder (`Spec.CanonBits.fieldCode`, the subject of
    `C02_chars_code_iff`): for every field width `k` the code of the field written from the JSON text equals the code
    written from the bytes themselves; `C09_json_file_values_roundtrip` / `C09_json_file_encode_same`: a whole flat
    value list is unchanged, hence `encodeData` from the JSON file is `encodeData` from the object.
  * `C09_bytes_repr_roundtrip`        — the value token of the two TEXT formats: for every octet string
    `ast.literal_eval(repr(b)) == b` (`evalBytesLiteral (reprBytes b) = some b`; either quote, backslash, TAB / LF / CR,
    `\xhh`).  The shape hypotheses of the text-converter theorems (`ReprOK.bytes_tok`, `edges`) are DERIVED from `reprBytes` in
    Props/C09TextBytes.lean (`C09_repr_bytes_tok`, `C09_repr_bytes_core`, `C09_nested_text_to_flat_bytes_partial`, `C09_flat_text_to_flat_bytes`).
  * `C09_json_text_latin1_unique`     — latin-1 is the ONLY serialiser with this property: any
    `ser : List UInt8 → List Char` that the encoder's `str.encode('latin-1')` inverts IS `decodeLatin1`.
  * `C09_utf8_when_valid_loses_roundtrip` — proved negation for the "UTF-8 when valid, else latin-1" serialiser
    (seeded/C09-5) on the witness `b'Z\xc3\xbcrich'`: 7 octets become 6 characters, the text re-encodes to other
    octets and the 7-octet field gets another code (blank padded).  `C09_utf8_when_valid_agrees_iff_latin1_text`:
    in general it is right exactly when it produces the latin-1 text anyway.
-/
import BufrModel.View.JsonText
import BufrModel.Spec.CanonBits
import BufrModel.Coder.Encode
namespace Bufr
namespace C09Cli

/-! ### latin-1 -/

theorem char_toNat_ofNat_lt (n : Nat) (h : n < 0xD800) : (Char.ofNat n).toNat = n := by
  have hv : n.isValidChar := Or.inl h
  simp [Char.ofNat, hv, Char.ofNatAux, Char.toNat]

theorem char_toNat_ofNat_valid (n : Nat) (hv : n.isValidChar) : (Char.ofNat n).toNat = n := by
  simp [Char.ofNat, hv, Char.ofNatAux, Char.toNat]

theorem latin1_char (x : UInt8) : (Char.ofNat x.toNat).toNat = x.toNat := by
  have := UInt8.toNat_lt x
  exact char_toNat_ofNat_lt _ (by omega)

end C09Cli
open C09Cli

/-- **latin-1 loses nothing**: for EVERY octet string, `b.decode('latin-1').encode('latin-1') == b` -/
theorem C09_json_text_bytes_roundtrip (b : List UInt8) : encodeLatin1 (decodeLatin1 b) = some b := by
  induction b with
  | nil => rfl
  | cons x r ih =>
    have hx := UInt8.toNat_lt x
    have h1 := latin1_char x
    simp only [decodeLatin1, List.map_cons] at ih ⊢
    rw [encodeLatin1, h1, if_pos (by omega), ih, UInt8.ofNat_toNat]

/-- the text has one character per octet (what `utf8WhenValid` breaks) -/
theorem C09_json_text_length (b : List UInt8) : (decodeLatin1 b).length = b.length := by
  simp [decodeLatin1]

/-- conversely, text that `str.encode('latin-1')` accepts is the latin-1 reading of the octets it gives -/
theorem C09_latin1_encode_inj (s : List Char) (b : List UInt8) (h : encodeLatin1 s = some b) : s = decodeLatin1 b := by
  induction s generalizing b with
  | nil => simp [encodeLatin1] at h; subst h; rfl
  | cons c r ih =>
    rw [encodeLatin1] at h
    split at h
    · rename_i hc
      cases hr : encodeLatin1 r with
      | none => simp [hr] at h
      | some bs =>
        simp [hr] at h
        subst h
        have h1 : (UInt8.ofNat c.toNat).toNat = c.toNat := by
          rw [UInt8.toNat_ofNat']; omega
        simp only [decodeLatin1, List.map_cons, h1, Char.ofNat_toNat]
        rw [ih bs hr]; rfl
    · cases h

/-- **latin-1 is the only choice**: a serialiser of character values that the encoder's `str.encode('latin-1')`
    inverts on every octet string is `bytes.decode('latin-1')` -/
theorem C09_json_text_latin1_unique (ser : List UInt8 → List Char)
    (h : ∀ b, encodeLatin1 (ser b) = some b) : ser = decodeLatin1 :=
  funext fun b => C09_latin1_encode_inj (ser b) b (h b)

/-! ### JSON string literals -/
namespace C09Cli

theorem hexVal_hexDigitChar : ∀ n, n < 16 → hexVal (hexDigitChar n) = some n := by decide

theorem hexNum_digits (n : Nat) (h : n < 0x10000) :
    hexNum (hexDigitChar (n / 4096)) (hexDigitChar (n / 256 % 16)) (hexDigitChar (n / 16 % 16)) (hexDigitChar (n % 16))
      = some n := by
  unfold hexNum
  rw [hexVal_hexDigitChar _ (by omega), hexVal_hexDigitChar _ (by omega), hexVal_hexDigitChar _ (by omega),
    hexVal_hexDigitChar _ (by omega)]
  simp only
  congr 1
  omega

theorem scan_quote (rest : List Char) : scanString ('"' :: rest) = some ([], rest) := by
  rw [scanString.eq_def]; simp

theorem scan_simple (e ch : Char) (hu : e ≠ 'u') (h : simpleEscape e = some ch) (rest : List Char) :
    scanString ('\\' :: e :: rest) = consFst ch (scanString rest) := by
  rw [scanString.eq_def]
  simp [hu, h]

theorem scan_plain (c : Char) (h1 : c ≠ '"') (h2 : c ≠ '\\') (h3 : ¬ c.toNat < 0x20) (rest : List Char) :
    scanString (c :: rest) = consFst c (scanString rest) := by
  rw [scanString.eq_def]
  simp [h1, h2, h3]

theorem scan_u_bmp (n : Nat) (hn : n < 0x10000) (hs : ¬ (0xD800 ≤ n ∧ n ≤ 0xDFFF)) (rest : List Char) :
    scanString (uEscape n ++ rest) = consFst (Char.ofNat n) (scanString rest) := by
  unfold uEscape
  simp only [List.cons_append, List.nil_append]
  rw [scanString.eq_def]
  simp only [hexNum_digits n hn]
  have h1 : ¬ (0xD800 ≤ n ∧ n ≤ 0xDBFF) := by omega
  have h2 : ¬ (0xDC00 ≤ n ∧ n ≤ 0xDFFF) := by omega
  simp [h1, h2]

theorem scan_u_pair (u1 u2 : Nat) (h1 : 0xD800 ≤ u1 ∧ u1 ≤ 0xDBFF) (h2 : 0xDC00 ≤ u2 ∧ u2 ≤ 0xDFFF) (rest : List Char) :
    scanString (uEscape u1 ++ (uEscape u2 ++ rest))
      = consFst (Char.ofNat (0x10000 + (u1 - 0xD800) * 1024 + (u2 - 0xDC00))) (scanString rest) := by
  unfold uEscape
  simp only [List.cons_append, List.nil_append]
  rw [scanString.eq_def]
  simp only [hexNum_digits u1 (by omega), hexNum_digits u2 (by omega)]
  simp [h1, h2]

/-- the scanner reads back the replacement made for one character -/
theorem scan_escChar (c : Char) (rest : List Char) :
    scanString (escChar c ++ rest) = consFst c (scanString rest) := by
  unfold escChar
  split
  · rename_i h; subst h; exact scan_simple '"' '"' (by decide) (by decide) rest
  split
  · rename_i h; subst h; exact scan_simple '\\' '\\' (by decide) (by decide) rest
  split
  · rename_i h; subst h; exact scan_simple 'n' '\n' (by decide) (by decide) rest
  split
  · rename_i h; subst h; exact scan_simple 'r' '\r' (by decide) (by decide) rest
  split
  · rename_i h; subst h; exact scan_simple 't' '\t' (by decide) (by decide) rest
  split
  · rename_i h
    have hc : c = Char.ofNat 8 := by rw [← h, Char.ofNat_toNat]
    subst hc; exact scan_simple 'b' (Char.ofNat 8) (by decide) (by decide) rest
  split
  · rename_i h
    have hc : c = Char.ofNat 12 := by rw [← h, Char.ofNat_toNat]
    subst hc; exact scan_simple 'f' (Char.ofNat 12) (by decide) (by decide) rest
  split
  · rename_i h1 h2 _ _ _ _ _ h
    exact scan_plain c h1 h2 (by omega) rest
  have hv : c.toNat.isValidChar := c.valid
  split
  · rename_i h
    have hs : ¬ (0xD800 ≤ c.toNat ∧ c.toNat ≤ 0xDFFF) := by
      rcases hv with hv | hv
      · omega
      · omega
    rw [scan_u_bmp c.toNat h hs rest, Char.ofNat_toNat]
  · rename_i h
    have hlt : c.toNat < 0x110000 := by
      rcases hv with hv | hv
      · omega
      · exact hv.2
    have hm : (c.toNat - 0x10000) % 1024 < 1024 := Nat.mod_lt _ (by decide)
    rw [List.append_assoc, scan_u_pair _ _ (by omega) (by omega) rest]
    have : 0x10000 + (0xD800 + (c.toNat - 0x10000) / 1024 - 0xD800) * 1024 + (0xDC00 + (c.toNat - 0x10000) % 1024 - 0xDC00)
        = c.toNat := by omega
    rw [this, Char.ofNat_toNat]

theorem scan_jsonEscape (s rest : List Char) : scanString (jsonEscape s ++ '"' :: rest) = some (s, rest) := by
  induction s with
  | nil => simp [jsonEscape, scan_quote]
  | cons c r ih =>
    have : jsonEscape (c :: r) = escChar c ++ jsonEscape r := by simp [jsonEscape]
    rw [this, List.append_assoc, scan_escChar, ih]
    rfl

theorem printable_hexDigitChar : ∀ n, n < 16 → 0x20 ≤ (hexDigitChar n).toNat ∧ (hexDigitChar n).toNat ≤ 0x7E := by
  decide

theorem printable_uEscape (n : Nat) (hn : n < 0x10000) : ∀ x ∈ uEscape n, 0x20 ≤ x.toNat ∧ x.toNat ≤ 0x7E := by
  intro x hx
  unfold uEscape at hx
  simp only [List.mem_cons, List.not_mem_nil, or_false] at hx
  rcases hx with h | h | h | h | h | h
  · subst h; decide
  · subst h; decide
  · subst h; exact printable_hexDigitChar _ (by omega)
  · subst h; exact printable_hexDigitChar _ (Nat.mod_lt _ (by decide))
  · subst h; exact printable_hexDigitChar _ (Nat.mod_lt _ (by decide))
  · subst h; exact printable_hexDigitChar _ (Nat.mod_lt _ (by decide))

theorem printable_escChar (c : Char) : ∀ x ∈ escChar c, 0x20 ≤ x.toNat ∧ x.toNat ≤ 0x7E := by
  intro x hx
  unfold escChar at hx
  have two : ∀ (a b : Char), (0x20 ≤ a.toNat ∧ a.toNat ≤ 0x7E) → (0x20 ≤ b.toNat ∧ b.toNat ≤ 0x7E) → x ∈ [a, b] →
      0x20 ≤ x.toNat ∧ x.toNat ≤ 0x7E := by
    intro a b ha hb hm
    simp only [List.mem_cons, List.not_mem_nil, or_false] at hm
    rcases hm with h | h <;> subst h <;> assumption
  split at hx
  · exact two _ _ (by decide) (by decide) hx
  split at hx
  · exact two _ _ (by decide) (by decide) hx
  split at hx
  · exact two _ _ (by decide) (by decide) hx
  split at hx
  · exact two _ _ (by decide) (by decide) hx
  split at hx
  · exact two _ _ (by decide) (by decide) hx
  split at hx
  · exact two _ _ (by decide) (by decide) hx
  split at hx
  · exact two _ _ (by decide) (by decide) hx
  split at hx
  · rename_i h
    simp only [List.mem_cons, List.not_mem_nil, or_false] at hx
    subst hx; exact h
  have hv : c.toNat.isValidChar := c.valid
  have hlt : c.toNat < 0x110000 := by
    rcases hv with hv | hv
    · omega
    · exact hv.2
  split at hx
  · rename_i h; exact printable_uEscape _ h x hx
  · rename_i h
    rw [List.mem_append] at hx
    rcases hx with hx | hx
    · exact printable_uEscape _ (by omega) x hx
    · exact printable_uEscape _ (by omega) x hx

end C09Cli

/-- **`json.loads(json.dumps(s)) == s` for every string** — quotes, backslashes, control characters, DEL, 8-bit
    characters, characters outside the basic plane: the escaping of `py_encode_basestring_ascii` is inverted by
    `py_scanstring` -/
theorem C09_json_string_escape_roundtrip (s : List Char) : parseStringLiteral (jsonStringLiteral s) = some s := by
  unfold jsonStringLiteral parseStringLiteral
  simp only [if_true]
  rw [scan_jsonEscape s []]

/-- the literal is printable ASCII only (ensure_ascii): whatever encoding the file or the pipe between `decode -j`
    and `encode -j` uses, as long as it extends ASCII, the text arrives unchanged -/
theorem C09_json_string_literal_ascii (s : List Char) :
    ∀ x ∈ jsonStringLiteral s, 0x20 ≤ x.toNat ∧ x.toNat ≤ 0x7E := by
  intro x hx
  unfold jsonStringLiteral jsonEscape at hx
  simp only [List.mem_cons, List.mem_append, List.mem_flatMap, List.not_mem_nil, or_false] at hx
  rcases hx with h | ⟨c, _, h⟩ | h
  · subst h; decide
  · exact printable_escChar c x h
  · subst h; decide

/-- **the whole detour**: bytes -> JSON text (`EntityEncoder` + `json.dumps`) -> `json.loads` ->
    `str.encode('latin-1')` is the identity on every octet string -/
theorem C09_json_file_bytes_roundtrip (b : List UInt8) : bytesOfJsonText (jsonTextOfBytes b) = some b := by
  unfold bytesOfJsonText jsonTextOfBytes
  rw [C09_json_string_escape_roundtrip]
  exact C09_json_text_bytes_roundtrip b

/-- **link to the encoder** (`fieldCode (.chars k)`, characterised by `C02_chars_code_iff`): for every width
    `k`, padded or truncated, the field written from the JSON text has the code of the field written from the
    bytes themselves -/
theorem C09_json_text_field_code (k : Nat) (b : List UInt8) :
    (bytesOfJsonText (jsonTextOfBytes b)).bind (fun b' => Spec.fieldCode (.chars k) (.bytes b'))
      = Spec.fieldCode (.chars k) (.bytes b) := by
  rw [C09_json_file_bytes_roundtrip]; rfl

/-- a flat value is unchanged by the JSON file (numbers and `null` are JSON's own) -/
theorem C09_json_file_value_roundtrip (v : Val) : jsonFileVal v = some v := by
  cases v <;> simp [jsonFileVal, C09_json_file_bytes_roundtrip]

theorem C09_json_file_values_roundtrip (vs : List Val) : jsonFileVals vs = some vs := by
  unfold jsonFileVals
  induction vs with
  | nil => rfl
  | cons v r ih => simp [List.mapM_cons, C09_json_file_value_roundtrip, ih]

/-- hence encoding from the JSON file is encoding from the object, for every template, compressed or not,
    accepted or refused -/
theorem C09_json_file_encode_same (tmpl : List Desc) (compressed : Bool) (valss : List (List Val)) :
    (valss.mapM jsonFileVals).map (encodeData tmpl compressed) = some (encodeData tmpl compressed valss) := by
  have : valss.mapM jsonFileVals = some valss := by
    induction valss with
    | nil => rfl
    | cons v r ih => simp [List.mapM_cons, C09_json_file_values_roundtrip, ih]
  rw [this]; rfl

/-! ### the value token of the TEXT formats for character data -/
namespace C09Cli

theorem scanBytes_close (q : Char) : scanBytes q [q] = some [] := by
  rw [scanBytes.eq_def]; simp

theorem isQuote_cases (q : Char) (hq : q = '\'' ∨ q = '"') : q.toNat = 0x27 ∨ q.toNat = 0x22 := by
  rcases hq with rfl | rfl
  · left; decide
  · right; decide

theorem scanBytes_escByte (q : Char) (hq : q = '\'' ∨ q = '"') (x : UInt8) (rest : List Char) :
    scanBytes q (escByte q x ++ rest) = consB x (scanBytes q rest) := by
  have hx := UInt8.toNat_lt x
  have hqn := isQuote_cases q hq
  have hq5 : q ≠ '\\' := by rcases hq with rfl | rfl <;> decide
  have hc : (Char.ofNat x.toNat).toNat = x.toNat := latin1_char x
  unfold escByte
  split
  · -- the quote in use or the backslash: backslash + the character itself
    rename_i h
    simp only [List.cons_append, List.nil_append]
    rw [scanBytes.eq_def]
    have h1 : ('\\' : Char) ≠ q := fun e => hq5 e.symm
    simp only [h1, if_false, if_true]
    have hne : Char.ofNat x.toNat ≠ 'x' := by
      intro e
      have := congrArg Char.toNat e
      rw [hc] at this
      have : x.toNat = 120 := by simpa using this
      rcases h with h | h <;> rcases hqn with g | g <;> omega
    simp only [hne, if_false]
    have hb : byteEscape (Char.ofNat x.toNat) = some x.toNat := by
      rcases h with h | h
      · rcases hqn with g | g
        · have : Char.ofNat x.toNat = '\'' := by
            rw [h, g]
          rw [this]
          have : x.toNat = 0x27 := by omega
          rw [this]; decide
        · have : Char.ofNat x.toNat = '"' := by
            rw [h, g]
          rw [this]
          have : x.toNat = 0x22 := by omega
          rw [this]; decide
      · rw [h]; decide
    rw [hb]
    simp only [UInt8.ofNat_toNat]
  split
  · rename_i _ h
    have : x = UInt8.ofNat 9 := by rw [← h, UInt8.ofNat_toNat]
    subst this
    simp only [List.cons_append, List.nil_append]
    rw [scanBytes.eq_def]
    have h1 : ('\\' : Char) ≠ q := fun e => hq5 e.symm
    simp only [h1, if_false, if_true]
    rfl
  split
  · rename_i _ _ h
    have : x = UInt8.ofNat 10 := by rw [← h, UInt8.ofNat_toNat]
    subst this
    simp only [List.cons_append, List.nil_append]
    rw [scanBytes.eq_def]
    have h1 : ('\\' : Char) ≠ q := fun e => hq5 e.symm
    simp only [h1, if_false, if_true]
    rfl
  split
  · rename_i _ _ _ h
    have : x = UInt8.ofNat 13 := by rw [← h, UInt8.ofNat_toNat]
    subst this
    simp only [List.cons_append, List.nil_append]
    rw [scanBytes.eq_def]
    have h1 : ('\\' : Char) ≠ q := fun e => hq5 e.symm
    simp only [h1, if_false, if_true]
    rfl
  split
  · simp only [List.cons_append, List.nil_append]
    rw [scanBytes.eq_def]
    have h1 : ('\\' : Char) ≠ q := fun e => hq5 e.symm
    simp only [h1, if_false, if_true]
    rw [hexVal_hexDigitChar _ (by omega), hexVal_hexDigitChar _ (by omega)]
    simp only
    have : 16 * (x.toNat / 16) + x.toNat % 16 = x.toNat := by omega
    rw [this, UInt8.ofNat_toNat]
  · rename_i h0 _ _ _ h
    simp only [List.cons_append, List.nil_append]
    rw [scanBytes.eq_def]
    have hcq : Char.ofNat x.toNat ≠ q := by
      intro e
      have := congrArg Char.toNat e
      rw [hc] at this
      exact h0 (Or.inl this)
    have hcb : Char.ofNat x.toNat ≠ '\\' := by
      intro e
      have := congrArg Char.toNat e
      rw [hc] at this
      exact h0 (Or.inr this)
    simp only [hcq, hcb, if_false, hc]
    rw [if_neg h, UInt8.ofNat_toNat]

end C09Cli

/-- **the value token of the two TEXT formats**: `ast.literal_eval(repr(b)) == b` for every octet string (either quote,
    backslash, TAB / LF / CR, `\xhh` for control characters and 8-bit octets) -/
theorem C09_bytes_repr_roundtrip (b : List UInt8) : evalBytesLiteral (reprBytes b) = some b := by
  have hq : reprQuote b = '\'' ∨ reprQuote b = '"' := by
    unfold reprQuote; split <;> simp
  unfold reprBytes evalBytesLiteral
  simp only [hq, if_true]
  generalize reprQuote b = q at hq
  induction b with
  | nil => simp [scanBytes_close]
  | cons x r ih =>
    simp only [List.flatMap_cons, List.append_assoc]
    rw [scanBytes_escByte q hq, ih]
    rfl

example : reprBytes [0x69, 0x74, 0x27, 0x73, 0x00, 0xFF, 0x5C, 0x0A] =
    ['b', '"', 'i', 't', '\'', 's', '\\', 'x', '0', '0', '\\', 'x', 'f', 'f', '\\', '\\', '\\', 'n', '"'] := by decide
example : reprBytes [0x27, 0x22] = ['b', '\'', '\\', '\'', '"', '\''] := by decide


/-! ### the refuted alternative -/

/-- `b'Z\xc3\xbcrich'` -/
def C09Cli.zuerich : List UInt8 := [0x5A, 0xC3, 0xBC, 0x72, 0x69, 0x63, 0x68]

/-- **UTF-8 "when valid" loses the round trip** (seeded/C09-5): the 7 octets `Z\xc3\xbcrich` are written as the 6
    characters `Zürich`; the encoder reads them back as the 6 octets `Z\xfcrich`; the 7-octet field is padded with
    a blank and gets another code than from the bytes themselves -/
theorem C09_utf8_when_valid_loses_roundtrip :
    (utf8WhenValid C09Cli.zuerich).length = 6 ∧
    encodeLatin1 (utf8WhenValid C09Cli.zuerich) = some [0x5A, 0xFC, 0x72, 0x69, 0x63, 0x68] ∧
    encodeLatin1 (utf8WhenValid C09Cli.zuerich) ≠ some C09Cli.zuerich ∧
    (encodeLatin1 (utf8WhenValid C09Cli.zuerich)).bind (fun b' => Spec.fieldCode (.chars 7) (.bytes b'))
      ≠ Spec.fieldCode (.chars 7) (.bytes C09Cli.zuerich) := by
  decide

/-- in general such a serialiser is right on `b` exactly when it writes the latin-1 text anyway -/
theorem C09_utf8_when_valid_agrees_iff_latin1_text (b : List UInt8) :
    encodeLatin1 (utf8WhenValid b) = some b ↔ utf8WhenValid b = decodeLatin1 b := by
  constructor
  · exact C09_latin1_encode_inj _ _
  · intro h; rw [h]; exact C09_json_text_bytes_roundtrip b

/-! ### non-vacuity / concrete instances -/

-- the hypothesis of `C09_json_text_latin1_unique` is satisfiable (by latin-1 itself), that of `C09_latin1_encode_inj` too
example : ∃ ser : List UInt8 → List Char, ∀ b, encodeLatin1 (ser b) = some b := ⟨decodeLatin1, C09_json_text_bytes_roundtrip⟩
example : encodeLatin1 ['Z', Char.ofNat 0xFC] = some [0x5A, 0xFC] := by decide
-- every kind of character: quote, backslash, NUL, TAB, LF, DEL, 0xE9, 0xFF, blank padding:
--   "\"\\\u0000\t\n\u007f\u00e9\u00ff "
example : jsonTextOfBytes [0x22, 0x5C, 0x00, 0x09, 0x0A, 0x7F, 0xE9, 0xFF, 0x20] =
    ['"', '\\', '"', '\\', '\\', '\\', 'u', '0', '0', '0', '0', '\\', 't', '\\', 'n', '\\', 'u', '0', '0', '7', 'f', '\\', 'u', '0', '0', 'e', '9', '\\', 'u', '0', '0', 'f', 'f', ' ', '"'] := by decide
example : bytesOfJsonText ['"', '\\', '"', '\\', '\\', '\\', 'u', '0', '0', '0', '0', '\\', 't', '\\', 'n', '\\', 'u', '0', '0', '7', 'f', '\\', 'u', '0', '0', 'e', '9', '\\', 'u', '0', '0', 'f', 'f', ' ', '"'] =
    some [0x22, 0x5C, 0x00, 0x09, 0x0A, 0x7F, 0xE9, 0xFF, 0x20] := by decide
-- outside the basic plane: U+1F600 is written as the surrogate pair \ud83d\ude00 and read back
example : jsonStringLiteral [Char.ofNat 0x1F600] = ['"', '\\', 'u', 'd', '8', '3', 'd', '\\', 'u', 'd', 'e', '0', '0', '"'] := by decide
example : parseStringLiteral ['"', '\\', 'u', 'd', '8', '3', 'd', '\\', 'u', 'd', 'e', '0', '0', '"'] = some [Char.ofNat 0x1F600] := by decide
-- the reader refuses what json.loads refuses: raw control character, bad escape, unterminated, lone surrogate
example : parseStringLiteral ['"', '\n', '"'] = none := by decide
example : parseStringLiteral ['"', '\\', 'x', '4', '1', '"'] = none := by decide
example : parseStringLiteral ['"', 'a', 'b', 'c'] = none := by decide
example : parseStringLiteral ['"', '\\', 'u', 'd', '8', '3', 'd', '"'] = none := by decide
-- str.encode('latin-1') refuses a character above U+00FF
example : encodeLatin1 [Char.ofNat 0x100] = none := by decide
-- strict UTF-8: over-long forms, surrogates, stray continuation bytes, truncated sequences are invalid, so that the
-- refuted serialiser falls back to latin-1 there (and is right there)
example : utf8Decode [0xC0, 0x80] = none ∧ utf8Decode [0xED, 0xA0, 0x80] = none ∧ utf8Decode [0x80] = none ∧
    utf8Decode [0xE2, 0x82] = none ∧ utf8Decode [0xF4, 0x90, 0x80, 0x80] = none ∧
    utf8Decode [0xE2, 0x82, 0xAC] = some [0x20AC] ∧ utf8Decode [0xF0, 0x9F, 0x98, 0x80] = some [0x1F600] := by decide
example : utf8WhenValid [0x5A, 0xFC, 0x72] = decodeLatin1 [0x5A, 0xFC, 0x72] := by decide

end Bufr
