/-
  C18 — the nest levels of a script over the query model (link between `Lang/Script.lean` and `View/Query.lean`).

  `Props/C18.lean` states the nest-level laws over an abstract `Script.QueryResult` (the per-subset value lists "in
  insertion order").  This file says which lists those are when the result comes out of `DataQuerent.query`:

  Definitions and helper lemmas: `Lemmas/ScriptQuery.lean`.

  * `scriptResult r` is `QueryResult.results.values()` of the model result `r` of `Query.query`;
    `scriptValue level m p` is `ScriptRunner.get_query_result` for a data query (query, then `flatten_data_values`).
  * `C18_query_selector_order` (+ `_slice`, `_descending`, `_ascending`, `_idx`, `_none`): the subsets of a successful query are exactly the
    subsets the `@` selector designates, IN THE SELECTOR'S ORDER — `pySlice sel n` for a slice object (descending for
    a negative step, `C16_pySlice_sorted_down`), `[k]` for an int, `range n` without selector.
  * `subsetAnswer m comps i`: what the querent computes for subset `i`, whatever the selector.
    `C18_query_answers_in_selector_order`: the result of a successful query is the list of these answers over the
    selector's index list; `C18_level4_lists_answers_in_selector_order`: entry `k` of level 4 is the answer for subset
    `idxs[k]` as it is, entry `k` of level 2 its leaves.
  * `C18_query_level4 / 2 / 1 / 0`, `C18_query_level_ge3`: the four documented levels in terms of the query model's own
    `allValues` / `allValuesFlat` (`all_values()`, `all_values(flat=True)`), so that levels 2, 1, 0 inherit the
    selector's order from level 4 (with the laws of `Props/C18.lean`).
-/
import BufrModel.Lemmas.ScriptQuery
import BufrModel.Lemmas.Query
import BufrModel.Lemmas.QueryCompressed
namespace Bufr.Script
open Bufr.Query Bufr.PathLang

/-! ### the four levels in terms of the query model -/

/-- level 4 is `all_values()`: one nested value list per selected subset, in the order of the result -/
theorem C18_query_level4 (r : QResult) :
    (flattenValues 4 (scriptResult r) : List (List (Script.Val Bufr.Val))) = r.allValues.map ofQVs := rfl

/-- every level other than 0, 1, 2 is level 4 -/
theorem C18_query_level_ge3 (n : Nat) (r : QResult) :
    (flattenValues (n + 3) (scriptResult r) : List (List (Script.Val Bufr.Val))) =
      (flattenValues 4 (scriptResult r) : List (List (Script.Val Bufr.Val))) := rfl

/-- level 2 is `all_values(flat=True)` of the query model: the leaves of every selected subset, same order -/
theorem C18_query_level2 (r : QResult) :
    (flattenValues 2 (scriptResult r) : List (List Bufr.Val)) = r.allValuesFlat := by
  show allValuesFlat (scriptResult r) = _
  exact allValuesFlat_scriptResult r

/-- level 1 is the concatenation of the leaves of the selected subsets, in the order of the result -/
theorem C18_query_level1 (r : QResult) :
    (flattenValues 1 (scriptResult r) : List Bufr.Val) = r.allValuesFlat.flatten := by
  show reduceConcat (allValuesFlat (scriptResult r)) = _
  rw [allValuesFlat_scriptResult, reduceConcat_eq_flatten]

/-- level 0 is the first leaf of the first selected subset that has one, or `None` -/
theorem C18_query_level0 (r : QResult) :
    (flattenValues 0 (scriptResult r) : Option Bufr.Val) = r.allValuesFlat.flatten.head? := by
  simp only [flattenValues]
  rw [allValuesFlat_scriptResult, reduceConcat_eq_flatten]
  cases r.allValuesFlat.flatten <;> rfl

/-! ### the order of the subsets is the selector's order -/

/-- A successful query lists, for the index list `idxs` of its selector and in that order, the answers of the
    single subsets (which do not depend on the selector). -/
theorem C18_query_answers_in_selector_order (m : QMsg) (p : Path) (r : QResult) (idxs : List Nat)
    (hq : query m p = .ok r) (hs : subsetIndices p.subset m.outs.length = .ok idxs) :
    mapIdx (subsetAnswer m p.comps) idxs = .ok r.subsets := by
  cases hc : m.compressed with
  | true =>
    cases idxs with
    | nil =>
      -- no subset selected: the empty result, the path is not looked at (fix F16c)
      rw [Bufr.C16.query_compressed_empty m p hc hs] at hq
      cases hq
      rfl
    | cons i0 is =>
      rw [Bufr.C16.query_compressed_cons m p i0 is hc hs] at hq
      unfold Bufr.C16.compressedRun at hq
      split at hq
      · next t o0 ht ho =>
        split at hq
        · cases hq
        · next hits hh =>
          split at hq
          · cases hq
          · next rs hrs =>
            cases hq
            rw [← hrs]
            apply mapIdx_congr'
            intro i _
            simp only [subsetAnswer, hc, if_true, ht, ho, hh]
      · cases hq
  | false =>
    rw [Bufr.C16.query_uncompressed m p idxs hc hs] at hq
    split at hq
    · cases hq
    · next rs hrs =>
      cases hq
      rw [← hrs]
      apply mapIdx_congr'
      intro i _
      simp only [subsetAnswer, hc, Bool.false_eq_true, if_false]

/-- The subsets of a successful query are the subsets the selector designates, in the selector's order. -/
theorem C18_query_selector_order (m : QMsg) (p : Path) (r : QResult) (idxs : List Nat)
    (hq : query m p = .ok r) (hs : subsetIndices p.subset m.outs.length = .ok idxs) :
    r.subsetIndices = idxs :=
  mapIdx_keys (subsetAnswer m p.comps) (subsetAnswer_key m p.comps) idxs r.subsets
    (C18_query_answers_in_selector_order m p r idxs hq hs)

/-- a slice object `@[a:b:c]`: the order of `pySlice` = `list(range(n))[a:b:c]` — descending for a negative step -/
theorem C18_query_selector_order_slice (m : QMsg) (a b c : Option Int) (comps : List Comp) (r : QResult)
    (hq : query m { subset := some (.range a b c), comps := comps } = .ok r) :
    r.subsetIndices = pySlice (.range a b c) m.outs.length := by
  have hs : subsetIndices (some (.range a b c)) m.outs.length = .ok (pySlice (.range a b c) m.outs.length) := by
    unfold query at hq
    simp only [subsetIndices] at hq ⊢
    split
    · next hc => simp [hc] at hq
    · rfl
  exact C18_query_selector_order m _ r _ hq hs

/-- a negative step lists the selected subsets in DESCENDING order, a positive step (or none) in ascending order;
    never a subset twice: so the first subset of levels 4 and 2 — and the subset level 0 looks at first — is the
    HIGHEST selected index under a negative step -/
theorem C18_query_selector_order_descending (m : QMsg) (a b c : Option Int) (comps : List Comp) (r : QResult)
    (hq : query m { subset := some (.range a b c), comps := comps } = .ok r) (hc : c.getD 1 < 0) :
    r.subsetIndices.Pairwise (· > ·) := by
  rw [C18_query_selector_order_slice m a b c comps r hq]
  exact Bufr.C16.pySliceStep_sorted_down a b _ _ hc

theorem C18_query_selector_order_ascending (m : QMsg) (a b c : Option Int) (comps : List Comp) (r : QResult)
    (hq : query m { subset := some (.range a b c), comps := comps } = .ok r) (hc : 0 < c.getD 1) :
    r.subsetIndices.Pairwise (· < ·) := by
  rw [C18_query_selector_order_slice m a b c comps r hq]
  exact Bufr.C16.pySliceStep_sorted_up a b _ _ hc

/-- an int `@[k]`: that subset alone -/
theorem C18_query_selector_order_idx (m : QMsg) (k : Nat) (comps : List Comp) (r : QResult)
    (hq : query m { subset := some (.idx k), comps := comps } = .ok r) :
    r.subsetIndices = [k] := by
  have hs : subsetIndices (some (.idx (k : Int))) m.outs.length = .ok [k] := by
    simp [subsetIndices]
  exact C18_query_selector_order m _ r _ hq hs

/-- no selector: every subset, ascending -/
theorem C18_query_selector_order_none (m : QMsg) (comps : List Comp) (r : QResult)
    (hq : query m { subset := none, comps := comps } = .ok r) :
    r.subsetIndices = List.range m.outs.length :=
  C18_query_selector_order m _ r _ hq rfl

/-- Entry `k` of level 4 is the answer for subset `idxs[k]` — the `k`-th subset in the selector's order — as it is,
    entry `k` of level 2 is the list of its leaves; both lists have one entry per selected subset. -/
theorem C18_level4_lists_answers_in_selector_order (m : QMsg) (p : Path) (r : QResult) (idxs : List Nat)
    (hq : query m p = .ok r) (hs : subsetIndices p.subset m.outs.length = .ok idxs) :
    (level4 r).length = idxs.length ∧ (level2 r).length = idxs.length ∧
    ∀ (k : Nat) (hk : k < idxs.length), ∃ vs : List QV,
      subsetAnswer m p.comps idxs[k] = .ok (idxs[k], vs) ∧
      (level4 r)[k]? = some (ofQVs vs) ∧ (level2 r)[k]? = some (flattenQV vs) := by
  have hm := C18_query_answers_in_selector_order m p r idxs hq hs
  obtain ⟨hl, hg⟩ := mapIdx_getElem (subsetAnswer m p.comps) idxs r.subsets hm
  have h4 : level4 r = r.allValues.map ofQVs := C18_query_level4 r
  have h2 : level2 r = r.allValuesFlat := C18_query_level2 r
  rw [h4, h2]
  refine ⟨by simp [QResult.allValues, hl], by simp [QResult.allValuesFlat, hl], ?_⟩
  intro k hk
  have hk' : k < r.subsets.length := by omega
  have ha := hg k hk hk'
  have hkey := subsetAnswer_key m p.comps idxs[k] r.subsets[k] ha
  refine ⟨r.subsets[k].2, ?_, ?_, ?_⟩
  · rw [ha]
    congr 1
    exact Prod.ext hkey rfl
  · simp [QResult.allValues, List.getElem?_eq_getElem hk']
  · simp [QResult.allValuesFlat, List.getElem?_eq_getElem hk']

/-- the script value of a data query at level 4 lists the selected subsets in the selector's order (whole statement
    at the level of `get_query_result`) -/
theorem C18_scriptValue_level4_order (m : QMsg) (p : Path) (idxs : List Nat) (v : List (List (Script.Val Bufr.Val)))
    (hv : scriptValue 4 m p = .ok v) (hs : subsetIndices p.subset m.outs.length = .ok idxs) :
    mapIdx (fun i => match subsetAnswer m p.comps i with
                     | .error e => .error e
                     | .ok b => .ok (ofQVs b.2)) idxs = .ok v := by
  unfold scriptValue at hv
  split at hv
  · cases hv
  · next r hq =>
    cases hv
    have hm := C18_query_answers_in_selector_order m p r idxs hq hs
    rw [C18_query_level4]
    unfold QResult.allValues
    clear hs hq
    generalize r.subsets = rs at hm
    induction idxs generalizing rs with
    | nil =>
      simp only [mapIdx] at hm ⊢
      cases hm; rfl
    | cons i is ih =>
      simp only [mapIdx] at hm ⊢
      split at hm
      · cases hm
      · next b hb =>
        split at hm
        · cases hm
        · next bs hbs =>
          cases hm
          simp only [hb, ih bs hbs, List.map_cons]



/-! ### non-vacuity: three subsets with different values and replication counts 2, 0, 1 -/

namespace C18ex

def e (id nbits : Nat) : Elem := { id := id, kind := .numeric, nbits := nbits, scale := 0, ref := 0 }

/-- `001001 101000 031001 012001` -/
def T : List Desc := [.elem (e 1001 7), .delayedRep 101000 (.elem (e 31001 8)) [.elem (e 12001 12)]]

def O0 : SubsetOut :=
  { descs := [.plain (e 1001 7), .plain (e 31001 8), .plain (e 12001 12), .plain (e 12001 12)]
    vals := [.int 10, .int 2, .int 280, .int 281], links := [] }
def O1 : SubsetOut :=
  { descs := [.plain (e 1001 7), .plain (e 31001 8)], vals := [.int 11, .int 0], links := [] }
def O2 : SubsetOut :=
  { descs := [.plain (e 1001 7), .plain (e 31001 8), .plain (e 12001 12)]
    vals := [.int 12, .int 1, .int 290], links := [] }

def msg : CM QMsg := mkMsg T false [O0, O1, O2]

def c (sep : Char) (id : String) (s : Slice) : Comp := { sep := sep, id := id.toList, slice := s }
def all : Slice := .range none none none
/-- `@[::-1]` -/
def rev : Option Slice := some (.range none none (some (-1)))

def level (lv : Nat) (sel : Option Slice) (comps : List Comp) : CM (LevelTy Bufr.Val lv) :=
  match msg with
  | .error e => .error e
  | .ok m => scriptValue lv m { subset := sel, comps := comps }

mutual
def beqV : Script.Val Bufr.Val → Script.Val Bufr.Val → Bool
  | .atom a, .atom b => a == b
  | .list a, .list b => beqVs a b
  | _, _ => false
def beqVs : List (Script.Val Bufr.Val) → List (Script.Val Bufr.Val) → Bool
  | [], [] => true
  | a :: as, b :: bs => beqV a b && beqVs as bs
  | _, _ => false
end

def i (n : Int) : Script.Val Bufr.Val := .atom (.int n)
def eq2 (a b : List (List Bufr.Val)) : Bool := a == b
def eq1 (a b : List Bufr.Val) : Bool := a == b
def eq0 (a b : Option Bufr.Val) : Bool := a == b

/-- `${@[::-1]/101000/012001}`: level 4 in the selector's order 2, 1, 0 — `[[[[290]]], [], [[[280], [281]]]]` -/
example : (match level 4 rev [c '/' "101000" all, c '/' "012001" all] with
    | .ok v => beqVs ((v : List (List (Script.Val Bufr.Val))).map .list) [.list [.list [.list [i 290]]], .list [], .list [.list [.list [i 280], .list [i 281]]]]
    | .error _ => false) = true := by decide +kernel
example : (match level 2 rev [c '/' "101000" all, c '/' "012001" all] with
    | .ok v => eq2 v [[.int 290], [], [.int 280, .int 281]]
    | .error _ => false) = true := by decide +kernel
example : (match level 1 rev [c '/' "101000" all, c '/' "012001" all] with
    | .ok v => eq1 v [.int 290, .int 280, .int 281]
    | .error _ => false) = true := by decide +kernel
example : (match level 0 rev [c '/' "101000" all, c '/' "012001" all] with
    | .ok v => eq0 v (some (.int 290))
    | .error _ => false) = true := by decide +kernel
/-- without the selector: ascending -/
example : (match level 1 none [c '/' "101000" all, c '/' "012001" all] with
    | .ok v => eq1 v [.int 280, .int 281, .int 290]
    | .error _ => false) = true := by decide +kernel
/-- `@[1::-1]` starts at the subset without a value: level 0 is the first value of the NEXT one -/
example : (match level 0 (some (.range (some 1) none (some (-1)))) [c '/' "101000" all, c '/' "012001" all] with
    | .ok v => eq0 v (some (.int 280))
    | .error _ => false) = true := by decide +kernel
/-- the hypotheses of the order theorems hold: the query succeeds, the selector designates 2, 1, 0 -/
example : (match msg with
    | .ok m => (match query m { subset := rev, comps := [c '/' "001001" all] } with
      | .ok r => r.subsetIndices == [2, 1, 0] && r.allValuesFlat == [[.int 12], [.int 11], [.int 10]]
      | .error _ => false) && m.outs.length == 3
    | .error _ => false) = true := by decide +kernel
example : subsetIndices rev 3 = .ok [2, 1, 0] := by decide
example : (match msg with
    | .ok m => (match subsetAnswer m [c '/' "001001" all] 2 with
      | .ok b => b.1 == 2 && flattenQV b.2 == [.int 12]
      | .error _ => false)
    | .error _ => false) = true := by decide +kernel

end C18ex

end Bufr.Script
