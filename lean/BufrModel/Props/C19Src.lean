/-
  C19 — tie to the Python source (`Gen/PyConstants.lean`, regenerated from `pybufrkit/constants.py` on
  every check): the constants the bit-level model hard-codes are the ones the source defines.
-/
import BufrModel.Basic.Bits
import BufrModel.Lemmas.Bits
import BufrModel.Gen.PyConstants
namespace Bufr
open PyGen.constants

/-- A byte is `NBITS_PER_BYTE` bits in the model. -/
theorem C19_src_const_nbits_per_byte (b : UInt8) : ((byteBits b).length : Int) = NBITS_PER_BYTE := by
  simp [byteBits, toBits_length, NBITS_PER_BYTE]

/-- `NUMERIC_MISSING_VALUES` is the table `2^n - 1` for `n = 0 .. 64` and nothing beyond. -/
theorem C19_src_const_missing_values (n : Nat) :
    NUMERIC_MISSING_VALUES[n]? = if n ≤ 64 then some ((2 ^ n - 1 : Nat) : Int) else none := by
  unfold NUMERIC_MISSING_VALUES
  by_cases h : n < 65
  · have h1 : 1 ≤ 2 ^ n := Nat.one_le_two_pow
    have h2 : n ≤ 64 := by omega
    simp [h, h2, Int.ofNat_sub h1]
  · have h2 : ¬ n ≤ 64 := by omega
    simp [h, h2]

/-- The model's `readUIntOrNone` is `read_uint_or_none` of `bitops.py` read with the regenerated table:
    `value = read_uint(nbits)`; `NUMERIC_MISSING_VALUES[nbits]` (IndexError beyond the table);
    `None` iff `nbits > 1 and value == NUMERIC_MISSING_VALUES[nbits]`. -/
theorem C19_src_const_read_uint_or_none (n : Nat) (bs : Bits) :
    readUIntOrNone n bs =
      match readUInt n bs with
      | .error e => .error e
      | .ok (v, r) =>
        match NUMERIC_MISSING_VALUES[n]? with
        | none => .error .other
        | some m => if 1 < n ∧ (v : Int) = m then .ok (none, r) else .ok (some v, r) := by
  unfold readUIntOrNone
  cases hr : readUInt n bs with
  | error e => rfl
  | ok p =>
    obtain ⟨v, r⟩ := p
    simp only [C19_src_const_missing_values]
    by_cases h : 64 < n
    · have h2 : ¬ n ≤ 64 := by omega
      simp [h, h2]
    · have h2 : n ≤ 64 := by omega
      have h1 : 1 ≤ 2 ^ n := Nat.one_le_two_pow
      simp only [h, h2, if_true, if_false]
      have e : ((v : Int) = ((2 ^ n - 1 : Nat) : Int)) ↔ v = 2 ^ n - 1 := by omega
      simp only [e]

end Bufr
