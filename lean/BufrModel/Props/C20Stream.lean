/-
  C20 — in-stream table definitions govern the messages that follow them: the STREAM.
  Model: BufrModel/Msg/TableStream.lean (`specRun`: no cache, every message decoded with the files
  extended by the definitions before it; `implRun`: `generate_bufr_message` with `TableGroupCache`,
  `invalidate`, `add_extra_entries`, the generation and the compiled-template cache).
  The driver executes `specRun` on every generated stream (`tabledef-stream`) and the harness compares
  it, message by message, with what `generate_bufr_message` yields.
-/
import BufrModel.Msg.TableStream
import BufrModel.Lemmas.TableStream
import BufrModel.Props.C20
set_option linter.unusedSectionVars false

namespace Bufr.C20
open Bufr Bufr.TableDef

section
variable {κ μ ρ τ χ : Type} [DecidableEq κ] (P : StreamParams κ μ ρ τ χ)

/-- a delivered message: it is at that position of the stream, it was decoded with the entries in
    force there, and the entries in force after it are those plus its own definitions -/
theorem specRun_at (ms : List μ) :
    ∀ (es : Entries) (i : Nat) (r : ρ), (specRun P es ms)[i]? = some (.ok r) →
      ∃ m, ms[i]? = some m ∧ specDecode P (entriesAt P es ms i) m = .ok r ∧
        entriesAfter P (entriesAt P es ms i) m r = .ok (entriesAt P es ms (i + 1)) := by
  induction ms with
  | nil => intro es i r h; simp [specRun] at h
  | cons m0 ms ih =>
    intro es i r h
    unfold specRun at h
    cases hd : specDecode P es m0 with
    | error e =>
      rw [hd] at h
      cases i with
      | zero => simp at h
      | succ i => simp at h
    | ok r0 =>
      rw [hd] at h
      simp only at h
      cases ha : entriesAfter P es m0 r0 with
      | error e =>
        rw [ha] at h
        cases i with
        | zero => simp at h
        | succ i => simp at h
      | ok es' =>
        rw [ha] at h
        simp only at h
        cases i with
        | zero =>
          simp only [List.getElem?_cons_zero, Option.some.injEq, Except.ok.injEq] at h
          subst h
          refine ⟨m0, rfl, ?_, ?_⟩
          · simpa [entriesAt] using hd
          · simp only [entriesAt, hd, ha]
        | succ i =>
          simp only [List.getElem?_cons_succ] at h
          obtain ⟨m, hm, h1, h2⟩ := ih es' i r h
          refine ⟨m, by simpa using hm, ?_, ?_⟩
          · simpa only [entriesAt, hd, ha] using h1
          · simpa only [entriesAt, hd, ha] using h2

end
end Bufr.C20

namespace Bufr
open Bufr.TableDef Bufr.C20

section
variable {κ μ ρ τ χ : Type} [DecidableEq κ] (P : StreamParams κ μ ρ τ χ)

/-- For an arbitrary stream (any number of definition and data messages in any order, starting from
    any set `es` of earlier in-stream entries): the message delivered at position `i` is the message
    at position `i` decoded — template, compiled template, data section — against
    `extend (files of its table group) (entriesAt … i)`, where `entriesAt … i` is the concatenation,
    in stream order, of the entries of all definition messages before position `i`. -/
theorem C20_stream_each_message (es : Entries) (ms : List μ) (i : Nat) (r : ρ)
    (h : (specRun P es ms)[i]? = some (.ok r)) :
    ∃ m, ms[i]? = some m ∧ specDecode P (entriesAt P es ms i) m = .ok r := by
  obtain ⟨m, hm, h1, _⟩ := specRun_at P ms es i r h
  exact ⟨m, hm, h1⟩

/-- "Later definition wins from that point on": a delivered message that is not a definition
    message changes nothing; after a delivered definition message with entries `d`, an element /
    sequence id means what `d` says if `d` mentions it (the LAST mention in `d`), and what it meant
    before that message — by an earlier definition message or by the table files `T` — otherwise. -/
theorem C20_stream_later_definition_wins (es : Entries) (ms : List μ) (i : Nat) (m : μ) (r : ρ)
    (hm : ms[i]? = some m) (hr : (specRun P es ms)[i]? = some (.ok r)) :
    (P.defs m r = none → entriesAt P es ms (i + 1) = entriesAt P es ms i) ∧
    (∀ d, P.defs m r = some (.ok d) →
      entriesAt P es ms (i + 1) = (entriesAt P es ms i).append d ∧
      ∀ (T : Tables) (id : Nat),
        (extend T (entriesAt P es ms (i + 1))).b id =
          (d.lookupB id).orElse (fun _ => (extend T (entriesAt P es ms i)).b id) ∧
        (extend T (entriesAt P es ms (i + 1))).d id =
          (d.lookupD id).orElse (fun _ => (extend T (entriesAt P es ms i)).d id)) := by
  obtain ⟨m', hm', _, h2⟩ := specRun_at P ms es i r hr
  rw [hm] at hm'
  cases hm'
  unfold entriesAfter at h2
  constructor
  · intro hn
    rw [hn] at h2
    simp only [Except.ok.injEq] at h2
    exact h2.symm
  · intro d hd
    rw [hd] at h2
    simp only [Except.ok.injEq] at h2
    refine ⟨h2.symm, ?_⟩
    intro T id
    rw [← h2, ← extend_extend]
    exact C20_lookup_extended _ d id

/-- The implementation's caches refine the specification: `generate_bufr_message` with the table
    group cache (`get` with eviction, `invalidate` after every definition message), the extra
    entries, and the compiled-template cache keyed by (descriptors, table group key, generation of
    the extra entries) delivers, for EVERY stream, exactly what decoding every message from scratch
    against "files extended by the definitions before it" delivers — for every cache size
    (`compiled_template_cache_max` = none / 0 / n) and every table group limit ≥ 1. -/
theorem C20_stream_cache_refines (hl : 0 < P.limit) (ms : List μ) :
    implRun P ({} : SState κ χ) ms = specRun P {} ms :=
  implRun_spec P hl ms (fun _ => {}) {} (Inv.init P {})

/-- the same from any state a stream has left behind (a second stream read by the same process) -/
theorem C20_stream_cache_refines_from (hl : 0 < P.limit) (hist : Nat → Entries) (s : SState κ χ)
    (h : Inv P hist s) (ms : List μ) : implRun P s ms = specRun P s.extras ms :=
  implRun_spec P hl ms hist s h

end

/-! ### non-vacuity: a toy coder over the real table merge -/

/-- messages: `inl (id, w)` defines element `id` with `w` bits; `inr id` "decodes" to the width the
    tables in force give `id` (0 if unknown) -/
def c20Toy (mx : Option Nat) : StreamParams Unit (Nat × Nat ⊕ Nat) Nat Unit Nat where
  limit := 50
  cacheMax := mx
  header := fun _ => .ok ((), [])
  files := fun _ => { b := fun i => if i = 12001 then some ⟨12001, .numeric, 12, 1, 0⟩ else none, d := fun _ => none }
  template := fun _ _ _ => .ok ()
  -- the "compiled template" freezes the width of 0-48-001 at compile time
  compile := fun T _ => .ok (((T.b 48001).map (·.nbits)).getD 0)
  process := fun T _ c m =>
    match m with
    | .inl _ => .ok 0
    | .inr id => .ok (match c with
        | some w => if id = 48001 then w else ((T.b id).map (·.nbits)).getD 0
        | none => ((T.b id).map (·.nbits)).getD 0)
  defs := fun m _ =>
    match m with
    | .inl (id, w) => some (.ok { b := [(id, ⟨id, .numeric, w, 0, 0⟩)] })
    | .inr _ => none

/-- definition, data, RE-definition of the same id (nothing new), data, data over a file element -/
def c20ToyStream : List (Nat × Nat ⊕ Nat) := [.inl (48001, 8), .inr 48001, .inl (48001, 16), .inr 48001, .inr 12001]

example : specRun (c20Toy none) {} c20ToyStream = [.ok 0, .ok 8, .ok 0, .ok 16, .ok 12] := by decide
example : implRun (c20Toy (some 4)) {} c20ToyStream = [.ok 0, .ok 8, .ok 0, .ok 16, .ok 12] := by
  rw [C20_stream_cache_refines _ (by decide)]; decide
example : ∃ m, c20ToyStream[3]? = some m ∧
    specDecode (c20Toy none) (entriesAt (c20Toy none) {} c20ToyStream 3) m = .ok 16 :=
  C20_stream_each_message (c20Toy none) {} c20ToyStream 3 16 (by decide)
example : ((extend emptyTables (entriesAt (c20Toy none) {} c20ToyStream 3)).b 48001).map (·.nbits) = some 16 := by
  decide

/-- The refinement is not a triviality of the model: a cache that is dropped (and a generation that
    is advanced) only when the NUMBER of extra entries grew does not refine the specification — on
    a stream whose second definition message re-defines an id and adds nothing, the data message
    that follows is decoded with the first definition. -/
theorem C20_stream_count_based_invalidation_differs :
    lazyRun (c20Toy none) {} c20ToyStream = [.ok 0, .ok 8, .ok 0, .ok 8, .ok 12] ∧
    lazyRun (c20Toy none) {} c20ToyStream ≠ specRun (c20Toy none) {} c20ToyStream := by
  constructor <;> decide

end Bufr
