/-
  C20 — tie to the Python source (`Gen/PyConstants.lean`, regenerated from `pybufrkit/constants.py` on
  every check): the unit strings that decide how an element defined by a table-definition message is
  processed.
-/
import BufrModel.Msg.TableDef
import BufrModel.Gen.PyConstants
namespace Bufr.TableDef
open PyGen.constants

/-- `coder.py`: `unit == UNITS_STRING` -> string; `unit in (UNITS_FLAG_TABLE, UNITS_CODE_TABLE)` -> code/flag;
    otherwise numeric -/
theorem C20_src_const_units (u : List Char) :
    kindOfUnit u =
      if u = UNITS_STRING then .string
      else if u = UNITS_FLAG_TABLE ∨ u = UNITS_CODE_TABLE then .codeflag
      else .numeric := by
  rfl

end Bufr.TableDef
