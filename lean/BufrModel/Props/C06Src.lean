/-
  C06 — tie to the Python source (`Gen/PyCoder.lean`, regenerated from `pybufrkit/coder.py` on every check):
  `CoderState.reset_template_state` and `CoderState.switch_subset_context`.

  The C06 theorems are about a model in which every subset is walked from the initial register file
  (`decodeSubset`: `regs := {}`; `decodeSubsetW` with `Regs.reset`).  Here that is tied to the source text: the
  function that `harness/py2lean.py` generates from the body of `reset_template_state` assigns EVERY register of
  the template walk, to the value the model starts from, whatever the record held before; and
  `switch_subset_context`, called at the start of every subset of uncompressed data, runs it.

  Representation: `Lemmas/CoderSrc.lean` (`regsOf`, `WF`, `Rep`).  Lists and dicts are by value; the three
  statements `self.decoded_descriptors = self.decoded_descriptors_all_subsets[idx_subset]` … of
  `switch_subset_context` make the per-subset list and the current list ONE object in Python (an alias the
  by-value rendering does not keep): the theorems below are about the registers and about the values at the
  moment of the call, not about later appends through that alias (documented in notes/Tie.md).
-/
import BufrModel.Lemmas.CoderSrc
set_option linter.unusedSimpArgs false
namespace Bufr
open PyGen.coder

variable {D V : Type}

/-- The generated `reset_template_state` assigns exactly these eighteen attributes, to these values, and leaves
    the others (the flat lists, their per-subset holders, `idx_value`, `idx_subset`, the creation flags) alone.
    (`freshOver`, `Lemmas/CoderSrc.lean`, is the record update written out.) -/
theorem C06_src_reset_template_state_fields (ps : CoderState.Self D V) :
    CoderState.reset_template_state ps =
      { ps with
        nbits_offset := 0, scale_offset := 0, nbits_of_new_refval := 0, new_refvals := [],
        nbits_of_associated := [], nbits_of_skipped_local_descriptor := 0,
        bsr_modifier := { nbits_increment := 0, scale_increment := 0, refval_factor := 1 },
        new_nbytes := 0, data_not_present_count := 0, status_qa_info_follows := QA_INFO_NA,
        bitmap := none, bitmapped_descriptors := none, bitmap_definition_state := BITMAP_NA,
        most_recent_bitmap_is_for_reuse := false, n_031031 := 0, next_bitmapped_descriptor := none,
        back_reference_boundary := 0, back_referenced_descriptors := none } := rfl

/-- **The generated reset is the model's fresh register state**: through the representation function `regsOf`
    (field by field, `Lemmas/CoderSrc.lean`), whatever Python record it is applied to and however element
    descriptor objects are read (`φ`), the result stands for `({} : Regs)` — the register file from which
    `decodeSubset` / `encodeSubset` start every subset. -/
theorem C06_src_reset_template_state (φ : D → Elem) (ps : CoderState.Self D V) :
    regsOf φ (CoderState.reset_template_state ps) = ({} : Regs) :=
  regsOf_freshOver φ ps

/-- … and it is the model's `Regs.reset` (`Coder/Process.lean`) of whatever the record stood for before. -/
theorem C06_src_reset_template_state_eq_model_reset (φ : D → Elem) (ps : CoderState.Self D V) :
    regsOf φ (CoderState.reset_template_state ps) = (regsOf φ ps).reset := by
  rw [C06_src_reset_template_state]; rfl

/-- The result is a well-formed state that represents the fresh register file (relation `Rep`, which the
    theorems about the operator dispatch take as hypothesis). -/
theorem C06_src_reset_template_state_rep (φ : D → Elem) (ps : CoderState.Self D V) :
    Rep φ (CoderState.reset_template_state ps) {} :=
  rep_freshOver φ ps

/-- No register survives: two records with the same data (flat lists, holders, indices, flags — `dataOf`) are
    reset to the SAME record, whatever their registers were, including the two registers the model does not
    carry (`bitmap`, `most_recent_bitmap_is_for_reuse`).  A register missing from `reset_template_state` makes
    this false. -/
theorem C06_src_reset_template_state_forgets (ps ps' : CoderState.Self D V) (h : dataOf ps = dataOf ps') :
    CoderState.reset_template_state ps = CoderState.reset_template_state ps' := by
  cases ps; cases ps'
  simp only [dataOf, PyData.mk.injEq] at h
  obtain ⟨h1, h2, h3, h4, h5, h6, h7, h8, h9, h10⟩ := h
  subst h1 h2 h3 h4 h5 h6 h7 h8 h9 h10
  rfl

/-- the hypothesis is satisfiable by records that differ in every register -/
example : ∃ ps ps' : CoderState.Self Nat Nat, dataOf ps = dataOf ps' ∧ ps ≠ ps' :=
  ⟨freshOver ⟨false, 1, 0, [[]], [[]], [[]], [], [], [], 0, 5, 5, 5, [(1, 1)], [2], 3, ⟨1, 1, 1⟩, 4, 5, 2, some [], some [], 5, true, 7,
      some [], 3, some []⟩,
    ⟨false, 1, 0, [[]], [[]], [[]], [], [], [], 0, 5, 5, 5, [(1, 1)], [2], 3, ⟨1, 1, 1⟩, 4, 5, 2, some [], some [], 5, true, 7,
      some [], 3, some []⟩, rfl, by simp [freshOver]⟩

/-- `switch_subset_context(idx_subset)`, the whole generated function: it fails with the `IndexError` of one of
    the three per-subset lookups, or returns the RESET record with the subset index, the three current lists of
    that subset and `idx_value = 0`. -/
theorem C06_src_switch_subset_context_eq (ps : CoderState.Self D V) (i : Int) :
    CoderState.switch_subset_context ps i =
      (do
        let dd ← Py.getItem ps.decoded_descriptors_all_subsets i
        let dv ← Py.getItem ps.decoded_values_all_subsets i
        let bl ← Py.getItem ps.bitmap_links_all_subsets i
        pure { CoderState.reset_template_state ps with
               idx_subset := i, decoded_descriptors := dd, decoded_values := dv, bitmap_links := bl, idx_value := 0 }) := by
  simp only [CoderState.switch_subset_context, reset_eq_freshOver, freshOver]
  cases Py.getItem ps.decoded_descriptors_all_subsets i <;> simp only [bind, Except.bind, pure, Except.pure]
  cases Py.getItem ps.decoded_values_all_subsets i <;> simp only [bind, Except.bind, pure, Except.pure]
  cases Py.getItem ps.bitmap_links_all_subsets i <;> simp only [bind, Except.bind, pure, Except.pure]
  rfl

/-- **Every subset starts from the fresh template state** (register part of `switch_subset_context`): whenever
    the generated function returns, for ANY record it is called on (whatever the previous subset, or an aborted
    walk, left in the registers) the result stands for the fresh register file `{}`, is well formed, has
    `idx_value = 0` and the requested subset index. -/
theorem C06_src_switch_subset_context (φ : D → Elem) (ps ps' : CoderState.Self D V) (i : Int)
    (h : CoderState.switch_subset_context ps i = .ok ps') :
    regsOf φ ps' = ({} : Regs) ∧ Rep φ ps' {} ∧ ps'.idx_value = 0 ∧ ps'.idx_subset = i ∧
      Py.getItem ps.decoded_descriptors_all_subsets i = .ok ps'.decoded_descriptors ∧
      Py.getItem ps.decoded_values_all_subsets i = .ok ps'.decoded_values ∧
      Py.getItem ps.bitmap_links_all_subsets i = .ok ps'.bitmap_links := by
  rw [C06_src_switch_subset_context_eq] at h
  cases h1 : Py.getItem ps.decoded_descriptors_all_subsets i with
  | error e => rw [h1] at h; cases h
  | ok dd =>
    cases h2 : Py.getItem ps.decoded_values_all_subsets i with
    | error e => rw [h1, h2] at h; cases h
    | ok dv =>
      cases h3 : Py.getItem ps.bitmap_links_all_subsets i with
      | error e => rw [h1, h2, h3] at h; cases h
      | ok bl =>
        rw [h1, h2, h3] at h
        simp only [bind, Except.bind, pure, Except.pure, Except.ok.injEq] at h
        subst h
        have hr : regsOf φ ({ CoderState.reset_template_state ps with
            idx_subset := i, decoded_descriptors := dd, decoded_values := dv, bitmap_links := bl, idx_value := 0 } :
            CoderState.Self D V) = ({} : Regs) := regsOf_freshOver φ ps
        exact ⟨hr, ⟨wf_freshOver ps, [], by rw [hr], refRel_nil⟩, rfl, rfl, rfl, rfl, rfl⟩

/-- the hypothesis is satisfiable: a state with one subset switches to subset 0 -/
example : ∃ ps' : CoderState.Self Nat Nat, CoderState.switch_subset_context
    (freshOver ⟨false, 1, 0, [[]], [[]], [[]], [], [], [], 0, 5, 5, 5, [(1, 1)], [2], 3, ⟨1, 1, 1⟩, 4, 5, 2, some [], some [], 5,
      true, 7, some [], 3, some []⟩) 0 = .ok ps' := ⟨_, rfl⟩

/-- … and the failure is the `IndexError` of a missing subset only: with the three holders as long as
    `n_subsets` says (how `CoderState.__init__` builds them) and `0 ≤ i < n_subsets` the call returns. -/
theorem C06_src_switch_subset_context_ok (ps : CoderState.Self D V) (i : Nat)
    (h1 : i < ps.decoded_descriptors_all_subsets.length) (h2 : i < ps.decoded_values_all_subsets.length)
    (h3 : i < ps.bitmap_links_all_subsets.length) :
    ∃ ps', CoderState.switch_subset_context ps (i : Int) = .ok ps' := by
  rw [C06_src_switch_subset_context_eq]
  have g : ∀ {α : Type} (xs : List α), i < xs.length → ∃ x, Py.getItem xs (i : Int) = .ok x := by
    intro α xs h
    exact ⟨xs[i], by simp [Py.getItem, Py.getItemNat, h]⟩
  obtain ⟨x1, e1⟩ := g _ h1
  obtain ⟨x2, e2⟩ := g _ h2
  obtain ⟨x3, e3⟩ := g _ h3
  rw [e1, e2, e3]
  exact ⟨_, rfl⟩

end Bufr
