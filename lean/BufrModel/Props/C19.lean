/-
  C19 — bit-level reading and writing are exact inverses for every width.
  Property theorems only; helper lemmas are in `Lemmas/Bits.lean`.
  No bound on widths or on the number of fields.
-/
import BufrModel.Basic.Bits
import BufrModel.Lemmas.Bits
namespace Bufr

/-- Writing any list of valid typed fields after `pre` appends exactly `Σ width` bits, and reading
    them back with the same types and widths (whatever follows) returns the canonical values and
    leaves the reader exactly after the fields. -/
theorem C19_fields_roundtrip (pre suf : Bits) (fs : List Field) (h : ∀ f ∈ fs, f.Valid) :
    ∃ body, writeFields pre fs = .ok (pre ++ body) ∧
      body.length = (fs.map Field.width).sum ∧
      readFields (fs.map Field.spec) (body ++ suf) = .ok (fs.map Field.canon, suf) := by
  induction fs generalizing pre with
  | nil => exact ⟨[], by simp [writeFields], rfl, rfl⟩
  | cons f fs ih =>
    obtain ⟨x, hw, hl, hr⟩ := field_roundtrip pre f (h f (by simp))
    obtain ⟨body, hw', hl', hr'⟩ := ih (pre ++ x) (fun g hg => h g (by simp [hg]))
    refine ⟨x ++ body, ?_, ?_, ?_⟩
    · simp only [writeFields, hw, hw', List.append_assoc]
    · simp only [List.length_append, List.map_cons, List.sum_cons, hl, hl']
    · simp only [List.map_cons, readFields, List.append_assoc, hr, hr']

/-- An unsigned read of all ones is reported as missing exactly for widths above 1 (up to 64). -/
theorem C19_uintOrNone_missing_iff (bs suf : Bits) (h0 : 0 < bs.length) (h64 : bs.length ≤ 64) :
    readUIntOrNone bs.length (bs ++ suf) = .ok (none, suf) ↔ (1 < bs.length ∧ bs.all id = true) := by
  have hn : bs.length ≠ 0 := by omega
  have h64' : ¬ (64 < bs.length) := by omega
  simp only [readUIntOrNone, readUInt_append bs suf h0, h64', if_false, ofBits_eq_max_iff]
  by_cases hc : 1 < bs.length ∧ bs.all id = true
  · simp [hc]
  · simp only [hc, if_false, iff_false]
    intro hh; cases hh

/-- ... and otherwise the value itself is returned. -/
theorem C19_uintOrNone_value (bs suf : Bits) (h0 : 0 < bs.length) (h64 : bs.length ≤ 64)
    (h : ¬ (1 < bs.length ∧ bs.all id = true)) :
    readUIntOrNone bs.length (bs ++ suf) = .ok (some (ofBits bs), suf) := by
  have h64' : ¬ (64 < bs.length) := by omega
  simp only [readUIntOrNone, readUInt_append bs suf h0, h64', if_false, ofBits_eq_max_iff, h]

/-- Bytes are space-padded or truncated to the field width. -/
theorem C19_bytes_canon (b : List UInt8) (k : Nat) :
    Field.canon (.bytes k b) = .bytes ((b ++ List.replicate (k - b.length) 0x20).take k) ∧
    (padBytes b k).length = k := by
  exact ⟨rfl, padBytes_length b k⟩

/-- In-place overwrite changes exactly the `n` bits at `pos`: same total length, prefix and suffix
    untouched, and the field reads back as `v`. -/
theorem C19_setUInt_frame (w : Bits) (v n pos : Nat) (hv : v < 2 ^ n) (hn : 0 < n)
    (hp : pos + n ≤ w.length) :
    ∃ w', setUInt w v n pos = .ok w' ∧ w'.length = w.length ∧
      w'.take pos = w.take pos ∧ w'.drop (pos + n) = w.drop (pos + n) ∧
      readUInt n (w'.drop pos) = .ok (v, w.drop (pos + n)) := by
  have hn0 : n ≠ 0 := by omega
  have hv' : ¬ (2 ^ n ≤ v) := by omega
  have hlt : (w.take pos).length = pos := by rw [List.length_take]; omega
  refine ⟨w.take pos ++ toBits n v ++ w.drop (pos + n), ?_, ?_, ?_, ?_, ?_⟩
  · simp only [setUInt, hn0, hv', if_false]
  · simp only [List.length_append, List.length_take, List.length_drop, toBits_length]; omega
  · rw [List.append_assoc, List.take_append_of_le_length (by omega)]
    rw [List.take_of_length_le (by omega)]
  · have hl2 : (w.take pos ++ toBits n v).length = pos + n := by
      rw [List.length_append, hlt, toBits_length]
    rw [← hl2, List.drop_left]
  · have : (w.take pos ++ toBits n v ++ w.drop (pos + n)).drop pos
        = toBits n v ++ w.drop (pos + n) := by
      rw [List.append_assoc]
      conv => lhs; arg 1; rw [← hlt]
      exact List.drop_left
    rw [this]
    exact readUInt_toBits n v _ hn hv

/-- Values that do not fit are refused (never wrapped or clipped). -/
theorem C19_refuses_unfit (w : Bits) (v : Int) (n : Nat) (h : v < 0 ∨ (2 : Int) ^ n ≤ v) :
    writeUInt w v n = .error .other := by
  unfold writeUInt
  by_cases hn : n = 0
  · simp [hn]
  · simp only [hn, if_false]
    by_cases hneg : v < 0
    · simp [hneg]
    · have hv : (2 : Int) ^ n ≤ v := by
        rcases h with h | h
        · exact absurd h hneg
        · exact h
      have : 2 ^ n ≤ v.toNat := by
        have h1 : ((2 ^ n : Nat) : Int) ≤ v := by simpa using hv
        omega
      simp [hneg, this]

theorem C19_setUInt_refuses_unfit (w : Bits) (v n pos : Nat) (h : 2 ^ n ≤ v) :
    setUInt w v n pos = .error .other := by
  unfold setUInt
  by_cases hn : n = 0
  · simp [hn]
  · simp [hn, h]

/-- the overwrite as Python calls it (any integer): a negative value is refused - never stored as its
    two's complement - and a non-negative one behaves as `setUInt` -/
theorem C19_setUInt_refuses_negative (w : Bits) (v : Int) (n pos : Nat) (h : v < 0) :
    setUIntZ w v n pos = .error .other := by
  unfold setUIntZ
  simp [h]

theorem C19_setUIntZ_nonneg (w : Bits) (v : Int) (n pos : Nat) (h : 0 ≤ v) :
    setUIntZ w v n pos = setUInt w v.toNat n pos := by
  unfold setUIntZ
  have : ¬ v < 0 := by omega
  simp [this]

example : setUIntZ [true, false, true] (-1) 2 1 = .error .other := by decide
example : setUIntZ [true, false, true] 3 2 1 = .ok [true, true, true] := by decide

theorem C19_writeInt_refuses_unfit (w : Bits) (v : Int) (n : Nat) (h : 2 ^ (n - 1) ≤ v.natAbs) :
    writeInt w v n = .error .other := by
  unfold writeInt
  apply C19_refuses_unfit
  right
  have h1 : ((2 ^ (n - 1) : Nat) : Int) ≤ (v.natAbs : Int) := by exact_mod_cast h
  simpa using h1

/-- Reading past the end raises the library's bit-read error, for every field type. -/
theorem C19_read_past_end (s : FSpec) (bs : Bits)
    (hw : match s with | .uint n => 0 < n | .int n => 1 < n | _ => True)
    (h : bs.length < (match s with | .uint n => n | .int n => n | .bool => 1 | .bin n => n | .bytes k => 8 * k)) :
    readField s bs = .error .bitRead := by
  cases s with
  | uint n =>
    have hn : n ≠ 0 := by simp at hw; omega
    simp only [readField, readUInt, hn, if_false, readBits_short n bs h]; rfl
  | int n =>
    have hn : n ≠ 0 := by simp at hw; omega
    simp at hw h
    cases bs with
    | nil => simp only [readField, readInt, hn, if_false, readBool]; rfl
    | cons b r =>
      have hr : r.length < n - 1 := by simp at h; omega
      have hn1 : n - 1 ≠ 0 := by omega
      simp only [readField, readInt, hn, if_false, readBool, readUInt, hn1,
        readBits_short (n - 1) r hr]; rfl
  | bool =>
    cases bs with
    | nil => rfl
    | cons b r => simp at h
  | bin n =>
    simp only [readField, readBin, readBits_short n bs h]; rfl
  | bytes k =>
    simp only [readField, readBytes, readBits_short (8 * k) bs h]; rfl

/-- non-vacuity: a concrete mixed five-field program meets the hypothesis of the round trip -/
example : ∀ f ∈ [Field.uint 12 4095, .int 9 (-255), .bool true, .bin [true, false, true],
    .bytes 3 [0x41, 0x42]], f.Valid := by
  decide

end Bufr
