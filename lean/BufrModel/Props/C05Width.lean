/-
  C05 — compression is transparent: WHICH WIDTH the compressed readers look at.

  A field under a width modifier has two widths: the Table B width of its element and the width in force (201YYY, 207YYY,
  225255; for associated and skipped fields: the width the operator gives).  Transparency needs the compressed reader to
  decide "missing" by the width IN FORCE, because that is what the uncompressed reader (`read_uint_or_none(nbits)`) does.

    * numeric columns: `decNumericC` is handed the width in force and nothing else — its result does not mention the
      descriptor's own width at all (`C05_numeric_column_width_in_force`, for EVERY descriptor `dd`), so 2^nb - 1 (the
      all-ones value of the Table B width nb) is an ordinary value of a widened field, exactly as for the uncompressed reader
      (`C05_numeric_tableB_allones_is_a_value`); the walk hands over Table B width + 201 offset + 207 increment
      (`C05_numeric_element_uses_width_in_force`);
    * code / flag columns: the Python reader re-checks every rebuilt entry against `descriptor.nbits` — the descriptor's OWN
      width, not the width read.  `decCodeflagCD` (Coder/DecodeWidths.lean) is the literal transcription
      (`C05_codeflag_column_two_widths`).  The re-check with descriptor width wD on a column of wR-bit entries is inert
      EXACTLY when wD <= 1 or wR <= wD (`C05_codeflag_recheck_inert_iff`), and on a given column exactly when the column does
      not hold 2^wD - 1 (`C05_codeflag_recheck_two_widths`).  The template walk never separates the two widths
      (`C05_walk_recheck_uses_field_width`: code and flag tables are not touched by 201 / 207, pseudo descriptors carry the
      width read), nor do compiled programs of `scopeClosed` templates (`C05_compiled_recheck_uses_field_width`): the model's
      `decCodeflagC`, which uses one width, IS the code.  A caller that does separate them — seeded/C05-4 sends widened
      scale-0 / reference-0 numerics through this reader — loses 2^nb - 1 (examples in `C05WEx`, replayed on the
      implementation by notes/C05_recheck_probe.py).
-/
import BufrModel.Props.C05
import BufrModel.Props.C08Walk
import BufrModel.Lemmas.WalkCongr
namespace Bufr

/-- On a given column the re-check against the missing value of width `wD` changes nothing exactly when the column does not
    hold `2^wD - 1` (or `wD <= 1`: a one-bit field has no missing value). -/
theorem C05_codeflag_recheck_two_widths (wD : Nat) (raws : List (Option Nat)) :
    raws.map (codeflagVal wD) = raws.map uintVal ↔ ¬ (1 < wD ∧ some (2 ^ wD - 1) ∈ raws) := by
  rw [List.map_inj_left]
  constructor
  · rintro h ⟨h1, hm⟩
    have := h _ hm
    simp [codeflagVal, uintVal, h1] at this
  · intro h r hr
    cases r with
    | none => rfl
    | some x =>
      have : ¬ (1 < wD ∧ x = 2 ^ wD - 1) := fun ⟨a, b⟩ => h ⟨a, b ▸ hr⟩
      simp only [codeflagVal, this, if_false, uintVal]

/-- the column of seeded/C05-4's demonstration: 7-bit descriptor, 8-bit field -/
example : [some 126, some 127, some 128, none].map (codeflagVal 7) ≠ [some 126, some 127, some 128, none].map uintVal ∧
    [some 126, some 125, some 128, none].map (codeflagVal 7) = [some 126, some 125, some 128, none].map uintVal := by
  decide

/-- WHEN the re-check is inert: for descriptor width `wD` and entries of a `wR`-bit field (`Spec.InRange wR`: below the
    all-ones value of THAT width), it is inert on every such column if and only if `wD <= 1` or `wR <= wD`.  So it is inert
    when the width of the code/flag element is not modified (`wR = wD`: `C05_codeflag_recheck_inert`) and when the field is
    narrower than the descriptor says, and it is NOT inert as soon as the field read is wider than the descriptor's width. -/
theorem C05_codeflag_recheck_inert_iff (wD wR : Nat) :
    (∀ raws, Spec.InRange wR raws → raws.map (codeflagVal wD) = raws.map uintVal) ↔ (wD ≤ 1 ∨ wR ≤ wD) := by
  constructor
  · intro h
    rcases Nat.lt_or_ge 1 wD with h1 | h1
    · rcases Nat.lt_or_ge wD wR with h2 | h2
      · exfalso
        have hp : 2 ^ wD * 2 ≤ 2 ^ wR := by
          have := Nat.pow_le_pow_right (n := 2) (by omega) (show wD + 1 ≤ wR by omega)
          rwa [Nat.pow_succ] at this
        have hpos : 0 < 2 ^ wD := Nat.pow_pos (by omega)
        have hin : Spec.InRange wR [some (2 ^ wD - 1)] := by
          intro x hx
          simp only [List.mem_singleton, Option.some.injEq] at hx
          subst hx
          exact ⟨by omega, fun _ => by omega⟩
        exact ((C05_codeflag_recheck_two_widths wD _).mp (h _ hin)) ⟨h1, by simp⟩
      · exact Or.inr h2
    · exact Or.inl h1
  · intro h raws hr
    rw [C05_codeflag_recheck_two_widths]
    rintro ⟨h1, hm⟩
    rcases h with h | h
    · omega
    · obtain ⟨hx1, hx2⟩ := hr _ hm
      have hp : 2 ^ wR ≤ 2 ^ wD := Nat.pow_le_pow_right (by omega) h
      have hpos : 0 < 2 ^ wD := Nat.pow_pos (by omega)
      rcases Nat.lt_or_ge 1 wR with h3 | h3
      · have := hx2 h3; omega
      · have h4 : 2 ^ 2 ≤ 2 ^ wD := Nat.pow_le_pow_right (by omega) h1
        have h5 : 2 ^ wR ≤ 2 ^ 1 := Nat.pow_le_pow_right (by omega) h3
        omega

/-- both sides of the equivalence occur: (7, 7) and (9, 7) inert, (7, 8) not -/
example : (7 ≤ 1 ∨ 7 ≤ 7) ∧ (9 ≤ 1 ∨ 7 ≤ 9) ∧ ¬ (7 ≤ 1 ∨ 8 ≤ 7) := by omega

/-- The template walk cannot tell the literal reader (`decPrimsCD`: re-check by the descriptor's own width) from the model's
    (`decPrimsC`: re-check by the width read): for EVERY template and start state the two runs are equal.  (Every
    `process_codeflag` call of the walk hands over the width the descriptor carries.) -/
theorem C05_walk_recheck_uses_field_width (t : List Desc) (s : St) :
    walkList decPrimsCD t s = walkList decPrimsC t s :=
  congrFun (walkList_congr agreeCF_decPrimsCD t) s

/-- the same for whole compressed data sections -/
theorem C05_decodeCompressedD_eq (t : List Desc) (n : Nat) (bits : Bits) :
    decodeCompressedD t n bits = decodeCompressed t n bits := by
  unfold decodeCompressedD decodeCompressed
  rw [C05_walk_recheck_uses_field_width]
  cases walkList decPrimsC t { bits := bits, vals := List.replicate n [] } <;> rfl

open C08 C08W in
/-- ... and for the compiled program of a `scopeClosed` template executed with the literal reader. -/
theorem C05_compiled_recheck_uses_field_width (t : List Desc) (prog : List Stmt) (hs : scopeClosed t = true)
    (hc : compile t = .ok prog) (n : Nat) (bits : Bits) :
    decodeCompressedCD prog n bits = decodeCompressed t n bits := by
  have h := C08_exec_compile_eq_walk decPrimsCD frame_decPrimsCD t prog hs hc
    { bits := bits, vals := List.replicate n [] } rfl
  rw [C05_walk_recheck_uses_field_width] at h
  unfold decodeCompressedCD decodeCompressed
  rcases obs_cases h with ⟨e, h1, h2⟩ | ⟨a, b, h1, h2, h3, h4, h5, h6⟩
  · rw [h1, h2]
  · rw [h1, h2]; simp only [St.outs, h3, h4, h5, h6]

/-- non-vacuity: the template of Props/C08Walk.lean (201, replication, bitmap, markers) is `scopeClosed` and compiles -/
example : decodeCompressedCD (C08Ex.progOf C08Ex.tmpl) 2 [] = decodeCompressed C08Ex.tmpl 2 [] :=
  C05_compiled_recheck_uses_field_width _ _ (by decide +kernel) (C08Ex.compile_progOf _ (by decide +kernel)) 2 []

/-- NUMERIC columns: the compressed reader, handed the width in force `W`, returns for a column written for `W`-bit fields
    (any legal increment width `d`) exactly the entries of the column, each present entry as the number it stands for — for
    EVERY descriptor `dd`: the statement does not mention the descriptor's own (Table B) width, only `W`. -/
theorem C05_numeric_column_width_in_force (dd : DDesc) (W d : Nat) (sc rf : Int) (raws : List (Option Nat))
    (suf : Bits) (s : St) (hlen : s.vals.length = raws.length)
    (hw : 0 < W) (hw64 : W ≤ 64) (hr : Spec.InRange W raws) (hw1 : W = 1 → ∃ x, some x ∈ raws)
    (hd : Spec.LegalWidth d raws) :
    decNumericC dd (W : Int) sc rf { s with bits := Spec.intColumnBitsWith d raws W ++ suf } =
      .ok (({ s with bits := suf } : St).pushDesc dd |>.pushCol (raws.map fun v => numVal v sc rf)) := by
  have hn : natWidth (W : Int) = .ok W := by
    simp only [natWidth]
    rw [if_neg (by omega)]
    simp
  simp only [decNumericC, hn, bind, Except.bind, St.read, St.pushDesc, hlen,
    C05_every_legal_width W d raws suf hw hw64 hr hw1 hd]
  rfl

/-- CODE / FLAG columns as the Python reader is written: same column, but every entry goes through the re-check against the
    missing value of the DESCRIPTOR's width (`dd.width`; the width read when the descriptor has none). -/
theorem C05_codeflag_column_two_widths (dd : DDesc) (W d : Nat) (raws : List (Option Nat))
    (suf : Bits) (s : St) (hlen : s.vals.length = raws.length)
    (hw : 0 < W) (hw64 : W ≤ 64) (hr : Spec.InRange W raws) (hw1 : W = 1 → ∃ x, some x ∈ raws)
    (hd : Spec.LegalWidth d raws) :
    decCodeflagCD dd W { s with bits := Spec.intColumnBitsWith d raws W ++ suf } =
      .ok (({ s with bits := suf } : St).pushDesc dd |>.pushCol (raws.map (codeflagVal (dd.width.getD W)))) := by
  simp only [decCodeflagCD, bind, Except.bind, St.read, St.pushDesc, hlen,
    C05_every_legal_width W d raws suf hw hw64 hr hw1 hd]
  rfl

/-- The all-ones value of the TABLE B width `nb` in a field widened to `W > nb` bits is a value like any other for the
    numeric readers, compressed (whatever the increment width and the column around it) and uncompressed alike: both deliver
    the number `(2^nb - 1 + ref) / 10^scale`. -/
theorem C05_numeric_tableB_allones_is_a_value (nb W : Nat) (sc rf : Int) (h : nb < W) (hw64 : W ≤ 64) :
    numVal (some (2 ^ nb - 1)) sc rf = scaleVal ((2 ^ nb - 1 : Nat) + rf) sc ∧
    readUIntOrNone W (toBits W (2 ^ nb - 1)) = .ok (some (2 ^ nb - 1), []) := by
  refine ⟨rfl, ?_⟩
  have hp : 2 ^ nb * 2 ≤ 2 ^ W := by
    have := Nat.pow_le_pow_right (n := 2) (by omega) (show nb + 1 ≤ W by omega)
    rwa [Nat.pow_succ] at this
  have hpos : 0 < 2 ^ nb := Nat.pow_pos (by omega)
  have := readUIntOrNone_value W (2 ^ nb - 1) [] (by omega) hw64 (by omega) (fun _ => by omega)
  simpa using this

example : (7 : Nat) < 8 ∧ 8 ≤ 64 := by omega

/-- What the walk hands to the numeric reader for a Table B numeric element (no associated field in force, not class 33
    under pending quality information, no new reference value): Table B width + 201YYY offset + 207YYY increment. -/
theorem C05_numeric_element_uses_width_in_force (P : Prims) (e : Elem) (s : St) (hk : e.kind = .numeric)
    (ha : s.regs.assocStack = []) (hx : xOf e.id ≠ 33) (hq : s.regs.qa ≠ .processing)
    (hn : lookupRef s.regs.newRefvals e.id = none) :
    elementDescriptor P (.plain e) e s =
      P.numeric (.plain e) ((e.nbits : Int) + s.regs.nbitsOffset + s.regs.nbitsInc)
        (e.scale + s.regs.scaleOffset + s.regs.scaleInc) (e.ref * s.regs.refFactor) s := by
  simp only [elementDescriptor, ha, ne_eq, not_true_eq_false, false_and, if_false, hx, hq, hk, hn,
    bind, Except.bind, pure, Except.pure]

/-! ### the witness: 001001 (7 bits) widened by 201129 to 8 bits, column 126, 127, 128, missing -/
namespace C05WEx
def e7 : Elem := { id := 1001, kind := .numeric, nbits := 7, scale := 0, ref := 0 }
def c7 : Elem := { id := 2001, kind := .codeflag, nbits := 7, scale := 0, ref := 0 }
def col : List (Option Nat) := [some 126, some 127, some 128, none]
def colBits : Bits := Spec.intColumnBitsWith 2 col 8
def s4 : St := { bits := colBits, vals := [[], [], [], []] }
def s201 : St := { s4 with regs := { nbitsOffset := 1 } }

/-- hypotheses of the two column theorems -/
theorem col_ok : Spec.InRange 8 col ∧ Spec.LegalWidth 2 col := by
  constructor
  · intro x hx; simp [col] at hx; rcases hx with rfl | rfl | rfl <;> omega
  · simp [Spec.LegalWidth, Spec.colMin, col]

/-- the numeric reader: 127 is 127 (instance of `C05_numeric_column_width_in_force`, descriptor of 7 bits, field of 8) -/
example : decNumericC (.plain e7) 8 0 0 s4 =
    .ok (({ s4 with bits := [] } : St).pushDesc (.plain e7) |>.pushCol [.int 126, .int 127, .int 128, .missing]) := by
  have := C05_numeric_column_width_in_force (.plain e7) 8 2 0 0 col [] s4 rfl (by omega) (by omega) col_ok.1
    (by omega) col_ok.2
  simpa [s4, colBits, col, numVal, scaleVal] using this

/-- hypotheses of `C05_numeric_element_uses_width_in_force`: the walk on 001001 with 201129 in force asks for 8 bits -/
example : elementDescriptor decPrimsC (.plain e7) e7 s201 = decNumericC (.plain e7) 8 0 0 s201 := by
  have := C05_numeric_element_uses_width_in_force decPrimsC e7 s201 rfl rfl (by decide) (by decide) rfl
  simp [s201, e7, Regs.nbitsInc, Regs.scaleInc, Regs.refFactor] at this
  simp only [s201, e7]
  exact this

/-- the literal code/flag reader called with a 7-bit DESCRIPTOR and an 8-bit FIELD (what seeded/C05-4 does): 127 is lost -/
example : (decCodeflagCD (.plain c7) 8 s4).toOption.map (·.vals) =
    some [[.int 126], [.missing], [.int 128], [.missing]] := by decide +kernel
/-- ... whereas numeric reader and one-width code/flag reader agree with the uncompressed reading of the same fields -/
example : (decNumericC (.plain e7) 8 0 0 s4).toOption.map (·.vals) =
    some [[.int 126], [.int 127], [.int 128], [.missing]] := by decide +kernel
example : (decCodeflagC (.plain c7) 8 s4).toOption.map (·.vals) =
    some [[.int 126], [.int 127], [.int 128], [.missing]] := by decide +kernel
example : [126, 127, 128, 255].map (fun x => (readUIntOrNone 8 (toBits 8 x)).toOption.map (·.1)) =
    [some (some 126), some (some 127), some (some 128), some none] := by decide +kernel
end C05WEx

end Bufr
