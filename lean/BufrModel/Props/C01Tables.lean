/-
  C01 — what a message decodes to depends on the tables ONLY through the definitions of the descriptors
  that occur in it.

  The model decoder is `build`-then-walk: `buildD T depth ids` is the only place where the table group `T`
  is consulted; the walk (`decodeData`) never sees `T` again.  This file proves that `buildD` (hence every
  decode function, tree or flat) looks at `T` only at the ids REACHABLE from the unexpanded descriptor list:
  the ids of the list itself and, closed under it, the members of every Table D row of a reachable sequence
  id.  Two table groups that agree there give the same template and the same decoded values for every bit
  string; so "the same descriptors under another table version decode by THAT version" has a precise
  meaning: the result is a function of (ids, the reachable part of the tables named in section 1, bits) and
  of nothing else — no earlier message, no other entry of the tables.

  It is the formal counterpart of the table-version families of the C01 check (harness/c01gen.py): there
  the implementation is given the same descriptor list under table groups that DIFFER on a reachable id
  and must follow the model run over the right group; the last theorem of this file
  (`C01_reachable_definition_matters`) shows on the bundled difference 014002 (12 bits / reference -2048
  in master version 13, 17 bits / reference -65536 later) that such a difference does change the values.
-/
import BufrModel.Props.C01Flat
import BufrModel.Lemmas.Reach
namespace Bufr
open Bufr.Spec Bufr.Flat

/-- The template built from a descriptor list depends on the tables only through the reachable ids:
    table groups that agree on them build the same template (or fail in the same way), at every depth. -/
theorem C01_build_depends_on_reachable (T T' : Tables) (depth : Nat) (ids : List Nat) :
    AgreeOn T T' ids → buildD T depth ids = buildD T' depth ids := by
  fun_induction buildD T depth ids
  · intro _; rw [buildD.eq_def]
  · rename_i depth id rest h3 hd ih
    intro h
    have hd' : T'.d id = none := by rw [← (h id (.here (List.mem_cons_self ..))).2 h3]; exact hd
    rw [buildD.eq_def T' depth (id :: rest)]
    simp only [h3, if_true, hd', ih (h.mono mem_tail)]
  · rename_i id rest h3 row hd
    intro h
    have hd' : T'.d id = some row := by rw [← (h id (.here (List.mem_cons_self ..))).2 h3]; exact hd
    rw [buildD.eq_def T' 0 (id :: rest)]
    simp only [h3, if_true, hd']
  · rename_i id rest h3 row hd depth ih1 ih2
    intro h
    have hd' : T'.d id = some row := by rw [← (h id (.here (List.mem_cons_self ..))).2 h3]; exact hd
    rw [buildD.eq_def T' (depth + 1) (id :: rest)]
    simp only [h3, if_true, hd', ih1 (h.of_row (List.mem_cons_self ..) h3 hd), ih2 (h.mono mem_tail)]
  · rename_i depth id rest h3 h2 ih
    intro h
    rw [buildD.eq_def T' depth (id :: rest)]
    simp only [h3, h2, if_true, if_false, ih (h.mono mem_tail)]
  · rename_i depth id h3 h2 h1 hy
    intro _
    rw [buildD.eq_def T' depth [id]]
    simp only [h3, h2, h1, hy, if_true, if_false]
  · rename_i depth id h3 h2 h1 hy f rest ih1 ih2
    intro h
    have hf : T.lookupB f = T'.lookupB f := by
      unfold Tables.lookupB
      rw [(h f (.here (List.mem_cons_of_mem _ (List.mem_cons_self ..)))).1]
    have hsub : ∀ x, x ∈ rest → x ∈ id :: f :: rest :=
      fun _ hx => List.mem_cons_of_mem _ (List.mem_cons_of_mem _ hx)
    rw [buildD.eq_def T' depth (id :: f :: rest)]
    simp only [h3, h2, h1, hy, if_true, if_false, hf,
      ih1 (h.mono fun x hx => hsub x (List.mem_of_mem_take hx)),
      ih2 (h.mono fun x hx => hsub x (List.mem_of_mem_drop hx))]
  · rename_i depth id rest h3 h2 h1 hy ih1 ih2
    intro h
    rw [buildD.eq_def T' depth (id :: rest)]
    simp only [h3, h2, h1, hy, if_true, if_false, ih1 (h.mono (mem_take _)), ih2 (h.mono (mem_drop _))]
  · rename_i depth id rest h3 h2 h1 ih
    intro h
    have hb : T.lookupB id = T'.lookupB id := by
      unfold Tables.lookupB
      rw [(h id (.here (List.mem_cons_self ..))).1]
    rw [buildD.eq_def T' depth (id :: rest)]
    simp only [h3, h2, h1, if_false, hb, ih (h.mono mem_tail)]

/-- `Decoder.process_template_data` (build the template from the tables the message names, then walk the bits):
    for every bit string, compressed or not, any number of subsets, the result — values, labels, links, the
    unread bits, or the error — is the same under two table groups that agree on the reachable ids. -/
theorem C01_decode_depends_on_reachable (T T' : Tables) (ids : List Nat) (h : AgreeOn T T' ids)
    (compressed : Bool) (n : Nat) (bits : Bits) :
    (build T ids >>= fun t => decodeData t compressed n bits)
      = (build T' ids >>= fun t => decodeData t compressed n bits) := by
  unfold build
  rw [C01_build_depends_on_reachable T T' defaultDepth ids h]

/-- well-countedness (`WFflat`: the template can be built) is a property of the reachable part of the tables -/
theorem C01_wfflat_depends_on_reachable (T T' : Tables) (d : Nat) (ids : List Nat) (h : AgreeOn T T' ids) :
    WFflat T d ids ↔ WFflat T' d ids := by
  rw [C01_wfflat_iff_build, C01_wfflat_iff_build, C01_build_depends_on_reachable T T' d ids h]

/-- the same for the flat FM-94 reading of the descriptor list (`Spec.flatWalk`, which consults the tables
    while it reads): on a well-counted list it is a function of the reachable part of the tables. -/
theorem C01_flat_depends_on_reachable (T T' : Tables) {d fuel : Nat} {ids : List Nat} (h : AgreeOn T T' ids)
    (hwf : WFflat T d ids) (hfuel : d ≤ fuel) (compressed : Bool) (n : Nat) (bits : Bits) :
    flatDecodeData T fuel ids compressed n bits = flatDecodeData T' fuel ids compressed n bits := by
  rw [C01_decodeData_eq_flat T hwf hfuel (Nat.le_refl d) compressed n bits,
    C01_decodeData_eq_flat T' ((C01_wfflat_depends_on_reachable T T' d ids h).1 hwf) hfuel (Nat.le_refl d) compressed n bits,
    C01_build_depends_on_reachable T T' d ids h]

/-! ### non-vacuity: master table versions 13 and 33 around 014002 -/

namespace C01TablesEx

/-- four entries as in master table version 13 ... -/
def t13 : Tables where
  b := fun id =>
    if id = 1001 then some ⟨1001, .numeric, 7, 0, 0⟩
    else if id = 12101 then some ⟨12101, .numeric, 16, 2, 0⟩
    else if id = 14002 then some ⟨14002, .numeric, 12, -3, -2048⟩
    else none
  d := fun id => if id = 301001 then some [1001, 12101] else if id = 301002 then some [301001, 14002] else none

/-- ... and as in version 33: 014002 is wider and has another reference value, the rest is the same -/
def t33 : Tables where
  b := fun id =>
    if id = 1001 then some ⟨1001, .numeric, 7, 0, 0⟩
    else if id = 12101 then some ⟨12101, .numeric, 16, 2, 0⟩
    else if id = 14002 then some ⟨14002, .numeric, 17, -3, -65536⟩
    else none
  d := fun id => if id = 301001 then some [1001, 12101] else if id = 301002 then some [301001, 14002] else none

theorem reach_301001 {id : Nat} (h : Reach t13 [301001, 12101] id) : id = 301001 ∨ id = 12101 ∨ id = 1001 := by
  induction h with
  | here hm => simp at hm; omega
  | member _ h3 hd hm ih =>
    rename_i sid m row
    rcases ih with rfl | rfl | rfl
    · simp [t13] at hd; subst hd; simp at hm; omega
    · omega
    · omega

/-- 014002 is not reachable from `301001 012101`: the two versions agree on everything that is ... -/
theorem agree_301001 : AgreeOn t13 t33 [301001, 12101] := by
  intro id h
  rcases reach_301001 h with rfl | rfl | rfl <;> simp [t13, t33]

/-- ... so every bit string decodes alike under both (hypothesis of the theorems satisfied, tables different) -/
example (compressed : Bool) (n : Nat) (bits : Bits) :
    (build t13 [301001, 12101] >>= fun t => decodeData t compressed n bits)
      = (build t33 [301001, 12101] >>= fun t => decodeData t compressed n bits) :=
  C01_decode_depends_on_reachable t13 t33 _ agree_301001 compressed n bits

example : t13.b 14002 ≠ t33.b 14002 := by simp [t13, t33]

/-- the same template is built (non-vacuity of `C01_build_depends_on_reachable`) -/
example (depth : Nat) : buildD t13 depth [301001, 12101] = buildD t33 depth [301001, 12101] :=
  C01_build_depends_on_reachable t13 t33 depth _ agree_301001

theorem wf_301001 : WFflat t13 1 [301001, 12101] := by simp [WFflat, wfCount, t13]

/-- non-vacuity of `C01_wfflat_depends_on_reachable` and `C01_flat_depends_on_reachable` -/
example : WFflat t33 1 [301001, 12101] := (C01_wfflat_depends_on_reachable t13 t33 1 _ agree_301001).1 wf_301001
example (compressed : Bool) (n : Nat) (bits : Bits) :
    flatDecodeData t13 1 [301001, 12101] compressed n bits = flatDecodeData t33 1 [301001, 12101] compressed n bits :=
  C01_flat_depends_on_reachable t13 t33 agree_301001 wf_301001 (Nat.le_refl _) compressed n bits

def bitsOfNat (w n : Nat) : Bits := (List.range w).reverse.map fun i => n.testBit i

/-- 001001 = 11, 012101 = 283.15, then 17 more bits -/
def exBits : Bits := bitsOfNat 7 11 ++ bitsOfNat 16 28315 ++ bitsOfNat 17 (65536 + 21500)

end C01TablesEx

/-- The hypothesis cannot be dropped: 014002 IS reachable from 301002 (through Table D), the two versions
    define it differently, and the same bit string decodes to different values — 21 500 000 (17 bits,
    reference -65536, scale -3) by version 33, 671 000 (the first 12 of those bits, reference -2048) with 5 bits
    left unread by version 13.  A decoder that keeps the definition of another version returns the wrong one. -/
theorem C01_reachable_definition_matters :
    Reach C01TablesEx.t13 [301002] 14002 ∧
    ((build C01TablesEx.t33 [301002] >>= fun t => decodeData t false 1 C01TablesEx.exBits).map
        fun r => (r.1.map (·.vals), r.2.length))
      = .ok ([[.int 11, .num 28315 2, .num 21500 (-3)]], 0) ∧
    ((build C01TablesEx.t13 [301002] >>= fun t => decodeData t false 1 C01TablesEx.exBits).map
        fun r => (r.1.map (·.vals), r.2.length))
      = .ok ([[.int 11, .num 28315 2, .num 671 (-3)]], 5) := by
  refine ⟨?_, ?_, ?_⟩
  · exact .member (row := [301001, 14002]) (.here (List.mem_cons_self ..)) (by decide) (by simp [C01TablesEx.t13]) (by simp)
  · simp [build, defaultDepth, buildD, C01TablesEx.t33, Tables.lookupB, bind, Except.bind, pure, Except.pure]
    decide +kernel
  · simp [build, defaultDepth, buildD, C01TablesEx.t13, Tables.lookupB, bind, Except.bind, pure, Except.pure]
    decide +kernel

end Bufr
