/-
  C04 — section framing and length accounting are exact in both directions.
-/
import BufrModel.Msg.Sections
import BufrModel.Gen.Layouts
namespace Bufr

theorem C04_bundled_layouts_wf : ∀ e ∈ Gen.layouts, e.layout.WF = true := by decide

end Bufr
