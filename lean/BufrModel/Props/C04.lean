/-
  C04 — section framing and length accounting are exact in both directions.
  Property theorems only; lemmas are in `Lemmas/Sections.lean`, `Lemmas/SectionsDec.lean`, the vocabulary
  (`SecFrame`, `SecFrame.OK`) in `Spec/Frame.lean`.

  Quantification: every layout family `L` with `L.WF` (the bundled one is re-checked on every run,
  `C04_bundled_layouts_wf`), every list of supplied values, every payload (any bit length), any edition
  value, both encoder modes; on the decode side every bit stream and every data reader that is
  prefix-determined (`Local`).
-/
import BufrModel.Msg.Sections
import BufrModel.Gen.Layouts
import BufrModel.Spec.Frame
import BufrModel.Lemmas.Sections
import BufrModel.Lemmas.SectionsDec
import BufrModel.Lemmas.SectionsRT
namespace Bufr

/-- The section layouts shipped in /repo/pybufrkit/definitions (regenerated on every run) form a
    well-formed family: per layout unique names, widths fitting the types, zero width only last and
    only with a section length, the section length first / 24 bits / unsigned, expected values of the
    parameter's width; section 0 = 4-octet signature + 24-bit `length` (+ ...), no other `length`
    property, final sections are a lone 4-octet signature. -/
theorem C04_bundled_layouts_wf : Gen.layouts.WF = true := by decide

/-- **Frame of an encoded message.**  Whatever values and payload are supplied, in either mode, a
    successful encoding is the concatenation of section frames `f0 :: fs` (one per section written,
    in the order of the trace) such that
    * the first four octets are the supplied start signature, the last four the supplied stop
      signature (each padded/truncated to four octets: `BUFR` / `7777` when those are supplied);
    * the 24-bit field after the start signature holds the number of octets produced;
    * every frame is a whole number of octets, is zero after its content, and — when the layout has
      a section length — starts with its own extent in octets;
    * a frame whose length was recomputed has exactly the padding of `process_section`: fewer than
      16 bits and an even number of octets when the edition property is at most 3, fewer than 8 bits
      otherwise. -/
theorem C04_encoded_frame (L : Layouts) (hL : L.WF = true) (cfg : EncCfg) (vals : List (List PVal))
    (payload : Bits) (r : Encoded) (h : encode L cfg vals payload = .ok r) :
    ∃ (f0 : SecFrame) (fs : List SecFrame) (b0 bN : List UInt8) (mid : List UInt8),
      bytesToBits r.bytes = framesBits (f0 :: fs) ∧
      r.trace = (f0 :: fs).map (fun f => (f.index, f.bits.length)) ∧
      (vals.head?.bind List.head?) = some (PVal.bytes b0) ∧ [PVal.bytes bN] ∈ vals ∧
      r.bytes = padBytes b0 4 ++ mid ++ padBytes bN 4 ∧
      readUInt 24 ((bytesToBits r.bytes).drop 32) = .ok (r.bytes.length, (bytesToBits r.bytes).drop 56) ∧
      ∀ f ∈ f0 :: fs, f.OK cfg ∧
        (f.recomputed cfg →
          f.bits.length - f.content < 16 ∧ (f.edition ≤ 3 → f.bits.length % 16 = 0) ∧
          (3 < f.edition → f.bits.length - f.content < 8)) := by
  unfold encode at h
  split at h
  · cases h
  rename_i w tr hbits
  cases h
  have hw8 : w.length % 8 = 0 := by
    unfold encodeBits at hbits
    split at hbits
    · cases hbits
    split at hbits
    · cases hbits
    split at hbits
    · cases hbits
    · rename_i hne; cases hbits; simpa using hne
  obtain ⟨b0, d, rest0, restv, y, ed, i0, fs, fl, b, T, hvals, hw, hT, hTw, _, hok, htr, hb, hfl⟩ :=
    (encodeBits_shape hL hbits).ex
  have hbb : bytesToBits (bitsToBytes w) = w := bytesToBits_bitsToBytes (w.length / 8) w (by omega)
  have hSl : (bytesToBits (padBytes b0 4)).length = 32 := by rw [bytesToBits_length, padBytes_length]
  have h24 : (toBits 24 T).length = 24 := toBits_length _ _
  -- the patched frame of section 0
  let x0 := bytesToBits (padBytes b0 4) ++ toBits 24 T ++ y
  have hx0l : x0.length = 56 + y.length := by
    show (bytesToBits (padBytes b0 4) ++ toBits 24 T ++ y).length = _
    simp only [List.length_append, hSl, h24]
  let f0 : SecFrame := { index := i0, hasLen := false, edition := ed, content := x0.length, declared := none,
                         bits := x0 ++ zeros (padBits ed x0.length) }
  have hf0 : f0.OK cfg := frame_noLen cfg i0 ed x0 none
  have hwf : w = framesBits (f0 :: (fs ++ [fl])) := by
    rw [framesBits_cons, hw]
    show _ = (x0 ++ zeros (padBits ed x0.length)) ++ _
    rw [hx0l]
  have hwlen : w.length = 8 * (bitsToBytes w).length := by
    have := bytesToBits_length (bitsToBytes w); rw [hbb] at this; exact this
  refine ⟨f0, fs ++ [fl], b0, b, bitsToBytes (toBits 24 T ++ y ++ zeros (padBits ed (56 + y.length)) ++ framesBits fs),
    ?_, ?_, ?_, ?_, ?_, ?_, ?_⟩
  · show bytesToBits (bitsToBytes w) = _
    rw [hbb, hwf]
  · show tr = _
    rw [htr]
    have hf0l : f0.bits.length = 56 + y.length + padBits ed (56 + y.length) := by
      show (x0 ++ zeros (padBits ed x0.length)).length = _
      rw [List.length_append, zeros_length, hx0l]
    simp only [List.map_cons, hf0l]
    rfl
  · rw [hvals]; rfl
  · rw [hvals]; exact List.mem_cons_of_mem _ hb
  · -- split the bytes at the two signatures
    show bitsToBytes w = _
    have hmidlen : (toBits 24 T ++ y ++ zeros (padBits ed (56 + y.length)) ++ framesBits fs).length % 8 = 0 := by
      have hfll : fl.bits.length = 32 := by rw [hfl, bytesToBits_length, padBytes_length]
      have : w.length = 32 + (toBits 24 T ++ y ++ zeros (padBits ed (56 + y.length)) ++ framesBits fs).length + 32 := by
        rw [hw, framesBits_append]
        simp only [List.length_append, hSl, h24, zeros_length, framesBits, List.flatMap_cons, List.flatMap_nil,
          hfll, List.length_nil, List.append_nil]
        omega
      omega
    have hmid := bytesToBits_bitsToBytes _ _ (Nat.eq_mul_of_div_eq_right (Nat.dvd_of_mod_eq_zero hmidlen) rfl)
    have hw' : w = bytesToBits (padBytes b0 4) ++
        (bytesToBits (bitsToBytes (toBits 24 T ++ y ++ zeros (padBits ed (56 + y.length)) ++ framesBits fs)) ++
          (bytesToBits (padBytes b 4) ++ [])) := by
      rw [hmid, hw, framesBits_append]
      simp only [framesBits, List.flatMap_cons, List.flatMap_nil, hfl, List.append_assoc, List.append_nil]
    conv => lhs; rw [hw']
    rw [bitsToBytes_append, bitsToBytes_append, bitsToBytes_append]
    simp [bitsToBytes]
  · -- declared total
    show readUInt 24 ((bytesToBits (bitsToBytes w)).drop 32) = .ok ((bitsToBytes w).length, (bytesToBits (bitsToBytes w)).drop 56)
    rw [hbb]
    have hd32 : w.drop 32 = toBits 24 T ++ (y ++ zeros (padBits ed (56 + y.length)) ++ framesBits (fs ++ [fl])) := by
      rw [hw]; simp only [List.append_assoc]; rw [← hSl, List.drop_left]
    have hd56 : w.drop 56 = y ++ zeros (padBits ed (56 + y.length)) ++ framesBits (fs ++ [fl]) := by
      have : w.drop 56 = (w.drop 32).drop 24 := by rw [List.drop_drop]
      rw [this, hd32]
      have h2 := drop_two [] (toBits 24 T) (y ++ zeros (padBits ed (56 + y.length)) ++ framesBits (fs ++ [fl])) 24 h24
      simpa using h2
    rw [hd32, readUInt_toBits 24 T _ (by omega) hT, hd56]
    have : T = (bitsToBytes w).length := by omega
    rw [this]
  · intro f hf
    have hfok : f.OK cfg := by
      rcases List.mem_cons.mp hf with hf | hf
      · rw [hf]; exact hf0
      · exact hok f hf
    refine ⟨hfok, fun hr => ?_⟩
    have hm := hfok.minimal hr
    refine ⟨?_, ?_, ?_⟩
    · have := padBits_lt16 f.edition f.content; omega
    · intro he; rw [hm]; exact padBits_even f.edition f.content he
    · intro he; have := padBits_lt8 f.edition f.content he; omega

/-- **Declared lengths honoured** (`ignore_declared_length = False`): in a successful encoding every
    section whose supplied `section_length` is non-zero has exactly that extent, zero-filled after its
    content (so the declaration was at least the content), and a non-zero supplied total is the number
    of octets produced. -/
theorem C04_honour_declared (L : Layouts) (hL : L.WF = true) (cfg : EncCfg) (hc : cfg.ignoreDeclared = false)
    (vals : List (List PVal)) (payload : Bits) (r : Encoded) (h : encode L cfg vals payload = .ok r) :
    (∃ (f0 : SecFrame) (fs : List SecFrame), bytesToBits r.bytes = framesBits (f0 :: fs) ∧
      ∀ f ∈ f0 :: fs, f.hasLen = true → ∀ d, f.declared = some d → d ≠ 0 →
        (f.bits.length : Int) = 8 * d ∧ f.content ≤ f.bits.length ∧
        f.bits.drop f.content = zeros (f.bits.length - f.content)) ∧
    (∀ b0 d rest0 restv, vals = (PVal.bytes b0 :: PVal.int d :: rest0) :: restv → d ≠ 0 →
      d = Int.ofNat r.bytes.length) := by
  obtain ⟨f0, fs, _, _, _, hbits, _, _, _, _, _, hall⟩ := C04_encoded_frame L hL cfg vals payload r h
  refine ⟨⟨f0, fs, hbits, fun f hf hl d hd hd0 => ?_⟩, ?_⟩
  · have hok := (hall f hf).1
    exact ⟨hok.honoured hl hc d hd hd0, hok.content_le, hok.pad_zero⟩
  · intro b0 d rest0 restv hv hd0
    unfold encode at h
    split at h
    · cases h
    rename_i w tr hbits'
    cases h
    obtain ⟨b0', d', _, _, _, _, _, _, _, _, T, hvals, _, _, hTw, hhon, _⟩ := (encodeBits_shape hL hbits').ex
    rw [hv] at hvals
    injection hvals with h1 _
    injection h1 with _ h2
    injection h2 with h3 _
    injection h3 with h3
    subst h3
    have hw8 : w.length % 8 = 0 := by
      unfold encodeBits at hbits'
      split at hbits'
      · cases hbits'
      split at hbits'
      · cases hbits'
      split at hbits'
      · cases hbits'
      · rename_i hne; cases hbits'; simpa using hne
    have hbb : bytesToBits (bitsToBytes w) = w := bytesToBits_bitsToBytes (w.length / 8) w (by omega)
    have hwlen : w.length = 8 * (bitsToBytes w).length := by
      have := bytesToBits_length (bitsToBytes w); rw [hbb] at this; exact this
    rw [hhon hc hd0]
    show Int.ofNat T = Int.ofNat (bitsToBytes w).length
    congr 1; omega

/-- ... and a declaration shorter than what the section needs is refused with the library error. -/
theorem C04_honour_refuses_short (cfg : EncCfg) (hc : cfg.ignoreDeclared = false) (s : SectionLayout)
    (hs : s.WF = true) (hh : s.hasParam "section_length" = true) (vs : List PVal) (payload : Bits)
    (reg : Registry) (w w1 : Bits) (ed d : Int) (nb ps : Nat)
    (hlen : s.params.length = vs.length)
    (h1 : encParams payload s.params vs w = .ok w1)
    (hed : (register reg w.length 0 s.params vs).get? "edition" = some ⟨.int ed, nb, ps⟩)
    (hd : valOf s.params vs "section_length" = some (.int d)) (hd0 : d ≠ 0)
    (hshort : d * 8 < (((w1.length - w.length) + padBits ed (w1.length - w.length) : Nat) : Int)) :
    encSection cfg s vs payload reg w = .error .lib := by
  obtain ⟨p, ps', hp, hname, hnb, hty⟩ := lenFirst_cons (wf_lenFirst hs) hh
  have hpo : paramOf s.params "section_length" = some p := by
    rw [hp, ← hname]; simp [paramOf, List.find?]
  have hoff : s.offsetOf "section_length" = some 0 := by
    rw [← hname]; exact offsetOf_head hp
  obtain ⟨x, rfl⟩ := encParams_append h1
  have hne : (s.params.length != vs.length) = false := by simp [hlen]
  have hcond : (d == 0 || cfg.ignoreDeclared) = false := by simp [hc, hd0]
  have hl2 : (w ++ x ++ zeros (padBits ed ((w ++ x).length - w.length))).length - w.length
      = ((w ++ x).length - w.length) + padBits ed ((w ++ x).length - w.length) := by
    simp only [List.length_append, zeros_length]; omega
  simp only [encSection, hne, h1, hed, closeSection, hpo, hd, hoff, hcond, hl2, Bool.false_eq_true, if_false,
    Int.ofNat_eq_natCast]
  have h1' : ¬ (0 < d * 8 - (((w ++ x).length - w.length + padBits ed ((w ++ x).length - w.length) : Nat) : Int)) := by omega
  have h2' : d * 8 - (((w ++ x).length - w.length + padBits ed ((w ++ x).length - w.length) : Nat) : Int) < 0 := by omega
  simp only [h1', h2', if_false, if_true]

/-- the total: a non-zero declared total different from the octets produced is refused -/
theorem C04_honour_refuses_total (cfg : EncCfg) (hc : cfg.ignoreDeclared = false) (reg : Registry) (w : Bits)
    (v : Int) (n pos : Nat) (hr : reg.get? "length" = some ⟨.int v, n, pos⟩) (hv0 : v ≠ 0)
    (hne : v ≠ Int.ofNat (w.length / 8)) : patchTotal cfg reg w = .error .lib := by
  unfold patchTotal
  rw [hr]
  have c1 : (v == 0 || cfg.ignoreDeclared) = false := by simp [hc, hv0]
  have c2 : (v != Int.ofNat (w.length / 8)) = true := bne_iff_ne.mpr hne
  simp only [c1, c2, Bool.false_eq_true, if_false, if_true]

/-! ## Decoder -/

/-- **The decoder consumes exactly the declared extents.**  For any layout family, any options
    (metadata-only, ignore expectations) and any prefix-determined data reader: a successful decoding
    of the sections of a message consumed a prefix `p` of the stream whose length is the sum of the
    sections' extents; a section that has a section length consumed exactly `8 * declared` bits
    (surplus octets skipped); and the result is the same whatever follows `p`. -/
theorem C04_decode_consumes_declared {α : Type} (L : Layouts) (dc : DataCoder α)
    (hdc : ∀ reg, Local (dc.dec reg)) (o : DecOpts) (x : Bits) (out : DecOut α) (r : Bits)
    (h : decodeBits L dc o x = .ok (out, r)) :
    ∃ p, x = p ++ r ∧ p.length = out.nbits ∧ out.nbits = (out.sections.map (·.nbits)).sum ∧
      (∀ sec ∈ out.sections, ∀ v, sec.params.lookup "section_length" = some (PVal.int v) →
        sec.nbits = 8 * v.toNat) ∧
      ∀ t, decodeBits L dc o (p ++ t) = .ok (out, t) := by
  obtain ⟨p, news, h1, h2, h3, h4, h5, h6⟩ := decLoop_local L dc hdc o _ _ _ _ _ _ _ h
  simp only [List.nil_append, Nat.zero_add] at h2 h3
  refine ⟨p, h1, h3.symm, ?_, ?_, h6⟩
  · rw [h3, h4, h2]
  · rw [h2]; exact h5

/-- **serialized_bytes is exactly the message, regardless of what follows.**  If `b` starts with the
    start signature and decoding `b ++ t` consumed `8 * |b|` bits, then the reported bytes are `b` and
    decoding `b ++ t'` gives the same message for every `t'`. -/
theorem C04_decode_regardless_of_trailing {α : Type} (L : Layouts) (dc : DataCoder α)
    (hdc : ∀ reg, Local (dc.dec reg)) (o : DecOpts) (b t : List UInt8) (m : DecMsg α)
    (hb : startSig.isPrefixOf b = true) (h : decode L dc o (b ++ t) = .ok m) (hn : m.nbits = 8 * b.length) :
    m.serialized = b ∧ ∀ t', decode L dc o (b ++ t') = .ok m := by
  have hfind : ∀ u, findFrom startSig (b ++ u) = some (b ++ u) := by
    intro u
    cases b with
    | nil => simp [startSig] at hb
    | cons c cs =>
      have : startSig.isPrefixOf (c :: cs ++ u) = true := by
        rw [List.isPrefixOf_iff_prefix] at hb ⊢
        exact List.IsPrefix.trans hb (List.prefix_append _ _)
      simp only [List.cons_append] at this ⊢
      simp only [findFrom, this, if_true]
  have hbb : ∀ u, bytesToBits (b ++ u) = bytesToBits b ++ bytesToBits u := by
    intro u; simp [bytesToBits, List.flatMap_append]
  unfold decode at h
  rw [hfind t] at h
  simp only at h
  split at h
  · cases h
  rename_i out r hd
  cases h
  simp only at hn
  obtain ⟨p, hx, hpl, _, _, hall⟩ := C04_decode_consumes_declared L dc hdc o _ out r hd
  rw [hbb t] at hx
  have hlen : (bytesToBits b).length = p.length := by rw [bytesToBits_length, hpl, hn]
  obtain ⟨hp, hr⟩ := List.append_inj hx hlen
  refine ⟨?_, fun t' => ?_⟩
  · show (b ++ t).take (out.nbits / 8) = b
    rw [hn, Nat.mul_div_cancel_left _ (by omega : 0 < 8), List.take_left]
  · simp only [decode, hfind t', hbb t']
    rw [hp, hall (bytesToBits t')]
    simp only [hn, Nat.mul_div_cancel_left _ (by omega : 0 < 8), List.take_left]

/-- **An overrun is the library error.**  When the parameters of a section with a section length have
    consumed more bits than the declared length allows, decoding the section fails with the library
    error (`PyBufrKitError`), whatever the data reader. -/
theorem C04_overrun_is_error {α : Type} (dc : DataCoder α) (s : SectionLayout)
    (hh : s.hasParam "section_length" = true) (reg : Registry) (start : Nat) (x r : Bits) (st : DecSt α) (d : Nat)
    (hps : decParams dc start s.params 0 { reg := reg, acc := [], used := 0, data := none } x = .ok (st, r))
    (hd : secLen st.acc = .ok d) (hlt : d * 8 < st.used) :
    decSection dc s reg start x = .error .lib := by
  have h1 : ¬ (st.used < d * 8) := by omega
  simp only [decSection, R.bind, hps, finishSection, hh, if_true, hd, R.lift, R.pure, h1, hlt, if_false, R.fail]

/-! ## decode after encode

  `Layouts.WF` alone is NOT enough for the decoder to accept what the encoder wrote (counterexamples
  `C04_decode_encode_needs_aligned_descriptors`, `C04_decode_encode_needs_unpadded_nolen` below, both with
  well-formed three-section families).  The extra family conditions `RT.LayoutsOK` (decidable, met by the
  bundled family: `C04_bundled_layouts_rt`) are:
  * a `descriptors` parameter starts on an octet boundary of its section (otherwise the decoder's count
    `(section_length - nbytes_read) // 2` can exceed what was written, edition <= 3 padding);
  * a section without a section length has a width that is a multiple of 16 bits, i.e. the encoder never pads
    it (the decoder does not skip padding it cannot measure);
  * the properties the section loop itself consults (`edition`, `is_section<k>_presents`) are integers or
    flags (their round trip is exact);
  * a zero-width parameter has no expected value.

  Vocabulary (in `Lemmas/SectionsRT.lean`): `RT.encodeVisits L cfg vals payload` = the sections the encoder
  writes, each with its layout `s`, the values `vs` consumed, the encoder's registry `reg` and the writer
  position `start` when the section was opened; `RT.valsOK ps vs` = every `bin` value has the declared width
  of its parameter (the writer takes the width from the value) and every value with an expectation meets
  it (the encoder does not check); `RT.RegRel rE rD` = the decoder's registry `rD` is, entry by entry, the
  encoder's registry `rE` (same names, widths, bit positions) with values related by `RT.PRel`;
  `RT.SecsRel visits secs` = the decoded sections are the written ones: same index, parameter names in
  layout order, values related by `RT.PRel`:
    integers and flags as supplied (the back-patched `section_length` / `length` excepted: their decoded
    values are the real extents, `C04_decode_consumes_declared`, `C04_encoded_frame`), bytes blank-padded or
    cut to the width, a zero-width `bin` extended by the section's zero padding, a descriptor list exactly
    as supplied when the encoder recomputes lengths (`cfg.ignoreDeclared = true`, the first argument of
    `PRel`/`RegRel`/`SecsRel`) and otherwise possibly extended by null descriptors read from the zero fill
    of an over-declared section whose length is honoured, the template data parameter `PVal.data`. -/

/-- the bundled family meets the extra conditions -/
theorem C04_bundled_layouts_rt : RT.LayoutsOK Gen.layouts = true := by decide

/-- **decode after encode (full).**  For every well-formed layout family with the conditions above, every
    mode, values accepted by the encoder (`encode … = .ok r`) that start with the start signature and are
    valid for the layouts they were written with, and every data coder that accepts the payload — precisely:
    `dc.dec rD (payload ++ x) = .ok (a, x)` for every registry `rD` that is `RegRel`-related to the
    encoder's registry at the template-data parameter (the decoder's registry at that point is such a one:
    same entries, canonicalised values) — decoding `r.bytes ++ t` SUCCEEDS for every `t`, consumes exactly
    `r.bytes`, reports `serialized = r.bytes`, returns the data `a` and, section by section, the supplied
    parameter values up to the canonicalisation of the bit I/O (`RT.SecsRel`). -/
theorem C04_decode_encode {α : Type} (L : Layouts) (hL : L.WF = true) (hok : RT.LayoutsOK L = true) (cfg : EncCfg)
    (vals : List (List PVal)) (payload : Bits) (r : Encoded) (dc : DataCoder α) (a : α)
    (hsig : (vals.head?.bind List.head?) = some (PVal.bytes startSig))
    (h : encode L cfg vals payload = .ok r)
    (hvals : ∀ v ∈ RT.encodeVisits L cfg vals payload, RT.valsOK v.s.params v.vs = true)
    (hdec : ∀ v ∈ RT.encodeVisits L cfg vals payload, RT.hasData v.s.params = true →
      ∀ rD, RT.RegRel (cfg.ignoreDeclared = true) (register v.reg v.start 0 (RT.beforeData v.s.params) v.vs) rD →
        ∀ x, dc.dec rD (payload ++ x) = .ok (a, x))
    (t : List UInt8) :
    ∃ m, decode L dc {} (r.bytes ++ t) = .ok m ∧ m.serialized = r.bytes ∧ m.nbits = 8 * r.bytes.length ∧
      RT.SecsRel (cfg.ignoreDeclared = true) (RT.encodeVisits L cfg vals payload) m.sections ∧
      m.data = (if RT.visitsHaveData (RT.encodeVisits L cfg vals payload) = true then some a else none) := by
  -- the start signature
  obtain ⟨_, _, b0, _, mid, _, _, hb0, _, hbytes, _⟩ := C04_encoded_frame L hL cfg vals payload r h
  rw [hsig] at hb0
  injection hb0 with hb0
  injection hb0 with hb0
  subst hb0
  have hpre : startSig.isPrefixOf r.bytes = true := by
    have hps : padBytes startSig 4 = startSig := by decide
    rw [hbytes, hps, List.isPrefixOf_iff_prefix, List.append_assoc]
    exact List.prefix_append _ _
  have hfind : findFrom startSig (r.bytes ++ t) = some (r.bytes ++ t) := by
    cases hb : r.bytes with
    | nil => rw [hb] at hpre; simp [startSig] at hpre
    | cons c cs =>
      rw [hb] at hpre
      have : startSig.isPrefixOf (c :: cs ++ t) = true := by
        rw [List.isPrefixOf_iff_prefix] at hpre ⊢
        exact List.IsPrefix.trans hpre (List.prefix_append _ _)
      simp only [List.cons_append] at this ⊢
      simp only [findFrom, this, if_true]
  have hbb : bytesToBits (r.bytes ++ t) = bytesToBits r.bytes ++ bytesToBits t := by
    simp [bytesToBits, List.flatMap_append]
  -- the bits
  unfold encode at h
  split at h
  · cases h
  rename_i w tr hbits
  cases h
  have hw8 : w.length % 8 = 0 := by
    unfold encodeBits at hbits
    split at hbits
    · cases hbits
    split at hbits
    · cases hbits
    split at hbits
    · cases hbits
    · rename_i hne; cases hbits; simpa using hne
  have hwb : bytesToBits (bitsToBytes w) = w := bytesToBits_bitsToBytes (w.length / 8) w (by omega)
  have hwlen : w.length = 8 * (bitsToBytes w).length := by
    have := bytesToBits_length (bitsToBytes w); rw [hwb] at this; exact this
  obtain ⟨secs, hsecs, hrun⟩ := RT.encodeBits_rt dc a hL hok (fun hx => hx) hbits hvals hdec
  simp only at hfind hbb ⊢
  refine ⟨{ sections := secs,
             data := if RT.visitsHaveData (RT.encodeVisits L cfg vals payload) = true then some a else none,
             nbits := w.length, serialized := (bitsToBytes w ++ t).take (w.length / 8) }, ?_, ?_, ?_, hsecs, rfl⟩
  · simp only [decode, hfind, hbb, hwb, hrun (bytesToBits t)]
  · show (bitsToBytes w ++ t).take (w.length / 8) = bitsToBytes w
    rw [hwlen, Nat.mul_div_cancel_left _ (by omega : 0 < 8), List.take_left]
  · exact hwlen

/-- the same for a data coder that accepts the payload whatever the registry (e.g. `rawCoder`) -/
theorem C04_decode_encode_anyreg {α : Type} (L : Layouts) (hL : L.WF = true) (hok : RT.LayoutsOK L = true) (cfg : EncCfg)
    (vals : List (List PVal)) (payload : Bits) (r : Encoded) (dc : DataCoder α) (a : α)
    (hsig : (vals.head?.bind List.head?) = some (PVal.bytes startSig))
    (h : encode L cfg vals payload = .ok r)
    (hvals : ∀ v ∈ RT.encodeVisits L cfg vals payload, RT.valsOK v.s.params v.vs = true)
    (hdec : ∀ reg x, dc.dec reg (payload ++ x) = .ok (a, x)) (t : List UInt8) :
    ∃ m, decode L dc {} (r.bytes ++ t) = .ok m ∧ m.serialized = r.bytes ∧ m.nbits = 8 * r.bytes.length ∧
      RT.SecsRel (cfg.ignoreDeclared = true) (RT.encodeVisits L cfg vals payload) m.sections :=
  let ⟨m, h1, h2, h3, h4, _⟩ := C04_decode_encode L hL hok cfg vals payload r dc a hsig h hvals
    (fun _ _ _ rD _ x => hdec rD x) t
  ⟨m, h1, h2, h3, h4⟩

/-- decode after encode under the hypothesis that the decoder succeeded (any family, any options); kept
    for the files that use it — `C04_decode_encode` above discharges the hypothesis. -/
theorem C04_decode_encode_partial {α : Type} (L : Layouts) (hL : L.WF = true) (cfg : EncCfg)
    (vals : List (List PVal)) (payload : Bits) (r : Encoded) (dc : DataCoder α) (hdc : ∀ reg, Local (dc.dec reg))
    (o : DecOpts) (hsig : (vals.head?.bind List.head?) = some (PVal.bytes startSig))
    (h : encode L cfg vals payload = .ok r) (t : List UInt8) (m : DecMsg α)
    (hd : decode L dc o (r.bytes ++ t) = .ok m) (hn : m.nbits = 8 * r.bytes.length) :
    m.serialized = r.bytes ∧ ∀ t', decode L dc o (r.bytes ++ t') = .ok m := by
  obtain ⟨_, _, b0, _, mid, _, _, hb0, _, hbytes, _⟩ := C04_encoded_frame L hL cfg vals payload r h
  rw [hsig] at hb0
  injection hb0 with hb0
  injection hb0 with hb0
  subst hb0
  have hpre : startSig.isPrefixOf r.bytes = true := by
    have hps : padBytes startSig 4 = startSig := by decide
    rw [hbytes, hps, List.isPrefixOf_iff_prefix, List.append_assoc]
    exact List.prefix_append _ _
  exact C04_decode_regardless_of_trailing L dc hdc o r.bytes t m hpre hd hn

/-! ### why `Layouts.WF` alone does not suffice (counterexamples), and non-vacuity -/

/-- a well-formed family whose section 1 has 15 bits between the length field and the descriptors -/
def C04ex.misaligned : Layouts := [
  { index := 0, edition := 0, layout := { index := 0, params := [
      { name := "start_signature", nbits := 32, ty := .bytes, expected := some [66, 85, 70, 82] },
      { name := "length", nbits := 24, ty := .uint, asProperty := true },
      { name := "edition", nbits := 8, ty := .uint, asProperty := true }] } },
  { index := 1, edition := 0, layout := { index := 1, params := [
      { name := "section_length", nbits := 24, ty := .uint },
      { name := "x", nbits := 15, ty := .uint },
      { name := "descs", nbits := 0, ty := .descriptors }] } },
  { index := 2, edition := 0, layout := { index := 2, endOfMessage := true, params := [
      { name := "stop_signature", nbits := 32, ty := .bytes, expected := some [55, 55, 55, 55] }] } }]

/-- a well-formed family whose section 1 is one octet without a section length -/
def C04ex.nolen : Layouts := [
  { index := 0, edition := 0, layout := { index := 0, params := [
      { name := "start_signature", nbits := 32, ty := .bytes, expected := some [66, 85, 70, 82] },
      { name := "length", nbits := 24, ty := .uint, asProperty := true },
      { name := "edition", nbits := 8, ty := .uint, asProperty := true }] } },
  { index := 1, edition := 0, layout := { index := 1, params := [{ name := "x", nbits := 8, ty := .uint }] } },
  { index := 2, edition := 0, layout := { index := 2, endOfMessage := true, params := [
      { name := "stop_signature", nbits := 32, ty := .bytes, expected := some [55, 55, 55, 55] }] } }]

/-- **`C04_decode_encode` is false for `Layouts.WF` alone (1).**  With 15 bits before the descriptors and
    edition 3, one descriptor makes 55 bits, padded to 64 = 8 octets; the decoder computes
    `(8 - 39 // 8) // 2 = 2` descriptors, reads 7 bits into the next section and reports the overrun
    (`Err.lib`): the encoder's own output is refused. -/
theorem C04_decode_encode_needs_aligned_descriptors :
    C04ex.misaligned.WF = true ∧ RT.LayoutsOK C04ex.misaligned = false ∧
    (match encode C04ex.misaligned {} [[.bytes startSig, .int 0, .int 3], [.int 0, .int 0, .descs [1001]], [.bytes stopSig]] [] with
     | .ok r => (match decode C04ex.misaligned (rawCoder 0) {} r.bytes with | .error e => some e | .ok _ => none)
     | .error _ => none) = some Err.lib := by
  decide +kernel

/-- **… (2).**  A one-octet section without a section length is padded to two octets by the encoder
    (edition 3) and read as one octet by the decoder, which then finds `00 37 37 37` where it expects the
    stop signature: decoding the encoder's own output fails. -/
theorem C04_decode_encode_needs_unpadded_nolen :
    C04ex.nolen.WF = true ∧ RT.LayoutsOK C04ex.nolen = false ∧
    (match encode C04ex.nolen {} [[.bytes startSig, .int 0, .int 3], [.int 1], [.bytes stopSig]] [] with
     | .ok r => (decode C04ex.nolen (rawCoder 0) {} r.bytes).toOption.isNone
     | .error _ => false) = true := by
  decide +kernel

/-- values of the edition-3 example message -/
def C04ex.vals : List (List PVal) := [[.bytes startSig, .int 0, .int 3],
    [.int 0, .int 0, .int 0, .int 98, .int 0, .bool false, .bin (zeros 7), .int 2, .int 0, .int 29, .int 0,
     .int 20, .int 1, .int 2, .int 3, .int 4, .int 5],
    [.int 0, .bin (zeros 8), .int 1, .bool true, .bool false, .bin (zeros 6), .descs [31031, 31031, 31031, 31031, 31031]],
    [.int 0, .bin (zeros 8), .data], [.bytes stopSig]]

def C04ex.payload : Bits := [true, false, true, true, false]

def C04ex.bytes : List UInt8 :=
  [66, 85, 70, 82, 0, 0, 54, 3, 0, 0, 18, 0, 0, 98, 0, 0, 2, 0, 29, 0, 20, 1, 2, 3, 4, 5, 0, 0, 18, 0, 0, 1, 128,
   31, 31, 31, 31, 31, 31, 31, 31, 31, 31, 0, 0, 0, 6, 0, 176, 0, 55, 55, 55, 55]

theorem C04_ex_encodes : encode Gen.layouts {} C04ex.vals C04ex.payload =
    .ok { bytes := C04ex.bytes, trace := [(0, 64), (1, 144), (3, 144), (4, 48), (5, 32)] } := by decide +kernel

/-- the values are valid for the layouts they are written with (five sections: 0, 1, 3, 4, 5) -/
theorem C04_ex_valid : ∀ v ∈ RT.encodeVisits Gen.layouts {} C04ex.vals C04ex.payload, RT.valsOK v.s.params v.vs = true := by
  decide +kernel

/-- non-vacuity of `C04_decode_encode`: every hypothesis holds for the example message and the raw data
    coder, so whatever follows the 54 octets, they decode, are consumed exactly and reported as `serialized` -/
example (t : List UInt8) : ∃ m, decode Gen.layouts (rawCoder 5) {} (C04ex.bytes ++ t) = .ok m ∧
    m.serialized = C04ex.bytes ∧ m.nbits = 432 ∧ m.data = some C04ex.payload := by
  obtain ⟨m, h1, h2, h3, _, h5⟩ := C04_decode_encode Gen.layouts C04_bundled_layouts_wf C04_bundled_layouts_rt {}
    C04ex.vals C04ex.payload _ (rawCoder 5) C04ex.payload rfl C04_ex_encodes C04_ex_valid
    (fun _ _ _ rD _ x => readBits_append_of_length 5 C04ex.payload x rfl) t
  refine ⟨m, h1, h2, h3, ?_⟩
  rw [h5]
  have : RT.visitsHaveData (RT.encodeVisits Gen.layouts {} C04ex.vals C04ex.payload) = true := by decide +kernel
  rw [this]; rfl

/-- the registries `hdec` quantifies over, on the example: the encoder's registry at the template data … -/
theorem C04_ex_dataReg : (RT.encodeVisits Gen.layouts {} C04ex.vals C04ex.payload).filterMap
      (fun v => if RT.hasData v.s.params then
        some (let r := register v.reg v.start 0 (RT.beforeData v.s.params) v.vs
              (r.get? "n_subsets", r.get? "is_compressed", r.get? "unexpanded_descriptors")) else none) =
    [(some ⟨.int 1, 16, 240⟩, some ⟨.bool false, 1, 257⟩,
      some ⟨.descs [31031, 31031, 31031, 31031, 31031], 0, 264⟩)] := by decide +kernel

/-- … and every decoder registry related to it holds exactly the supplied number of subsets and
    descriptor list (lengths are recomputed: no null descriptors appended), so a data coder that derives
    its template from these properties sees what was supplied -/
example (rE rD : Registry) (hE1 : rE.get? "n_subsets" = some ⟨.int 1, 16, 240⟩)
    (hE2 : rE.get? "unexpanded_descriptors" = some ⟨.descs [31031, 31031, 31031, 31031, 31031], 0, 264⟩)
    (h : RT.RegRel (({} : EncCfg).ignoreDeclared = true) rE rD) :
    (rD.get? "n_subsets").map (·.val) = some (.int 1) ∧
    (rD.get? "unexpanded_descriptors").map (·.val) = some (.descs [31031, 31031, 31031, 31031, 31031]) := by
  obtain ⟨e1, h1, _, _, p1⟩ := RT.RegRel_lookup h _ _ hE1
  obtain ⟨e2, h2, _, _, p2⟩ := RT.RegRel_lookup h _ _ hE2
  refine ⟨?_, ?_⟩
  · rw [h1]
    rcases p1 with (h0 | h0) | h0
    · exact absurd h0 (by decide)
    · exact absurd h0 (by decide)
    · simp [h0]
  · rw [h2]
    obtain ⟨k, hk, hk0⟩ := p2
    have := hk0 rfl
    subst this
    simp [hk]

/-- non-vacuity: the bundled family meets the hypothesis, and a concrete edition-3 message with a
    5-bit payload encodes (so the conclusions above speak about something) -/
example : (encode Gen.layouts {} [[.bytes startSig, .int 0, .int 3],
    [.int 0, .int 0, .int 0, .int 98, .int 0, .bool false, .bin (zeros 7), .int 2, .int 0, .int 29, .int 0,
     .int 20, .int 1, .int 2, .int 3, .int 4, .int 5],
    [.int 0, .bin (zeros 8), .int 1, .bool true, .bool false, .bin (zeros 6), .descs [31031, 31031, 31031, 31031, 31031]],
    [.int 0, .bin (zeros 8), .data], [.bytes stopSig]] [true, false, true, true, false]).map (·.bytes.length) = .ok 54 := by
  decide +kernel

/-- non-vacuity (decoder): the raw data coder is prefix-determined, and the message above decodes -/
example (n : Nat) : ∀ reg, Local ((rawCoder n).dec reg) := fun _ => local_readBits n

end Bufr
