/-
  C05, walk level (encoder side): COMPRESSION IS TRANSPARENT for labels, links and acceptance, as an
  instance of the generic simulation theorem (`Lemmas/Sim.lean`).

  The statement is about the CHECKED compressed encoder `encodeCompressedX` (`Lemmas/SimComp.lean`):
  the compressed encoder with three extra refusals — a numeric / code / flag value of some subset that
  the uncompressed encoder would refuse (the compressed encoder checks only the minimum of a column
  against the field width); replication factors that are not literally equal in all subsets; bitmaps
  whose zero entries differ between subsets.  These are exactly the ways in which subsets can fail to
  "share structure".  Whenever it succeeds,
    * the real compressed encoder succeeds with the same result                 (`C05_walk_erase`);
    * the uncompressed encoder accepts every subset on its own and reports for it exactly what the
      compressed encoder reports for it: the same descriptor labels, values and attribute links
                                                          (`C05_walk_encoder_transparent_partial`);
    * hence `encodeData … false` succeeds on the same subsets with the same report
                                                          (`C05_walk_encodeData_transparent_partial`).

  `_partial`: what is missing for the full property ("… decode to identical values") is the
  decoder half — `encPrimsCX ⟶ decPrimsC` (an indexed simulation exactly like `primSim_enc_dec`, with
  the column round trip `C05_column_roundtrip` / `C05_string_column_roundtrip` in the place of the
  field codecs) composed with this projection and with `C03_walk_roundtrip`; see notes/C05Walk.md.

  FULL STATEMENT (not proved here):
    theorem C05_walk_transparent (t valss) (h : encodeCompressedX' t valss = .ok (os, canons, b)) :
      decodeCompressed t valss.length (b.reverse ++ rest) = .ok (withCanon os canons, rest) ∧
      ∀ k row, valss[k]? = some row → ∃ o b', encodeSubset t row [] = .ok (o, b') ∧
        decodeSubset t (b'.reverse ++ rest') = .ok ((withCanon os canons)[k], rest')
  where `encodeCompressedX'` additionally refuses values that hit the all-ones pattern of their field
  and missing values in one-bit fields (both decode differently compressed / uncompressed).
-/
import BufrModel.Lemmas.SimComp
namespace Bufr

/-- the checked compressed encoder on a whole data section -/
def encodeCompressedX (tmpl : List Desc) (valss : List (List Val)) : CM (List SubsetOut × Bits) :=
  match walkList encPrimsCX tmpl { bits := [], vals := valss } with
  | .error e => .error e
  | .ok s => .ok (valss.map (fun l => { descs := s.descs.reverse, vals := l, links := s.links.reverse }), s.bits)

/-- whatever the checked compressed encoder accepts, the compressed encoder accepts, same result -/
theorem C05_walk_erase {t : List Desc} {valss : List (List Val)} {r : List SubsetOut × Bits}
    (h : encodeCompressedX t valss = .ok r) : encodeCompressed t valss = .ok r := by
  unfold encodeCompressedX at h
  unfold encodeCompressed
  cases hw : walkList encPrimsCX t { bits := [], vals := valss } with
  | error e => rw [hw] at h; cases h
  | ok s =>
    rw [hw] at h
    obtain ⟨t', ht', rfl⟩ := walk_sim primSim_eraseC (t := { bits := [], vals := valss }) rfl hw
    rw [ht']
    exact h

/-- Encoder-side transparency, per subset: what the checked compressed encoder accepts for all
    subsets together, the uncompressed encoder accepts for each subset alone (after any bits `pre`),
    and it reports exactly the entry the compressed encoder reports for that subset. -/
theorem C05_walk_encoder_transparent_partial {t : List Desc} {valss : List (List Val)}
    {os : List SubsetOut} {b : Bits} (h : encodeCompressedX t valss = .ok (os, b))
    {k : Nat} {row : List Val} (hk : valss[k]? = some row) (pre : Bits) :
    ∃ o b', encodeSubset t row pre = .ok (o, b') ∧ os[k]? = some o := by
  unfold encodeCompressedX at h
  cases hw : walkList encPrimsCX t { bits := [], vals := valss } with
  | error e => rw [hw] at h; cases h
  | ok s =>
    rw [hw] at h
    cases h
    obtain ⟨t', ht', h1, h2, h3, h4, _⟩ :=
      walk_sim (primSim_proj k) (s := { bits := [], vals := valss }) (t := { bits := pre, vals := [row] })
        ⟨rfl, rfl, rfl, rfl, row, hk, rfl⟩ hw
    refine ⟨{ descs := t'.descs.reverse, vals := row, links := t'.links.reverse }, t'.bits, ?_, ?_⟩
    · unfold encodeSubset
      rw [ht']
    · simp only [List.getElem?_map, hk, Option.map_some, h2, h3]

/-- Encoder-side transparency for the whole data section: `encodeData` accepts the same subsets
    uncompressed and reports the same labels, values and links for every subset. -/
theorem C05_walk_encodeData_transparent_partial {t : List Desc} {valss : List (List Val)}
    {os : List SubsetOut} {b : Bits} (h : encodeCompressedX t valss = .ok (os, b)) :
    encodeData t true valss = .ok (os, b.reverse) ∧
      ∃ bits, encodeData t false valss = .ok (os, bits) := by
  refine ⟨by simp [encodeData, C05_walk_erase h], ?_⟩
  have hos : os = valss.map (fun l => (os.headD default |>.descs, l, os.headD default |>.links)
      |> fun p => ({ descs := p.1, vals := p.2.1, links := p.2.2 } : SubsetOut)) := by
    unfold encodeCompressedX at h
    cases hw : walkList encPrimsCX t { bits := [], vals := valss } with
    | error e => rw [hw] at h; cases h
    | ok s =>
      rw [hw] at h
      cases h
      cases valss with
      | nil => rfl
      | cons v vs => simp
  -- every suffix of the subsets is accepted, after any bits
  have key : ∀ (n : Nat) (pre : Bits),
      ∃ bits, encodeSubsets t (valss.drop n) pre = .ok (os.drop n, bits) := by
    intro n
    induction hm : valss.length - n generalizing n with
    | zero =>
      intro pre
      have hlen : os.length = valss.length := by rw [hos]; simp
      rw [List.drop_eq_nil_of_le (by omega), List.drop_eq_nil_of_le (by omega)]
      exact ⟨pre, rfl⟩
    | succ m ih =>
      intro pre
      have hlt : n < valss.length := by omega
      obtain ⟨o, b', he, ho⟩ :=
        C05_walk_encoder_transparent_partial h (k := n) (row := valss[n]) (by simp [hlt]) pre
      obtain ⟨bits, hb⟩ := ih (n + 1) (by omega) b'
      have hlen : os.length = valss.length := by rw [hos]; simp
      have hon : o = os[n]'(by omega) := by
        rw [List.getElem?_eq_getElem (by omega)] at ho
        exact (Option.some.inj ho).symm
      rw [List.drop_eq_getElem_cons hlt, List.drop_eq_getElem_cons (by omega : n < os.length)]
      refine ⟨bits, ?_⟩
      simp only [encodeSubsets, he, hb, hon]
  obtain ⟨bits, hb⟩ := key 0 []
  have hb0 : encodeSubsets t valss [] = .ok (os, bits) := by simpa using hb
  exact ⟨bits.reverse, by simp [encodeData, hb0]⟩

/-! ### non-vacuity, and why the checks are there -/

namespace C05WalkEx

def tmpl : List Desc :=
  [ .elem { id := 12001, kind := .numeric, nbits := 12, scale := 1, ref := -100 },
    .delayedRep 101000 (.elem { id := 31001, kind := .numeric, nbits := 8, scale := 0, ref := 0 })
      [ .elem { id := 20003, kind := .codeflag, nbits := 4, scale := 0, ref := 0 } ],
    .elem { id := 1015, kind := .string, nbits := 16, scale := 0, ref := 0 } ]

/-- two subsets with the same replication factor -/
def valss : List (List Val) :=
  [ [ .num 215 1, .int 2, .int 3, .missing, .bytes [65] ],
    [ .num 180 1, .int 2, .int 5, .int 7, .bytes [66, 67] ] ]

/-- the hypothesis of the theorems above is satisfiable (128 bits are written) -/
theorem accepted : (encodeCompressedX tmpl valss).map (fun x => x.2.length) = .ok 128 := by
  decide +kernel

example : ∃ os bits, encodeData tmpl true valss = .ok (os, bits) ∧
    ∃ bits', encodeData tmpl false valss = .ok (os, bits') := by
  cases h : encodeCompressedX tmpl valss with
  | error e => have := accepted; rw [h] at this; cases this
  | ok r =>
    obtain ⟨os, b⟩ := r
    obtain ⟨h1, h2⟩ := C05_walk_encodeData_transparent_partial h
    exact ⟨os, _, h1, h2⟩

/-- an 8-bit numeric element -/
def tmpl8 : List Desc := [ .elem { id := 12001, kind := .numeric, nbits := 8, scale := 0, ref := 0 } ]

/-- Why check 1 is there: the compressed encoder range-checks only the MINIMUM of a column.  300 does
    not fit 8 bits: the uncompressed encoder refuses it, the compressed encoder writes it (as an
    increment of 9 bits) and the compressed decoder returns it. -/
example :
    (encodeSubset tmpl8 [.int 300] []).toBool = false ∧
    (encodeCompressedX tmpl8 [[.int 0], [.int 300]]).toBool = false ∧
    (encodeCompressed tmpl8 [[.int 0], [.int 300]]).map
        (fun x => (decodeCompressed tmpl8 2 x.2.reverse).map (fun y => y.1.map (·.vals)))
      = .ok (.ok [[.int 0], [.int 300]]) := by decide +kernel

/-- Why the full statement needs one more refusal: 255 is the all-ones pattern of an 8-bit field.
    Uncompressed it reads back as missing; in a compressed column next to a different value it reads
    back as 255 (the decoder re-checks the field's missing pattern only for code / flag tables). -/
example :
    (encodeSubset tmpl8 [.int 255] []).map
        (fun x => (decodeSubset tmpl8 x.2.reverse).map (fun y => y.1.vals)) = .ok (.ok [.missing]) ∧
    (encodeCompressed tmpl8 [[.int 0], [.int 255]]).map
        (fun x => (decodeCompressed tmpl8 2 x.2.reverse).map (fun y => y.1.map (·.vals)))
      = .ok (.ok [[.int 0], [.int 255]]) := by decide +kernel

end C05WalkEx

end Bufr
