/-
  C05, walk level (encoder side): COMPRESSION IS TRANSPARENT for labels, links and acceptance, as an
  instance of the generic simulation theorem (`Lemmas/Sim.lean`).

  The statement is about the CHECKED compressed encoder `encodeCompressedX` (`Lemmas/SimComp.lean`):
  the compressed encoder with three extra refusals — a numeric / code / flag value of some subset that
  the uncompressed encoder would refuse (the compressed encoder checks only the minimum of a column
  against the field width); replication factors that are not literally equal in all subsets; bitmaps
  whose zero entries differ between subsets.  These are exactly the ways in which subsets can fail to
  "share structure".  Whenever it succeeds,
    * the real compressed encoder succeeds with the same result                 (`C05_walk_erase`);
    * the uncompressed encoder accepts every subset on its own and reports for it exactly what the
      compressed encoder reports for it: the same descriptor labels, values and attribute links
                                                          (`C05_walk_encoder_transparent_partial`);
    * hence `encodeData … false` succeeds on the same subsets with the same report
                                                          (`C05_walk_encodeData_transparent_partial`).

  The two `_partial` theorems are the ENCODER half.  The decoder half and the full property are in the
  second part of this file: `C05_walk_compressed_roundtrip`, `C05_walk_subset_canon`,
  `C05_walk_transparent`, `C05_walk_transparent_eq`, for `encodeCompressedT` — `encodeCompressedX`
  with the further refusals without which compressed and uncompressed decoding differ (a missing
  value in a one-bit field next to present ones, fields wider than 64 bits, structural values that do
  not read back as supplied); see there.
-/
import BufrModel.Lemmas.SimComp
import BufrModel.Lemmas.SimCompDec
import BufrModel.Props.C03Walk
namespace Bufr

/-- the checked compressed encoder on a whole data section -/
def encodeCompressedX (tmpl : List Desc) (valss : List (List Val)) : CM (List SubsetOut × Bits) :=
  match walkList encPrimsCX tmpl { bits := [], vals := valss } with
  | .error e => .error e
  | .ok s => .ok (valss.map (fun l => { descs := s.descs.reverse, vals := l, links := s.links.reverse }), s.bits)

/-- whatever the checked compressed encoder accepts, the compressed encoder accepts, same result -/
theorem C05_walk_erase {t : List Desc} {valss : List (List Val)} {r : List SubsetOut × Bits}
    (h : encodeCompressedX t valss = .ok r) : encodeCompressed t valss = .ok r := by
  unfold encodeCompressedX at h
  unfold encodeCompressed
  cases hw : walkList encPrimsCX t { bits := [], vals := valss } with
  | error e => rw [hw] at h; cases h
  | ok s =>
    rw [hw] at h
    obtain ⟨t', ht', rfl⟩ := walk_sim primSim_eraseC (t := { bits := [], vals := valss }) rfl hw
    rw [ht']
    exact h

/-- Encoder-side transparency, per subset: what the checked compressed encoder accepts for all
    subsets together, the uncompressed encoder accepts for each subset alone (after any bits `pre`),
    and it reports exactly the entry the compressed encoder reports for that subset. -/
theorem C05_walk_encoder_transparent_partial {t : List Desc} {valss : List (List Val)}
    {os : List SubsetOut} {b : Bits} (h : encodeCompressedX t valss = .ok (os, b))
    {k : Nat} {row : List Val} (hk : valss[k]? = some row) (pre : Bits) :
    ∃ o b', encodeSubset t row pre = .ok (o, b') ∧ os[k]? = some o := by
  unfold encodeCompressedX at h
  cases hw : walkList encPrimsCX t { bits := [], vals := valss } with
  | error e => rw [hw] at h; cases h
  | ok s =>
    rw [hw] at h
    cases h
    obtain ⟨t', ht', h1, h2, h3, h4, _⟩ :=
      walk_sim (primSim_proj k) (s := { bits := [], vals := valss }) (t := { bits := pre, vals := [row] })
        ⟨rfl, rfl, rfl, rfl, row, hk, rfl⟩ hw
    refine ⟨{ descs := t'.descs.reverse, vals := row, links := t'.links.reverse }, t'.bits, ?_, ?_⟩
    · unfold encodeSubset
      rw [ht']
    · simp only [List.getElem?_map, hk, Option.map_some, h2, h3]

/-- Encoder-side transparency for the whole data section: `encodeData` accepts the same subsets
    uncompressed and reports the same labels, values and links for every subset. -/
theorem C05_walk_encodeData_transparent_partial {t : List Desc} {valss : List (List Val)}
    {os : List SubsetOut} {b : Bits} (h : encodeCompressedX t valss = .ok (os, b)) :
    encodeData t true valss = .ok (os, b.reverse) ∧
      ∃ bits, encodeData t false valss = .ok (os, bits) := by
  refine ⟨by simp [encodeData, C05_walk_erase h], ?_⟩
  have hos : os = valss.map (fun l => (os.headD default |>.descs, l, os.headD default |>.links)
      |> fun p => ({ descs := p.1, vals := p.2.1, links := p.2.2 } : SubsetOut)) := by
    unfold encodeCompressedX at h
    cases hw : walkList encPrimsCX t { bits := [], vals := valss } with
    | error e => rw [hw] at h; cases h
    | ok s =>
      rw [hw] at h
      cases h
      cases valss with
      | nil => rfl
      | cons v vs => simp
  -- every suffix of the subsets is accepted, after any bits
  have key : ∀ (n : Nat) (pre : Bits),
      ∃ bits, encodeSubsets t (valss.drop n) pre = .ok (os.drop n, bits) := by
    intro n
    induction hm : valss.length - n generalizing n with
    | zero =>
      intro pre
      have hlen : os.length = valss.length := by rw [hos]; simp
      rw [List.drop_eq_nil_of_le (by omega), List.drop_eq_nil_of_le (by omega)]
      exact ⟨pre, rfl⟩
    | succ m ih =>
      intro pre
      have hlt : n < valss.length := by omega
      obtain ⟨o, b', he, ho⟩ :=
        C05_walk_encoder_transparent_partial h (k := n) (row := valss[n]) (by simp [hlt]) pre
      obtain ⟨bits, hb⟩ := ih (n + 1) (by omega) b'
      have hlen : os.length = valss.length := by rw [hos]; simp
      have hon : o = os[n]'(by omega) := by
        rw [List.getElem?_eq_getElem (by omega)] at ho
        exact (Option.some.inj ho).symm
      rw [List.drop_eq_getElem_cons hlt, List.drop_eq_getElem_cons (by omega : n < os.length)]
      refine ⟨bits, ?_⟩
      simp only [encodeSubsets, he, hb, hon]
  obtain ⟨bits, hb⟩ := key 0 []
  have hb0 : encodeSubsets t valss [] = .ok (os, bits) := by simpa using hb
  exact ⟨bits.reverse, by simp [encodeData, hb0]⟩

/-! ### non-vacuity, and why the checks are there -/

namespace C05WalkEx

def tmpl : List Desc :=
  [ .elem { id := 12001, kind := .numeric, nbits := 12, scale := 1, ref := -100 },
    .delayedRep 101000 (.elem { id := 31001, kind := .numeric, nbits := 8, scale := 0, ref := 0 })
      [ .elem { id := 20003, kind := .codeflag, nbits := 4, scale := 0, ref := 0 } ],
    .elem { id := 1015, kind := .string, nbits := 16, scale := 0, ref := 0 } ]

/-- two subsets with the same replication factor -/
def valss : List (List Val) :=
  [ [ .num 215 1, .int 2, .int 3, .missing, .bytes [65] ],
    [ .num 180 1, .int 2, .int 5, .int 7, .bytes [66, 67] ] ]

/-- the hypothesis of the theorems above is satisfiable (128 bits are written) -/
theorem accepted : (encodeCompressedX tmpl valss).map (fun x => x.2.length) = .ok 128 := by
  decide +kernel

example : ∃ os bits, encodeData tmpl true valss = .ok (os, bits) ∧
    ∃ bits', encodeData tmpl false valss = .ok (os, bits') := by
  cases h : encodeCompressedX tmpl valss with
  | error e => have := accepted; rw [h] at this; cases this
  | ok r =>
    obtain ⟨os, b⟩ := r
    obtain ⟨h1, h2⟩ := C05_walk_encodeData_transparent_partial h
    exact ⟨os, _, h1, h2⟩

/-- an 8-bit numeric element -/
def tmpl8 : List Desc := [ .elem { id := 12001, kind := .numeric, nbits := 8, scale := 0, ref := 0 } ]

/-- Why check 1 is there: the compressed encoder range-checks only the MINIMUM of a column.  300 does
    not fit 8 bits: the uncompressed encoder refuses it, the compressed encoder writes it (as an
    increment of 9 bits) and the compressed decoder returns it. -/
example :
    (encodeSubset tmpl8 [.int 300] []).toBool = false ∧
    (encodeCompressedX tmpl8 [[.int 0], [.int 300]]).toBool = false ∧
    (encodeCompressed tmpl8 [[.int 0], [.int 300]]).map
        (fun x => (decodeCompressed tmpl8 2 x.2.reverse).map (fun y => y.1.map (·.vals)))
      = .ok (.ok [[.int 0], [.int 300]]) := by decide +kernel

/-- 255 is the all-ones pattern of an 8-bit field.  Uncompressed it reads back as missing; since the repair of
    finding F18 (`_all_ones_as_missing` in the compressed encoder, mirrored by `encIntColumnN`) a compressed
    column treats it as missing too, so both encodings agree (before, it read back as 255 when compressed). -/
example :
    (encodeSubset tmpl8 [.int 255] []).map
        (fun x => (decodeSubset tmpl8 x.2.reverse).map (fun y => y.1.vals)) = .ok (.ok [.missing]) ∧
    (encodeCompressed tmpl8 [[.int 0], [.int 255]]).map
        (fun x => (decodeCompressed tmpl8 2 x.2.reverse).map (fun y => y.1.map (·.vals)))
      = .ok (.ok [[.int 0], [.missing]]) := by decide +kernel

end C05WalkEx

/-! ## The decoder half: compressed round trip and TRANSPARENCY

  The statements are about `encodeCompressedT`: the compressed encoder CHECKED FOR TRANSPARENCY
  (`encPrimsCT`, `Lemmas/SimCompDec.lean`), i.e. `encodeCompressedX` with ghost rows (per subset, the
  values a decoder returns) and the further refusals listed at `encPrimsCT`: numeric / code / flag
  fields wider than 64 bits; a missing value in a ONE-BIT field of a column whose subsets do not all
  supply the same value; a replication factor or bitmap entry whose field does not read back as
  supplied.  Each is shown necessary by an example below (`C05WalkTEx`).  A present value equal to the
  all-ones pattern of its field is NOT refused (since the repair of finding F18 both forms read it
  back as missing).  Whenever it succeeds,
    * `encodeCompressedX`, hence the real compressed encoder, succeeds with the same report and
      bits                                                              (`C05_walk_eraseT`);
    * the compressed decoder, run on those bits followed by anything, consumes exactly them and
      returns for every subset the same labels and links and the canonical values
                                                                        (`C05_walk_compressed_roundtrip`);
    * the checked uncompressed encoder accepts every subset alone, with the same labels, links and
      the SAME canonical values                                         (`C05_walk_subset_canon`);
    * hence both forms decode to the same `List SubsetOut`               (`C05_walk_transparent`,
                                                                         `C05_walk_transparent_eq`). -/

/-- ghost rows at the start: one empty row per subset -/
def ghostInit (valss : List (List Val)) : List (Nat × List Val) := valss.map (fun _ => (0, []))

/-- the compressed encoder checked for transparency on a whole data section: the report per subset,
    the canonical values per subset (what a decoder returns), the bits (most recent first) -/
def encodeCompressedT (tmpl : List Desc) (valss : List (List Val)) :
    CM (List SubsetOut × List (List Val) × Bits) :=
  match walkList encPrimsCT tmpl { bits := [], vals := valss, forced := ghostInit valss } with
  | .error e => .error e
  | .ok s => .ok (valss.map (fun l => { descs := s.descs.reverse, vals := l, links := s.links.reverse }),
                  s.forced.map (·.2.reverse), s.bits)

/-- whatever `encodeCompressedT` accepts, `encodeCompressedX` accepts, with the same report and bits -/
theorem C05_walk_eraseT {t : List Desc} {valss : List (List Val)}
    {os : List SubsetOut} {canons : List (List Val)} {b : Bits}
    (h : encodeCompressedT t valss = .ok (os, canons, b)) : encodeCompressedX t valss = .ok (os, b) := by
  unfold encodeCompressedT at h
  unfold encodeCompressedX
  cases hw : walkList encPrimsCT t { bits := [], vals := valss, forced := ghostInit valss } with
  | error e => rw [hw] at h; cases h
  | ok s =>
    rw [hw] at h
    cases h
    obtain ⟨t', ht', h1, h2, h3, h4, h5, h6⟩ :=
      walk_sim primSim_ct_cx (s := { bits := [], vals := valss, forced := ghostInit valss })
        (t := { bits := [], vals := valss }) ⟨rfl, rfl, rfl, rfl, rfl, rfl⟩ hw
    rw [ht']
    simp only [h2, h3, h6]

/-- the decoder run that mirrors a run of the checked compressed encoder -/
theorem C05_walk_dec_run {t : List Desc} {valss : List (List Val)} {s : St}
    (hw : walkList encPrimsCT t { bits := [], vals := valss, forced := ghostInit valss } = .ok s)
    (rest : Bits) :
    ∃ t', walkList decPrimsC t { bits := s.bits.reverse ++ rest, vals := List.replicate valss.length [] }
        = .ok t' ∧ RelCD valss.length rest s t' := by
  obtain ⟨i, ⟨hW, out, hi⟩, hsim⟩ :=
    walk_sim_ix (primSim_ct_dec (s.bits.reverse ++ rest) rest valss.length) hw (j := rest) ⟨rfl, [], rfl⟩
  have hi' : i = s.bits.reverse ++ rest := by simpa using hW
  subst hi'
  exact hsim { bits := s.bits.reverse ++ rest, vals := List.replicate valss.length [] }
    ⟨rfl, rfl, rfl, rfl, by simp [ghostInit, List.map_const'], by simp [ghostInit], rfl⟩

theorem c05w_withCanon_map (D : List DDesc) (K : List (Nat × Nat)) (g : (Nat × List Val) → List Val) :
    ∀ (valss : List (List Val)) (forced : List (Nat × List Val)), forced.length = valss.length →
      withCanon (valss.map (fun l => ({ descs := D, vals := l, links := K } : SubsetOut))) (forced.map g)
        = forced.map (fun x => ({ descs := D, vals := g x, links := K } : SubsetOut))
  | [], [], _ => rfl
  | [], _ :: _, h => by simp at h
  | _ :: _, [], h => by simp at h
  | v :: vs, f :: fs, h => by
    have ih := c05w_withCanon_map D K g vs fs (by simpa using h)
    simp only [withCanon, List.map_cons, List.zipWith_cons_cons] at ih ⊢
    rw [ih]

/-- COMPRESSED ROUND TRIP: what the checked compressed encoder accepts is written by the compressed
    encoder, and the compressed decoder reads it back — for every subset the same descriptor labels,
    the same attribute links, the canonical values — leaving exactly what followed. -/
theorem C05_walk_compressed_roundtrip {t : List Desc} {valss : List (List Val)}
    {os : List SubsetOut} {canons : List (List Val)} {b : Bits}
    (h : encodeCompressedT t valss = .ok (os, canons, b)) :
    encodeCompressed t valss = .ok (os, b) ∧
      ∀ rest, decodeCompressed t valss.length (b.reverse ++ rest) = .ok (withCanon os canons, rest) := by
  refine ⟨C05_walk_erase (C05_walk_eraseT h), fun rest => ?_⟩
  unfold encodeCompressedT at h
  cases hw : walkList encPrimsCT t { bits := [], vals := valss, forced := ghostInit valss } with
  | error e => rw [hw] at h; cases h
  | ok s =>
    rw [hw] at h
    cases h
    obtain ⟨t', ht', h1, h2, h3, h4, h5, h6, h7⟩ := C05_walk_dec_run hw rest
    unfold decodeCompressed
    rw [ht']
    simp only [St.outs, h2, h3, h4, h5, c05w_withCanon_map _ _ _ valss s.forced h6, List.map_map]
    rfl

/-- the number of subsets reported -/
theorem C05_walk_T_lengths {t : List Desc} {valss : List (List Val)}
    {os : List SubsetOut} {canons : List (List Val)} {b : Bits}
    (h : encodeCompressedT t valss = .ok (os, canons, b)) :
    os.length = valss.length ∧ canons.length = valss.length := by
  unfold encodeCompressedT at h
  cases hw : walkList encPrimsCT t { bits := [], vals := valss, forced := ghostInit valss } with
  | error e => rw [hw] at h; cases h
  | ok s =>
    rw [hw] at h
    cases h
    obtain ⟨t', _, _, _, _, _, _, h6, _⟩ := C05_walk_dec_run hw []
    simp [h6]

/-- SAME CANONICAL VALUES, per subset: the checked UNCOMPRESSED encoder (`encodeSubsetX`, the
    hypothesis of the C03 round trip) accepts every subset alone, after any bits `pre`, and computes
    the report and the canonical values that the compressed run has for that subset. -/
theorem C05_walk_subset_canon {t : List Desc} {valss : List (List Val)}
    {os : List SubsetOut} {canons : List (List Val)} {b : Bits}
    (h : encodeCompressedT t valss = .ok (os, canons, b))
    {k : Nat} {row : List Val} (hk : valss[k]? = some row) (pre : Bits) :
    ∃ o c b', encodeSubsetX t row pre = .ok (o, c, b') ∧ os[k]? = some o ∧ canons[k]? = some c := by
  unfold encodeCompressedT at h
  cases hw : walkList encPrimsCT t { bits := [], vals := valss, forced := ghostInit valss } with
  | error e => rw [hw] at h; cases h
  | ok s =>
    rw [hw] at h
    cases h
    obtain ⟨t', ht', h1, h2, h3, h4, _, ⟨g, hg, haux⟩⟩ :=
      walk_sim (primSim_ct_ux k) (s := { bits := [], vals := valss, forced := ghostInit valss })
        (t := { bits := pre, vals := [row] })
        ⟨rfl, rfl, rfl, rfl, ⟨row, hk, rfl⟩, ⟨(0, []), by simp [ghostInit, hk], rfl⟩⟩ hw
    refine ⟨{ descs := t'.descs.reverse, vals := row, links := t'.links.reverse }, t'.aux.reverse,
      t'.bits, ?_, ?_, ?_⟩
    · unfold encodeSubsetX
      rw [ht']
    · simp only [List.getElem?_map, hk, Option.map_some, h2, h3]
    · simp only [List.getElem?_map, hg, Option.map_some, haux]

/-- the checked uncompressed encoder accepts the whole data section, same report, same canonical values -/
theorem C05_walk_dataUX {t : List Desc} {valss : List (List Val)}
    {os : List SubsetOut} {canons : List (List Val)} {b : Bits}
    (h : encodeCompressedT t valss = .ok (os, canons, b)) :
    ∃ bitsU, encodeDataUX t valss = .ok (os, canons, bitsU) := by
  obtain ⟨hlo, hlc⟩ := C05_walk_T_lengths h
  have key : ∀ (n : Nat) (pre : Bits),
      ∃ bits, encodeSubsetsX t (valss.drop n) pre = .ok (os.drop n, canons.drop n, bits) := by
    intro n
    induction hm : valss.length - n generalizing n with
    | zero =>
      intro pre
      rw [List.drop_eq_nil_of_le (by omega), List.drop_eq_nil_of_le (by omega),
        List.drop_eq_nil_of_le (by omega)]
      exact ⟨pre, rfl⟩
    | succ m ih =>
      intro pre
      have hlt : n < valss.length := by omega
      obtain ⟨o, c, b', he, ho, hc⟩ :=
        C05_walk_subset_canon h (k := n) (row := valss[n]) (by simp [hlt]) pre
      obtain ⟨bits, hb⟩ := ih (n + 1) (by omega) b'
      have hon : o = os[n]'(by omega) := by
        rw [List.getElem?_eq_getElem (by omega)] at ho
        exact (Option.some.inj ho).symm
      have hcn : c = canons[n]'(by omega) := by
        rw [List.getElem?_eq_getElem (by omega)] at hc
        exact (Option.some.inj hc).symm
      rw [List.drop_eq_getElem_cons hlt, List.drop_eq_getElem_cons (by omega : n < os.length),
        List.drop_eq_getElem_cons (by omega : n < canons.length)]
      refine ⟨bits, ?_⟩
      simp only [encodeSubsetsX, he, hb, hon, hcn]
  obtain ⟨bits, hb⟩ := key 0 []
  have hb0 : encodeSubsetsX t valss [] = .ok (os, canons, bits) := by simpa using hb
  exact ⟨bits.reverse, by simp [encodeDataUX, hb0]⟩

/-- TRANSPARENCY OF COMPRESSION (C05, walk level).  For value lists accepted by the compressed
    encoder checked for transparency: both encoders accept them and report the same labels, values
    and links; and both decoders, run on the respective bits followed by anything, consume exactly
    those bits and return THE SAME list of subsets — descriptor labels, attribute links and values
    (the canonical values `canons`). -/
theorem C05_walk_transparent {t : List Desc} {valss : List (List Val)}
    {os : List SubsetOut} {canons : List (List Val)} {b : Bits}
    (h : encodeCompressedT t valss = .ok (os, canons, b)) :
    ∃ bitsU,
      encodeData t true valss = .ok (os, b.reverse) ∧
      encodeData t false valss = .ok (os, bitsU) ∧
      ∀ rest,
        decodeData t true valss.length (b.reverse ++ rest) = .ok (withCanon os canons, rest) ∧
        decodeData t false valss.length (bitsU ++ rest) = .ok (withCanon os canons, rest) := by
  obtain ⟨bitsU, hU⟩ := C05_walk_dataUX h
  obtain ⟨heU, hdU⟩ := C03_walk_roundtrip_data hU
  obtain ⟨heC, hdC⟩ := C05_walk_compressed_roundtrip h
  refine ⟨bitsU, by simp [encodeData, heC], heU, fun rest => ⟨?_, hdU rest⟩⟩
  simpa [decodeData] using hdC rest

/-- encode, then decode what was written: the subsets as a reader of the message sees them -/
def roundTripData (tmpl : List Desc) (compressed : Bool) (valss : List (List Val)) : CM (List SubsetOut) :=
  match encodeData tmpl compressed valss with
  | .error e => .error e
  | .ok (_, bits) => match decodeData tmpl compressed valss.length bits with
    | .error e => .error e
    | .ok (os, _) => .ok os

/-- TRANSPARENCY as an equation: the same subsets encoded compressed and uncompressed decode to
    identical values, descriptor labels and attribute links. -/
theorem C05_walk_transparent_eq {t : List Desc} {valss : List (List Val)}
    {os : List SubsetOut} {canons : List (List Val)} {b : Bits}
    (h : encodeCompressedT t valss = .ok (os, canons, b)) :
    roundTripData t true valss = roundTripData t false valss ∧
      roundTripData t true valss = .ok (withCanon os canons) := by
  obtain ⟨bitsU, heC, heU, hd⟩ := C05_walk_transparent h
  obtain ⟨hdC, hdU⟩ := hd []
  simp only [List.append_nil] at hdC hdU
  simp only [roundTripData, heC, heU, hdC, hdU, and_self]

/-! ### non-vacuity of the transparency theorem, and why each refusal is there -/

namespace C05WalkTEx

/-- a numeric element, a delayed replication of a code-table element, a character element -/
def tmpl : List Desc :=
  [ .elem { id := 12001, kind := .numeric, nbits := 12, scale := 1, ref := -100 },
    .delayedRep 101000 (.elem { id := 31001, kind := .numeric, nbits := 8, scale := 0, ref := 0 })
      [ .elem { id := 20003, kind := .codeflag, nbits := 4, scale := 0, ref := 0 } ],
    .elem { id := 1015, kind := .string, nbits := 16, scale := 0, ref := 0 } ]

/-- three subsets with equal replication factors; missing numeric, code and character entries -/
def valss : List (List Val) :=
  [ [ .num 215 1, .int 2, .int 3, .missing, .bytes [65] ],
    [ .num 180 1, .int 2, .int 5, .int 7, .bytes [66, 67] ],
    [ .missing, .int 2, .missing, .int 7, .missing ] ]

/-- what both decoders return: "A" padded, the missing string as 0xFF bytes -/
def canons : List (List Val) :=
  [ [ .num 215 1, .int 2, .int 3, .missing, .bytes [65, 32] ],
    [ .num 180 1, .int 2, .int 5, .int 7, .bytes [66, 67] ],
    [ .missing, .int 2, .missing, .int 7, .bytes [255, 255] ] ]

/-- the hypothesis of the theorems is satisfiable: accepted, 155 bits, canonical values as expected -/
theorem accepted :
    (encodeCompressedT tmpl valss).map (fun x => (x.2.1, x.2.2.length)) = .ok (canons, 155) := by
  decide +kernel

/-- both sides of the transparency equation computed directly on the model -/
example :
    (roundTripData tmpl true valss).map (·.map (·.vals)) = .ok canons ∧
    (roundTripData tmpl false valss).map (·.map (·.vals)) = .ok canons ∧
    roundTripData tmpl true valss = roundTripData tmpl false valss := by decide +kernel

/-- … and obtained from the theorem -/
example : roundTripData tmpl true valss = roundTripData tmpl false valss := by
  cases h : encodeCompressedT tmpl valss with
  | error e => have := accepted; rw [h] at this; cases this
  | ok r =>
    obtain ⟨os, cs, b⟩ := r
    exact (C05_walk_transparent_eq h).1

def tmpl8 : List Desc := [ .elem { id := 12001, kind := .numeric, nbits := 8, scale := 0, ref := 0 } ]
def tmplC4 : List Desc := [ .elem { id := 20003, kind := .codeflag, nbits := 4, scale := 0, ref := 0 } ]
def tmpl1 : List Desc := [ .elem { id := 12001, kind := .numeric, nbits := 1, scale := 0, ref := 0 } ]
def tmpl65 : List Desc := [ .elem { id := 12001, kind := .numeric, nbits := 65, scale := 0, ref := 0 } ]
def tmpl63 : List Desc := [ .elem { id := 12001, kind := .numeric, nbits := 63, scale := 0, ref := 0 } ]

/-- Refusal 3 is necessary (a missing value in a one-bit field, next to a present value):
    `encodeCompressedX` accepts, `encodeCompressedT` refuses; compressed it comes back missing,
    uncompressed as the value 1. -/
example :
    (encodeCompressedX tmpl1 [[.missing], [.int 0]]).toBool = true ∧
    (encodeCompressedT tmpl1 [[.missing], [.int 0]]).toBool = false ∧
    (roundTripData tmpl1 true [[.missing], [.int 0]]).map (·.map (·.vals)) = .ok [[.missing], [.int 0]] ∧
    (roundTripData tmpl1 false [[.missing], [.int 0]]).map (·.map (·.vals)) = .ok [[.int 1], [.int 0]] := by
  decide +kernel

/-- … and it is tight: when all subsets are missing in the one-bit field no increments are written,
    both forms read back the value 1, and `encodeCompressedT` accepts. -/
example :
    (encodeCompressedT tmpl1 [[.missing], [.missing]]).toBool = true ∧
    roundTripData tmpl1 true [[.missing], [.missing]] = roundTripData tmpl1 false [[.missing], [.missing]] ∧
    (roundTripData tmpl1 true [[.missing], [.missing]]).map (·.map (·.vals)) = .ok [[.int 1], [.int 1]] := by
  decide +kernel

/-- Refusal 2 (a field wider than 64 bits) is necessary for the ROUND TRIP statements: both encoders
    write the field, neither decoder reads it (the equation of transparency holds as error = error). -/
example :
    (encodeCompressedX tmpl65 [[.int 0], [.int 1]]).toBool = true ∧
    (encodeCompressedT tmpl65 [[.int 0], [.int 1]]).toBool = false ∧
    roundTripData tmpl65 true [[.int 0], [.int 1]] = .error .other ∧
    roundTripData tmpl65 false [[.int 0], [.int 1]] = .error .other := by
  decide +kernel

/-- Refusal 1 is necessary (`C05WalkEx` above): 300 in an 8-bit field is refused uncompressed, written
    and read back compressed.  Here: `encodeCompressedT` refuses it, one form fails, the other not. -/
example :
    (encodeCompressedT tmpl8 [[.int 0], [.int 300]]).toBool = false ∧
    (roundTripData tmpl8 true [[.int 0], [.int 300]]).map (·.map (·.vals)) = .ok [[.int 0], [.int 300]] ∧
    (roundTripData tmpl8 false [[.int 0], [.int 300]]).toBool = false := by
  decide +kernel

/-- NOT refused: a present value that is the all-ones pattern of its field (255 in 8 bits, 15 in a
    4-bit code table — also as the minimum of a column, next to a missing entry).  Since the repair
    of finding F18 (`encIntColumnN`) the compressed encoder writes it as missing, which is what the
    uncompressed field reads back as: accepted, and both forms decode to missing. -/
example :
    (encodeCompressedT tmpl8 [[.int 0], [.int 255]]).toBool = true ∧
    (roundTripData tmpl8 true [[.int 0], [.int 255]]).map (·.map (·.vals)) = .ok [[.int 0], [.missing]] ∧
    (roundTripData tmpl8 false [[.int 0], [.int 255]]).map (·.map (·.vals)) = .ok [[.int 0], [.missing]] ∧
    (encodeCompressedT tmplC4 [[.int 15], [.missing]]).toBool = true ∧
    (roundTripData tmplC4 true [[.int 15], [.missing]]).map (·.map (·.vals)) = .ok [[.missing], [.missing]] ∧
    (roundTripData tmplC4 false [[.int 15], [.missing]]).map (·.map (·.vals)) = .ok [[.missing], [.missing]] ∧
    (encodeCompressedT tmpl8 [[.int 255], [.int 255]]).toBool = true ∧
    (roundTripData tmpl8 true [[.int 255], [.int 255]]).map (·.map (·.vals)) = .ok [[.missing], [.missing]] := by
  decide +kernel

/-- No refusal is needed for `Spec.SpanOK`: on a column whose spread needs a 64-bit increment the
    compressed encoder itself fails (the uncompressed one does not: compression is not transparent
    for ACCEPTANCE on 63- and 64-bit fields). -/
example :
    (encodeData tmpl63 true [[.int 0], [.int (2 ^ 63 - 2)]]).toBool = false ∧
    (roundTripData tmpl63 false [[.int 0], [.int (2 ^ 63 - 2)]]).map (·.map (·.vals))
      = .ok [[.int 0], [.int (2 ^ 63 - 2)]] := by
  decide +kernel

/-- Refusal 4 is necessary: a replication factor that does not read back as supplied.  The factor
    element has scale 1 here, so the supplied 2 is written as 20 and read back as 2.0 — a decimal, on
    which the decoders fail; both encoders replicate by the supplied 2. -/
def tmplF : List Desc :=
  [ .delayedRep 101000 (.elem { id := 31001, kind := .numeric, nbits := 8, scale := 1, ref := 0 })
      [ .elem { id := 20003, kind := .codeflag, nbits := 4, scale := 0, ref := 0 } ] ]

example :
    (encodeCompressedX tmplF [[.int 2, .int 1, .int 1], [.int 2, .int 3, .int 1]]).toBool = true ∧
    (encodeCompressedT tmplF [[.int 2, .int 1, .int 1], [.int 2, .int 3, .int 1]]).toBool = false ∧
    (encodeData tmplF false [[.int 2, .int 1, .int 1], [.int 2, .int 3, .int 1]]).toBool = true ∧
    (roundTripData tmplF true [[.int 2, .int 1, .int 1], [.int 2, .int 3, .int 1]]).toBool = false ∧
    (roundTripData tmplF false [[.int 2, .int 1, .int 1], [.int 2, .int 3, .int 1]]).toBool = false := by
  decide +kernel

end C05WalkTEx

end Bufr
