/-
  C15 — tie to the Python source, the printer: `NodePath.__str__` and `NodePath.slice_to_str` of
  `pybufrkit/dataquery.py`, translated into `Gen/PyDataquery.lean` on every check (worker w5-smallsrc; the
  methods read the attributes only, `harness/py2lean_small.py`), against the model's `print`
  (`Lang/PathParser.lean`), and the round trip parse ∘ print on the SOURCE (`C15_src_print_parse`).
-/
import BufrModel.Lang.PathParser
import BufrModel.Gen.PyDataquery
import BufrModel.Lemmas.PathSrc
import BufrModel.Props.C15
import BufrModel.Props.C15Src
namespace Bufr.PathLang
open PyGen.dataquery

theorem digitChar_eq (d : Nat) (h : d < 10) : Nat.digitChar d = digitChar d := by
  match d, h with
  | 0, _ | 1, _ | 2, _ | 3, _ | 4, _ | 5, _ | 6, _ | 7, _ | 8, _ | 9, _ => rfl

/-- the model's decimal digits are `str(n)` -/
theorem natDigits_eq (n : Nat) : natDigits n = Nat.toDigits 10 n := by
  induction n using Nat.strongRecOn with
  | _ n ih =>
    rw [natDigits, Nat.toDigits_eq_if (b := 10) (by omega)]
    by_cases h : n < 10
    · simp only [h, dite_true, if_true, digitChar_eq n h]
    · simp only [h, dite_false, if_false, ih (n / 10) (by omega), digitChar_eq (n % 10) (by omega)]

theorem strOfInt_eq (i : Int) : Py.strOfInt i = intStr i := by
  unfold Py.strOfInt intStr
  simp only [natDigits_eq]

theorem strOfOptInt_some (i : Int) : Py.Small.strOfOptInt (some i) = intStr i := strOfInt_eq i

/-- `slice_to_str` on the Python value of a slice of the model -/
theorem slice_to_str_toPy (o : NodePath.Self) (sl : Slice) :
    NodePath.slice_to_str o (some (toPy sl)) = .ok (sliceStr sl) := by
  cases sl with
  | idx i =>
    simp [NodePath.slice_to_str, toPy, Py.Small.isSlice, Py.Small.strOfOptIntOrSlice, Py.Small.strOfIntOrSlice,
      strOfInt_eq, sliceStr, pure, Except.pure]
  | range a b c =>
    cases a <;> cases b <;> cases c <;>
      simp [NodePath.slice_to_str, toPy, Py.Small.isSlice, Py.Small.sliceStart, Py.Small.sliceStop,
        Py.Small.sliceStep, Py.Small.strOfOptInt, strOfInt_eq, sliceStr, optIntStr, bind, Except.bind, pure, Except.pure]

theorem forIn_print (f : PathComponent → NodePath.__str__.Locals → Except Py.Exc NodePath.__str__.Locals)
    (hf : ∀ (c : Comp) (v : NodePath.__str__.Locals),
      f (compToPy c) v = .ok { ret := v.ret ++ c.sep :: (c.id ++ sliceStr c.slice), component := compToPy c })
    (cs : List Comp) (v : NodePath.__str__.Locals) :
    Py.forIn (cs.map compToPy) v f
      = .ok { ret := v.ret ++ cs.flatMap (fun c => c.sep :: (c.id ++ sliceStr c.slice)),
              component := (cs.map compToPy).getLast?.getD v.component } := by
  induction cs generalizing v with
  | nil => simp [Py.forIn]
  | cons c cs ih =>
    simp only [List.map_cons, Py.forIn, hf]
    rw [ih]
    cases cs with
    | nil => simp
    | cons d ds =>
      simp only [List.flatMap_cons, List.append_assoc, List.map_cons, List.cons_append]
      cases h : (compToPy d :: List.map compToPy ds).getLast? with
      | none => simp at h
      | some z => simp [h]

theorem body_print (o : NodePath.Self) (c : Comp) (v : NodePath.__str__.Locals) :
    (do
        let v : NodePath.__str__.Locals := { v with component := compToPy c }
        (do let t6 ← (do let t5 ← (do let t4 ← (NodePath.slice_to_str o v.component.slice); pure ((Py.Small.strOfOptStr v.component.separator) ++ (Py.Small.strOfOptStr v.component.id) ++ t4)); pure (v.ret ++ t5)); pure { v with ret := t6 }))
      = (.ok { ret := v.ret ++ c.sep :: (c.id ++ sliceStr c.slice), component := compToPy c } : Except Py.Exc NodePath.__str__.Locals) := by
  simp [compToPy, slice_to_str_toPy, bind, Except.bind, pure, Except.pure, Py.Small.strOfOptStr]

/-- **`NodePath.__str__` as translated from the source is the model's `print`**: for every path `p` of the model and
    the `NodePath` object that stands for it (`pathToPy`: what `NodePathParser.parse` returns, `C15_src_parse_eq`),
    whatever its `path_string`; no exception (in particular no `AttributeError` from `slc.start`). -/
theorem C15_src_print_eq (s : List Char) (p : Path) :
    NodePath.__str__ (pathToPy s p) = .ok (print p) := by
  unfold NodePath.__str__ print pathToPy
  simp only [bind, Except.bind, pure, Except.pure]
  cases hs : p.subset with
  | none =>
    simp only [Option.map_none, Option.isNone_none, if_true]
    rw [forIn_print _ (fun c v => body_print _ c v)]
  | some sl =>
    simp only [Option.map_some, Option.isNone_some, Bool.false_eq_true, if_false, slice_to_str_toPy]
    rw [forIn_print _ (fun c v => body_print _ c v)]
    simp

/-- `slice_to_str` alone, for every slice of the model and every object -/
theorem C15_src_slice_to_str_eq (o : NodePath.Self) (sl : Slice) :
    NodePath.slice_to_str o (some (toPy sl)) = .ok (sliceStr sl) := slice_to_str_toPy o sl

/-- **Round trip on the source**: printing (translated `__str__`) the object of a canonical path and parsing the
    printout with the translated `NodePathParser.parse` (default `bare_id_matches_all=True`, any state of the parser
    object) gives back the object of that path — provided the printout is in the domain of `C15_src_parse_eq`
    (it always consists of `srcPlain` characters when the ids do; the digit bound is about paths with more than 4300
    digits). -/
theorem C15_src_print_parse (o : NodePathParser.Self) (s : List Char) (p : Path) (h : p.Canonical)
    (hd : SrcDomain (print p)) :
    (NodePath.__str__ (pathToPy s p) >>= fun text =>
      Prod.snd <$> NodePathParser.parse { o with bare_id_matches_all := true } text) = .ok (pathToPy (print p) p) := by
  rw [C15_src_print_eq]
  show Prod.snd <$> NodePathParser.parse { o with bare_id_matches_all := true } (print p) = _
  rw [C15_src_parse_eq_model o (print p) hd, C15_print_parse p h]
  rfl

/-- the hypotheses of `C15_src_print_parse` are satisfiable (the canonical path of `Props/C15.lean`) -/
example : ∃ p : Path, p.Canonical ∧ SrcDomain (print p) := by
  refine ⟨{ subset := some (.idx 0),
            comps := [⟨'/', "301001".toList, .range none none none⟩, ⟨'.', "A01".toList, .range (some (-2)) (some (-1)) none⟩] },
    ⟨⟨_, rfl, ?_⟩, by simp, ?_, ?_⟩, ?_⟩
  rotate_left 3
  · simp only [print, sliceStr, intStr, optIntStr, natDigits_eq, List.flatMap_cons, List.flatMap_nil]
    decide
  · show (0 : Int) ≤ 0; decide
  · intro c hc
    simp only [List.mem_cons, List.not_mem_nil, or_false] at hc
    rcases hc with hc | hc <;> subst hc <;> exact ⟨by decide, ⟨by decide, by decide⟩, trivial⟩
  · intro c hc; simp at hc; subst hc; decide

/-- outside the image of `pathToPy`: a component whose separator is `None` prints as `None` (Python's
    `'{}'.format(None)`), a slice that is `None` as `[None]` — the model's `Comp` has no such values -/
example : NodePath.__str__ ⟨[], none, [(⟨none, some ['A'], none⟩ : PathComponent)]⟩ =
    .ok "NoneA[None]".toList := by decide

end Bufr.PathLang
