/-
  C07, uncompressed messages with several subsets: the attribute links (and the items they index)
  reported for a subset are those of decoding / encoding THAT subset alone — nothing computed for
  another subset (back references, boundary, selection, iterator) can reach them.

  In the model every subset starts from a fresh coder state (`decodeSubset`, `encodeSubset`), which
  is what `CoderState.switch_subset_context` → `reset_template_state` does in the code; the theorems
  below turn this into statements about the links of whole messages (any template, any number of
  subsets), using the frame lemmas of C06 (`Lemmas/FrameData.lean`).  That the code has no state that
  survives the subset switch is NOT provable here: it is what the correspondence check of C07
  (stream `varying-structure` of harness/props/c07.py) is for.

    * `C07_links_independent_of_other_subsets`: two successful runs (different messages, different
      numbers of subsets); wherever a subset of the first consumed the same bits as a subset of the
      second, the links, labels and values of the two are equal;
    * `C07_links_of_subset_alone`: the report at position i is the report of `decodeSubset` run
      alone on the segment of position i;
    * `C07_encoder_links_independent_of_other_subsets`: the same for the encoder (equal value lists);
    * `C07_links_eq_spec_lifts_to_message`: if `links = Spec.links items` holds for every
      single-subset run of a template, it holds for every subset of every uncompressed message with
      that template (the reduction of the headline statement from the whole message to one walk).
-/
import BufrModel.Spec.Links
import BufrModel.Lemmas.FrameData
import BufrModel.Props.C06
namespace Bufr

/-- Two successful uncompressed runs over the same template.  Each splits its input into the
    segments consumed by its subsets (`ps`, `qs`: segment and report per position; every segment
    decodes alone to the report of its position).  Wherever position `i` of the first run consumed
    the same bits as position `j` of the second, the links — and the labels and values they index —
    are equal, whatever the other subsets of either message contain. -/
theorem C07_links_independent_of_other_subsets (t : List Desc) (n m : Nat) (bits bits' : Bits)
    (outs outs' : List SubsetOut) (rest rest' : Bits)
    (h : decodeData t false n bits = .ok (outs, rest))
    (h' : decodeData t false m bits' = .ok (outs', rest')) :
    ∃ ps qs : List (Bits × SubsetOut),
      ps.length = n ∧ qs.length = m ∧ ps.map (·.2) = outs ∧ qs.map (·.2) = outs' ∧
      bits = (ps.map (·.1)).flatten ++ rest ∧ bits' = (qs.map (·.1)).flatten ++ rest' ∧
      (∀ p ∈ ps, decodeSubset t p.1 = .ok (p.2, [])) ∧ (∀ q ∈ qs, decodeSubset t q.1 = .ok (q.2, [])) ∧
      ∀ i j (hi : i < ps.length) (hj : j < qs.length), ps[i].1 = qs[j].1 →
        ps[i].2.links = qs[j].2.links ∧ ps[i].2.descs = qs[j].2.descs ∧ ps[i].2.vals = qs[j].2.vals := by
  simp only [decodeData, Bool.false_eq_true, if_false] at h h'
  obtain ⟨ps, hl, ho, hb, hf⟩ := C06_subset_independent_of_predecessors t n bits outs rest h
  obtain ⟨qs, hl', ho', hb', hf'⟩ := C06_subset_independent_of_predecessors t m bits' outs' rest' h'
  refine ⟨ps, qs, hl, hl', ho, ho', hb, hb', hf, hf', ?_⟩
  intro i j hi hj hseg
  have := C06_same_segment_same_output t ps qs hf hf' i j hi hj hseg
  rw [this]
  exact ⟨rfl, rfl, rfl⟩

/-- The report (labels, values, links) at every position of an uncompressed message is the report of
    `decodeSubset` run ALONE, from a fresh state, on the bits that position consumed. -/
theorem C07_links_of_subset_alone (t : List Desc) (n : Nat) (bits : Bits) (outs : List SubsetOut) (rest : Bits)
    (h : decodeData t false n bits = .ok (outs, rest)) :
    ∃ segs : List Bits, segs.length = n ∧ outs.length = n ∧ bits = segs.flatten ++ rest ∧
      ∀ i (hi : i < segs.length) (ho : i < outs.length), decodeSubset t segs[i] = .ok (outs[i], []) := by
  simp only [decodeData, Bool.false_eq_true, if_false] at h
  obtain ⟨ps, hl, ho, hb, hf⟩ := C06_subset_independent_of_predecessors t n bits outs rest h
  refine ⟨ps.map (·.1), by simp [hl], by rw [← ho]; simp [hl], hb, ?_⟩
  intro i hi hi'
  have hi2 : i < ps.length := by simpa using hi
  have := hf ps[i] (List.getElem_mem hi2)
  have e : outs[i] = ps[i].2 := by
    subst ho
    simp
  simp only [List.getElem_map]
  rw [e]
  exact this

/-- Encoder: two successful uncompressed runs; wherever the two messages hold the same value list
    for a subset, the encoder reports the same links and labels for it. -/
theorem C07_encoder_links_independent_of_other_subsets (t : List Desc) (vs vs' : List (List Val))
    (outs outs' : List SubsetOut) (bits bits' : Bits)
    (h : encodeData t false vs = .ok (outs, bits)) (h' : encodeData t false vs' = .ok (outs', bits'))
    (i j : Nat) (hi : i < vs.length) (hj : j < vs'.length) (hv : vs[i] = vs'[j]) :
    ∃ (ho : i < outs.length) (ho' : j < outs'.length),
      outs[i].links = outs'[j].links ∧ outs[i].descs = outs'[j].descs := by
  obtain ⟨ts, hvs, hos, _, hf⟩ := C06_encode_together_implies_alone t vs outs bits h
  obtain ⟨ts', hvs', hos', _, hf'⟩ := C06_encode_together_implies_alone t vs' outs' bits' h'
  have l1 : ts.length = vs.length := by rw [← hvs]; simp
  have l2 : ts'.length = vs'.length := by rw [← hvs']; simp
  have l3 : outs.length = ts.length := by rw [← hos]; simp
  have l4 : outs'.length = ts'.length := by rw [← hos']; simp
  have hi2 : i < ts.length := by omega
  have hj2 : j < ts'.length := by omega
  refine ⟨by omega, by omega, ?_⟩
  have a := hf ts[i] (List.getElem_mem hi2)
  have b := hf' ts'[j] (List.getElem_mem hj2)
  have e1 : ts[i].1 = vs[i] := by subst hvs; simp
  have e2 : ts'[j].1 = vs'[j] := by subst hvs'; simp
  have e3 : outs[i]'(by omega) = ts[i].2.1 := by subst hos; simp
  have e4 : outs'[j]'(by omega) = ts'[j].2.1 := by subst hos'; simp
  rw [e1, hv, ← e2, b] at a
  simp only [Except.ok.injEq, Prod.mk.injEq, List.cons.injEq, and_true] at a
  rw [e3, e4, a.1]
  exact ⟨rfl, rfl⟩

/-- Reduction of the headline statement from messages to single walks: if, for a template `t`, the
    links of every single-subset run equal `Spec.links` of its items (no 235000: `cancels = []`), then
    the same holds for every subset of every uncompressed message — of any number of subsets — that
    uses `t`.  (`Spec.links` looks at the items of the one subset only, and by
    `C07_links_of_subset_alone` so does the walk.) -/
theorem C07_links_eq_spec_lifts_to_message (t : List Desc)
    (single : ∀ bits o rest, decodeSubset t bits = .ok (o, rest) → o.links = Spec.links (o.descs.zip o.vals) [])
    (n : Nat) (bits : Bits) (outs : List SubsetOut) (rest : Bits)
    (h : decodeData t false n bits = .ok (outs, rest)) :
    ∀ o ∈ outs, o.links = Spec.links (o.descs.zip o.vals) [] := by
  obtain ⟨segs, hl, hol, _, hs⟩ := C07_links_of_subset_alone t n bits outs rest h
  intro o ho
  obtain ⟨i, hi, rfl⟩ := List.mem_iff_getElem.mp ho
  exact single _ _ _ (hs i (by omega) hi)

/-! ### non-vacuity

  A delayed replication of `012001` (4 bits here), a delayed replication of `010004` (6 bits),
  `223000 101003 031031 223255`: one substituted value for one of the last three elements in front of
  the operator.  Subset A holds 2 + 1 replications, subset B 1 + 2: in both the operator is item 5 and
  the value item 9, and both hold the bit-map 0 1 1, so the value belongs to item 2 — which is the second
  `012001` in A and the factor `031001` of the second replication in B (this is the shape of
  seeded/C07-2: anything remembered from A's backward scan would give B the wrong element). -/

def C07ex.e (id nbits : Nat) : Elem := { id := id, kind := .numeric, nbits := nbits, scale := 0, ref := 0 }
def C07ex.bit : Elem := { id := 31031, kind := .codeflag, nbits := 1, scale := 0, ref := 0 }
def C07ex.tmpl : List Desc :=
  [.delayedRep 101000 (.elem (e 31001 8)) [.elem (e 12001 4)],
   .delayedRep 101000 (.elem (e 31001 8)) [.elem (e 10004 6)],
   .op 223000, .fixedRep 101003 [.elem bit], .op 223255]
/-- 2 × 012001, 1 × 010004, bits 0 1 1, substituted value of 4 bits (it stands for a 012001) -/
def C07ex.bitsA : Bits :=
  toBits 8 2 ++ toBits 4 3 ++ toBits 4 4 ++ toBits 8 1 ++ toBits 6 33 ++ [false, true, true] ++ toBits 4 5
/-- 1 × 012001, 2 × 010004, bits 0 1 1, substituted value of 8 bits (it stands for the 031001) -/
def C07ex.bitsB : Bits :=
  toBits 8 1 ++ toBits 4 3 ++ toBits 8 2 ++ toBits 6 33 ++ toBits 6 34 ++ [false, true, true] ++ toBits 8 200

def C07ex.fac : Elem := e 31001 8
def C07ex.outA : SubsetOut :=
  { descs := [.plain fac, .plain (e 12001 4), .plain (e 12001 4), .plain fac, .plain (e 10004 6), .oper 223000,
              .plain bit, .plain bit, .plain bit, .marker 223255 (e 12001 4)],
    vals := [.int 2, .int 3, .int 4, .int 1, .int 33, .int 0, .int 0, .int 1, .int 1, .int 5],
    links := [(9, 2)] }
def C07ex.outB : SubsetOut :=
  { descs := [.plain fac, .plain (e 12001 4), .plain fac, .plain (e 10004 6), .plain (e 10004 6), .oper 223000,
              .plain bit, .plain bit, .plain bit, .marker 223255 fac],
    vals := [.int 1, .int 3, .int 2, .int 33, .int 34, .int 0, .int 0, .int 1, .int 1, .int 200],
    links := [(9, 2)] }

open C07ex in
/-- both subsets decode together: same number of items, the same link (9 ↦ 2) — to different elements
    (`outA`: item 2 is a 012001 and the value has its 4 bits; `outB`: item 2 is the 031001, 8 bits) — and in
    the other order each subset gets the same report: the hypotheses of
    `C07_links_independent_of_other_subsets` are satisfiable with n = m = 2 and i ≠ j -/
example : decodeData tmpl false 2 (bitsA ++ bitsB) = .ok ([outA, outB], []) ∧
    decodeData tmpl false 2 (bitsB ++ bitsA) = .ok ([outB, outA], []) ∧
    outA.descs.length = outB.descs.length ∧ outA.links = outB.links ∧ outA.descs[9]? ≠ outB.descs[9]? := by
  refine ⟨?_, ?_, ?_, ?_, ?_⟩ <;> decide +kernel

open C07ex in
/-- encoder: the two subsets together, and subset B first -/
example : encodeData tmpl false [outA.vals, outB.vals] = .ok ([outA, outB], bitsA ++ bitsB) ∧
    encodeData tmpl false [outB.vals, outA.vals] = .ok ([outB, outA], bitsB ++ bitsA) := by
  refine ⟨?_, ?_⟩ <;> decide +kernel

open C07ex in
/-- the hypothesis of `C07_links_eq_spec_lifts_to_message` holds at least on these two runs -/
example : outA.links = Spec.links (outA.descs.zip outA.vals) [] ∧ outB.links = Spec.links (outB.descs.zip outB.vals) [] := by
  refine ⟨?_, ?_⟩ <;> decide +kernel

end Bufr
