/-
  C05, structural values of compressed data after the repair of finding F24 (`CoderState._assert_equal_values_of_index`
  compares every value of the column with the first one, `None` included): the delayed replication factor the compressed
  decoder / encoder works with is the value EVERY subset holds, so a compressed message never has a subset whose factor is
  missing or different — which uncompressed data would refuse (missing) or decode with another structure (different).
-/
import BufrModel.Lemmas.CompFactors
namespace Bufr

/-- the compressed DECODER: a factor is accepted only when there is a subset and every subset holds that value on top of
    its value list; conversely such a column is accepted -/
theorem C05_compressed_factor_same_in_all_subsets (s : St) (v : Val) :
    decPrimsC.factorValue s = .ok v ↔ s.vals ≠ [] ∧ ∀ l ∈ s.vals, l.head? = some v :=
  decFactorC_iff

/-- the compressed ENCODER: the factor it replicates by is the value every subset supplies at that position -/
theorem C05_compressed_encoder_factor_same_in_all_subsets (s : St) (v : Val) (h : encPrimsC.factorValue s = .ok v) :
    s.idx ≠ 0 ∧ s.vals ≠ [] ∧ ∀ l ∈ s.vals, l[s.idx - 1]? = some v :=
  encFactorC_ok h

/-- the repaired check accepts exactly the columns whose entries all equal the first one and refuses every other column
    with the LIBRARY error (before: `AssertionError` for two present values, acceptance for a missing one) -/
theorem C05_compressed_factor_check (hs : List Val) :
    (sameAsFirst hs = .ok () ↔ ∀ x ∈ hs, some x = hs.head?) ∧ (∀ e, sameAsFirst hs = .error e → e = .lib) :=
  ⟨sameAsFirst_ok_iff, fun _ h => sameAsFirst_err h⟩

/-- the repair only REFUSES more: whatever the repaired decoder accepts as a factor (an integer or missing, what a class 31
    element decodes to) the old check accepted with the same result; the column `1, missing` separates them -/
theorem C05_compressed_factor_repair_refuses_more :
    (∀ (s : St) (v : Val), decFactorC s = .ok v → (v = .missing ∨ ∃ i, v = .int i) → decFactorCLax s = .ok v) ∧
    decFactorCLax { vals := [[.int 1], [.missing]] } = .ok (.int 1) ∧
    decFactorC { vals := [[.int 1], [.missing]] } = .error .lib :=
  ⟨fun _ _ h hv => decFactorC_lax h hv, decFactorCLax_accepts_missing.1, decFactorCLax_accepts_missing.2.1⟩

/-! non-vacuity -/
example : decPrimsC.factorValue { vals := [[.int 2, .int 7], [.int 2, .missing], [.int 2, .int 9]] } = .ok (.int 2) := by
  decide
example : encPrimsC.factorValue { idx := 1, vals := [[.int 2, .int 7], [.int 2, .missing]] } = .ok (.int 2) := by decide
example : sameAsFirst [.int 3, .int 3] = .ok () ∧ sameAsFirst [.int 3, .missing] = .error .lib := by decide

end Bufr
