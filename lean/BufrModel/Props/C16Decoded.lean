/-
  C16, compressed data read off the DECODER: the hypothesis `hcounts` of `C16_mkMsg_shape_compressed` — every subset
  carries the delayed replication counts of subset 0 at the factors of the shared tree — is discharged for decoded output.
  Since the repair of findings F24 / F24b the compressed decoder refuses a message whose delayed replication factor (or
  bit-map) is missing or different in some subset, so for every template of `C09.viewClass` (`quietList false`,
  `quietList true`, `wireLinksOK`) every successful compressed decode yields a message on which the data query equals the
  specification's evaluation, with NO hypothesis on the counts.
  (`Lemmas/CompFactorsWire.lean`, `Lemmas/CompFactorsLinks.lean`: the counts agree on the RAW tree of the wiring pass;
  `Lemmas/WireResolveCounts.lean`: hence on the tree with the bit-map attributes attached.)
-/
import BufrModel.Props.C16
import BufrModel.Props.C09View
import BufrModel.Props.C09Factors
import BufrModel.Lemmas.WireResolveCounts
namespace Bufr
open Bufr.Query Bufr.PathLang Bufr.C16 Bufr.C09

/-- the structural facts about a successful compressed decode that the C16 theorems on compressed data assume: the tree
    wired from subset 0 exists, all subsets share the labels of subset 0 and carry its delayed replication counts at
    every factor of that tree -/
theorem C16_decoded_compressed_counts (t : List Desc) (hq : C09.viewClass t = true) (n : Nat)
    (bits rest : Bits) (outs : List SubsetOut) (o0 : SubsetOut)
    (h : decodeCompressed t n bits = .ok (outs, rest)) (h0 : outs.head? = some o0) :
    ∃ t0, wire t o0 = .ok t0 ∧ ∀ o ∈ outs, o.descs = o0.descs ∧ Spec.sameCountsList o0 o t0 = true := by
  unfold C09.viewClass at hq
  rw [Bool.or_eq_true, Bool.or_eq_true] at hq
  have quiet : ∀ a, quietList a t = true →
      ∃ t0, wire t o0 = .ok t0 ∧ ∀ o ∈ outs, o.descs = o0.descs ∧ Spec.sameCountsList o0 o t0 = true := by
    intro a hqa
    obtain ⟨tree, hwire, hs⟩ := C09_decode_compressed_same_counts_partial a t hqa n bits rest outs o0 h h0
    obtain ⟨_, _, _, _, _, hall⟩ := decodeCompressed_wire hqa h h0
    exact ⟨tree, hwire, fun o ho => ⟨(hall o ho).1, hs o ho⟩⟩
  rcases hq with (hq | hq) | hq
  · exact quiet false hq
  · exact quiet true hq
  · obtain ⟨w, hl, hall, hsame⟩ := C09_decode_compressed_links_same_counts_partial t hq n bits rest outs o0 h h0
    obtain ⟨tree, _, ht, _⟩ := hl.core.tree_renders
    have hwire : wire t o0 = .ok tree := by unfold wire; rw [hl.wired]; exact ht
    refine ⟨tree, hwire, fun o ho => ⟨(hall o ho).1, ?_⟩⟩
    have hT : ∀ p ∈ w.st.tab, Spec.sameCounts1 o0 o p.2 = true := by
      intro p hp
      obtain ⟨k, i, own, e, _, _, _, hown, _⟩ := hl.owners p hp
      rw [e, Spec.sameCounts1]
      rcases hown with rfl | ⟨m, rfl, _⟩
      · rw [Spec.sameCountsList]
      · simp [Spec.sameCountsList, Spec.sameCounts1]
    unfold Wired.tree at ht
    exact resolveList_sameCounts o0 o w.st.tab w.fuel hT w.nodes tree ht (hsame o ho)

/-- hence the message handed to `query` satisfies the shape hypothesis, with the facts `C16_query_eq_eval_compressed`
    asks for: one tree shared by all subsets, shared labels -/
theorem C16_decoded_compressed_message (t : List Desc) (hq : C09.viewClass t = true) (n : Nat)
    (bits rest : Bits) (outs : List SubsetOut) (o0 : SubsetOut)
    (h : decodeCompressed t n bits = .ok (outs, rest)) (h0 : outs.head? = some o0) :
    ∃ m t0, mkMsg t true outs = .ok m ∧ m.compressed = true ∧ m.outs = outs ∧ m.outs[0]? = some o0 ∧
      (∀ i, i < m.outs.length → m.trees[i]? = some t0) ∧ (∀ o ∈ m.outs, o.descs = o0.descs) ∧
      Spec.shapeOK m = true := by
  obtain ⟨t0, hwire, hall⟩ := C16_decoded_compressed_counts t hq n bits rest outs o0 h h0
  have h0' : outs[0]? = some o0 := by
    cases outs with
    | nil => cases h0
    | cons a r => simpa using h0
  have hm : mkMsg t true outs = .ok { compressed := true, outs := outs, trees := outs.map fun _ => t0 } := by
    unfold mkMsg wireAll
    simp only [if_true]
    cases outs with
    | nil => cases h0
    | cons a r =>
      simp only [List.head?_cons, Option.some.injEq] at h0
      subst h0
      simp only [hwire]
  refine ⟨_, t0, hm, rfl, rfl, h0', fun i hi => ?_, fun o ho => (hall o ho).1,
    C16_mkMsg_shape_compressed t outs _ hm o0 t0 h0' hwire (fun o ho => (hall o ho).2)⟩
  show (outs.map fun _ => t0)[i]? = some t0
  rw [List.getElem?_map, List.getElem?_eq_getElem hi]
  rfl

/-- **C16, compressed data, decoded** — for every template of `C09.viewClass`, every bit string and every number of
    subsets: if the compressed decode succeeds, then on the message the decoder hands over the data query equals the
    specification's evaluation of the path on the nested renderings, for every path in the property's language and every
    selector whose first selected subset exists (`C16_first_selected_exists`: no selector, every slice selector).
    NO hypothesis on the replication counts of the subsets (before the repair of finding F24 it was needed and false
    on `C09_compressed_missing_count_breaks`). -/
theorem C16_query_eq_eval_compressed_decoded (t : List Desc) (hq : C09.viewClass t = true) (n : Nat)
    (bits rest : Bits) (outs : List SubsetOut) (h : decodeCompressed t n bits = .ok (outs, rest)) (hne : outs ≠ [])
    (m : QMsg) (hm : mkMsg t true outs = .ok m) (p : Path) (nested : List (List NJ))
    (hn : Spec.nestedOf m = .ok nested)
    (hp : Spec.childAttrOnly p.comps = true) (hs : ∀ c ∈ p.comps, Spec.sliceOK c.slice = true)
    (hfirst : ∀ i rest, subsetIndices p.subset m.outs.length = .ok (i :: rest) → i < m.outs.length) :
    query m p = (match subsetIndices p.subset m.outs.length with
      | .error e => .error e
      | .ok sel => match Spec.evalPath nested sel p.comps with
        | .error e => .error e
        | .ok rs => .ok ⟨rs⟩) := by
  cases ho : outs with
  | nil => exact absurd ho hne
  | cons o0 os =>
    have h0 : outs.head? = some o0 := by rw [ho]; rfl
    obtain ⟨m', t0, hm', hc, _, h00, ht, hl, hshape⟩ := C16_decoded_compressed_message t hq n bits rest outs o0 h h0
    rw [hm] at hm'
    injection hm' with e
    subst e
    exact C16_query_eq_eval_compressed m p nested t0 o0 hc ht h00 hl hn hshape hp hs hfirst

/-- the same for ANY selection (an out-of-range `@[k]` included), up to the error family -/
theorem C16_query_eq_eval_compressed_decoded_any_selection (t : List Desc) (hq : C09.viewClass t = true) (n : Nat)
    (bits rest : Bits) (outs : List SubsetOut) (h : decodeCompressed t n bits = .ok (outs, rest)) (hne : outs ≠ [])
    (m : QMsg) (hm : mkMsg t true outs = .ok m) (p : Path) (nested : List (List NJ)) (sel : List Nat)
    (hn : Spec.nestedOf m = .ok nested)
    (hp : Spec.childAttrOnly p.comps = true) (hs : ∀ c ∈ p.comps, Spec.sliceOK c.slice = true)
    (hsel : subsetIndices p.subset m.outs.length = .ok sel) :
    (query m p).toOption = ((Spec.evalPath nested sel p.comps).toOption.map QResult.mk) := by
  cases ho : outs with
  | nil => exact absurd ho hne
  | cons o0 os =>
    have h0 : outs.head? = some o0 := by rw [ho]; rfl
    obtain ⟨m', t0, hm', hc, _, h00, ht, hl, hshape⟩ := C16_decoded_compressed_message t hq n bits rest outs o0 h h0
    rw [hm] at hm'
    injection hm' with e
    subst e
    exact C16_query_eq_eval_compressed_any_selection m p nested t0 o0 sel hc ht h00 hl hn hshape hp hs hsel

/-! ### non-vacuity: `exT` (`204004 031021 101000 031001 012001 204000 001001`, class `quietList true`, a delayed
    replication) as compressed data of two subsets decoded from bits, and `exA` (class `wireLinksOK` only: bit-map
    constructs); the hypotheses hold and the statement is evaluated -/

def exPathDecoded : Path :=
  { subset := none, comps := [{ sep := '/', id := "101000".toList, slice := .range none none none },
                              { sep := '/', id := "012001".toList, slice := .range none none none }] }

example : C09.viewClass exT = true ∧
    Spec.childAttrOnly exPathDecoded.comps = true ∧ (∀ c ∈ exPathDecoded.comps, Spec.sliceOK c.slice = true) ∧
    ((decodeCompressed exT 2 exBitsC).toOption.map fun r =>
      decide (r.1 ≠ []) && (match mkMsg exT true r.1 with
      | .ok m => (match Spec.nestedOf m, subsetIndices exPathDecoded.subset m.outs.length with
        | .ok nested, .ok sel =>
          (match Spec.evalPath nested sel exPathDecoded.comps with
           | .ok rs => C16ex.beqRes (query m exPathDecoded) rs
           | _ => false)
        | _, _ => false)
      | _ => false)) = some true := by decide +kernel

example : C09.viewClass exA = true ∧
    ((decodeCompressed exA 2 (zeros' 400)).toOption.map fun r =>
      decide (r.1 ≠ []) && (match mkMsg exA true r.1 with
      | .ok m => (Spec.nestedOf m).toOption.isSome && Spec.shapeOK m
      | _ => false)) = some true := by decide +kernel

end Bufr
