/-
  C07 — `links = Spec.links items` lifted from one decoded subset (Props/C07Spec.lean) to
    * templates without 235YYY (`cancels = []`): `C07_links_eq_spec_no235`;
    * whole messages, uncompressed (any number of subsets, each with the cancel times of its own run:
      `C07_links_eq_spec_message`, `C07_links_eq_spec_message_no235`) and compressed (the links are shared
      by all subsets and are `Spec.links` of the items of the FIRST subset, from which the coder takes the
      bit-maps: `C07_links_eq_spec_compressed`);
    * the ENCODER, which records links with the same registers: one subset (`C07_encoder_links_eq_spec`),
      uncompressed messages (`C07_encoder_links_eq_spec_message`), compressed messages
      (`C07_encoder_links_eq_spec_compressed`).
  All for every template satisfying `Spec.WFlinks` and items satisfying `Spec.markersOk`.
-/
import BufrModel.Props.C07Spec
namespace Bufr
open Bufr.C07

/-- templates without 235YYY: no cancel times -/
theorem C07_links_eq_spec_no235 (t : List Desc) (bits : Bits) (o : SubsetOut) (rest : Bits)
    (h : decodeSubset t bits = .ok (o, rest)) (hwf : Spec.WFlinks t) (hno : Spec.noCancelL t = true)
    (hok : Spec.markersOk (o.descs.zip o.vals) = true) :
    o.links = Spec.links (o.descs.zip o.vals) [] := by
  have := C07_links_eq_spec t bits o rest h hwf hok
  rw [cancelsL_noCancel decPrimsU t hno] at this
  exact this

/-- uncompressed messages, any number of subsets: the report of every subset satisfies the headline with the
    cancel times of the run on the bits that subset consumed -/
theorem C07_links_eq_spec_message (t : List Desc) (n : Nat) (bits : Bits) (outs : List SubsetOut) (rest : Bits)
    (h : decodeData t false n bits = .ok (outs, rest)) (hwf : Spec.WFlinks t) :
    ∃ segs : List Bits, segs.length = n ∧ outs.length = n ∧ bits = segs.flatten ++ rest ∧
      ∀ i (hi : i < segs.length) (ho : i < outs.length),
        Spec.markersOk (outs[i].descs.zip outs[i].vals) = true →
        outs[i].links = Spec.links (outs[i].descs.zip outs[i].vals)
          (Spec.cancelsL decPrimsU t { bits := segs[i], vals := [[]] }) := by
  obtain ⟨segs, hl, hol, hb, hs⟩ := C07_links_of_subset_alone t n bits outs rest h
  exact ⟨segs, hl, hol, hb, fun i hi ho hok => C07_links_eq_spec t _ _ _ (hs i hi ho) hwf hok⟩

/-- uncompressed messages of templates without 235YYY -/
theorem C07_links_eq_spec_message_no235 (t : List Desc) (n : Nat) (bits : Bits) (outs : List SubsetOut) (rest : Bits)
    (h : decodeData t false n bits = .ok (outs, rest)) (hwf : Spec.WFlinks t) (hno : Spec.noCancelL t = true) :
    ∀ o ∈ outs, Spec.markersOk (o.descs.zip o.vals) = true → o.links = Spec.links (o.descs.zip o.vals) [] := by
  obtain ⟨segs, hl, hol, _, hs⟩ := C07_links_of_subset_alone t n bits outs rest h
  intro o ho hok
  obtain ⟨i, hi, rfl⟩ := List.mem_iff_getElem.mp ho
  exact C07_links_eq_spec_no235 t _ _ _ (hs i (by omega) hi) hwf hno hok

/-- compressed messages: all subsets share labels and links; the links are `Spec.links` of the items of the
    first subset (whose values are the bit-maps the coder uses) -/
theorem C07_links_eq_spec_compressed (t : List Desc) (n : Nat) (bits : Bits) (outs : List SubsetOut) (rest : Bits)
    (h : decodeData t true n bits = .ok (outs, rest)) (hwf : Spec.WFlinks t)
    (o0 : SubsetOut) (h0 : outs.head? = some o0) (hok : Spec.markersOk (o0.descs.zip o0.vals) = true) :
    ∀ o ∈ outs, o.descs = o0.descs ∧
      o.links = Spec.links (o0.descs.zip o0.vals)
        (Spec.cancelsL decPrimsC t { bits := bits, vals := List.replicate n [] }) := by
  simp only [decodeData, if_true] at h
  unfold decodeCompressed at h
  cases hw : walkList decPrimsC t { bits := bits, vals := List.replicate n [] } with
  | error e => rw [hw] at h; cases h
  | ok s =>
    rw [hw] at h
    cases h
    unfold St.outs at h0 ⊢
    cases hv : s.vals with
    | nil => rw [hv] at h0; cases h0
    | cons l0 r =>
      rw [hv] at h0
      simp only [List.map_cons, List.head?_cons, Option.some.injEq] at h0
      subst h0
      have hV : decV s = l0.reverse := by unfold decV; rw [hv]
      have hitems : items decV s = s.descs.reverse.zip l0.reverse := by unfold items; rw [hV]
      simp only at hok
      rw [← hitems] at hok
      have := (walk_links_eq_spec decPrimsC_rec t hwf _ s rfl rfl rfl (decV_replicate n bits) trivial hw hok).1
      intro o ho
      simp only [List.mem_map] at ho
      obtain ⟨l, _, rfl⟩ := ho
      exact ⟨rfl, by simp only; rw [this, hitems]⟩

/-! ### the encoder -/

/-- THE HEADLINE for the encoder, one subset -/
theorem C07_encoder_links_eq_spec (t : List Desc) (vals : List Val) (pre : Bits) (o : SubsetOut) (b : Bits)
    (h : encodeSubset t vals pre = .ok (o, b)) (hwf : Spec.WFlinks t)
    (hok : Spec.markersOk (o.descs.zip o.vals) = true) :
    o.links = Spec.links (o.descs.zip o.vals) (Spec.cancelsL encPrimsU t { bits := pre, vals := [vals] }) := by
  unfold encodeSubset at h
  cases hw : walkList encPrimsU t { bits := pre, vals := [vals] } with
  | error e => rw [hw] at h; cases h
  | ok s =>
    rw [hw] at h
    cases h
    exact encoder_walk_links encPrimsU_rec t hwf _ s rfl rfl rfl rfl hw hok

/-- the encoder, uncompressed messages: every subset with the cancel times of its own run -/
theorem C07_encoder_links_eq_spec_message (t : List Desc) (vs : List (List Val)) (outs : List SubsetOut) (bits : Bits)
    (h : encodeData t false vs = .ok (outs, bits)) (hwf : Spec.WFlinks t) :
    outs.length = vs.length ∧
    ∀ i (hi : i < vs.length) (ho : i < outs.length),
      Spec.markersOk (outs[i].descs.zip outs[i].vals) = true →
      outs[i].links = Spec.links (outs[i].descs.zip outs[i].vals)
        (Spec.cancelsL encPrimsU t { bits := [], vals := [vs[i]] }) := by
  obtain ⟨ts, hvs, hos, _, hf⟩ := C06_encode_together_implies_alone t vs outs bits h
  have l1 : ts.length = vs.length := by rw [← hvs]; simp
  have l3 : outs.length = ts.length := by rw [← hos]; simp
  refine ⟨by omega, ?_⟩
  intro i hi ho hok
  have hi2 : i < ts.length := by omega
  have a := hf ts[i] (List.getElem_mem hi2)
  have e1 : ts[i].1 = vs[i] := by subst hvs; simp
  have e3 : outs[i] = ts[i].2.1 := by subst hos; simp
  -- the single-subset message is one `encodeSubset`
  simp only [encodeData, Bool.false_eq_true, if_false, encodeSubsets] at a
  cases hs : encodeSubset t ts[i].1 [] with
  | error e => rw [hs] at a; cases a
  | ok q =>
    obtain ⟨o, b⟩ := q
    rw [hs] at a
    simp only [Except.ok.injEq, Prod.mk.injEq, List.cons.injEq, and_true] at a
    rw [e3, ← a.1] at hok ⊢
    rw [← e1]
    exact C07_encoder_links_eq_spec t _ [] o b hs hwf hok

/-- the encoder, compressed messages: shared labels and links, against the values of the first subset -/
theorem C07_encoder_links_eq_spec_compressed (t : List Desc) (vs : List (List Val)) (outs : List SubsetOut)
    (bits : Bits) (h : encodeData t true vs = .ok (outs, bits)) (hwf : Spec.WFlinks t) :
    ∀ o ∈ outs, Spec.markersOk (o.descs.zip (vs.headD [])) = true →
      o.links = Spec.links (o.descs.zip (vs.headD []))
        (Spec.cancelsL encPrimsC t { bits := [], vals := vs }) := by
  simp only [encodeData, if_true] at h
  unfold encodeCompressed at h
  cases hw : walkList encPrimsC t { bits := [], vals := vs } with
  | error e => rw [hw] at h; cases h
  | ok s =>
    rw [hw] at h
    simp only at h
    cases h
    intro o ho hok
    simp only [List.mem_map] at ho
    obtain ⟨l, _, rfl⟩ := ho
    exact encoder_walk_links encPrimsC_rec t hwf _ s rfl rfl rfl rfl hw hok

/-! ### non-vacuity -/

open C07ex in
/-- the two-subset message of Props/C07Subsets.lean meets the hypotheses (template `WFlinks`, no 235YYY, items
    `markersOk`), decoded and encoded; its links are those of the specification -/
example : decodeData tmpl false 2 (bitsA ++ bitsB) = .ok ([outA, outB], []) ∧ Spec.WFlinks tmpl ∧
    Spec.noCancelL tmpl = true ∧ Spec.markersOk (outA.descs.zip outA.vals) = true ∧
    Spec.markersOk (outB.descs.zip outB.vals) = true ∧
    encodeData tmpl false [outA.vals, outB.vals] = .ok ([outA, outB], bitsA ++ bitsB) ∧
    outA.links = [(9, 2)] := by
  refine ⟨?_, ?_, ?_, ?_, ?_, ?_, ?_⟩ <;> decide +kernel

namespace C07ex
/-- one element, `223000 101001 031031`, one substituted value -/
def tmplC : List Desc := [.elem (e 1001 4), .op 223000, .fixedRep 101001 [.elem bit], .op 223255]
def outC : SubsetOut :=
  { descs := [.plain (e 1001 4), .oper 223000, .plain bit, .marker 223255 (e 1001 4)],
    vals := [.int 3, .int 0, .int 0, .int 7], links := [(3, 0)] }
/-- two equal subsets, compressed: every column is minimum + increment width 0 -/
def bitsC : Bits := toBits 4 3 ++ toBits 6 0 ++ [false] ++ toBits 6 0 ++ toBits 4 7 ++ toBits 6 0
end C07ex

open C07ex in
/-- compressed, decoder and encoder: a two-subset message meeting the hypotheses of `C07_links_eq_spec_compressed`
    and `C07_encoder_links_eq_spec_compressed` (template `WFlinks`, items of the first subset `markersOk`), with a
    zero bit, a marker value and the link 3 ↦ 0 shared by both subsets -/
example : decodeData tmplC true 2 bitsC = .ok ([outC, outC], []) ∧ [outC, outC].head? = some outC ∧
    Spec.WFlinks tmplC ∧ Spec.markersOk (outC.descs.zip outC.vals) = true ∧
    encodeData tmplC true [outC.vals, outC.vals] = .ok ([outC, outC], bitsC) ∧
    Spec.markersOk (outC.descs.zip ([outC.vals, outC.vals].headD [])) = true ∧
    outC.links = Spec.links (outC.descs.zip outC.vals) [] := by
  refine ⟨?_, ?_, ?_, ?_, ?_, ?_, ?_⟩ <;> decide +kernel

end Bufr
