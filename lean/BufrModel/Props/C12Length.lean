/-
  C12 — … a message whose DECLARED SECTION LENGTH has been damaged is reported with the library's own error.

  A damaged section length reaches the section decoder in three places: the descriptor count of section 3
  (`(section_length - nbytes_read) // 2`), the width of a rest-of-section parameter (`section_length * 8 - bits read`:
  section 1 of edition 2/3 `local_bytes`, section 2 `local_bits`) and the tail of `process_section` (skip / overrun).
  Finding F14 was the second one going negative (`ValueError: bin:-8` for a section 2 of length 3); seeded change
  C12-3 is the first one going negative after an "optimisation".  The theorems here cover ALL sections and ALL
  declared values at once, over any layout that meets the decidable condition `SectionLayout.lenOK`
  (`section_length` first, 24 bits unsigned; every other parameter has a width the bit reader accepts):

  * `C12_section_errors_are_library_errors`  whatever the bits, whatever the declared length: when the decoding of
        a section fails, it fails with a LIBRARY error (`Err.isLib`) — provided the data coder does;
  * `C12_short_section_length_refused`       a declared length below the fixed part of the section (`fixedBits`:
        the widths of its parameters) is ALWAYS refused, and with a library error: nothing parses, at every section;
  * `C12_loop_propagates_section_error`      the section loop of `Decoder.process` hands that error on unchanged,
        whatever was decoded before; `C12_short_section_length_refused_in_loop`: hence a short length is refused with a
        library error at every section of every message, from any loop state;
  * `C12_bundled_layouts_lenOK`              the bundled layouts (regenerated from /repo on every run) meet the
        condition for every section with a length, under every combination of `info_only` /
        `ignore_value_expectation`; `C12_bundled_fixed_parts`: their fixed parts are 18 (editions 2, 3) / 22 (edition 4 and default), 4, 7, 4 octets.
-/
import BufrModel.Msg.Sections
import BufrModel.Gen.Layouts
import BufrModel.Lemmas.SectionsErr
import BufrModel.Lemmas.DecoderState
import BufrModel.Props.C12Msg
namespace Bufr

theorem R.bind_eq_of_ok {α β : Type} {f : R α} {g : α → R β} {x r : Bits} {a : α} (h : f x = .ok (a, r)) :
    R.bind f g x = g a r := by
  simp only [R.bind, h]

theorem R.bind_eq_of_error {α β : Type} {f : R α} {g : α → R β} {x : Bits} {e : Err} (h : f x = .error e) :
    R.bind f g x = .error e := by
  simp only [R.bind, h]

theorem lenOK_cons {s : SectionLayout} (h : s.lenOK = true) :
    ∃ p ps, s.params = p :: ps ∧ p.name = "section_length" ∧ p.nbits = 24 ∧ p.ty = .uint ∧ p.expected = none ∧
      ps.all Param.readOK = true := by
  unfold SectionLayout.lenOK at h
  cases hp : s.params with
  | nil => rw [hp] at h; cases h
  | cons p ps =>
    rw [hp] at h
    simp only [Bool.and_eq_true, beq_iff_eq, Option.isNone_iff_eq_none] at h
    exact ⟨p, ps, rfl, h.1.1.1.1, h.1.1.1.2, h.1.1.2, h.1.2, h.2⟩

theorem lenOK_hasParam {s : SectionLayout} (h : s.lenOK = true) : s.hasParam "section_length" = true := by
  obtain ⟨p, ps, hps, hname, _⟩ := lenOK_cons h
  simp [SectionLayout.hasParam, hps, hname]

theorem errLib_finishSection {α : Type} (s : SectionLayout) (st : DecSt α)
    (hl : ∃ v, st.acc.lookup "section_length" = some (PVal.int v)) : R.ErrLib (finishSection s st) := by
  obtain ⟨v, hv⟩ := hl
  have hs := secLen_of_lookup hv
  unfold finishSection
  split
  · refine R.ErrLib.bind (R.ErrLib.lift _ (by intro e he; rw [hs] at he; cases he)) fun _ d _ _ => ?_
    split
    · exact R.ErrLib.map _ (errLib_readBits _)
    · split
      · exact R.ErrLib.fail _ rfl
      · exact R.ErrLib.pure _
  · exact R.ErrLib.pure _

/-- the first parameter of a section with a length: what `decValue` reads is the 24-bit unsigned value -/
theorem decValue_len_first {α : Type} (dc : DataCoder α) (st : DecSt α) (p : Param) (hnb : p.nbits = 24) (hty : p.ty = .uint)
    (x : Bits) :
    R.counted (decValue dc st p) x =
      (match readUInt 24 x with
       | .error e => .error e
       | .ok (d, r) => .ok (((PVal.int (Int.ofNat d), none), x.length - r.length), r)) := by
  simp only [R.counted, decValue, hty, hnb, if_neg (by decide : ¬ (24 : Nat) = 0), readTyped, R.map, R.bind, R.pure]
  cases hr : readUInt 24 x with
  | error e => rfl
  | ok a => obtain ⟨d, r⟩ := a; rfl

/-- what the decoding of a section with a length comes to: either it fails before the tail of `process_section`, with
    a library error; or all parameters were read, `used` is at least the fixed part, the declared length `d` is
    what the first 24 bits say, and the result is the tail's (`finishSection`) -/
theorem decSection_cases {α : Type} (dc : DataCoder α) (hdc : ∀ reg, R.ErrLib (dc.dec reg)) (s : SectionLayout)
    (hs : s.lenOK = true) (reg : Registry) (start : Nat) (x : Bits) :
    (∃ e, decSection dc s reg start x = .error e ∧ e.isLib = true) ∨
    (∃ (d : Nat) (r1 : Bits) (st' : DecSt α) (r3 : Bits), readUInt 24 x = .ok (d, r1) ∧
        fixedBits s.params ≤ st'.used ∧ st'.acc.lookup "section_length" = some (PVal.int (Int.ofNat d)) ∧
        decSection dc s reg start x = finishSection s st' r3) := by
  obtain ⟨p, ps, hps, hname, hnb, hty, hexp, hall⟩ := lenOK_cons hs
  have hfirst := decValue_len_first dc { reg := reg, acc := [], used := 0, data := none } p hnb hty x
  unfold decSection
  rw [hps]
  cases hr : readUInt 24 x with
  | error e =>
    left
    rw [hr] at hfirst
    refine ⟨e, ?_, errLib_readUInt 24 (by decide) x e hr⟩
    rw [R.bind_eq_of_error]
    simp only [decParams]
    exact R.bind_eq_of_error hfirst
  | ok a =>
    obtain ⟨d, r1⟩ := a
    rw [hr] at hfirst
    simp only at hfirst
    have hce : checkExpected p (PVal.int (Int.ofNat d)) = .ok () := by simp only [checkExpected, hexp]
    have hlen := readUInt_len hr
    -- the state after the first parameter
    have hstep : ∀ (k : DecSt α → R (DecSection × Registry × Option α)),
        R.bind (decParams dc start (p :: ps) 0 { reg := reg, acc := [], used := 0, data := none }) k x =
        R.bind (decParams dc start ps (0 + p.nbits)
          { reg := if p.asProperty then (p.name, { val := PVal.int (Int.ofNat d), nbits := p.nbits, pos := start + 0 }) :: reg else reg,
            acc := [] ++ [(p.name, PVal.int (Int.ofNat d))], used := 0 + (x.length - r1.length), data := none }) k r1 := by
      intro k
      simp only [decParams, R.bind, hfirst, hce, R.lift, R.pure]
    rw [hstep]
    cases hq : decParams dc start ps (0 + p.nbits)
          { reg := if p.asProperty then (p.name, { val := PVal.int (Int.ofNat d), nbits := p.nbits, pos := start + 0 }) :: reg else reg,
            acc := [] ++ [(p.name, PVal.int (Int.ofNat d))], used := 0 + (x.length - r1.length), data := none } r1 with
    | error e =>
      left
      refine ⟨e, R.bind_eq_of_error hq, ?_⟩
      exact errLib_decParams dc hdc start ps _ _ hall ⟨Int.ofNat d, by simp [hname]⟩ r1 e hq
    | ok b =>
      obtain ⟨st', r3⟩ := b
      right
      obtain ⟨hu, m, hm⟩ := decParams_used dc start ps _ _ _ _ _ hall hq
      simp only at hu hm
      refine ⟨d, r1, st', r3, rfl, ?_, ?_, R.bind_eq_of_ok hq⟩
      · simp only [fixedBits, List.map_cons, List.sum_cons, hnb] at hu ⊢
        omega
      · rw [hm]
        exact lookup_append_some (by simp [hname])

/-- **every error of the section decoder is a library error**, for every section that carries a length, whatever
    the bits and whatever the declared length says (as long as the data coder raises library errors only): no
    declared value can make the section layer hand a negative / zero width to the bit reader or miss its own length.
    This is F14's repair, for all sections at once. -/
theorem C12_section_errors_are_library_errors {α : Type} (dc : DataCoder α) (hdc : ∀ reg, R.ErrLib (dc.dec reg))
    (s : SectionLayout) (hs : s.lenOK = true) (reg : Registry) (start : Nat) :
    R.ErrLib (decSection dc s reg start) := by
  intro x e h
  rcases decSection_cases dc hdc s hs reg start x with ⟨e', he', hl⟩ | ⟨d, r1, st', r3, _, _, hlook, heq⟩
  · rw [he'] at h; cases h; exact hl
  · rw [heq] at h
    exact errLib_finishSection s st' ⟨_, hlook⟩ r3 e h

/-- **a declared section length below the section's fixed part is always refused, with a library error**: when
    the 24 bits at the start of the section say `d` octets and the parameters of the section take more than that
    whatever follows (`fixedBits`), the section does not decode — at every section, for every `d`, every content, full
    or metadata-only layout (any layout with `lenOK`). -/
theorem C12_short_section_length_refused {α : Type} (dc : DataCoder α) (hdc : ∀ reg, R.ErrLib (dc.dec reg))
    (s : SectionLayout) (hs : s.lenOK = true) (reg : Registry) (start : Nat) (bits rest : Bits) (d : Nat)
    (hd : readUInt 24 bits = .ok (d, rest)) (hshort : d * 8 < fixedBits s.params) :
    ∃ e, decSection dc s reg start bits = .error e ∧ e.isLib = true := by
  rcases decSection_cases dc hdc s hs reg start bits with h | ⟨d', r1, st', r3, hd', hu, hlook, heq⟩
  · exact h
  · rw [hd] at hd'
    cases hd'
    refine ⟨.lib, ?_, rfl⟩
    rw [heq]
    have hsl : secLen st'.acc = .ok d := secLen_of_lookup hlook
    have h1 : ¬ (st'.used < d * 8) := by omega
    have h2 : d * 8 < st'.used := by omega
    simp only [finishSection, lenOK_hasParam hs, if_true, R.bind, hsl, R.lift, R.pure, h1, h2, if_false, R.fail]

/-- the section loop of `Decoder.process` hands the error of a section on unchanged — whichever section it is,
    whatever was decoded before (any loop state) -/
theorem C12_loop_propagates_section_error {α : Type} (L : Layouts) (dc : DataCoder α) (o : DecOpts) (fuel idx : Nat)
    (reg : Registry) (out : DecOut α) (bits : Bits) (s0 : SectionLayout) (e : Err)
    (hcfg : getCfg L idx reg.editionKey = .ok s0) (hpres : isPresent reg (o.transform s0) idx = .ok true)
    (herr : decSection dc (o.transform s0) reg out.nbits bits = .error e) :
    decLoop L dc o (fuel + 1) idx reg out bits = .error e := by
  rw [Stream.decLoop_succ]
  simp only [hcfg, hpres, Bool.not_true, Bool.false_eq_true, if_false, herr]

/-- **at every section of `Decoder.process`**: whatever was decoded before (any loop state: section index, registry,
    sections so far), when the section that comes next carries a length, its first 24 bits say `d` octets and that is
    less than its fixed part, the whole decoding fails with a library error -/
theorem C12_short_section_length_refused_in_loop {α : Type} (L : Layouts) (dc : DataCoder α)
    (hdc : ∀ reg, R.ErrLib (dc.dec reg)) (o : DecOpts) (fuel idx : Nat) (reg : Registry) (out : DecOut α)
    (bits rest : Bits) (s0 : SectionLayout) (d : Nat)
    (hcfg : getCfg L idx reg.editionKey = .ok s0) (hpres : isPresent reg (o.transform s0) idx = .ok true)
    (hs : (o.transform s0).lenOK = true) (hd : readUInt 24 bits = .ok (d, rest))
    (hshort : d * 8 < fixedBits (o.transform s0).params) :
    ∃ e, decLoop L dc o (fuel + 1) idx reg out bits = .error e ∧ e.isLib = true := by
  obtain ⟨e, he, hl⟩ := C12_short_section_length_refused dc hdc (o.transform s0) hs reg out.nbits bits rest d hd hshort
  exact ⟨e, C12_loop_propagates_section_error L dc o fuel idx reg out bits s0 e hcfg hpres he, hl⟩

/-- the bundled layouts: every section that carries a length meets `lenOK`, in all four decoding modes -/
theorem C12_bundled_layouts_lenOK :
    Gen.layouts.all (fun e => !e.layout.hasParam "section_length" ||
      ((({ infoOnly := false, ignoreExpect := false } : DecOpts).transform e.layout).lenOK &&
       (({ infoOnly := true, ignoreExpect := false } : DecOpts).transform e.layout).lenOK &&
       (({ infoOnly := false, ignoreExpect := true } : DecOpts).transform e.layout).lenOK &&
       (({ infoOnly := true, ignoreExpect := true } : DecOpts).transform e.layout).lenOK)) = true := by
  decide

/-- the fixed parts of the bundled sections, in octets: (section index, edition key, octets) -/
theorem C12_bundled_fixed_parts :
    (Gen.layouts.filter (fun e => e.layout.hasParam "section_length")).map
        (fun e => (e.index, e.edition, fixedBits e.layout.params / 8)) =
      [(1, 2, 18), (1, 3, 18), (1, 4, 22), (1, 0, 22), (2, 0, 4), (3, 0, 7), (4, 0, 4)] := by
  decide

/-- the driver's raw data reader raises bit-read errors only -/
theorem errLib_rawCoder (n : Nat) : ∀ reg, R.ErrLib ((rawCoder n).dec reg) := fun _ => errLib_readBits n

/-- a data coder built on `decodeData` raises library errors only as far as `decodeData` does (it does NOT in general:
    finding F15 — a garbled template or garbled data make the walk raise `other`; which is why the two theorems above
    carry the hypothesis) -/
theorem errLib_tableCoder (T : Tables)
    (h : ∀ tmpl c n bits e, decodeData tmpl c n bits = .error e → e.isLib = true)
    (hb : ∀ ids e, build T ids = .error e → e.isLib = true)
    (reg : Registry)
    (hreg : ∃ ids comp n a b c d e f, reg.get? "unexpanded_descriptors" = some { val := .descs ids, nbits := a, pos := b } ∧
      reg.get? "is_compressed" = some { val := .bool comp, nbits := c, pos := d } ∧
      reg.get? "n_subsets" = some { val := .int n, nbits := e, pos := f }) :
    R.ErrLib ((Stream.tableCoder T).dec reg) := by
  obtain ⟨ids, comp, n, a, b, c, d, e, f, h1, h2, h3⟩ := hreg
  intro x err hx
  simp only [Stream.tableCoder, h1, h2, h3] at hx
  cases hbt : build T ids with
  | error e' => rw [hbt] at hx; cases hx; exact hb ids _ hbt
  | ok tmpl => rw [hbt] at hx; exact h tmpl comp n.toNat x err hx

/-! ## non-vacuity -/

namespace C12Len
/-- the bundled (default-edition) layout of section `i` -/
def sec (i : Nat) : SectionLayout :=
  ((Gen.layouts.find? (fun e => e.index == i && e.edition == 0)).map (·.layout)).getD default
/-- message `m` with octet `i` replaced -/
def withByte (m : List UInt8) (i v : Nat) : List UInt8 := m.set i (UInt8.ofNat v)
def tail3 : Bits := bytesToBits [0, 0, 1, 128, 31, 31, 31, 31, 31, 31, 31, 31, 31, 31, 0, 0, 5, 0, 176]
end C12Len

/-- the hypotheses of `C12_short_section_length_refused` are satisfiable: section 3 (fixed part 7 octets = 56 bits)
    declaring 5 octets, followed by the rest of the 56-octet example message -/
example : ∃ e, decSection (rawCoder 5) (C12Len.sec 3) Registry.init 240 (bytesToBits [0, 0, 5] ++ C12Len.tail3) = .error e ∧
    e.isLib = true :=
  C12_short_section_length_refused (rawCoder 5) (errLib_rawCoder 5) (C12Len.sec 3) (by decide) _ _ _ C12Len.tail3 5
    (by decide +kernel) (by decide)

/-- … and of `C12_section_errors_are_library_errors` (the same section, cut after 40 bits: a bit-read error) -/
example : (decSection (rawCoder 5) (C12Len.sec 3) Registry.init 240 ((bytesToBits [0, 0, 17] ++ C12Len.tail3).take 40)).map
      (fun _ => ()) = .error .bitRead ∧
    R.ErrLib (decSection (rawCoder 5) (C12Len.sec 3) Registry.init 240) :=
  ⟨by decide +kernel, C12_section_errors_are_library_errors _ (errLib_rawCoder 5) _ (by decide) _ _⟩

/-- the hypotheses of `C12_short_section_length_refused_in_loop` are satisfiable: the loop about to decode section 3
    (edition 4 in the registry) of a message whose section 3 declares 5 octets -/
example : ∃ e, decLoop Gen.layouts (rawCoder 5) {} 4 3 (("edition", { val := .int 4, nbits := 8, pos := 56 }) :: Registry.init)
      { sections := [], data := none, nbits := 240 } (bytesToBits [0, 0, 5] ++ C12Len.tail3) = .error e ∧ e.isLib = true :=
  C12_short_section_length_refused_in_loop Gen.layouts (rawCoder 5) (errLib_rawCoder 5) {} 3 3 _ _ _ C12Len.tail3
    (C12Len.sec 3) 5 (by decide +kernel) (by decide +kernel) (by decide) (by decide +kernel) (by decide)

/-- at message level, by evaluation: the 56-octet edition-4 message of `Props/C12Msg.lean` (sections 1, 3, 4 at octets
    8, 30, 47 with 22, 17, 5 octets) with the declared length of section 1 set to EVERY value below 22, of section 3 to
    every value below 7, of section 4 to every value below 4 is refused with the library error — by the full decode
    and by the metadata-only decode (which keeps the section-4 header) -/
example :
    ((List.range 22).all fun v => [false, true].all fun io =>
      decide ((decode Gen.layouts (rawCoder 5) { infoOnly := io } (C12Len.withByte C12Msg.msg 10 v)).map (·.nbits) = .error .lib)) ∧
    ((List.range 7).all fun v => [false, true].all fun io =>
      decide ((decode Gen.layouts (rawCoder 5) { infoOnly := io } (C12Len.withByte C12Msg.msg 32 v)).map (·.nbits) = .error .lib)) ∧
    ((List.range 4).all fun v => [false, true].all fun io =>
      decide ((decode Gen.layouts (rawCoder 5) { infoOnly := io } (C12Len.withByte C12Msg.msg 49 v)).map (·.nbits) = .error .lib)) := by
  decide +kernel

end Bufr
