/-
  C12 — … a message whose DECLARED SECTION LENGTH has been damaged is reported with the library's own error.

  A damaged section length reaches the section decoder in three places: the descriptor count of section 3
  (`(section_length - nbytes_read) // 2`), the width of a rest-of-section parameter (`section_length * 8 - bits read`:
  section 1 of edition 2/3 `local_bytes`, section 2 `local_bits`) and the tail of `process_section` (skip / overrun).
  Finding F14 was the second one going negative (`ValueError: bin:-8` for a section 2 of length 3); seeded change
  C12-3 is the first one going negative after an "optimisation".  The theorems here cover ALL sections and ALL
  declared values at once, over any layout that meets the decidable condition `SectionLayout.lenOK`
  (`section_length` first, 24 bits unsigned; every other parameter has a width the bit reader accepts):

  * `C12_section_errors_are_library_errors`  whatever the bits, whatever the declared length: when the decoding of
        a section fails, it fails with a LIBRARY error (`Err.isLib`) — provided the data coder does;
  * `C12_short_section_length_refused`       a declared length below the fixed part of the section (`fixedBits`:
        the widths of its parameters) is ALWAYS refused, and with a library error: nothing parses, at every section;
  * `C12_loop_propagates_section_error`      the section loop of `Decoder.process` hands that error on unchanged,
        whatever was decoded before; `C12_short_section_length_refused_in_loop`: hence a short length is refused with a
        library error at every section of every message, from any loop state;
  * `C12_msg_short_section_length_refused`   for ALL messages: take any bit string that decodes, any of its sections that
        carries a length, and replace everything from the start of that section by any bits whose first 24 declare less
        than the fixed part: the decoding fails with a library error (the sections before are decoded as before:
        `decLoop_visits`);
  * `C12_short_section_length_refused_no_data`  both statements for EVERY data coder when the section does not hold the
        template data (bundled: all sections but section 4 of a full decode, `C12_bundled_data_only_in_section4`) — the data
        coder is only a hypothesis where it is actually run (F15 / F23 are about what it raises on garbled input);
  * `C12_bundled_layouts_lenOK`              the bundled layouts (regenerated from /repo on every run) meet the
        condition for every section with a length, under every combination of `info_only` /
        `ignore_value_expectation`; `C12_bundled_fixed_parts`: their fixed parts are 18 (editions 2, 3) / 22 (edition 4 and default), 4, 7, 4 octets.
-/
import BufrModel.Msg.Sections
import BufrModel.Gen.Layouts
import BufrModel.Lemmas.SectionsErr
import BufrModel.Lemmas.DecoderState
import BufrModel.Props.C12Msg
namespace Bufr

/-- **every error of the section decoder is a library error**, for every section that carries a length, whatever
    the bits and whatever the declared length says (when the section holds the template data: as long as the data coder
    raises library errors only; for every other section and for metadata-only layouts unconditionally): no
    declared value can make the section layer hand a negative / zero width to the bit reader or miss its own length.
    This is F14's repair, for all sections at once. -/
theorem C12_section_errors_are_library_errors {α : Type} (dc : DataCoder α) (s : SectionLayout)
    (hdc : HasData s.params → ∀ reg, R.ErrLib (dc.dec reg)) (hs : s.lenOK = true) (reg : Registry) (start : Nat) :
    R.ErrLib (decSection dc s reg start) := by
  intro x e h
  rcases decSection_cases dc s hdc hs reg start x with ⟨e', he', hl⟩ | ⟨d, r1, st', r3, _, _, hlook, heq⟩
  · rw [he'] at h; cases h; exact hl
  · rw [heq] at h
    exact errLib_finishSection s st' ⟨_, hlook⟩ r3 e h

/-- **a declared section length below the section's fixed part is always refused, with a library error**: when
    the 24 bits at the start of the section say `d` octets and the parameters of the section take more than that
    whatever follows (`fixedBits`), the section does not decode — at every section, for every `d`, every content, full
    or metadata-only layout (any layout with `lenOK`). -/
theorem C12_short_section_length_refused {α : Type} (dc : DataCoder α) (s : SectionLayout)
    (hdc : HasData s.params → ∀ reg, R.ErrLib (dc.dec reg)) (hs : s.lenOK = true) (reg : Registry) (start : Nat) (bits rest : Bits) (d : Nat)
    (hd : readUInt 24 bits = .ok (d, rest)) (hshort : d * 8 < fixedBits s.params) :
    ∃ e, decSection dc s reg start bits = .error e ∧ e.isLib = true := by
  rcases decSection_cases dc s hdc hs reg start bits with h | ⟨d', r1, st', r3, hd', hu, hlook, heq⟩
  · exact h
  · rw [hd] at hd'
    cases hd'
    refine ⟨.lib, ?_, rfl⟩
    rw [heq]
    have hsl : secLen st'.acc = .ok d := secLen_of_lookup hlook
    have h1 : ¬ (st'.used < d * 8) := by omega
    have h2 : d * 8 < st'.used := by omega
    simp only [finishSection, lenOK_hasParam hs, if_true, R.bind, hsl, R.lift, R.pure, h1, h2, if_false, R.fail]

/-- the section loop of `Decoder.process` hands the error of a section on unchanged — whichever section it is,
    whatever was decoded before (any loop state) -/
theorem C12_loop_propagates_section_error {α : Type} (L : Layouts) (dc : DataCoder α) (o : DecOpts) (fuel idx : Nat)
    (reg : Registry) (out : DecOut α) (bits : Bits) (s0 : SectionLayout) (e : Err)
    (hcfg : getCfg L idx reg.editionKey = .ok s0) (hpres : isPresent reg (o.transform s0) idx = .ok true)
    (herr : decSection dc (o.transform s0) reg out.nbits bits = .error e) :
    decLoop L dc o (fuel + 1) idx reg out bits = .error e := by
  rw [Stream.decLoop_succ]
  simp only [hcfg, hpres, Bool.not_true, Bool.false_eq_true, if_false, herr]

/-- **at every section of `Decoder.process`**: whatever was decoded before (any loop state: section index, registry,
    sections so far), when the section that comes next carries a length, its first 24 bits say `d` octets and that is
    less than its fixed part, the whole decoding fails with a library error -/
theorem C12_short_section_length_refused_in_loop {α : Type} (L : Layouts) (dc : DataCoder α)
    (o : DecOpts) (fuel idx : Nat) (reg : Registry) (out : DecOut α)
    (bits rest : Bits) (s0 : SectionLayout) (d : Nat)
    (hdc : HasData (o.transform s0).params → ∀ reg, R.ErrLib (dc.dec reg))
    (hcfg : getCfg L idx reg.editionKey = .ok s0) (hpres : isPresent reg (o.transform s0) idx = .ok true)
    (hs : (o.transform s0).lenOK = true) (hd : readUInt 24 bits = .ok (d, rest))
    (hshort : d * 8 < fixedBits (o.transform s0).params) :
    ∃ e, decLoop L dc o (fuel + 1) idx reg out bits = .error e ∧ e.isLib = true := by
  obtain ⟨e, he, hl⟩ := C12_short_section_length_refused dc (o.transform s0) hdc hs reg out.nbits bits rest d hd hshort
  exact ⟨e, C12_loop_propagates_section_error L dc o fuel idx reg out bits s0 e hcfg hpres he, hl⟩

/-- **a damaged section length in an otherwise valid message, for ALL messages**: let a bit string decode (any
    layouts, options, prefix-determined data coder; the coder has to raise library errors only where the damaged
    section is the one that holds the template data), let `sec` be one of its sections
    that carries a length, `n1` the sections before it.  Replace everything from the start of `sec` on by ANY bits
    `tail` whose first 24 bits declare `d` octets, less than the fixed part of every layout of that section index:
    the decoding fails, with a library error.  (The sections before `sec` are decoded exactly as before — the loop
    arrives at `sec` in the same state — and there `C12_short_section_length_refused_in_loop` applies.) -/
theorem C12_msg_short_section_length_refused {α : Type} (L : Layouts) (dc : DataCoder α)
    (hloc : ∀ reg, Local (dc.dec reg)) (o : DecOpts)
    (herr : ∀ idx ed s0, getCfg L idx ed = .ok s0 → HasData (o.transform s0).params → ∀ reg, R.ErrLib (dc.dec reg))
    (hL : ∀ idx ed s0, getCfg L idx ed = .ok s0 → (o.transform s0).hasParam "section_length" = true →
      (o.transform s0).lenOK = true)
    (bits : Bits) (out : DecOut α) (r : Bits) (hok : decodeBits L dc o bits = .ok (out, r))
    (n1 : List DecSection) (sec : DecSection) (n2 : List DecSection) (hsplit : out.sections = n1 ++ sec :: n2)
    (hsl : "section_length" ∈ sec.params.map (·.1))
    (tail rest : Bits) (d : Nat) (hd : readUInt 24 tail = .ok (d, rest))
    (hshort : ∀ idx ed s0, getCfg L idx ed = .ok s0 → (o.transform s0).index = sec.index →
      d * 8 < fixedBits (o.transform s0).params) :
    ∃ e, decodeBits L dc o (bits.take ((n1.map (·.nbits)).sum) ++ tail) = .error e ∧ e.isLib = true := by
  unfold decodeBits at hok ⊢
  obtain ⟨news, hnews, hv⟩ := decLoop_visits L dc hloc o _ _ _ _ _ _ _ hok
  simp only [List.nil_append] at hnews
  obtain ⟨p, q, fuel', idx', reg', outk, s0, hx, hpl, hc, hp, hi, hn, heq⟩ := hv n1 sec n2 (by rw [← hnews]; exact hsplit)
  have hp_take : bits.take ((n1.map (·.nbits)).sum) = p := by
    rw [hx, ← hpl, List.take_left']
    rfl
  rw [hp_take, heq tail]
  have hhas : (o.transform s0).hasParam "section_length" = true := by
    rw [hn] at hsl
    obtain ⟨q', hq', hqn⟩ := List.mem_map.mp hsl
    simp only [SectionLayout.hasParam, List.any_eq_true, beq_iff_eq]
    exact ⟨q', hq', hqn⟩
  exact C12_short_section_length_refused_in_loop L dc o fuel' idx' reg' outk tail rest s0 d (herr _ _ _ hc) hc hp
    (hL _ _ _ hc hhas) hd (hshort _ _ _ hc hi.symm)

/-- a section that does not hold the template data (sections 1, 2, 3; section 4 under `info_only`): the two statements
    hold for EVERY data coder — in particular for `Stream.tableCoder`, whatever its walk may raise -/
theorem C12_short_section_length_refused_no_data {α : Type} (dc : DataCoder α) (s : SectionLayout)
    (hnd : s.params.all (fun p => p.ty != .templateData) = true) (hs : s.lenOK = true) (reg : Registry) (start : Nat)
    (bits rest : Bits) (d : Nat) (hd : readUInt 24 bits = .ok (d, rest)) (hshort : d * 8 < fixedBits s.params) :
    (∃ e, decSection dc s reg start bits = .error e ∧ e.isLib = true) ∧ R.ErrLib (decSection dc s reg start) := by
  have hno : HasData s.params → ∀ reg, R.ErrLib (dc.dec reg) := by
    intro ⟨p, hp, ht⟩
    have := List.all_eq_true.mp hnd p hp
    simp [ht] at this
  exact ⟨C12_short_section_length_refused dc s hno hs reg start bits rest d hd hshort,
         C12_section_errors_are_library_errors dc s hno hs reg start⟩

/-- bundled layouts: the template data sits in section 4 of a full decode only -/
theorem C12_bundled_data_only_in_section4 :
    Gen.layouts.all (fun e => [false, true].all fun io => [false, true].all fun ig =>
      (e.index == 4 && !io) ||
        (({ infoOnly := io, ignoreExpect := ig } : DecOpts).transform e.layout).params.all (fun p => p.ty != .templateData)) = true := by
  decide

/-- the bundled layouts: every section that carries a length meets `lenOK`, in all four decoding modes -/
theorem C12_bundled_layouts_lenOK :
    Gen.layouts.all (fun e => !e.layout.hasParam "section_length" ||
      ((({ infoOnly := false, ignoreExpect := false } : DecOpts).transform e.layout).lenOK &&
       (({ infoOnly := true, ignoreExpect := false } : DecOpts).transform e.layout).lenOK &&
       (({ infoOnly := false, ignoreExpect := true } : DecOpts).transform e.layout).lenOK &&
       (({ infoOnly := true, ignoreExpect := true } : DecOpts).transform e.layout).lenOK)) = true := by
  decide

/-- the fixed parts of the bundled sections, in octets: (section index, edition key, octets) -/
theorem C12_bundled_fixed_parts :
    (Gen.layouts.filter (fun e => e.layout.hasParam "section_length")).map
        (fun e => (e.index, e.edition, fixedBits e.layout.params / 8)) =
      [(1, 2, 18), (1, 3, 18), (1, 4, 22), (1, 0, 22), (2, 0, 4), (3, 0, 7), (4, 0, 4)] := by
  decide

/-- the bundled layouts meet the layout hypothesis of `C12_msg_short_section_length_refused`, in every decoding mode -/
theorem C12_bundled_layouts_lenOK_of_cfg (o : DecOpts) (idx ed : Nat) (s0 : SectionLayout)
    (hc : getCfg Gen.layouts idx ed = .ok s0) (hh : (o.transform s0).hasParam "section_length" = true) :
    (o.transform s0).lenOK = true := by
  obtain ⟨e, he, rfl, _⟩ := getCfg_mem hc
  have hall : Gen.layouts.all (fun e => [false, true].all fun io => [false, true].all fun ig =>
      !(({ infoOnly := io, ignoreExpect := ig } : DecOpts).transform e.layout).hasParam "section_length" ||
        (({ infoOnly := io, ignoreExpect := ig } : DecOpts).transform e.layout).lenOK) = true := by decide
  have h1 := List.all_eq_true.mp hall e he
  obtain ⟨io, ig⟩ := o
  cases io <;> cases ig <;> simp only [List.all_cons, List.all_nil, Bool.and_true, Bool.and_eq_true, Bool.or_eq_true,
    Bool.not_eq_true'] at h1 <;> simp_all

/-- … and every bundled layout of section index 3 has a fixed part of 56 bits -/
theorem C12_bundled_section3_fixed (idx ed : Nat) (s0 : SectionLayout) (hc : getCfg Gen.layouts idx ed = .ok s0)
    (hi : s0.index = 3) : fixedBits s0.params = 56 := by
  obtain ⟨e, he, rfl, _⟩ := getCfg_mem hc
  have hall : Gen.layouts.all (fun e => e.layout.index != 3 || fixedBits e.layout.params == 56) = true := by decide
  have h1 := List.all_eq_true.mp hall e he
  simp only [Bool.or_eq_true, bne_iff_ne, ne_eq, beq_iff_eq] at h1
  rcases h1 with h1 | h1
  · exact absurd hi h1
  · exact h1

/-! ## non-vacuity -/

namespace C12Len
/-- the bundled (default-edition) layout of section `i` -/
def sec (i : Nat) : SectionLayout :=
  ((Gen.layouts.find? (fun e => e.index == i && e.edition == 0)).map (·.layout)).getD default
/-- message `m` with octet `i` replaced -/
def withByte (m : List UInt8) (i v : Nat) : List UInt8 := m.set i (UInt8.ofNat v)
def tail3 : Bits := bytesToBits [0, 0, 1, 128, 31, 31, 31, 31, 31, 31, 31, 31, 31, 31, 0, 0, 5, 0, 176]
end C12Len

/-- the hypotheses of `C12_short_section_length_refused` are satisfiable: section 3 (fixed part 7 octets = 56 bits)
    declaring 5 octets, followed by the rest of the 56-octet example message -/
example : ∃ e, decSection (rawCoder 5) (C12Len.sec 3) Registry.init 240 (bytesToBits [0, 0, 5] ++ C12Len.tail3) = .error e ∧
    e.isLib = true :=
  C12_short_section_length_refused (rawCoder 5) (C12Len.sec 3) (fun _ => errLib_rawCoder 5) (by decide) _ _ _ C12Len.tail3 5
    (by decide +kernel) (by decide)

/-- … of `C12_short_section_length_refused_no_data`: the same section under the real data coder of ANY table group -/
example (T : Tables) :
    (∃ e, decSection (Stream.tableCoder T) (C12Len.sec 3) Registry.init 240 (bytesToBits [0, 0, 5] ++ C12Len.tail3) = .error e ∧
      e.isLib = true) ∧ R.ErrLib (decSection (Stream.tableCoder T) (C12Len.sec 3) Registry.init 240) :=
  C12_short_section_length_refused_no_data (Stream.tableCoder T) (C12Len.sec 3) (by decide) (by decide) _ _ _ C12Len.tail3 5
    (by decide +kernel) (by decide)

/-- … and of `C12_section_errors_are_library_errors` (the same section, cut after 40 bits: a bit-read error) -/
example : (decSection (rawCoder 5) (C12Len.sec 3) Registry.init 240 ((bytesToBits [0, 0, 17] ++ C12Len.tail3).take 40)).map
      (fun _ => ()) = .error .bitRead ∧
    R.ErrLib (decSection (rawCoder 5) (C12Len.sec 3) Registry.init 240) :=
  ⟨by decide +kernel, C12_section_errors_are_library_errors _ _ (fun _ => errLib_rawCoder 5) (by decide) _ _⟩

/-- the hypotheses of `C12_short_section_length_refused_in_loop` are satisfiable: the loop about to decode section 3
    (edition 4 in the registry) of a message whose section 3 declares 5 octets -/
example : ∃ e, decLoop Gen.layouts (rawCoder 5) {} 4 3 (("edition", { val := .int 4, nbits := 8, pos := 56 }) :: Registry.init)
      { sections := [], data := none, nbits := 240 } (bytesToBits [0, 0, 5] ++ C12Len.tail3) = .error e ∧ e.isLib = true :=
  C12_short_section_length_refused_in_loop Gen.layouts (rawCoder 5) {} 3 3 _ _ _ C12Len.tail3
    (C12Len.sec 3) 5 (fun _ => errLib_rawCoder 5) (by decide +kernel) (by decide +kernel) (by decide) (by decide +kernel) (by decide)

/-- at message level, by evaluation: the 56-octet edition-4 message of `Props/C12Msg.lean` (sections 1, 3, 4 at octets
    8, 30, 47 with 22, 17, 5 octets) with the declared length of section 1 set to EVERY value below 22, of section 3 to
    every value below 7, of section 4 to every value below 4 is refused with the library error — by the full decode
    and by the metadata-only decode (which keeps the section-4 header) -/
example :
    ((List.range 22).all fun v => [false, true].all fun io =>
      decide ((decode Gen.layouts (rawCoder 5) { infoOnly := io } (C12Len.withByte C12Msg.msg 10 v)).map (·.nbits) = .error .lib)) ∧
    ((List.range 7).all fun v => [false, true].all fun io =>
      decide ((decode Gen.layouts (rawCoder 5) { infoOnly := io } (C12Len.withByte C12Msg.msg 32 v)).map (·.nbits) = .error .lib)) ∧
    ((List.range 4).all fun v => [false, true].all fun io =>
      decide ((decode Gen.layouts (rawCoder 5) { infoOnly := io } (C12Len.withByte C12Msg.msg 49 v)).map (·.nbits) = .error .lib)) := by
  decide +kernel

/-- the hypotheses of `C12_msg_short_section_length_refused` are satisfiable: the 56-octet message decodes into five
    sections; the third (index 3, 136 bits, after 64 + 176 = 240 bits) carries a length -/
example :
    (decodeBits Gen.layouts (rawCoder 5) {} (bytesToBits C12Msg.msg)).map (fun x =>
        (x.1.sections.map (fun s => (s.index, s.nbits, (s.params.map (·.1)).contains "section_length")), x.2)) =
      .ok ([(0, 64, false), (1, 176, true), (3, 136, true), (4, 40, true), (5, 32, false)], []) := by
  decide +kernel

/-- … and the theorem applied to it: whatever replaces the message from bit 240 on, if it starts with a section-3
    length below 7 the (strict, full) decoding fails with a library error -/
example (out : DecOut Bits) (r : Bits)
    (hok : decodeBits Gen.layouts (rawCoder 5) {} (bytesToBits C12Msg.msg) = .ok (out, r))
    (n1 : List DecSection) (sec : DecSection) (n2 : List DecSection) (hsplit : out.sections = n1 ++ sec :: n2)
    (hidx : sec.index = 3) (hsl : "section_length" ∈ sec.params.map (·.1))
    (tail rest : Bits) (d : Nat) (hd : readUInt 24 tail = .ok (d, rest)) (hlt : d < 7) :
    ∃ e, decodeBits Gen.layouts (rawCoder 5) {} ((bytesToBits C12Msg.msg).take ((n1.map (·.nbits)).sum) ++ tail) = .error e ∧
      e.isLib = true :=
  C12_msg_short_section_length_refused Gen.layouts (rawCoder 5) (fun _ => local_readBits 5) {}
    (fun _ _ _ _ _ => errLib_rawCoder 5) (C12_bundled_layouts_lenOK_of_cfg {}) _ out r hok n1 sec n2 hsplit hsl tail rest d hd
    (fun idx ed s0 hc hi => by
      have h56 : fixedBits s0.params = 56 := C12_bundled_section3_fixed idx ed s0 hc (by
        rw [transform_index] at hi; rw [hi, hidx])
      show d * 8 < fixedBits (({} : DecOpts).transform s0).params
      have : (({} : DecOpts).transform s0) = s0 := rfl
      rw [this, h56]; omega)

end Bufr
