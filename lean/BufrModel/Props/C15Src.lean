/-
  C15 — tie to the Python source (`Gen/PyDataquery.lean`, regenerated from `pybufrkit/dataquery.py` on
  every check): the separator characters of the path grammar and the state tags of `NodePathParser`.
-/
import BufrModel.Lang.PathParser
import BufrModel.Gen.PyDataquery
import BufrModel.Lemmas.PathSrc
namespace Bufr.PathLang
open PyGen.dataquery

/-- `c in (PATH_SEPARATOR_CHILD, PATH_SEPARATOR_ATTRIB, PATH_SEPARATOR_DESCEND)` -/
theorem C15_src_const_separators (c : Char) :
    isSep c = (decide ([c] = PATH_SEPARATOR_CHILD) || decide ([c] = PATH_SEPARATOR_ATTRIB) ||
               decide ([c] = PATH_SEPARATOR_DESCEND)) := by
  have e : ∀ d : Char, (c == d) = decide (c = d) := by
    intro d; by_cases h : c = d <;> simp [h]
  simp [isSep, PATH_SEPARATOR_CHILD, PATH_SEPARATOR_ATTRIB, PATH_SEPARATOR_DESCEND, e]

/-- the separator a path starts with when none is written (`handle_separator(PATH_SEPARATOR_DESCEND)`)
    is the initial `curSep` of the model's parser state -/
theorem C15_src_const_default_separator : [({} : PS).curSep] = PATH_SEPARATOR_DESCEND := by decide

/-- The nine state tags are pairwise distinct, so the string comparisons `self.current_state == STATE_X`
    of the Python parser distinguish exactly the constructors of the model's `PState`. -/
theorem C15_src_const_states_distinct (a b : PState) : stateTag a = stateTag b ↔ a = b := by
  cases a <;> cases b <;> decide

end Bufr.PathLang
