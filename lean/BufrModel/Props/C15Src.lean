/-
  C15 — tie to the Python source (`Gen/PyDataquery.lean`, regenerated from `pybufrkit/dataquery.py` on
  every check): the separator characters of the path grammar, the state tags of `NodePathParser`, and the WHOLE
  parser: `NodePath`, `PathComponent` and every method of `NodePathParser` are translated by `harness/py2lean.py`
  (a method is a function `Self → args → Except Py.Exc (Self × result)` on the record of the object's attributes);
  `C15_src_parse_eq` proves, for every input string of the stated domain, every state of the object and both values
  of `bare_id_matches_all`, that the translated `parse` returns what the model's machine returns (`parse` of
  `Lang/PathParser.lean`, about which the other C15 theorems are).  Lemmas: `Lemmas/PathSrc.lean`.
-/
import BufrModel.Lang.PathParser
import BufrModel.Gen.PyDataquery
import BufrModel.Lemmas.PathSrc
namespace Bufr.PathLang
open PyGen.dataquery

/-- `c in (PATH_SEPARATOR_CHILD, PATH_SEPARATOR_ATTRIB, PATH_SEPARATOR_DESCEND)` -/
theorem C15_src_const_separators (c : Char) :
    isSep c = (decide ([c] = PATH_SEPARATOR_CHILD) || decide ([c] = PATH_SEPARATOR_ATTRIB) ||
               decide ([c] = PATH_SEPARATOR_DESCEND)) := by
  have e : ∀ d : Char, (c == d) = decide (c = d) := by
    intro d; by_cases h : c = d <;> simp [h]
  simp [isSep, PATH_SEPARATOR_CHILD, PATH_SEPARATOR_ATTRIB, PATH_SEPARATOR_DESCEND, e]

/-- the separator a path starts with when none is written (`handle_separator(PATH_SEPARATOR_DESCEND)`)
    is the initial `curSep` of the model's parser state -/
theorem C15_src_const_default_separator : [({} : PS).curSep] = PATH_SEPARATOR_DESCEND := by decide

/-- The nine state tags are pairwise distinct, so the string comparisons `self.current_state == STATE_X`
    of the Python parser distinguish exactly the constructors of the model's `PState`. -/
theorem C15_src_const_states_distinct (a b : PState) : stateTag a = stateTag b ↔ a = b := by
  cases a <;> cases b <;> decide


open PyGen.dataquery.NodePathParser.parse in
/-- **The translated parser is the model's parser.**  For every object state `o` (whatever earlier calls left in the
    attributes), both values of the constructor parameter `bare_id_matches_all`, and every input `s` of `SrcDomain`
    (each character `srcPlain`: not `+`, not `_`, no `str.isspace` blank outside `string.whitespace`, no decimal digit
    outside ASCII; at most 4300 ASCII digits), `NodePathParser.parse` translated from `pybufrkit/dataquery.py`
      * raises `PathExprParsingError` / `AssertionError` exactly when the model answers `.error .path` / `.error .other`,
      * otherwise returns the `NodePath` whose `subset_slice` and `components` are those of the model's `Path`
        (separator and id never `None`, slices as `int` / `slice` objects),
    and never raises `IndexError` (`path_expr[self.pos]`, `path_expr_stripped[0]`, `current_token[0]`,
    `current_slice_elements[0]`), `TypeError` (`None` token, `slice(*elems)`), `ValueError`, nor runs out of the fuel
    of its `while` loop (`len(path_expr) - pos + 1`), i.e. the Python loop terminates.
    `parseB true` is the model `parse` (`C15_src_model_default`; `C15_src_parse_eq_model`). -/
theorem C15_src_parse_eq (bare : Bool) (o : NodePathParser.Self) (s : List Char) (hd : SrcDomain s) :
    Prod.snd <$> NodePathParser.parse { o with bare_id_matches_all := bare } s = resultToPy s (parseB bare s) :=
  parse_src { o with bare_id_matches_all := bare } s hd

/-- the model `parse` (on which `C15_parse_iff_grammar`, `C15_print_parse`, … rest) is the machine with the default
    `bare_id_matches_all=True` -/
theorem C15_src_model_default (s : List Char) : parseB true s = parse s := parseB_true s

/-- `C15_src_parse_eq` for the default constructor argument, against the model's `parse` itself -/
theorem C15_src_parse_eq_model (o : NodePathParser.Self) (s : List Char) (hd : SrcDomain s) :
    Prod.snd <$> NodePathParser.parse { o with bare_id_matches_all := true } s = resultToPy s (parse s) := by
  rw [← parseB_true]; exact C15_src_parse_eq true o s hd

/-- the encoding of results is injective on what the parser can answer: equal Python outcomes come from equal outcomes
    of the model (errors: the two that occur, `C15_reject_is_path_error`) -/
theorem C15_src_result_injective (s : List Char) (a b : Path) (h : resultToPy s (.ok a) = resultToPy s (.ok b)) : a = b := by
  obtain ⟨sa, ca⟩ := a
  obtain ⟨sb, cb⟩ := b
  have toPy_inj : ∀ x y : Slice, toPy x = toPy y → x = y := by
    intro x y h; cases x <;> cases y <;> simp_all [toPy]
  have comp_inj : ∀ x y : Comp, compToPy x = compToPy y → x = y := by
    intro x y h
    obtain ⟨x1, x2, x3⟩ := x
    obtain ⟨y1, y2, y3⟩ := y
    simp only [compToPy, PathComponent.mk.injEq, Option.some.injEq, List.cons.injEq, and_true] at h
    obtain ⟨h1, h2, h3⟩ := h
    rw [h1, h2, toPy_inj _ _ h3]
  simp only [resultToPy, pathToPy, Except.ok.injEq, NodePath.Self.mk.injEq, true_and] at h
  obtain ⟨h1, h2⟩ := h
  have e1 : sa = sb := by
    cases sa <;> cases sb <;> simp_all
    exact toPy_inj _ _ h1
  have e2 : ca = cb := by
    induction ca generalizing cb with
    | nil => cases cb <;> simp_all
    | cons x xs ih =>
      cases cb with
      | nil => simp at h2
      | cons y ys =>
        simp only [List.map_cons, List.cons.injEq] at h2
        rw [comp_inj _ _ h2.1, ih ys h2.2]
  rw [e1, e2]

/-- `create_slice_object` translated from the source = the model's slice construction, for EVERY list of collected
    elements, both values of `bare_id_matches_all` and every object state (the `assert isinstance(.., int)` is the
    model's `.other`, "at most three indices" its `.path`) -/
theorem C15_src_create_slice_object_eq (o : NodePathParser.Self) :
    NodePathParser.create_slice_object o =
      match createSliceB o.bare_id_matches_all o.current_slice_elements with
      | .ok slc => .ok ({ o with current_slice_elements := [] }, some (toPy slc))
      | .error e => .error (toExc e) :=
  create_slice_object_eq o

/-- `handle_left_bracket` = the model's `handleLeftBracket` under the representation relation -/
theorem C15_src_handle_left_bracket (bare : Bool) (s : List Char) (o : NodePathParser.Self) (ps : PS)
    (hr : Rel bare s o ps) :
    Sim bare s o.pos (digitCount ps.token) (handleLeftBracket ps) (NodePathParser.handle_left_bracket o) :=
  handle_left_bracket_sim bare s o ps hr

/-- `handle_separator` = the model's `handleSeparatorB`, for every character passed -/
theorem C15_src_handle_separator (bare : Bool) (s : List Char) (o : NodePathParser.Self) (ps : PS) (c : Char)
    (hr : Rel bare s o ps) :
    Sim bare s o.pos (digitCount ps.token) (handleSeparatorB bare ps c) (NodePathParser.handle_separator o [c]) :=
  handle_separator_sim bare s o ps c hr

/-- `handle_colon_and_right_bracket` = the model's `handleColonOrRight` (tokens of at most 4300 digits) -/
theorem C15_src_handle_colon_and_right_bracket (bare : Bool) (s : List Char) (o : NodePathParser.Self) (ps : PS) (c : Char)
    (hc : c = ':' ∨ c = ']') (hr : Rel bare s o ps) (hn : digitCount ps.token ≤ 4300) :
    Sim bare s o.pos (digitCount ps.token) (handleColonOrRight ps c)
      (NodePathParser.handle_colon_and_right_bracket o [c]) :=
  handle_colon_sim bare s o ps c hc hr hn

/-- Python's `int()` (`Py.intOfStr`: surrounding blanks, sign `+`/`-`, single underscores between digits, every Unicode
    decimal digit, `ValueError` beyond 4300 digits) is the model's `parseInt?` (`-`? ASCII digit+) on every token of
    `srcPlain` non-blank characters with at most 4300 digits -/
theorem C15_src_int_agree (tok : List Char) (h : TokOk tok) (hn : digitCount tok ≤ 4300) :
    Py.intOfStr tok = intResult tok := int_agree tok h hn

/-! ### the hypotheses are satisfiable; outside `SrcDomain` the code and the model do differ -/

example : SrcDomain "@[0:2]/301011 > 004001[-1].A".toList := by decide
example : ∃ (o : NodePathParser.Self) (ps : PS), Rel true "A".toList o ps ∧ digitCount ps.token ≤ 4300 :=
  ⟨⟨true, 0, some STATE_START_PARSING, some [], none, none, [], NodePath.__init__ "A".toList⟩, {},
   by constructor <;> simp [stateTag, hasSep, hasId, NodePath.__init__, tokOk_nil], by decide⟩
example : TokOk "-12".toList ∧ digitCount "-12".toList ≤ 4300 := by
  constructor
  · intro c hc; revert c; decide
  · decide

/-- `+`: Python's `int('+1')` is 1, the model's grammar has no `+` -/
example : Prod.snd <$> NodePathParser.parse { (default : NodePathParser.Self) with bare_id_matches_all := true } "A[+1]".toList =
      .ok (pathToPy "A[+1]".toList ⟨some (.range none none none), [⟨'>', ['A'], .idx 1⟩]⟩) ∧
    parse "A[+1]".toList = .error .path ∧ ¬ SrcDomain "A[+1]".toList := by decide

/-- `_`: `int('1_0')` is 10 -/
example : Prod.snd <$> NodePathParser.parse { (default : NodePathParser.Self) with bare_id_matches_all := true } "A[1_0]".toList =
      .ok (pathToPy "A[1_0]".toList ⟨some (.range none none none), [⟨'>', ['A'], .idx 10⟩]⟩) ∧
    parse "A[1_0]".toList = .error .path ∧ ¬ SrcDomain "A[1_0]".toList := by decide

/-- a decimal digit outside ASCII (ARABIC-INDIC DIGIT ONE): `int('١')` is 1 -/
example : Prod.snd <$> NodePathParser.parse { (default : NodePathParser.Self) with bare_id_matches_all := true } ['A', '[', Char.ofNat 0x661, ']'] =
      .ok (pathToPy ['A', '[', Char.ofNat 0x661, ']'] ⟨some (.range none none none), [⟨'>', ['A'], .idx 1⟩]⟩) ∧
    parse ['A', '[', Char.ofNat 0x661, ']'] = .error .path ∧ ¬ SrcDomain ['A', '[', Char.ofNat 0x661, ']'] := by decide

/-- a blank of `str.isspace` that is not in `string.whitespace` (NO-BREAK SPACE): the loop keeps it in the token,
    `int()` strips it -/
example : Prod.snd <$> NodePathParser.parse { (default : NodePathParser.Self) with bare_id_matches_all := true } ['A', '[', Char.ofNat 0xa0, '1', ']'] =
      .ok (pathToPy ['A', '[', Char.ofNat 0xa0, '1', ']'] ⟨some (.range none none none), [⟨'>', ['A'], .idx 1⟩]⟩) ∧
    parse ['A', '[', Char.ofNat 0xa0, '1', ']'] = .error .path ∧ ¬ SrcDomain ['A', '[', Char.ofNat 0xa0, '1', ']'] := by
  decide

/-- `\x1c` is stripped by `str.strip()` for the first-character check but is not in `string.whitespace`: the code accepts
    `'\x1cA'` with the id `'\x1cA'`, the model rejects it (first character) -/
example : Prod.snd <$> NodePathParser.parse { (default : NodePathParser.Self) with bare_id_matches_all := true } [Char.ofNat 0x1c, 'A'] =
      .ok (pathToPy [Char.ofNat 0x1c, 'A'] ⟨some (.range none none none), [⟨'>', [Char.ofNat 0x1c, 'A'], .range none none none⟩]⟩) ∧
    parse [Char.ofNat 0x1c, 'A'] = .error .path ∧ ¬ SrcDomain [Char.ofNat 0x1c, 'A'] := by decide

/-- more than 4300 digits: `int()` raises `ValueError` (so the code raises `PathExprParsingError` for
    `'A[' + '1' * 4301 + ']'`, observed on the real code), the model's `parseInt?` has no limit -/
theorem C15_src_int_digit_limit (m : Nat) (hm : 4300 ≤ m) :
    Py.intOfStr ('1' :: List.replicate m '1') = .error .valueError ∧
    (parseInt? ('1' :: List.replicate m '1')).isSome = true := by
  have hmem : ∀ c ∈ '1' :: List.replicate m '1', c = '1' := by
    intro c hc
    rcases List.mem_cons.1 hc with h | h
    · exact h
    · exact (List.mem_replicate.1 h).2
  have hall : ('1' :: List.replicate m '1').all isDigit = true := by
    rw [List.all_eq_true]; intro c hc; rw [hmem c hc]; decide
  have hok : TokOk ('1' :: List.replicate m '1') := by
    intro c hc; rw [hmem c hc]; decide
  constructor
  · have hd : Py.intDigits ('1' :: List.replicate m '1') =
        some (('1' :: List.replicate m '1').map (fun c => c.toNat - '0'.toNat)) := by
      rw [intDigits_plain _ hok, if_pos ⟨by simp, hall⟩]
    have hsp : ∀ c ∈ '1' :: List.replicate m '1', Py.intIsSpace c = false := by
      intro c hc; rw [hmem c hc]; decide
    have hsp' : ∀ c ∈ ('1' :: List.replicate m '1').reverse, Py.intIsSpace c = false :=
      fun c hc => hsp c (List.mem_reverse.1 hc)
    unfold Py.intOfStr
    rw [dropWhile_none _ _ hsp, dropWhile_none _ _ hsp', List.reverse_reverse]
    show Py.intOfBody false ('1' :: List.replicate m '1') = _
    unfold Py.intOfBody
    rw [hd]
    have : (('1' :: List.replicate m '1').map (fun c => c.toNat - '0'.toNat)).length > Py.intMaxStrDigits := by
      simp [Py.intMaxStrDigits]; omega
    simp only [this, if_true]
  · have e : parseInt? ('1' :: List.replicate m '1') =
        if ('1' :: List.replicate m '1') ≠ [] ∧ ('1' :: List.replicate m '1').all isDigit = true
        then some (Int.ofNat (digitsVal ('1' :: List.replicate m '1') 0)) else none := rfl
    rw [e, if_pos ⟨by simp, hall⟩]
    rfl

example : ∃ m, 4300 ≤ m := ⟨4300, Nat.le_refl _⟩

end Bufr.PathLang
