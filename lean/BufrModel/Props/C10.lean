/-
  C10 — subsetting keeps exactly the selected subsets and nothing else changes.
  Property theorems only; helper lemmas are in `Lemmas/Subset.lean`.

  Model: `Msg/Subset.lean` (`subset`, mirrors `bufr.py BufrMessage.subset` after fix F3).
  Specification: `Spec/SubsetSpec.lean` (`sortedDistinct`: insertion into a strictly increasing
  list; `expected`: the encoder input described parameter by parameter).
  No bound on the number of sections, parameters, subsets, values or indices.  The types of the
  opaque parameter values (`α`) and of the decoded values (`β`) are arbitrary.

  The hypotheses `hn` / `hwf` are the decoder's invariants: the message has an integer `n_subsets`
  and its template data hold one value list per subset; the harness checks them on every message.
  The re-encode/decode half of the property (that the encoder input produced here is packed and
  read back value for value, compressed or not) is the coder's business (C01-C05) and is evaluated
  on the implementation by the harness.
-/
import BufrModel.Msg.Subset
import BufrModel.Spec.SubsetSpec
import BufrModel.Lemmas.Subset
namespace Bufr.Subset
open Spec

variable {α β : Type}

/-- The selection the specification speaks of: strictly increasing, exactly the given indices,
    as many as there are distinct ones (`len(set(indices))`).  So its `i`-th element is the `i`-th
    smallest selected index. -/
theorem C10_selection_sorted_distinct (idxs : List Int) :
    (sortedDistinct idxs).Pairwise (· < ·) ∧ (∀ i, i ∈ sortedDistinct idxs ↔ i ∈ idxs) ∧
      (sortedDistinct idxs).length = distinctCount idxs ∧
      (∀ l : List Int, l.Pairwise (· < ·) → (∀ i, i ∈ l ↔ i ∈ idxs) → l = sortedDistinct idxs) :=
  ⟨pairwise_sortedDistinct idxs, fun _ => mem_sortedDistinct, length_sortedDistinct idxs,
   fun _ hl hm => pairwise_lt_ext hl (pairwise_sortedDistinct idxs) (fun x => by rw [hm x, mem_sortedDistinct])⟩

/-- For a non-empty collection of in-range indices (any order, any repeats) `subset` succeeds and
    returns, section by section and parameter by parameter (`expected`):
      * template data: the value lists at the sorted distinct indices, in increasing order;
      * `n_subsets`: the number of distinct indices;
      * every other parameter (unexpanded descriptors, compression flag, identification, ...):
        the source value, untouched. -/
theorem C10_subset_values (m : Msg α β) (idxs : List Int) (n : Nat)
    (hn : m.nSubsets? = some (n : Int)) (hwf : m.wf n = true)
    (hne : idxs ≠ []) (hr : ∀ i ∈ idxs, 0 ≤ i ∧ i < (n : Int)) :
    subset idxs m = .ok (expected (sortedDistinct idxs) m) := by
  rw [subset_of_in_range idxs m n hn hne hr, ← length_sortedDistinct]
  exact subsetSects_eq idxs n m hr hwf

/-- What `expected` says about one parameter, spelled out. -/
theorem C10_expected_param (sel : List Int) (p : Param α β) :
    (∀ rows, p.isData = true → p.value = .data rows →
        ∃ out, expectedParam sel p = .data out ∧ out.length = sel.length ∧
          ∀ i (h : i < sel.length), out[i]? = some (rows.getD (sel[i]).toNat [])) ∧
    (p.isData = false → p.isNSubsets = true → expectedParam sel p = .int sel.length) ∧
    (p.isData = false → p.isNSubsets = false → expectedParam sel p = p.value) := by
  refine ⟨?_, ?_, ?_⟩
  · intro rows hd hv
    refine ⟨sel.map fun j => rows.getD j.toNat [], ?_, by simp, ?_⟩
    · simp [expectedParam, hd, hv]
    · intro i h
      simp [h]
  · intro hd hc; simp [expectedParam, hd, hc]
  · intro hd hc; simp [expectedParam, hd, hc]

/-- Selected rows exist: every selected index addresses a value list of the source. -/
theorem C10_selected_in_range (idxs : List Int) (n : Nat) (hr : ∀ i ∈ idxs, 0 ≤ i ∧ i < (n : Int)) :
    ∀ j ∈ sortedDistinct idxs, j.toNat < n := by
  intro j hj
  have := hr j (mem_sortedDistinct.mp hj)
  omega

/-- Any index below 0 or at/above the number of subsets: refused with the library's error
    (whatever else the collection holds, whatever the message holds). -/
theorem C10_out_of_range (m : Msg α β) (idxs : List Int) (n : Int)
    (hn : m.nSubsets? = some n) (h : ∃ i ∈ idxs, i < 0 ∨ n ≤ i) :
    subset idxs m = .error .lib := by
  obtain ⟨i, hi, hb⟩ := h
  have hne : idxs ≠ [] := by intro h0; subst h0; cases hi
  obtain ⟨mx, hmx⟩ := maxI_isSome hne
  obtain ⟨mn, hmn⟩ := minI_isSome hne
  have h1 := (maxI_spec hmx).2 i hi
  have h2 := (minI_spec hmn).2 i hi
  simp only [subset, hmx, hn, hmn]
  by_cases hc : n ≤ mx
  · rw [if_pos hc]
  · rw [if_neg hc, if_pos (by omega)]

/-- Selecting all subsets — every index `0 .. n-1` present, in any order, with any repeats —
    gives back the message's own data: the encoder input is the list of the source values
    (`n_subsets` parameters holding `n`). -/
theorem C10_idempotent_full (m : Msg α β) (idxs : List Int) (n : Nat)
    (hn : m.nSubsets? = some (n : Int)) (hwf : m.wf n = true)
    (hcnt : ∀ s ∈ m, ∀ p ∈ s, p.isData = false → p.isNSubsets = true → p.value = .int n)
    (hpos : 0 < n) (hr : ∀ i ∈ idxs, 0 ≤ i ∧ i < (n : Int))
    (hall : ∀ k : Nat, k < n → (k : Int) ∈ idxs) :
    subset idxs m = .ok m.values := by
  have hne : idxs ≠ [] := by
    intro h0; subst h0; exact absurd (hall 0 hpos) (by simp)
  rw [C10_subset_values m idxs n hn hwf hne hr, sortedDistinct_full idxs n hr hall]
  congr 1
  simp only [expected, Msg.values]
  apply List.map_congr_left
  intro s hs
  apply List.map_congr_left
  intro p hp
  apply expectedParam_full n p
  · simp only [Msg.wf, List.all_eq_true] at hwf
    exact hwf s hs p hp
  · exact hcnt s hs p hp

/-- `subset` only reads the message: the code's `self` comes back as it went in, whatever the
    outcome.  (In the model this is purity; on the implementation the harness renders the source
    before and after `subset` + encode, because the value lists are shared by reference.) -/
theorem C10_source_unchanged (idxs : List Int) (m : Msg α β) :
    (subsetSt idxs m).2 = m ∧ (subsetSt idxs m).1 = subset idxs m := ⟨rfl, rfl⟩

end Bufr.Subset
