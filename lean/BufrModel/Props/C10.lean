/-
  C10 — subsetting keeps exactly the selected subsets and nothing else changes.
-/
import BufrModel.Msg.Subset
import BufrModel.Spec.SubsetSpec
namespace Bufr.Subset

variable {α β : Type}

/-- `subset` only reads the message (the code's `self` comes back as it went in). -/
theorem C10_source_unchanged (idxs : List Int) (m : Msg α β) : (subsetSt idxs m).2 = m := rfl

end Bufr.Subset
