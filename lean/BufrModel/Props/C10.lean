/-
  C10 — subsetting keeps exactly the selected subsets and nothing else changes.
  Property theorems only; helper lemmas are in `Lemmas/Subset.lean`.

  Model: `Msg/Subset.lean` (`subset`, mirrors `bufr.py BufrMessage.subset` after fix F3).
  Specification: `Spec/SubsetSpec.lean` (`sortedDistinct`: insertion into a strictly increasing
  list; `expected`: the encoder input described parameter by parameter).
  No bound on the number of sections, parameters, subsets, values or indices.  The types of the
  opaque parameter values (`α`) and of the decoded values (`β`) are arbitrary.

  The hypotheses `hn` / `hwf` are the decoder's invariants: the message has an integer `n_subsets`
  and its template data hold one value list per subset; the harness checks them on every message.
  The re-encode/decode half of the property (that the encoder input produced here is packed and
  read back value for value, compressed or not) is the coder's business (C01-C05): it is composed
  with the theorems of this file in `Props/C10Reencode.lean` (`C10_reencode_decode`, walk-level
  coder model) and evaluated on the implementation by the harness.
-/
import BufrModel.Msg.Subset
import BufrModel.Spec.SubsetSpec
import BufrModel.Lemmas.Subset
namespace Bufr.Subset
open Spec

variable {α β : Type}

/-- The selection the specification speaks of: strictly increasing, exactly the given indices,
    as many as there are distinct ones (`len(set(indices))`).  So its `i`-th element is the `i`-th
    smallest selected index. -/
theorem C10_selection_sorted_distinct (idxs : List Int) :
    (sortedDistinct idxs).Pairwise (· < ·) ∧ (∀ i, i ∈ sortedDistinct idxs ↔ i ∈ idxs) ∧
      (sortedDistinct idxs).length = distinctCount idxs ∧
      (∀ l : List Int, l.Pairwise (· < ·) → (∀ i, i ∈ l ↔ i ∈ idxs) → l = sortedDistinct idxs) :=
  ⟨pairwise_sortedDistinct idxs, fun _ => mem_sortedDistinct, length_sortedDistinct idxs,
   fun _ hl hm => pairwise_lt_ext hl (pairwise_sortedDistinct idxs) (fun x => by rw [hm x, mem_sortedDistinct])⟩

/-- For a non-empty collection of in-range indices (any order, any repeats) `subset` succeeds and
    returns, section by section and parameter by parameter (`expected`):
      * template data: the value lists at the sorted distinct indices, in increasing order;
      * `n_subsets`: the number of distinct indices;
      * every other parameter (unexpanded descriptors, compression flag, identification, ...):
        the source value, untouched. -/
theorem C10_subset_values (m : Msg α β) (idxs : List Int) (n : Nat)
    (hn : m.nSubsets? = some (n : Int)) (hwf : m.wf n = true)
    (hne : idxs ≠ []) (hr : ∀ i ∈ idxs, 0 ≤ i ∧ i < (n : Int)) :
    subset idxs m = .ok (expected (sortedDistinct idxs) m) := by
  rw [subset_of_in_range idxs m n hn hne hr, ← length_sortedDistinct]
  exact subsetSects_eq idxs n m hr hwf

/-- What `expected` says about one parameter, spelled out. -/
theorem C10_expected_param (sel : List Int) (p : Param α β) :
    (∀ rows, p.isData = true → p.value = .data rows →
        ∃ out, expectedParam sel p = .data out ∧ out.length = sel.length ∧
          ∀ i (h : i < sel.length), out[i]? = some (rows.getD (sel[i]).toNat [])) ∧
    (p.isData = false → p.isNSubsets = true → expectedParam sel p = .int sel.length) ∧
    (p.isData = false → p.isNSubsets = false → expectedParam sel p = p.value) := by
  refine ⟨?_, ?_, ?_⟩
  · intro rows hd hv
    refine ⟨sel.map fun j => rows.getD j.toNat [], ?_, by simp, ?_⟩
    · simp [expectedParam, hd, hv]
    · intro i h
      simp [h]
  · intro hd hc; simp [expectedParam, hd, hc]
  · intro hd hc; simp [expectedParam, hd, hc]

/-- Selected rows exist: every selected index addresses a value list of the source. -/
theorem C10_selected_in_range (idxs : List Int) (n : Nat) (hr : ∀ i ∈ idxs, 0 ≤ i ∧ i < (n : Int)) :
    ∀ j ∈ sortedDistinct idxs, j.toNat < n := by
  intro j hj
  have := hr j (mem_sortedDistinct.mp hj)
  omega

/-- Any index below 0 or at/above the number of subsets: refused with the library's error
    (whatever else the collection holds, whatever the message holds). -/
theorem C10_out_of_range (m : Msg α β) (idxs : List Int) (n : Int)
    (hn : m.nSubsets? = some n) (h : ∃ i ∈ idxs, i < 0 ∨ n ≤ i) :
    subset idxs m = .error .lib := by
  obtain ⟨i, hi, hb⟩ := h
  have hne : idxs ≠ [] := by intro h0; subst h0; cases hi
  obtain ⟨mx, hmx⟩ := maxI_isSome hne
  obtain ⟨mn, hmn⟩ := minI_isSome hne
  have h1 := (maxI_spec hmx).2 i hi
  have h2 := (minI_spec hmn).2 i hi
  simp only [subset, hmx, hn, hmn]
  by_cases hc : n ≤ mx
  · rw [if_pos hc]
  · rw [if_neg hc, if_pos (by omega)]

/-- Selecting all subsets — every index `0 .. n-1` present, in any order, with any repeats —
    gives back the message's own data: the encoder input is the list of the source values
    (`n_subsets` parameters holding `n`). -/
theorem C10_idempotent_full (m : Msg α β) (idxs : List Int) (n : Nat)
    (hn : m.nSubsets? = some (n : Int)) (hwf : m.wf n = true)
    (hcnt : ∀ s ∈ m, ∀ p ∈ s, p.isData = false → p.isNSubsets = true → p.value = .int n)
    (hpos : 0 < n) (hr : ∀ i ∈ idxs, 0 ≤ i ∧ i < (n : Int))
    (hall : ∀ k : Nat, k < n → (k : Int) ∈ idxs) :
    subset idxs m = .ok m.values := by
  have hne : idxs ≠ [] := by
    intro h0; subst h0; exact absurd (hall 0 hpos) (by simp)
  rw [C10_subset_values m idxs n hn hwf hne hr, sortedDistinct_full idxs n hr hall]
  congr 1
  simp only [expected, Msg.values]
  apply List.map_congr_left
  intro s hs
  apply List.map_congr_left
  intro p hp
  apply expectedParam_full n p
  · simp only [Msg.wf, List.all_eq_true] at hwf
    exact hwf s hs p hp
  · exact hcnt s hs p hp

/-- Subsetting a subset is subsetting the source with the composed indices.  `rebuild m out` is
    the message with the layout of `m` (sections, parameter names and types) and the values of
    the encoder input `out`, i.e. what decoding the encoded subset gives when the coder round-trips
    (C01-C05).  For in-range `idxs` (over `m`) and in-range `jdxs` (over the first result), taking
    `jdxs` of the first result equals taking, from `m` directly, the indices that `jdxs` names in
    the sorted distinct `idxs`. -/
theorem C10_subset_compose (m : Msg α β) (idxs jdxs : List Int) (n : Nat)
    (hn : m.nSubsets? = some (n : Int)) (hwf : m.wf n = true)
    (hne : idxs ≠ []) (hr : ∀ i ∈ idxs, 0 ≤ i ∧ i < (n : Int))
    (hjne : jdxs ≠ []) (hjr : ∀ j ∈ jdxs, 0 ≤ j ∧ j < ((sortedDistinct idxs).length : Int)) :
    ∃ out, subset idxs m = .ok out ∧
      subset jdxs (rebuild m out) =
        subset (jdxs.map fun j => (sortedDistinct idxs).getD j.toNat 0) m := by
  refine ⟨_, C10_subset_values m idxs n hn hwf hne hr, ?_⟩
  have hs := pairwise_sortedDistinct idxs
  -- left: the first result, read back, is a well-formed message of `sel.length` subsets
  rw [rebuild_expected,
    C10_subset_values _ jdxs (sortedDistinct idxs).length (nSubsets_rebuild _ m n hn hwf)
      (wf_rebuild _ m n hwf) hjne hjr]
  -- right: the composed indices are in range of the source
  have hne' : (jdxs.map fun j => (sortedDistinct idxs).getD j.toNat 0) ≠ [] := by
    simpa using hjne
  have hr' : ∀ i ∈ (jdxs.map fun j => (sortedDistinct idxs).getD j.toNat 0), 0 ≤ i ∧ i < (n : Int) := by
    intro i hi
    obtain ⟨j, hj, rfl⟩ := List.mem_map.mp hi
    have hjb := hjr j hj
    have h1 : j.toNat < (sortedDistinct idxs).length := by omega
    apply hr
    rw [← mem_sortedDistinct, List.getD_eq_getElem?_getD, List.getElem?_eq_getElem h1]
    simp
  rw [C10_subset_values m _ n hn hwf hne' hr', sortedDistinct_map_getD _ jdxs hs hjr]
  congr 1
  simp only [expected, List.map_map]
  apply List.map_congr_left
  intro s _
  simp only [Function.comp_apply, List.map_map]
  apply List.map_congr_left
  intro p _
  exact expectedParam_compose _ _ p (fun j hj => hjr j (mem_sortedDistinct.mp hj))

/-- `subset` only reads the message: the code's `self` comes back as it went in, whatever the
    outcome.  (In the model this is purity; on the implementation the harness renders the source
    before and after `subset` + encode, because the value lists are shared by reference.) -/
theorem C10_source_unchanged (idxs : List Int) (m : Msg α β) :
    (subsetSt idxs m).2 = m ∧ (subsetSt idxs m).1 = subset idxs m := ⟨rfl, rfl⟩


/-! ### non-vacuity: the hypotheses are satisfiable and the conclusions say something -/

/-- a three-subset message (two value lists would do; the shapes are those of a decoded message) -/
def exMsg : Msg String Nat :=
  [[⟨"start_signature", "bytes", .other "BUFR"⟩, ⟨"length", "uint", .int 94⟩],
   [⟨"section_length", "uint", .int 25⟩, ⟨"n_subsets", "uint", .int 3⟩,
    ⟨"is_compressed", "bool", .other "False"⟩,
    ⟨"unexpanded_descriptors", "unexpanded_descriptors", .other "[301001, 12001]"⟩],
   [⟨"section_length", "uint", .int 30⟩,
    ⟨"template_data", "template_data", .data [[1, 10, 100], [2, 20, 200], [3, 30, 300]]⟩]]

-- C10_subset_values applies to a collection out of order and with a repeat ...
example : subset [2, 0, 2] exMsg = .ok (expected (sortedDistinct [2, 0, 2]) exMsg) :=
  C10_subset_values exMsg [2, 0, 2] 3 (by decide) (by decide) (by decide) (by decide)
-- ... and what it yields is the two selected rows in increasing index order, n_subsets = 2, rest as is
example : subset [2, 0, 2] exMsg = .ok
    [[.other "BUFR", .int 94],
     [.int 25, .int 2, .other "False", .other "[301001, 12001]"],
     [.int 30, .data [[1, 10, 100], [3, 30, 300]]]] := by decide
example : sortedDistinct [2, 0, 2] = [0, 2] ∧ distinctCount [2, 0, 2] = 2 := by decide
-- the pre-fix count `len(indices)` would be 3 here: the theorem is not provable for it
example : ([2, 0, 2] : List Int).length ≠ distinctCount [2, 0, 2] := by decide

-- C10_out_of_range: one past the end, one before the start, mixed with valid ones
example : subset [0, 3] exMsg = .error .lib :=
  C10_out_of_range exMsg [0, 3] 3 (by decide) ⟨3, by decide, by decide⟩
example : subset [1, -1] exMsg = .error .lib :=
  C10_out_of_range exMsg [1, -1] 3 (by decide) ⟨-1, by decide, by decide⟩
-- the empty collection is outside the property (Python's max([]) raises ValueError)
example : subset [] exMsg = .error .other := by decide

-- C10_idempotent_full: all indices, shuffled and repeated
example : subset [2, 1, 0, 1] exMsg = .ok exMsg.values :=
  C10_idempotent_full exMsg [2, 1, 0, 1] 3 (by decide) (by decide) (by decide) (by decide) (by decide)
    (by intro k hk; have : k = 0 ∨ k = 1 ∨ k = 2 := by omega
        rcases this with rfl | rfl | rfl <;> decide)

-- C10_subset_compose: [1,0] of ([2,0,2] of exMsg) = [2,0] of exMsg = rows 0 and 2
example : ∃ out, subset [2, 0, 2] exMsg = .ok out ∧
    subset [1, 0] (rebuild exMsg out) = subset [2, 0] exMsg := by
  have := C10_subset_compose exMsg [2, 0, 2] [1, 0] 3 (by decide) (by decide) (by decide) (by decide)
    (by decide) (by decide)
  exact this
example : subset [2, 0] exMsg ≠ subset [2, 1] exMsg := by decide

end Bufr.Subset
