/-
  C10 — tie to the Python source (`Gen/PyBufr.lean`, regenerated from `pybufrkit/bufr.py` on every check): the
  index logic of `BufrMessage.subset`.  The method as a whole walks section and parameter objects and builds a
  list of values of mixed types, which is outside the translated subset; two fragments of it are translated
  (`notes/Tie.md`, "fragments"):

    * `subset_checks`  the three statements before the loop — the two bounds checks and
                       `n_subsets = len(set(subset_indices))` — as a function of `subset_indices` and of
                       `self.n_subsets.value`;
    * `subset_select`  the comprehension `[v for i, v in enumerate(rows) if i in subset_indices]`, as a function
                       of `subset_indices` and of `rows = parameter.value.decoded_values_all_subsets`.
-/
import BufrModel.Msg.Subset
import BufrModel.Gen.PyBufr
namespace Bufr.Subset
open PyGen.bufr

theorem maxOf_eq (l : List Int) :
    Py.Small.maxOf l = match maxI l with | some m => .ok m | none => .error .valueError := by
  induction l with
  | nil => rfl
  | cons x xs ih => simp only [Py.Small.maxOf, maxI, ih]; cases maxI xs <;> rfl

theorem minOf_eq (l : List Int) :
    Py.Small.minOf l = match minI l with | some m => .ok m | none => .error .valueError := by
  induction l with
  | nil => rfl
  | cons x xs ih => simp only [Py.Small.minOf, minI, ih]; cases minI xs <;> rfl

theorem distinct_eq (l : List Int) : Py.Small.distinct l = distinct l := by
  induction l with
  | nil => rfl
  | cons x xs ih => simp only [Py.Small.distinct, distinct, ih]

/-- what the three statements before the loop compute, exception for exception: `ValueError` for an empty
    index list (`max([])`), the library's `PyBufrKitError` when the largest index is not below
    `self.n_subsets.value` or the smallest is negative, otherwise the number of distinct indices -/
def checksExact (idxs : List Int) (n : Int) : Except Py.Exc Int :=
  match maxI idxs with
  | none => .error .valueError
  | some mx =>
    if n ≤ mx then .error (.raised "PyBufrKitError")
    else match minI idxs with
      | none => .error .valueError
      | some mn => if mn < 0 then .error (.raised "PyBufrKitError") else .ok (distinctCount idxs : Int)

/-- **the bounds checks and `n_subsets` of `BufrMessage.subset`, as translated from the source**, for every index
    list and every value of `self.n_subsets.value` -/
theorem C10_src_subset_checks (idxs : List Int) (n : Int) : subset_checks idxs n = checksExact idxs n := by
  unfold subset_checks checksExact
  simp only [maxOf_eq, minOf_eq, distinct_eq, bind, Except.bind, pure, Except.pure]
  have z : Int.ofNat 0 = 0 := rfl
  cases hmx : maxI idxs with
  | none => rfl
  | some mx =>
    by_cases h1 : n ≤ mx
    · simp only [ge_iff_le, h1, decide_true, if_true]
    · simp only [ge_iff_le, h1, decide_false, Bool.false_eq_true, if_false]
      cases hmn : minI idxs with
      | none => rfl
      | some mn =>
        by_cases h2 : mn < 0
        · simp only [z, h2, decide_true, if_true]
        · simp only [z, h2, decide_false, Bool.false_eq_true, if_false]
          rfl

/-- the model's `subset` is these checks followed by the walk over the sections with the count they return
    (`Err.lib` = the library's exception, `Err.other` = any other) -/
theorem C10_src_subset_uses_checks {α β : Type} (m : Msg α β) (idxs : List Int) (n : Int)
    (hn : m.nSubsets? = some n) :
    subset idxs m = match subset_checks idxs n with
      | .ok c => subsetSects idxs c.toNat m
      | .error (.raised _) => .error .lib
      | .error _ => .error .other := by
  rw [C10_src_subset_checks]
  unfold subset checksExact
  rw [hn]
  cases maxI idxs with
  | none => rfl
  | some mx =>
    dsimp only
    by_cases h1 : n ≤ mx
    · rw [if_pos h1, if_pos h1]
    · rw [if_neg h1, if_neg h1]
      cases minI idxs with
      | none => rfl
      | some mn =>
        dsimp only
        by_cases h2 : mn < 0
        · rw [if_pos h2, if_pos h2]
        · rw [if_neg h2, if_neg h2]
          simp only [Int.toNat_natCast]

example : ∃ (m : Msg Unit Unit) (n : Int), m.nSubsets? = some n :=
  ⟨[[{ name := "n_subsets", type := "uint", value := .int 3 }]], 3, by decide⟩

theorem select_from (idxs : List Int) (rows : List Py.Obj) (k : Nat) :
    List.filterMap (fun p : Nat × Py.Obj => if decide ((Int.ofNat p.1) ∈ idxs) then some p.2 else none)
      (Py.Small.enumFrom k rows) = selectFrom idxs k rows := by
  induction rows generalizing k with
  | nil => rfl
  | cons v vs ih =>
    simp only [Py.Small.enumFrom, selectFrom, List.filterMap_cons, List.contains_eq_mem, ih]
    by_cases h : (k : Int) ∈ idxs
    · simp [h]
    · simp [h]

/-- **the selection of the per-subset value lists, as translated from the source**: the rows whose position is
    among the indices, each once, in message order whatever the order and multiplicity of the indices (the
    rows are opaque to the code: `Py.Obj`) -/
theorem C10_src_subset_select (idxs : List Int) (rows : List Py.Obj) :
    subset_select idxs rows = selectRows idxs rows := by
  unfold subset_select selectRows Py.Small.enumerate
  exact select_from idxs rows 0

end Bufr.Subset
