/-
  C05 — tie to the Python source (`Gen/PyConstants.lean`, regenerated from `pybufrkit/constants.py` on
  every check): the increment-width field of a compressed column has `NBITS_FOR_NBITS_DIFF` bits in the
  decoder model and in the column specification.
-/
import BufrModel.Coder.Decode
import BufrModel.Spec.Column
import BufrModel.Gen.PyConstants
import BufrModel.Gen.PyEncoder
import BufrModel.Lemmas.NbitsSrc
namespace Bufr
open PyGen.constants

/-- decoder: `nbits_diff = bit_reader.read_uint(NBITS_FOR_NBITS_DIFF)` after the minimum -/
theorem C05_src_const_nbits_diff_read_column (w n : Nat) (bs : Bits) :
    readColumn w n bs =
      match readUIntOrNone w bs with
      | .error e => .error e
      | .ok (mn, r) =>
        match readUInt NBITS_FOR_NBITS_DIFF.toNat r with
        | .error e => .error e
        | .ok (nd, r') =>
          match mn with
          | none => if nd ≠ 0 then .error .other else .ok (List.replicate n none, r')
          | some m => if nd = 0 then .ok (List.replicate n (some m), r') else readDiffs nd m n r' := by
  rfl

/-- specification (FM 94 regulation 94.6.3 note 2): minimum, `NBITS_FOR_NBITS_DIFF`-bit width, increments -/
theorem C05_src_const_nbits_diff_spec_column (d : Nat) (raws : List (Option Nat)) (w : Nat) :
    Spec.intColumnBitsWith d raws w =
      match Spec.colMin raws with
      | none => ones w ++ toBits NBITS_FOR_NBITS_DIFF.toNat d
      | some lo => toBits w lo ++ toBits NBITS_FOR_NBITS_DIFF.toNat d ++
          (if d = 0 then [] else raws.flatMap (Spec.incrBits d lo)) := by
  rfl

/-- The increment width the encoder source computes for a column with minimum `lo` and maximum `hi`
    (`nbits_for_uint(max_value - min_value + 1)`) is the width `nbitsForUInt (hi - lo + 1)` on which the
    legal-width theorems of C05 (`C05_encoder_width_is_legal` …) rest: at least 2 bits, the all-ones pattern
    stays free for "missing". -/
theorem C05_src_nbits_for_uint (lo hi : Nat) (h : lo ≤ hi) :
    PyGen.encoder.nbits_for_uint ((hi : Int) - (lo : Int) + 1) = (nbitsForUInt (hi - lo + 1) : Int) ∧
    2 ≤ (PyGen.encoder.nbits_for_uint ((hi : Int) - (lo : Int) + 1)).toNat ∧
    (hi - lo) + 1 ≤ 2 ^ (PyGen.encoder.nbits_for_uint ((hi : Int) - (lo : Int) + 1)).toNat - 2 := by
  have hc : (hi : Int) - (lo : Int) + 1 = ((hi - lo + 1 : Nat) : Int) := by omega
  rw [hc, NbitsSrc.gen_nbits_for_uint]
  have h2 := nbitsForUInt_ge_two (hi - lo + 1) (by omega)
  have hf := nbitsForUInt_fits (hi - lo + 1)
  refine ⟨rfl, by simpa using h2, ?_⟩
  simp only [Int.toNat_natCast]
  omega

example : ∃ lo hi : Nat, lo ≤ hi := ⟨3, 10, by decide⟩

end Bufr
