/-
  C12 — damage is detected, reported as a library error, and isolated to one message.

  DATA-LEVEL PART (section 4 payload; `decodeData`, compressed or not, any template, any number of
  subsets).  The section-level part (lengths, signatures, streams) builds on these.

  * bits that follow what the decoder consumed never influence the result (`C12_data_suffix_irrelevant`);
  * a successful decode consumed a definite prefix `p` of the input; on every PROPER prefix of `p`
    decoding fails, and the failure is `Err.bitRead` (`BitReadError`, a library error)
    (`C12_data_truncation`, `C12_data_no_shorter_success`, `C12_data_take`).

  Helper lemmas: `Lemmas/Frame.lean` (walk), `Lemmas/FrameData.lean` (`decodeData_trunc`).
-/
import BufrModel.Lemmas.FrameData
namespace Bufr

/-- Bits that follow the data never influence decoding: the same outputs, and what followed is
    handed on untouched after what was left. -/
theorem C12_data_suffix_irrelevant (t : List Desc) (c : Bool) (n : Nat) (bits : Bits)
    (outs : List SubsetOut) (rest x : Bits) (h : decodeData t c n bits = .ok (outs, rest)) :
    decodeData t c n (bits ++ x) = .ok (outs, rest ++ x) :=
  (decodeData_trunc t c n).frame bits outs rest x h

/-- The consumed part.  A successful decode consumed a prefix `p` (`bits = p ++ rest`); the result
    is the same for ANY continuation `y` of `p` (in particular for none: `p` alone decodes, leaving
    nothing); and on EVERY proper prefix `q` of `p` the decoder fails with `BitReadError`. -/
theorem C12_data_truncation (t : List Desc) (c : Bool) (n : Nat) (bits : Bits)
    (outs : List SubsetOut) (rest : Bits) (h : decodeData t c n bits = .ok (outs, rest)) :
    ∃ p, bits = p ++ rest ∧ (∀ y, decodeData t c n (p ++ y) = .ok (outs, y)) ∧
      ∀ q, PPrefix q p → decodeData t c n q = .error .bitRead :=
  decodeData_trunc t c n bits outs rest h

/-- No shorter success.  If `decodeData` succeeds on `p ++ rest` leaving exactly `rest`, it cannot
    succeed (with any result whatsoever) on a proper prefix `q` of the consumed part `p`.
    (Why the statement has this form: by framing, a success on `q` would force the same success on
    `p = q ++ z` leaving `z ≠ []` more than the run on `p` left; decoding is a function, so the two
    runs on `p` coincide — contradiction.  The proof goes through the stronger `C12_data_truncation`,
    which also names the error.) -/
theorem C12_data_no_shorter_success (t : List Desc) (c : Bool) (n : Nat) (p rest : Bits)
    (outs : List SubsetOut) (h : decodeData t c n (p ++ rest) = .ok (outs, rest))
    (q z : Bits) (hz : z ≠ []) (hq : q ++ z = p) :
    decodeData t c n q = .error .bitRead ∧ ∀ r, decodeData t c n q ≠ .ok r := by
  obtain ⟨p', e, _, tr⟩ := C12_data_truncation t c n (p ++ rest) outs rest h
  have hp : p' = p := (List.append_cancel_right e).symm
  subst hp
  have := tr q ⟨z, hz, hq⟩
  exact ⟨this, fun r hr => by rw [this] at hr; cases hr⟩

/-- Every truncation point.  Let the decode of `bits` succeed leaving `rest`.  Cutting the input
    after `k` bits gives `BitReadError` when the cut falls inside the consumed part, and the same
    outputs (leaving what remains of `rest`) when it falls at or after its end. -/
theorem C12_data_take (t : List Desc) (c : Bool) (n : Nat) (bits : Bits)
    (outs : List SubsetOut) (rest : Bits) (h : decodeData t c n bits = .ok (outs, rest)) (k : Nat) :
    decodeData t c n (bits.take k) =
      if k < bits.length - rest.length then .error .bitRead
      else .ok (outs, rest.take (k - (bits.length - rest.length))) := by
  obtain ⟨p, e, l, tr⟩ := C12_data_truncation t c n bits outs rest h
  subst e
  have hlen : (p ++ rest).length - rest.length = p.length := by simp
  rw [hlen]
  by_cases hk : k < p.length
  · rw [if_pos hk]
    apply tr
    refine pprefix_of_length_lt (z := (p ++ rest).take p.length |>.drop k) ?_ ?_
    · rw [List.take_left' rfl, List.take_append_of_le_length (by omega), List.take_append_drop]
    · simp only [List.length_take, List.length_append]; omega
  · rw [if_neg hk]
    have : (p ++ rest).take k = p ++ rest.take (k - p.length) := by
      rw [List.take_append]
      rw [List.take_of_length_le (by omega)]
    rw [this]
    exact l _

/-- In particular, when the whole input is the data (nothing left over), EVERY proper prefix of a
    valid data section fails to decode, with `BitReadError`. -/
theorem C12_data_no_proper_prefix_decodes (t : List Desc) (c : Bool) (n : Nat) (bits : Bits)
    (outs : List SubsetOut) (h : decodeData t c n bits = .ok (outs, [])) (k : Nat) (hk : k < bits.length) :
    decodeData t c n (bits.take k) = .error .bitRead := by
  have := C12_data_take t c n bits outs [] h k
  simpa [hk] using this

/-! ### non-vacuity -/

def C12ex.e8 : Elem := { id := 1001, kind := .numeric, nbits := 8, scale := 0, ref := 0 }
def C12ex.fac : Elem := { id := 31001, kind := .numeric, nbits := 8, scale := 0, ref := 0 }
def C12ex.tmpl : List Desc :=
  [.elem e8, .delayedRep 101000 (.elem fac) [.elem e8], .op 201130, .elem e8, .op 201000]
/-- two uncompressed subsets (2 repetitions, then none) -/
def C12ex.bitsU : Bits :=
  toBits 8 5 ++ toBits 8 2 ++ toBits 8 7 ++ toBits 8 9 ++ toBits 10 300 ++ (toBits 8 6 ++ toBits 8 0 ++ toBits 10 1000)
/-- two compressed subsets (1 repetition; the last column differs) -/
def C12ex.bitsC : Bits :=
  toBits 8 5 ++ toBits 6 0 ++ toBits 8 1 ++ toBits 6 0 ++ toBits 8 7 ++ toBits 6 0 ++
    toBits 10 300 ++ toBits 6 2 ++ toBits 2 1 ++ toBits 2 2

def C12ex.outsU : List SubsetOut :=
  [{ descs := [.plain e8, .plain fac, .plain e8, .plain e8, .plain e8],
     vals := [.int 5, .int 2, .int 7, .int 9, .int 300], links := [] },
   { descs := [.plain e8, .plain fac, .plain e8], vals := [.int 6, .int 0, .int 1000], links := [] }]
def C12ex.outsC : List SubsetOut :=
  [{ descs := [.plain e8, .plain fac, .plain e8, .plain e8], vals := [.int 5, .int 1, .int 7, .int 301], links := [] },
   { descs := [.plain e8, .plain fac, .plain e8, .plain e8], vals := [.int 5, .int 1, .int 7, .int 302], links := [] }]

open C12ex in private theorem C12ex.decU : decodeData tmpl false 2 bitsU = .ok (outsU, []) := by decide +kernel
open C12ex in private theorem C12ex.decC : decodeData tmpl true 2 bitsC = .ok (outsC, []) := by decide +kernel

open C12ex in
/-- every one of the 68 truncation points of the uncompressed example is a `BitReadError`, and so
    is every one of the 62 of the compressed example; bits appended after either change nothing -/
example (k : Nat) (hk : k < 68) : decodeData tmpl false 2 (bitsU.take k) = .error .bitRead :=
  C12_data_no_proper_prefix_decodes tmpl false 2 bitsU outsU C12ex.decU k (by
    have : bitsU.length = 68 := by decide +kernel
    omega)

open C12ex in
example (k : Nat) (hk : k < 62) : decodeData tmpl true 2 (bitsC.take k) = .error .bitRead :=
  C12_data_no_proper_prefix_decodes tmpl true 2 bitsC outsC C12ex.decC k (by
    have : bitsC.length = 62 := by decide +kernel
    omega)

open C12ex in
example (x : Bits) : decodeData tmpl true 2 (bitsC ++ x) = .ok (outsC, x) := by
  simpa using C12_data_suffix_irrelevant tmpl true 2 bitsC outsC [] x C12ex.decC

end Bufr
