/-
  C15 — the path-expression parser accepts exactly the documented grammar.
  Property theorems only (helper lemmas: `Lemmas/Path*.lean`; `Path.Canonical`: `Spec/PathCanonical.lean`).  Strings of any length.
-/
import BufrModel.Lang.PathParser
import BufrModel.Spec.PathGrammar
import BufrModel.Spec.PathCanonical
import BufrModel.Lemmas.PathTop
import BufrModel.Lemmas.PathCanonical
import BufrModel.Lemmas.PathPrint
namespace Bufr.PathLang

/-- The state machine accepts a string, with result `p`, exactly when the grammar derives it with
    the same components and slices: nothing is accepted that the grammar rejects, nothing the grammar
    accepts is rejected, and no part of an accepted string is dropped. -/
theorem C15_parse_iff_grammar (s : List Char) (p : Path) :
    parse s = .ok p ↔ Spec.recognise s = some p := by
  have h := parse_agree s
  unfold AgreeTop at h
  cases hr : Spec.recognise s with
  | none => rw [hr] at h; simp [h]
  | some q => rw [hr] at h; simp [h]

/-- Every rejection is the path-parsing error (the `assert` in `create_slice_object` is unreachable). -/
theorem C15_reject_is_path_error (s : List Char) (e : Err) : parse s = .error e → e = .path := by
  intro he
  have h := parse_agree s
  unfold AgreeTop at h
  cases hr : Spec.recognise s with
  | none => rw [hr, he] at h; injection h
  | some q => rw [hr, he] at h; cases h

/-- Accepted strings yield canonical paths ... -/
theorem C15_parse_canonical (s : List Char) (p : Path) : parse s = .ok p → p.Canonical := by
  intro h
  exact recognise_canonical s p ((C15_parse_iff_grammar s p).1 h)

/-- ... printing a canonical path and parsing the printout gives the same path ... -/
theorem C15_print_parse (p : Path) (h : p.Canonical) : parse (print p) = .ok p :=
  (C15_parse_iff_grammar (print p) p).2 (recognise_print p h)

/-- ... hence parse ∘ print ∘ parse = parse. -/
theorem C15_parse_print_parse (s : List Char) (p : Path) (h : parse s = .ok p) :
    parse (print p) = .ok p :=
  C15_print_parse p (C15_parse_canonical s p h)

/-- non-vacuity: the documented examples are accepted with the expected structure -/
example : parse "@[-1]/301001/001002[::2]".toList = .ok
    { subset := some (.range (some (-1)) none none),
      comps := [⟨'/', "301001".toList, .range none none none⟩, ⟨'/', "001002".toList, .range none none (some 2)⟩] } := by
  decide
example : parse " 008042 ".toList = .ok
    { subset := some (.range none none none), comps := [⟨'>', "008042".toList, .range none none none⟩] } := by
  decide
/-- non-vacuity of the hypothesis of `C15_print_parse`: a canonical path -/
example : Path.Canonical
    { subset := some (.idx 0),
      comps := [⟨'/', "301001".toList, .range none none none⟩, ⟨'.', "A01".toList, .range (some (-2)) (some (-1)) none⟩] } := by
  refine ⟨⟨_, rfl, ?_⟩, by simp, ?_, ?_⟩
  · show (0 : Int) ≤ 0; decide
  · intro c hc
    simp only [List.mem_cons, List.not_mem_nil, or_false] at hc
    rcases hc with hc | hc <;> subst hc <;> exact ⟨by decide, ⟨by decide, by decide⟩, trivial⟩
  · intro c hc; simp at hc; subst hc; decide
example : parse "@[0]".toList = .error .path := by decide
example : parse "001001[1:".toList = .error .path := by decide

end Bufr.PathLang
