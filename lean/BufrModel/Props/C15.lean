/-
  C15 — the path-expression parser accepts exactly the documented grammar.
  Property theorems only (helper lemmas: `Lemmas/PathParser.lean`).  Strings of any length.
-/
import BufrModel.Lang.PathParser
import BufrModel.Spec.PathGrammar
import BufrModel.Lemmas.PathTop
namespace Bufr.PathLang

/-- A path as the grammar can produce it. -/
def Slice.Canonical : Slice → Prop
  | .idx i => 0 ≤ i
  | .range _ _ _ => True

def idOk (i : List Char) : Prop := i ≠ [] ∧ ∀ c ∈ i, Spec.isSpecial c = false ∧ isWs c = false

def Path.Canonical (p : Path) : Prop :=
  (∃ s, p.subset = some s ∧ s.Canonical) ∧ p.comps ≠ [] ∧
  (∀ c ∈ p.comps, isSep c.sep = true ∧ idOk c.id ∧ c.slice.Canonical) ∧
  (∀ c, p.comps.head? = some c → c.sep ≠ '.')

/-- The state machine accepts a string, with result `p`, exactly when the grammar derives it with
    the same components and slices: nothing is accepted that the grammar rejects, nothing the grammar
    accepts is rejected, and no part of an accepted string is dropped. -/
theorem C15_parse_iff_grammar (s : List Char) (p : Path) :
    parse s = .ok p ↔ Spec.recognise s = some p := by
  have h := parse_agree s
  unfold AgreeTop at h
  cases hr : Spec.recognise s with
  | none => rw [hr] at h; simp [h]
  | some q => rw [hr] at h; simp [h]

/-- Every rejection is the path-parsing error (the `assert` in `create_slice_object` is unreachable). -/
theorem C15_reject_is_path_error (s : List Char) (e : Err) : parse s = .error e → e = .path := by
  intro he
  have h := parse_agree s
  unfold AgreeTop at h
  cases hr : Spec.recognise s with
  | none => rw [hr, he] at h; injection h
  | some q => rw [hr, he] at h; cases h

/-- Accepted strings yield canonical paths ... -/
theorem C15_parse_canonical (s : List Char) (p : Path) : parse s = .ok p → p.Canonical := by
  sorry

/-- ... printing a canonical path and parsing the printout gives the same path ... -/
theorem C15_print_parse (p : Path) (h : p.Canonical) : parse (print p) = .ok p := by
  sorry

/-- ... hence parse ∘ print ∘ parse = parse. -/
theorem C15_parse_print_parse (s : List Char) (p : Path) (h : parse s = .ok p) :
    parse (print p) = .ok p := by
  sorry

/-- non-vacuity: the documented examples are accepted with the expected structure -/
example : parse "@[-1]/301001/001002[::2]".toList = .ok
    { subset := some (.range (some (-1)) none none),
      comps := [⟨'/', "301001".toList, .range none none none⟩, ⟨'/', "001002".toList, .range none none (some 2)⟩] } := by
  decide
example : parse " 008042 ".toList = .ok
    { subset := some (.range none none none), comps := [⟨'>', "008042".toList, .range none none none⟩] } := by
  decide
example : parse "@[0]".toList = .error .path := by decide
example : parse "001001[1:".toList = .error .path := by decide

end Bufr.PathLang
