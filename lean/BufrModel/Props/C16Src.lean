/-
  C16 — tie to the Python source: the ids a path component is matched against are `str(node.descriptor)`,
  `__str__` of the descriptor classes regenerated from `pybufrkit/descriptors.py` (`Gen/PyDescriptors.lean`).
-/
import BufrModel.Lemmas.LabelsSrc
namespace Bufr
open Bufr.Query Bufr.LabelsSrc

/-- the label function of the query model (`ddChars`, from which `nodeLabel` and the id match of
    `C16_*` are built) is `str(descriptor)` of the source, for every decoded descriptor -/
theorem C16_src_labels (dd : DDesc) : ddChars dd = srcLabel dd := (srcLabel_ddChars dd).symm

end Bufr
