/-
  C20 — in-stream table definitions govern the messages that follow them.
  Model: BufrModel/Msg/TableDef.lean (extraction, table merge, by-source Table D, `_fix_ncep_descriptors`);
  decoding of the following messages is the coder model (C01) run on `extend T es`.
-/
import BufrModel.Msg.TableDef
import BufrModel.Lemmas.PathDigits
import BufrModel.Lemmas.TableDefExtract
import BufrModel.Lemmas.TableDefSrc
import BufrModel.Lemmas.TableDefMerge
/-! ## 1. extended lookup -/

namespace Bufr
open Bufr.TableDef Bufr.C20

/-- After the extra entries `es` have been loaded on top of the tables `T` (`TableB`/`TableD`
    constructors over `load_json_files`: files first, extra entries last), an element / sequence id
    means what the definition says if the definitions mention it, and what it meant before
    otherwise. -/
theorem C20_lookup_extended (T : Tables) (es : Entries) (id : Nat) :
    (extend T es).b id = (es.lookupB id).orElse (fun _ => T.b id) ∧
    (extend T es).d id = (es.lookupD id).orElse (fun _ => T.d id) := by
  unfold extend Entries.lookupB Entries.lookupD
  constructor
  · rw [foldl_insertD_b, foldl_insertB_b]
  · rw [foldl_insertD_d, foldl_insertB_d]

/-- descriptors a definition message does not mention keep their standard meaning -/
theorem C20_unmentioned_keep_meaning (T : Tables) (es : Entries) (id : Nat) :
    (es.lookupB id = none → (extend T es).b id = T.b id) ∧
    (es.lookupD id = none → (extend T es).d id = T.d id) := by
  have h := C20_lookup_extended T es id
  constructor
  · intro hb; rw [h.1, hb]; rfl
  · intro hd; rw [h.2, hd]; rfl

/-- the last definition of an id wins -/
theorem C20_later_definition_wins (T : Tables) (es : Entries) (id : Nat) (e : Elem) :
    (extend T { es with b := es.b ++ [(id, e)] }).b id = some e := by
  rw [(C20_lookup_extended _ _ _).1]
  show (lookupLast (es.b ++ [(id, e)]) id).orElse _ = some e
  have : lookupLast (es.b ++ [(id, e)]) id = some e := by
    induction es.b with
    | nil => simp [lookupLast]
    | cons p rest ih => rw [List.cons_append, lookupLast, ih]
  rw [this]; rfl

-- non-vacuity: a redefinition of 0-12-001 and a new 0-48-001 on top of a one-entry table
example :
    let T : Tables := { b := fun i => if i = 12001 then some ⟨12001, .numeric, 12, 1, 0⟩ else none, d := fun _ => none }
    let es : Entries := { b := [(48001, ⟨48001, .numeric, 7, 0, -5⟩), (12001, ⟨12001, .numeric, 16, 2, 0⟩)] }
    ((extend T es).b 48001).map (·.nbits) = some 7 ∧ ((extend T es).b 12001).map (·.nbits) = some 16
      ∧ (extend T es).b 1001 = none := by decide

end Bufr

/-! ## 2. "as if the entries were present in the table files" -/
namespace Bufr.C20
open Bufr Bufr.TableDef

theorem lookupLast_append {α : Type} (a b : List (Nat × α)) (k : Nat) :
    lookupLast (a ++ b) k = (lookupLast b k).orElse (fun _ => lookupLast a k) := by
  induction a with
  | nil => simp only [List.nil_append, lookupLast]; cases lookupLast b k <;> rfl
  | cons p rest ih =>
    rw [List.cons_append, lookupLast, ih, lookupLast]
    cases lookupLast b k <;> simp [Option.orElse]

theorem tables_ext (T1 T2 : Tables) (hb : ∀ i, T1.b i = T2.b i) (hd : ∀ i, T1.d i = T2.d i) : T1 = T2 := by
  cases T1; cases T2
  simp only [Tables.mk.injEq]
  exact ⟨funext hb, funext hd⟩

/-- loading `F` and then `es` is loading one source that holds `F` updated by `es` -/
theorem extend_extend (T : Tables) (F es : Entries) : extend (extend T F) es = extend T (F.append es) := by
  apply tables_ext
  · intro i
    rw [(C20_lookup_extended _ _ _).1, (C20_lookup_extended _ _ _).1, (C20_lookup_extended _ _ _).1]
    simp only [Entries.lookupB, Entries.append, lookupLast_append]
    cases lookupLast es.b i <;> simp [Option.orElse]
  · intro i
    rw [(C20_lookup_extended _ _ _).2, (C20_lookup_extended _ _ _).2, (C20_lookup_extended _ _ _).2]
    simp only [Entries.lookupD, Entries.append, lookupLast_append]
    cases lookupLast es.d i <;> simp [Option.orElse]

end Bufr.C20

namespace Bufr
open Bufr.TableDef Bufr.C20

/-- A template built (`_descriptors_from_ids_iter`, then the NCEP repair under the same flag) against
    tables whose files hold `F` and which were extended in stream by `es` is the template built
    against tables whose files hold `F` updated by `es`. -/
theorem C20_as_if_in_files (F es : Entries) (depth : Nat) (ids : List Nat) (fix : Bool) :
    buildD (extend (tablesOf F) es) depth ids = buildD (tablesOf (F.append es)) depth ids ∧
    templateFromIds (extend (tablesOf F) es) fix ids = templateFromIds (tablesOf (F.append es)) fix ids := by
  unfold tablesOf
  rw [extend_extend]
  exact ⟨rfl, rfl⟩

end Bufr

/-! ## 3. `_fix_ncep_descriptors` -/


namespace Bufr
open Bufr.TableDef Bufr.C20

/-- `_fix_ncep_descriptors`:
    (1, 2) a sequence whose only member is a member-less replication `101YYY` (fixed or delayed) is
    replaced by that replication, which takes the descriptor that follows the sequence as its only
    member; that descriptor and the rest of the list are repaired recursively;
    (3) when nothing follows, or the replication is not over one descriptor, the repair fails
    (IndexError / AssertionError);
    (4) on trees without member-less replications — every template over standard tables — the
    repair changes nothing. -/
theorem C20_fix_ncep :
    (∀ s id d rest, xOf id = 1 →
      fixNcep (.seq s [.fixedRep id []] :: d :: rest) =
        (do let ms ← fixNcep [d]; let tl ← fixNcep rest; pure (.fixedRep id ms :: tl))) ∧
    (∀ s id f d rest, xOf id = 1 →
      fixNcep (.seq s [.delayedRep id f []] :: d :: rest) =
        (do let ms ← fixNcep [d]; let tl ← fixNcep rest; pure (.delayedRep id f ms :: tl))) ∧
    (∀ s id f rest, (xOf id ≠ 1 ∨ rest = []) →
      fixNcep (.seq s [.delayedRep id f []] :: rest) = .error .other ∧
      fixNcep (.seq s [.fixedRep id []] :: rest) = .error .other) ∧
    (∀ ds, noBareL ds = true → fixNcep ds = .ok ds) := by
  refine ⟨?_, ?_, ?_, fixNcep_id⟩
  · intro s id d rest hx
    rw [seq_bare_fixed, bare_fixed_cons _ _ _ hx]
  · intro s id f d rest hx
    rw [seq_bare_delayed, bare_delayed_cons _ _ _ _ hx]
  · intro s id f rest h
    rw [seq_bare_fixed, seq_bare_delayed]
    rcases h with h | h
    · exact ⟨bare_delayed_badX _ _ _ h, bare_fixed_badX _ _ h⟩
    · subst h; exact ⟨bare_delayed_last _ _, bare_fixed_last _⟩

/-- the NCEP case in one line: `3-60-002 = [101000, 031001]` followed by `d` becomes the delayed
    replication of `d` (when `d` and the rest need no repair themselves) -/
theorem C20_fix_ncep_simple (s id : Nat) (f d : Desc) (rest : List Desc) (hx : xOf id = 1)
    (hd : noBare d = true) (hr : noBareL rest = true) :
    fixNcep (.seq s [.delayedRep id f []] :: d :: rest) = .ok (.delayedRep id f [d] :: rest) := by
  rw [C20_fix_ncep.2.1 s id f d rest hx, fixNcep_id [d] (by simp [noBareL, hd]), fixNcep_id rest hr]
  rfl

-- non-vacuity (prepbufr: 3-60-002 then 3-62-002), and recursion into members
example :
    fixNcep [.seq 360002 [.delayedRep 101000 (.elem drf8) []], .seq 362002 [.elem (strElem 1 3)], .op 201000] =
      .ok [.delayedRep 101000 (.elem drf8) [.seq 362002 [.elem (strElem 1 3)]], .op 201000] :=
  C20_fix_ncep_simple _ _ _ _ _ (by decide) (by decide) (by decide)

end Bufr

/-! ## 4. extraction inverts the NCEP layout -/
namespace Bufr
open Bufr.TableDef Bufr.C20

/-- the entries (and ignored Table A fields) a definition message in the NCEP layout can carry:
    field widths (1+2+3 characters of F/X/Y, two 32-character name lines, 24-character unit, 3-digit
    scale, 10-digit reference, 3-digit width, 64-character sequence name, 6-character members, 8-bit
    counts), ASCII, and no white space where the processor strips it -/
structure Encodable (aVals : List Val) (bs : List BEntry) (ds : List DEntry) : Prop where
  a_triples : aVals.length % 3 = 0
  a_count : aVals.length / 3 ≤ 255
  b_count : bs.length ≤ 255
  d_count : ds.length ≤ 255
  b_ok : ∀ e ∈ bs, EncB e
  d_ok : ∀ e ∈ ds, EncD e

/-- `BufrTableDefinitionProcessor.process` returns exactly the entries that were laid out in the
    definition message (`itemsOf`: the flat decoded values of the template `ncepTemplate`), in order. -/
theorem C20_extract_inverse (aVals : List Val) (bs : List BEntry) (ds : List DEntry)
    (h : Encodable aVals bs ds) : extract ncepTemplate (itemsOf aVals bs ds) = .ok (bs, ds) := by
  have hk : aVals.length = 3 * (aVals.length / 3) := by have := h.a_triples; omega
  have hn := flatMap_bVals_length bs
  have hA : flatIds (membersOf nodeA) = idsA := rfl
  have hB : flatIds (membersOf nodeB) = idsB := rfl
  have hD : flatIds (membersOf nodeD) = idsD := rfl
  have hbs := repeatM_flatMap bEntry bVals EncB (fun a rest ha => bEntry_bVals a ha rest) bs h.b_ok
  have hds := repeatM_flatMap dEntry dVals EncD (fun a rest ha => dEntry_dVals a ha rest) ds h.d_ok
  rw [itemsOf_nf]
  generalize hkk : aVals.length / 3 = k at *
  unfold extract ncepTemplate
  simp only [hA, hB, hD, ne_eq, not_true_eq_false, if_false]
  unfold nodeA nodeB nodeD
  simp only [nRepeats, List.getElem?_cons_zero, Int.natCast_nonneg, Int.not_lt.mpr, if_false, Int.toNat_natCast,
    ok_bind, if_true, idxB _ _ _ _ _ hk, idxD _ _ _ _ _ _ _ _ hk hn, dropA _ _ _ _ hk, skip1, hbs, hds]
  rfl

end Bufr

namespace Bufr
open Bufr.TableDef Bufr.C20

/-- consequence for the tables: what the following messages are decoded with is the file tables
    updated by exactly the laid-out entries (when their keys / members are numeric) -/
theorem C20_definitions_govern (T : Tables) (aVals : List Val) (bs : List BEntry) (ds : List DEntry)
    (h : Encodable aVals bs ds) (es : Entries) (hes : toEntries bs ds = .ok es) (id : Nat) :
    (extract ncepTemplate (itemsOf aVals bs ds) >>= fun p => toEntries p.1 p.2).map (fun es' => (extend T es').b id)
      = .ok ((es.lookupB id).orElse fun _ => T.b id) := by
  rw [C20_extract_inverse aVals bs ds h]
  show (toEntries bs ds).map _ = _
  rw [hes]
  show Except.ok ((extend T es).b id) = _
  rw [(C20_lookup_extended T es id).1]

/-- non-vacuity: the first Table B entry of tests/data/prepbufr.bufr (0-63-000 BYTCNT, 16 bits),
    CLAT (scale +2, reference -9000, 15 bits) and the replication-only sequence 3-60-001 -/
def c20ExB1 : BEntry := ⟨"063000".toList, "BYTCNT".toList, "BYTES".toList, 0, 0, 16⟩
def c20ExB2 : BEntry := ⟨"005002".toList, "CLAT     TABLE B ENTRY - LATITUDE".toList, "DEG N".toList, 2, -9000, 15⟩
def c20ExD1 : DEntry := ⟨"360001".toList, "DRP16BIT".toList, ["101000".toList, "031002".toList]⟩

example : extract ncepTemplate (itemsOf [] [c20ExB1, c20ExB2] [c20ExD1]) = .ok ([c20ExB1, c20ExB2], [c20ExD1]) := by decide +kernel

example : Encodable [] [c20ExB1] [c20ExD1] := by
  refine ⟨by decide, by decide, by decide, by decide, ?_, ?_⟩
  · intro e he
    simp only [List.mem_singleton] at he
    subst he
    refine ⟨by decide, ?_, by decide, ?_, ?_, ?_, by decide, ?_, ?_, ?_, by decide, by decide, by decide, by decide⟩ <;>
      (intro c hc; revert c; decide)
  · intro e he
    simp only [List.mem_singleton] at he
    subst he
    refine ⟨by decide, ?_, by decide, ?_, ?_, by decide, ?_, ?_⟩
    · intro c hc; revert c; decide
    · intro c hc; revert c; decide
    · intro c hc; revert c; decide
    · intro m hm
      simp only [c20ExD1, List.mem_cons, List.not_mem_nil, or_false] at hm
      rcases hm with hm | hm <;> (subst hm; intro c hc; revert c; decide)
    · intro m hm
      simp only [c20ExD1, List.mem_cons, List.not_mem_nil, or_false] at hm
      rcases hm with hm | hm <;> (subst hm; decide)

end Bufr

/-! ## 5. the by-source member resolution of `TableD` -/
namespace Bufr
open Bufr.TableDef Bufr.C20

/-- `TableD.__init__` resolves the members of a sequence against the sources loaded so far (the
    sequences of the table files keep the member objects they were built with; the extra entries are
    one more source, processed last).  When no file sequence mentions a sequence id that the
    definitions (re)define — always the case for the new ids 3-48-000 … 3-63-255 of the property —
    this is the same template as the one built from the merged lookup `extend T es`, hence
    (C20_as_if_in_files) the one built from files that contain the entries. -/
theorem C20_by_source (T : Tables) (es : Entries) (depth : Nat) (ids : List Nat)
    (h : NoBackRef T.d es.lookupD) :
    buildSrc (extend T es).b [es.lookupD, T.d] depth ids = buildD (extend T es) depth ids :=
  buildSrc_two _ T.d es.lookupD (extend T es) rfl (fun i => (C20_lookup_extended T es i).2) h depth ids

-- non-vacuity of the hypothesis: file sequence 3-01-001 = [0-01-001], definitions add 3-48-001
example :
    NoBackRef (fun i => if i = 301001 then some [1001] else none)
      (Entries.lookupD { d := [(348001, [301001, 48001])] }) := by
  intro id ms h m hm
  simp only at h
  split at h
  · cases h
    simp only [List.mem_singleton] at hm
    subst hm
    decide
  · cases h

end Bufr
