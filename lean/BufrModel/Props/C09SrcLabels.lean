/-
  C09 — tie to the Python source: the descriptor column of the text views is `str(descriptor)`, `__str__` of the
  descriptor classes regenerated from `pybufrkit/descriptors.py` (`Gen/PyDescriptors.lean`).
-/
import BufrModel.Lemmas.LabelsSrc
namespace Bufr
open Bufr.LabelsSrc

/-- the descriptor strings of the text model (`descStr`) are `str(descriptor)` of the source -/
theorem C09_src_labels (dd : DDesc) : descStr dd = srcLabel dd := (srcLabel_descStr dd).symm

end Bufr
