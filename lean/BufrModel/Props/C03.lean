/-
  C03 — decode/encode round trip: quantisation bound, range refusal, canonical fixpoint.
  This file: the arithmetic and the element-level (one field) theorems, for the uncompressed
  primitives that the template walk calls (`encPrimsU` / `decPrimsU`).
  Helper lemmas are in `Lemmas/Quant.lean`; vocabulary (`canonUInt`, `St.afterWrite`, `St.afterRead`,
  `St.curVal`, `IsRoundHalfEven`) in `Spec/Quant.lean`.

  Values are exact decimals (`Val.int i`, `Val.num m k` = m·10^(-k)); all statements are in exact
  integer arithmetic: "within half a unit of the last scaled digit" for a value `a / b` and its
  quantised integer `q` reads `|2·(a − q·b)| ≤ b`.
-/
import BufrModel.Spec.Quant
import BufrModel.Lemmas.Quant
import BufrModel.Props.C19
namespace Bufr

/-! ### 1. rounding -/

/-- `roundHalfEvenDiv a b` (Python's `round(a / b)`) is within half a unit of `a / b`; on an exact
    tie it is the even neighbour; exact multiples are not moved. -/
theorem C03_round_half_even (a : Int) (b : Nat) (hb : 0 < b) :
    (2 * (a - roundHalfEvenDiv a b * (b : Int))).natAbs ≤ b ∧
    ((2 * (a - roundHalfEvenDiv a b * (b : Int)) = b ∨
      2 * (a - roundHalfEvenDiv a b * (b : Int)) = -(b : Int)) → roundHalfEvenDiv a b % 2 = 0) ∧
    (∀ q : Int, roundHalfEvenDiv (q * (b : Int)) b = q) :=
  ⟨rhe_bound a b hb, rhe_tie a b hb, fun q => rhe_exact q b hb⟩

/-- ... and that determines it: `q` is the result iff it is the nearest integer (the even one on a tie). -/
theorem C03_round_half_even_iff (a : Int) (b : Nat) (hb : 0 < b) (q : Int) :
    roundHalfEvenDiv a b = q ↔ IsRoundHalfEven a b q :=
  rhe_iff a b hb q

example : roundHalfEvenDiv 25 10 = 2 ∧ roundHalfEvenDiv 35 10 = 4 ∧ roundHalfEvenDiv (-25) 10 = -2 ∧
    roundHalfEvenDiv (-35) 10 = -4 ∧ roundHalfEvenDiv 26 10 = 3 ∧ roundHalfEvenDiv (-26) 10 = -3 := by decide

/-! ### 2. quantisation bound -/

/-- The integer the encoder derives from a supplied value is within half a unit of the exactly scaled
    value `v · 10^scale` (and is the round-half-even choice): with `e = scale − k` the scaled value of
    `m·10^(−k)` is `m·10^e`; for `e ≥ 0` that is an integer and is taken as is, for `e < 0` it is
    `m / 10^(−e)` rounded.  A value that is neither an integer nor a decimal is refused. -/
theorem C03_quantisation_bound (v : Val) (scale q : Int) (h : quantise v scale = .ok q) :
    match v with
    | .num m k =>
        scale ≠ 0 ∧
        (0 ≤ scale - k → q = m * (10 : Int) ^ (scale - k).toNat) ∧
        (scale - k < 0 →
          (2 * (m - q * ((10 ^ (k - scale).toNat : Nat) : Int))).natAbs ≤ 10 ^ (k - scale).toNat ∧
          IsRoundHalfEven m (10 ^ (k - scale).toNat) q)
    | .int i =>
        (0 ≤ scale → q = i * (10 : Int) ^ scale.toNat) ∧
        (scale < 0 →
          (2 * (i - q * ((10 ^ (-scale).toNat : Nat) : Int))).natAbs ≤ 10 ^ (-scale).toNat ∧
          IsRoundHalfEven i (10 ^ (-scale).toNat) q)
    | _ => False := by
  cases v with
  | missing => cases h
  | bytes b => cases h
  | num m k =>
    obtain ⟨h0, h1, h2⟩ := quantise_num_inv h
    refine ⟨h0, h1, fun he => ?_⟩
    have hq := h2 he
    rw [Int.neg_sub] at hq
    subst hq
    exact ⟨rhe_bound m _ (pow10_pos _), (rhe_iff m _ (pow10_pos _) _).1 rfl⟩
  | int i =>
    obtain ⟨h1, h2⟩ := quantise_int_inv h
    refine ⟨h1, fun he => ?_⟩
    have hq := h2 he
    subst hq
    exact ⟨rhe_bound i _ (pow10_pos _), (rhe_iff i _ (pow10_pos _) _).1 rfl⟩

/-- non-vacuity: 2.5 with scale 0 digits kept ... 12.345 at scale 2 is 1234 (tie to even), 12.355 is 1236 -/
example : quantise (.num 12345 3) 2 = .ok 1234 ∧ quantise (.num 12355 3) 2 = .ok 1236 ∧
    quantise (.num 15 1) 3 = .ok 1500 ∧ quantise (.int 7) 2 = .ok 700 ∧ quantise (.int 250) (-2) = .ok 2 := by
  decide

/-! ### 3. values on the grid -/

/-- A value that came from the decoder (`scaleVal r scale`: `.int r` for scale 0, the decimal
    `r·10^(−scale)` otherwise) re-quantises to exactly its integer. -/
theorem C03_grid_exact (r scale : Int) :
    quantise (scaleVal r scale) scale = .ok r ∧
    (scale ≠ 0 → quantise (.num r scale) scale = .ok r) ∧
    quantise (.int r) 0 = .ok r := by
  refine ⟨quantise_scaleVal r scale, fun h => ?_, ?_⟩
  · have := quantise_scaleVal r scale
    simpa [scaleVal, h] using this
  · simpa [scaleVal] using quantise_scaleVal r 0

/-- what a field of `n` bits holding `raw` decodes to, spelled out -/
theorem C03_canon_value (n raw : Nat) (scale ref : Int) :
    numVal (canonUInt n raw) scale ref =
      if 1 < n ∧ raw = 2 ^ n - 1 then .missing else scaleVal ((raw : Int) + ref) scale := by
  unfold canonUInt
  split <;> rfl

/-- Element fixpoint (numeric field, any width 1..64, any scale and reference, under whatever
    201/202/203/207 modification produced them): the `n` bits `toBits n raw` decode to
    `(raw + ref)/10^scale` — or to missing when they are all ones and `n > 1` — and encoding that
    decoded value writes back exactly the same `n` bits. -/
theorem C03_element_fixpoint (dd : DDesc) (scale ref : Int) (n raw : Nat)
    (h0 : 0 < n) (h64 : n ≤ 64) (hr : raw < 2 ^ n) :
    (∀ (sd : St) (suf : Bits), sd.bits = toBits n raw ++ suf →
      decNumericU dd (n : Int) scale ref sd =
        .ok (sd.afterRead dd suf (numVal (canonUInt n raw) scale ref))) ∧
    (∀ se : St, se.curVal = some (numVal (canonUInt n raw) scale ref) →
      encNumericU dd (n : Int) scale ref se = .ok (se.afterWrite dd (toBits n raw))) ∧
    (canonUInt n raw = none ↔ (1 < n ∧ raw = 2 ^ n - 1)) := by
  refine ⟨fun sd suf hb => ?_, fun se hv => ?_, ?_⟩
  · have h := decNumericU_field dd scale ref sd (toBits n raw) suf
      (by rw [toBits_length]; exact h0) (by rw [toBits_length]; exact h64) hb
    rw [toBits_length] at h
    simp only [toBits_all_iff n raw hr, ofBits_toBits, Nat.mod_eq_of_lt hr] at h
    exact h
  · rw [encNumericU_eq dd n scale ref se _ n hv (natWidth_ofNat n h0)]
    unfold canonUInt
    split
    · next hc =>
      simp only [numVal, numericField_missing scale ref n h0 h64, Except.map]
      rw [hc.2, toBits_max]
    · simp only [numVal]
      rw [numericField_value _ scale ref _ n (scaleVal_ne_missing _ _) (quantise_scaleVal _ _)]
      have : (raw : Int) + ref - ref = (raw : Int) := by omega
      rw [this, fieldUInt_nat n raw h0 hr]
      rfl
  · unfold canonUInt
    split
    · next hc => simp [hc]
    · next hc => simp only [reduceCtorEq, false_iff]; exact hc

/-- non-vacuity: a 12-bit field, scale 1, reference −1000: raw 1234 is 23.4 and re-encodes to the same bits -/
example :
    (decNumericU (.oper 0) 12 1 (-1000) { bits := toBits 12 1234 ++ [true], vals := [[]] }).toOption.map
        (fun s => (s.bits, s.vals, s.descs)) = some ([true], [[.num 234 1]], [.oper 0]) ∧
    (encNumericU (.oper 0) 12 1 (-1000) { vals := [[.num 234 1]] }).toOption.map
        (fun s => (s.bits.reverse, s.idx)) = some (toBits 12 1234, 1) := by
  decide

/-! ### 4. range refusal -/

/-- A value whose quantised integer minus the reference is negative or needs more than the field's
    `n` bits is refused (`.error .other`: `bitstring` raises) — never wrapped modulo `2^n`, never
    clipped.  Holds for any width the operators may have produced (a non-positive one refuses everything). -/
theorem C03_refuses_out_of_range (dd : DDesc) (nbits scale ref : Int) (s : St) (v : Val) (q : Int)
    (hv : s.curVal = some v) (hm : v ≠ .missing) (hq : quantise v scale = .ok q)
    (h : q - ref < 0 ∨ (2 : Int) ^ nbits.toNat ≤ q - ref) :
    encNumericU dd nbits scale ref s = .error .other := by
  cases hn : natWidth nbits with
  | error e =>
    unfold natWidth at hn
    split at hn
    · next hle => exact encNumericU_badwidth dd nbits scale ref s v hv hle
    · cases hn
  | ok n =>
    obtain ⟨_, rfl⟩ := natWidth_ok hn
    rw [encNumericU_eq dd _ scale ref s v n hv hn, numericField_value v scale ref q n hm hq]
    have : fieldUInt (q - ref) n = .error .other := by
      unfold fieldUInt
      exact C19_refuses_unfit [] (q - ref) n (by simpa using h)
    rw [this]; rfl

/-- ... and everything inside the range is accepted and written as it is. -/
theorem C03_accepts_in_range (dd : DDesc) (scale ref : Int) (n : Nat) (s : St) (v : Val) (q : Int)
    (hv : s.curVal = some v) (hm : v ≠ .missing) (hq : quantise v scale = .ok q) (h0 : 0 < n)
    (hlo : 0 ≤ q - ref) (hhi : q - ref < (2 : Int) ^ n) :
    encNumericU dd (n : Int) scale ref s = .ok (s.afterWrite dd (toBits n (q - ref).toNat)) := by
  rw [encNumericU_eq dd _ scale ref s v n hv (natWidth_ofNat n h0), numericField_value v scale ref q n hm hq]
  have h1 : ((q - ref).toNat : Int) = q - ref := by omega
  have h2 : (q - ref).toNat < 2 ^ n := by
    have : (((q - ref).toNat : Nat) : Int) < ((2 ^ n : Nat) : Int) := by rw [h1]; simpa using hhi
    exact_mod_cast this
  rw [← h1, fieldUInt_nat n _ h0 h2, h1]; rfl

/-- the same for code / flag (and associated, skipped) fields -/
theorem C03_codeflag_refuses_out_of_range (dd : DDesc) (n : Nat) (s : St) (i : Int)
    (hv : s.curVal = some (.int i)) (h : i < 0 ∨ (2 : Int) ^ n ≤ i) :
    encCodeflagU dd n s = .error .other := by
  rw [encCodeflagU_eq dd n s _ hv]
  have : codeflagField (.int i) n = .error .other := by
    unfold codeflagField fieldUInt
    exact C19_refuses_unfit [] i n h
  rw [this]; rfl

/-- The one documented exception: a value that quantises to the field's all-ones pattern IS written
    (it is in range) and reads back as missing. -/
theorem C03_all_ones_is_missing (dd : DDesc) (scale ref : Int) (n : Nat) (s : St) (v : Val) (q : Int)
    (hv : s.curVal = some v) (hm : v ≠ .missing) (hq : quantise v scale = .ok q)
    (h1 : 1 < n) (h64 : n ≤ 64) (hq1 : q - ref = ((2 ^ n - 1 : Nat) : Int)) :
    encNumericU dd (n : Int) scale ref s = .ok (s.afterWrite dd (ones n)) ∧
    ∀ (sd : St) (suf : Bits), sd.bits = ones n ++ suf →
      decNumericU dd (n : Int) scale ref sd = .ok (sd.afterRead dd suf .missing) := by
  have hp : 2 ^ n - 1 < 2 ^ n := by have := Nat.two_pow_pos n; omega
  constructor
  · rw [encNumericU_eq dd _ scale ref s v n hv (natWidth_ofNat n (by omega)),
      numericField_value v scale ref q n hm hq, hq1, fieldUInt_nat n _ (by omega) hp, toBits_max]
    rfl
  · intro sd suf hb
    have := (C03_element_fixpoint dd scale ref n (2 ^ n - 1) (by omega) h64 hp).1 sd suf
      (by rw [toBits_max]; exact hb)
    simpa [canonUInt, h1, numVal] using this

/-- non-vacuity: 8 bits, scale 0, reference 0: 255 is accepted, written as all ones; 256 and −1 are refused -/
example :
    (encNumericU (.oper 0) 8 0 0 { vals := [[.int 255]] }).toOption.map (·.bits) = some (ones 8) ∧
    (encNumericU (.oper 0) 8 0 0 { vals := [[.int 256]] }).toOption.map (·.bits) = none ∧
    (encNumericU (.oper 0) 8 0 0 { vals := [[.int (-1)]] }).toOption.map (·.bits) = none := by
  decide

end Bufr
