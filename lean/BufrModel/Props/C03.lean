/-
  C03 — decode/encode round trip: quantisation bound, range refusal, canonical fixpoint.
  This file: the arithmetic and the element-level (one field) theorems, for the uncompressed
  primitives that the template walk calls (`encPrimsU` / `decPrimsU`).
  Helper lemmas are in `Lemmas/Quant.lean`; vocabulary (`canonUInt`, `St.afterWrite`, `St.afterRead`,
  `St.curVal`, `IsRoundHalfEven`) in `Spec/Quant.lean`.

  Values are exact decimals (`Val.int i`, `Val.num m k` = m·10^(-k)); all statements are in exact
  integer arithmetic: "within half a unit of the last scaled digit" for a value `a / b` and its
  quantised integer `q` reads `|2·(a − q·b)| ≤ b`.
-/
import BufrModel.Spec.Quant
import BufrModel.Lemmas.Quant
import BufrModel.Props.C19
namespace Bufr

/-! ### 1. rounding -/

/-- `roundHalfEvenDiv a b` (Python's `round(a / b)`) is within half a unit of `a / b`; on an exact
    tie it is the even neighbour; exact multiples are not moved. -/
theorem C03_round_half_even (a : Int) (b : Nat) (hb : 0 < b) :
    (2 * (a - roundHalfEvenDiv a b * (b : Int))).natAbs ≤ b ∧
    ((2 * (a - roundHalfEvenDiv a b * (b : Int)) = b ∨
      2 * (a - roundHalfEvenDiv a b * (b : Int)) = -(b : Int)) → roundHalfEvenDiv a b % 2 = 0) ∧
    (∀ q : Int, roundHalfEvenDiv (q * (b : Int)) b = q) :=
  ⟨rhe_bound a b hb, rhe_tie a b hb, fun q => rhe_exact q b hb⟩

/-- ... and that determines it: `q` is the result iff it is the nearest integer (the even one on a tie). -/
theorem C03_round_half_even_iff (a : Int) (b : Nat) (hb : 0 < b) (q : Int) :
    roundHalfEvenDiv a b = q ↔ IsRoundHalfEven a b q :=
  rhe_iff a b hb q

example : roundHalfEvenDiv 25 10 = 2 ∧ roundHalfEvenDiv 35 10 = 4 ∧ roundHalfEvenDiv (-25) 10 = -2 ∧
    roundHalfEvenDiv (-35) 10 = -4 ∧ roundHalfEvenDiv 26 10 = 3 ∧ roundHalfEvenDiv (-26) 10 = -3 := by decide

/-! ### 2. quantisation bound -/

/-- The integer the encoder derives from a supplied value is within half a unit of the exactly scaled
    value `v · 10^scale` (and is the round-half-even choice): with `e = scale − k` the scaled value of
    `m·10^(−k)` is `m·10^e`; for `e ≥ 0` that is an integer and is taken as is, for `e < 0` it is
    `m / 10^(−e)` rounded.  A value that is neither an integer nor a decimal is refused. -/
theorem C03_quantisation_bound (v : Val) (scale q : Int) (h : quantise v scale = .ok q) :
    match v with
    | .num m k =>
        scale ≠ 0 ∧
        (0 ≤ scale - k → q = m * (10 : Int) ^ (scale - k).toNat) ∧
        (scale - k < 0 →
          (2 * (m - q * ((10 ^ (k - scale).toNat : Nat) : Int))).natAbs ≤ 10 ^ (k - scale).toNat ∧
          IsRoundHalfEven m (10 ^ (k - scale).toNat) q)
    | .int i =>
        (0 ≤ scale → q = i * (10 : Int) ^ scale.toNat) ∧
        (scale < 0 →
          (2 * (i - q * ((10 ^ (-scale).toNat : Nat) : Int))).natAbs ≤ 10 ^ (-scale).toNat ∧
          IsRoundHalfEven i (10 ^ (-scale).toNat) q)
    | _ => False := by
  cases v with
  | missing => cases h
  | bytes b => cases h
  | num m k =>
    obtain ⟨h0, h1, h2⟩ := quantise_num_inv h
    refine ⟨h0, h1, fun he => ?_⟩
    have hq := h2 he
    rw [Int.neg_sub] at hq
    subst hq
    exact ⟨rhe_bound m _ (pow10_pos _), (rhe_iff m _ (pow10_pos _) _).1 rfl⟩
  | int i =>
    obtain ⟨h1, h2⟩ := quantise_int_inv h
    refine ⟨h1, fun he => ?_⟩
    have hq := h2 he
    subst hq
    exact ⟨rhe_bound i _ (pow10_pos _), (rhe_iff i _ (pow10_pos _) _).1 rfl⟩

/-- non-vacuity: 2.5 with scale 0 digits kept ... 12.345 at scale 2 is 1234 (tie to even), 12.355 is 1236 -/
example : quantise (.num 12345 3) 2 = .ok 1234 ∧ quantise (.num 12355 3) 2 = .ok 1236 ∧
    quantise (.num 15 1) 3 = .ok 1500 ∧ quantise (.int 7) 2 = .ok 700 ∧ quantise (.int 250) (-2) = .ok 2 := by
  decide

/-! ### 3. values on the grid -/

/-- A value that came from the decoder (`scaleVal r scale`: `.int r` for scale 0, the decimal
    `r·10^(−scale)` otherwise) re-quantises to exactly its integer. -/
theorem C03_grid_exact (r scale : Int) :
    quantise (scaleVal r scale) scale = .ok r ∧
    (scale ≠ 0 → quantise (.num r scale) scale = .ok r) ∧
    quantise (.int r) 0 = .ok r := by
  refine ⟨quantise_scaleVal r scale, fun h => ?_, ?_⟩
  · have := quantise_scaleVal r scale
    simpa [scaleVal, h] using this
  · simpa [scaleVal] using quantise_scaleVal r 0

/-- what a field of `n` bits holding `raw` decodes to, spelled out -/
theorem C03_canon_value (n raw : Nat) (scale ref : Int) :
    numVal (canonUInt n raw) scale ref =
      if 1 < n ∧ raw = 2 ^ n - 1 then .missing else scaleVal ((raw : Int) + ref) scale := by
  unfold canonUInt
  split <;> rfl

/-- Element fixpoint (numeric field, any width 1..64, any scale and reference, under whatever
    201/202/203/207 modification produced them): the `n` bits `toBits n raw` decode to
    `(raw + ref)/10^scale` — or to missing when they are all ones and `n > 1` — and encoding that
    decoded value writes back exactly the same `n` bits. -/
theorem C03_element_fixpoint (dd : DDesc) (scale ref : Int) (n raw : Nat)
    (h0 : 0 < n) (h64 : n ≤ 64) (hr : raw < 2 ^ n) :
    (∀ (sd : St) (suf : Bits), sd.bits = toBits n raw ++ suf →
      decNumericU dd (n : Int) scale ref sd =
        .ok (sd.afterRead dd suf (numVal (canonUInt n raw) scale ref))) ∧
    (∀ se : St, se.curVal = some (numVal (canonUInt n raw) scale ref) →
      encNumericU dd (n : Int) scale ref se = .ok (se.afterWrite dd (toBits n raw))) ∧
    (canonUInt n raw = none ↔ (1 < n ∧ raw = 2 ^ n - 1)) := by
  refine ⟨fun sd suf hb => ?_, fun se hv => ?_, ?_⟩
  · have h := decNumericU_field dd scale ref sd (toBits n raw) suf
      (by rw [toBits_length]; exact h0) (by rw [toBits_length]; exact h64) hb
    rw [toBits_length] at h
    simp only [toBits_all_iff n raw hr, ofBits_toBits, Nat.mod_eq_of_lt hr] at h
    exact h
  · rw [encNumericU_eq dd n scale ref se _ n hv (natWidth_ofNat n h0)]
    unfold canonUInt
    split
    · next hc =>
      simp only [numVal, numericField_missing scale ref n h0 h64, Except.map]
      rw [hc.2, toBits_max]
    · simp only [numVal]
      rw [numericField_value _ scale ref _ n (scaleVal_ne_missing _ _) (quantise_scaleVal _ _)]
      have : (raw : Int) + ref - ref = (raw : Int) := by omega
      rw [this, fieldUInt_ofNat n raw h0 hr]
      rfl
  · unfold canonUInt
    split
    · next hc => simp [hc]
    · next hc => simp only [reduceCtorEq, false_iff]; exact hc

/-- non-vacuity: a 12-bit field, scale 1, reference −1000: raw 1234 is 23.4 and re-encodes to the same bits -/
example :
    (decNumericU (.oper 0) 12 1 (-1000) { bits := toBits 12 1234 ++ [true], vals := [[]] }).toOption.map
        (fun s => (s.bits, s.vals, s.descs)) = some ([true], [[.num 234 1]], [.oper 0]) ∧
    (encNumericU (.oper 0) 12 1 (-1000) { vals := [[.num 234 1]] }).toOption.map
        (fun s => (s.bits.reverse, s.idx)) = some (toBits 12 1234, 1) := by
  decide

/-! ### 4. range refusal -/

/-- A value whose quantised integer minus the reference is negative or needs more than the field's
    `n` bits is refused (`.error .other`: `bitstring` raises) — never wrapped modulo `2^n`, never
    clipped.  Holds for any width the operators may have produced (a non-positive one refuses everything). -/
theorem C03_refuses_out_of_range (dd : DDesc) (nbits scale ref : Int) (s : St) (v : Val) (q : Int)
    (hv : s.curVal = some v) (hm : v ≠ .missing) (hq : quantise v scale = .ok q)
    (h : q - ref < 0 ∨ (2 : Int) ^ nbits.toNat ≤ q - ref) :
    encNumericU dd nbits scale ref s = .error .other := by
  cases hn : natWidth nbits with
  | error e =>
    unfold natWidth at hn
    split at hn
    · next hle => exact encNumericU_badwidth dd nbits scale ref s v hv hle
    · cases hn
  | ok n =>
    obtain ⟨_, rfl⟩ := natWidth_ok hn
    rw [encNumericU_eq dd _ scale ref s v n hv hn, numericField_value v scale ref q n hm hq]
    have : fieldUInt (q - ref) n = .error .other := by
      unfold fieldUInt
      exact C19_refuses_unfit [] (q - ref) n (by simpa using h)
    rw [this]; rfl

/-- ... and everything inside the range is accepted and written as it is. -/
theorem C03_accepts_in_range (dd : DDesc) (scale ref : Int) (n : Nat) (s : St) (v : Val) (q : Int)
    (hv : s.curVal = some v) (hm : v ≠ .missing) (hq : quantise v scale = .ok q) (h0 : 0 < n)
    (hlo : 0 ≤ q - ref) (hhi : q - ref < (2 : Int) ^ n) :
    encNumericU dd (n : Int) scale ref s = .ok (s.afterWrite dd (toBits n (q - ref).toNat)) := by
  rw [encNumericU_eq dd _ scale ref s v n hv (natWidth_ofNat n h0), numericField_value v scale ref q n hm hq]
  have h1 : ((q - ref).toNat : Int) = q - ref := by omega
  have h2 : (q - ref).toNat < 2 ^ n := by
    have : (((q - ref).toNat : Nat) : Int) < ((2 ^ n : Nat) : Int) := by rw [h1]; simpa using hhi
    exact_mod_cast this
  rw [← h1, fieldUInt_ofNat n _ h0 h2, h1]; rfl

/-- the same for code / flag (and associated, skipped) fields -/
theorem C03_codeflag_refuses_out_of_range (dd : DDesc) (n : Nat) (s : St) (i : Int)
    (hv : s.curVal = some (.int i)) (h : i < 0 ∨ (2 : Int) ^ n ≤ i) :
    encCodeflagU dd n s = .error .other := by
  rw [encCodeflagU_eq dd n s _ hv]
  have : codeflagField (.int i) n = .error .other := by
    unfold codeflagField fieldUInt
    exact C19_refuses_unfit [] i n h
  rw [this]; rfl

/-- Every refusal of the numeric / code-flag encoder primitives is the non-library error family
    (ValueError / IndexError / TypeError of the real code), whatever the cause: no value left,
    a non-positive or > 64-bit-missing width, a value of the wrong type, or a value out of range. -/
theorem C03_refusals_are_other (dd : DDesc) (nbits scale ref : Int) (n : Nat) (s : St) (e : Err) :
    (encNumericU dd nbits scale ref s = .error e → e = .other) ∧
    (encCodeflagU dd n s = .error e → e = .other) := by
  constructor
  · intro h
    cases hv : s.curVal with
    | none => rw [encNumericU_noval dd nbits scale ref s hv] at h; cases h; rfl
    | some v =>
      cases hn : natWidth nbits with
      | error e' =>
        unfold natWidth at hn
        split at hn
        · next hle => rw [encNumericU_badwidth dd nbits scale ref s v hv hle] at h; cases h; rfl
        · cases hn
      | ok n' =>
        rw [encNumericU_eq dd nbits scale ref s v n' hv hn] at h
        cases hf : numericField v scale ref n' with
        | error e' => rw [hf] at h; cases h; exact numericField_error hf
        | ok f => rw [hf] at h; cases h
  · intro h
    cases hv : s.curVal with
    | none => rw [encCodeflagU_noval dd n s hv] at h; cases h; rfl
    | some v =>
      rw [encCodeflagU_eq dd n s v hv] at h
      cases hf : codeflagField v n with
      | error e' => rw [hf] at h; cases h; exact codeflagField_error hf
      | ok f => rw [hf] at h; cases h

/-- The one documented exception: a value that quantises to the field's all-ones pattern IS written
    (it is in range) and reads back as missing. -/
theorem C03_all_ones_is_missing (dd : DDesc) (scale ref : Int) (n : Nat) (s : St) (v : Val) (q : Int)
    (hv : s.curVal = some v) (hm : v ≠ .missing) (hq : quantise v scale = .ok q)
    (h1 : 1 < n) (h64 : n ≤ 64) (hq1 : q - ref = ((2 ^ n - 1 : Nat) : Int)) :
    encNumericU dd (n : Int) scale ref s = .ok (s.afterWrite dd (ones n)) ∧
    ∀ (sd : St) (suf : Bits), sd.bits = ones n ++ suf →
      decNumericU dd (n : Int) scale ref sd = .ok (sd.afterRead dd suf .missing) := by
  have hp : 2 ^ n - 1 < 2 ^ n := by have := Nat.two_pow_pos n; omega
  constructor
  · rw [encNumericU_eq dd _ scale ref s v n hv (natWidth_ofNat n (by omega)),
      numericField_value v scale ref q n hm hq, hq1, fieldUInt_ofNat n _ (by omega) hp, toBits_max]
    rfl
  · intro sd suf hb
    have := (C03_element_fixpoint dd scale ref n (2 ^ n - 1) (by omega) h64 hp).1 sd suf
      (by rw [toBits_max]; exact hb)
    simpa [canonUInt, h1, numVal] using this

/-- Missing reads back as missing: a missing value is written as `n` ones (any width 1..64) and, for a
    field wider than one bit, those bits decode to missing.  (For `n = 1` the single `1` decodes to the
    number 1: FM-94 has no missing value for one-bit fields; see the example at the end of the file.) -/
theorem C03_missing_roundtrip (dd : DDesc) (scale ref : Int) (n : Nat) (h0 : 0 < n) (h64 : n ≤ 64) :
    (∀ se : St, se.curVal = some .missing →
      encNumericU dd (n : Int) scale ref se = .ok (se.afterWrite dd (ones n))) ∧
    (1 < n → ∀ (sd : St) (suf : Bits), sd.bits = ones n ++ suf →
      decNumericU dd (n : Int) scale ref sd = .ok (sd.afterRead dd suf .missing)) := by
  have hp : 2 ^ n - 1 < 2 ^ n := by have := Nat.two_pow_pos n; omega
  refine ⟨fun se hv => ?_, fun h1 sd suf hb => ?_⟩
  · rw [encNumericU_eq dd _ scale ref se _ n hv (natWidth_ofNat n h0),
      numericField_missing scale ref n h0 h64]
    rfl
  · have := (C03_element_fixpoint dd scale ref n (2 ^ n - 1) h0 h64 hp).1 sd suf
      (by rw [toBits_max]; exact hb)
    simpa [canonUInt, h1, numVal] using this

/-- non-vacuity: 8 bits, scale 0, reference 0: 255 is accepted, written as all ones; 256 and −1 are refused -/
example :
    (encNumericU (.oper 0) 8 0 0 { vals := [[.int 255]] }).toOption.map (·.bits) = some (ones 8) ∧
    (encNumericU (.oper 0) 8 0 0 { vals := [[.int 256]] }).toOption.map (·.bits) = none ∧
    (encNumericU (.oper 0) 8 0 0 { vals := [[.int (-1)]] }).toOption.map (·.bits) = none := by
  decide

/-! ### 5. element round trips (encode, then decode), in the state-transformer form of the walk -/

/-- Numeric field.  If the encoder accepts the current value `v`, it has written exactly one field
    `toBits n raw` (and used up exactly one value); `raw` is the all-ones pattern for a missing `v`, else
    the quantised value minus the reference; and the decoder primitive, started on any state whose
    stream begins with that field, consumes exactly the field and pushes
    `numVal (canonUInt n raw) scale ref` = the quantised value `q/10^scale` (missing if `raw` is all
    ones and `n > 1`; see `C03_canon_value`). By `C03_quantisation_bound` that is within half a unit
    of the last scaled digit of `v`, and equal to `v` if `v` came from a decoder (`C03_grid_exact`). -/
theorem C03_element_roundtrip_numeric (dd : DDesc) (nbits scale ref : Int) (se se' : St)
    (h : encNumericU dd nbits scale ref se = .ok se') :
    ∃ (v : Val) (n raw : Nat),
      se.curVal = some v ∧ nbits = (n : Int) ∧ 0 < n ∧ raw < 2 ^ n ∧
      se' = se.afterWrite dd (toBits n raw) ∧
      (v = .missing → raw = 2 ^ n - 1 ∧ n ≤ 64) ∧
      (v ≠ .missing → ∃ q, quantise v scale = .ok q ∧ q = (raw : Int) + ref) ∧
      ∀ (sd : St) (suf : Bits), n ≤ 64 → sd.bits = toBits n raw ++ suf →
        decNumericU dd nbits scale ref sd =
          .ok (sd.afterRead dd suf (numVal (canonUInt n raw) scale ref)) := by
  cases hv : se.curVal with
  | none => rw [encNumericU_noval dd nbits scale ref se hv] at h; cases h
  | some v =>
    cases hn : natWidth nbits with
    | error e =>
      exfalso
      unfold natWidth at hn
      split at hn
      · next hle => rw [encNumericU_badwidth dd nbits scale ref se v hv hle] at h; cases h
      · cases hn
    | ok n =>
      obtain ⟨h0, rfl⟩ := natWidth_ok hn
      rw [encNumericU_eq dd _ scale ref se v n hv hn] at h
      cases hf : numericField v scale ref n with
      | error e => rw [hf] at h; cases h
      | ok f =>
        rw [hf] at h
        obtain ⟨raw, _, hr, rfl, hmiss, hval⟩ := numericField_inv hf
        refine ⟨v, n, raw, rfl, rfl, h0, hr, ?_, hmiss, ?_, ?_⟩
        · injection h with h; exact h.symm
        · intro hne
          obtain ⟨q, hq, hqr⟩ := hval hne
          exact ⟨q, hq, by omega⟩
        · intro sd suf h64 hb
          exact (C03_element_fixpoint dd scale ref n raw h0 h64 hr).1 sd suf hb

/-- Headline form for a non-missing value: if the encoder accepts `v`, then `v` quantises to some `q`
    (within half a unit of `v·10^scale`, by `C03_quantisation_bound`), exactly one `n`-bit field is
    written, and decoding it gives back `q/10^scale` — except when `q − ref` is the all-ones pattern
    of a field wider than one bit, which reads back as missing. Nothing else can happen. -/
theorem C03_numeric_reads_back (dd : DDesc) (nbits scale ref : Int) (se se' : St) (v : Val)
    (h : encNumericU dd nbits scale ref se = .ok se') (hv : se.curVal = some v) (hm : v ≠ .missing) :
    ∃ (n : Nat) (q : Int) (f : Bits),
      nbits = (n : Int) ∧ quantise v scale = .ok q ∧ f.length = n ∧ se' = se.afterWrite dd f ∧
      0 ≤ q - ref ∧ q - ref < (2 : Int) ^ n ∧
      ∀ (sd : St) (suf : Bits), n ≤ 64 → sd.bits = f ++ suf →
        decNumericU dd nbits scale ref sd =
          .ok (sd.afterRead dd suf
            (if 1 < n ∧ q - ref = (2 : Int) ^ n - 1 then .missing else scaleVal q scale)) := by
  obtain ⟨v', n, raw, hv', hn, h0, hr, hs, _, hval, hdec⟩ :=
    C03_element_roundtrip_numeric dd nbits scale ref se se' h
  rw [hv] at hv'
  injection hv' with hv'
  subst hv'
  obtain ⟨q, hq, hqr⟩ := hval hm
  have hr' : ((raw : Nat) : Int) < (2 : Int) ^ n := by exact_mod_cast hr
  refine ⟨n, q, toBits n raw, hn, hq, toBits_length n raw, hs, by omega, by omega, ?_⟩
  intro sd suf h64 hb
  rw [hdec sd suf h64 hb, C03_canon_value]
  have hp : (1 : Int) ≤ (2 : Int) ^ n := by
    have := Nat.two_pow_pos n
    exact_mod_cast this
  have hc : (raw = 2 ^ n - 1) ↔ (q - ref = (2 : Int) ^ n - 1) := by
    have hcast : ((2 ^ n - 1 : Nat) : Int) = (2 : Int) ^ n - 1 := by
      have h1 : 1 ≤ 2 ^ n := Nat.two_pow_pos n
      rw [Int.ofNat_sub h1]
      simp
    constructor
    · intro hh; rw [hqr, hh, hcast]; omega
    · intro hh
      have : ((raw : Nat) : Int) = ((2 ^ n - 1 : Nat) : Int) := by rw [hcast]; omega
      exact_mod_cast this
  have hq' : (raw : Int) + ref = q := hqr.symm
  simp only [hc, hq']

/-- Code / flag table field (also associated 204 and skipped 206 fields): the integer itself comes back,
    all ones (width > 1) comes back as missing. -/
theorem C03_element_roundtrip_codeflag (dd : DDesc) (n : Nat) (se se' : St)
    (h : encCodeflagU dd n se = .ok se') :
    ∃ (v : Val) (raw : Nat),
      se.curVal = some v ∧ 0 < n ∧ raw < 2 ^ n ∧
      se' = se.afterWrite dd (toBits n raw) ∧
      ((v = .missing ∧ raw = 2 ^ n - 1 ∧ n ≤ 64) ∨ v = .int raw) ∧
      ∀ (sd : St) (suf : Bits), n ≤ 64 → sd.bits = toBits n raw ++ suf →
        decCodeflagU dd n sd = .ok (sd.afterRead dd suf (uintVal (canonUInt n raw))) := by
  cases hv : se.curVal with
  | none => rw [encCodeflagU_noval dd n se hv] at h; cases h
  | some v =>
    rw [encCodeflagU_eq dd n se v hv] at h
    cases hf : codeflagField v n with
    | error e => rw [hf] at h; cases h
    | ok f =>
      rw [hf] at h
      obtain ⟨raw, h0, hr, rfl, hcase⟩ := codeflagField_inv hf
      refine ⟨v, raw, rfl, h0, hr, ?_, hcase, ?_⟩
      · injection h with h; exact h.symm
      · intro sd suf h64 hb
        have hd := decCodeflagU_field dd sd (toBits n raw) suf
          (by rw [toBits_length]; exact h0) (by rw [toBits_length]; exact h64) hb
        rw [toBits_length] at hd
        simp only [toBits_all_iff n raw hr, ofBits_toBits, Nat.mod_eq_of_lt hr] at hd
        exact hd

/-- Character field of `k` bytes (Table B `CCITT IA5`, 205YYY, 208YYY-resized): a string is written
    space-padded or truncated to `k` bytes and reads back as those `k` bytes; a missing string is
    written as `k` bytes 0xFF and reads back as those bytes (strings never decode to `.missing`:
    the renderer, not the decoder, interprets all-ones strings). -/
theorem C03_element_roundtrip_string (dd : DDesc) (k : Nat) (se se' : St)
    (h : encStringU dd k se = .ok se') :
    ∃ (v : Val) (b : List UInt8),
      se.curVal = some v ∧ b.length = k ∧
      ((v = .missing ∧ b = List.replicate k 0xFF) ∨ (∃ b0, v = .bytes b0 ∧ b = padBytes b0 k)) ∧
      se' = se.afterWrite dd (bytesToBits b) ∧
      ∀ (sd : St) (suf : Bits), sd.bits = bytesToBits b ++ suf →
        decStringU dd k sd = .ok (sd.afterRead dd suf (.bytes b)) := by
  cases hv : se.curVal with
  | none => rw [encStringU_noval dd k se hv] at h; cases h
  | some v =>
    rw [encStringU_eq dd k se v hv] at h
    have key : ∀ b : List UInt8, b.length = k → ∀ (sd : St) (suf : Bits),
        sd.bits = bytesToBits b ++ suf → decStringU dd k sd = .ok (sd.afterRead dd suf (.bytes b)) := by
      intro b hl sd suf hb
      subst hl
      exact decStringU_field dd sd b suf hb
    cases v with
    | missing =>
      simp only [stringField, Except.map] at h
      injection h with h
      exact ⟨.missing, List.replicate k 0xFF, rfl, by simp, .inl ⟨rfl, rfl⟩, h.symm, key _ (by simp)⟩
    | bytes b0 =>
      simp only [stringField, Except.map] at h
      injection h with h
      exact ⟨.bytes b0, padBytes b0 k, rfl, padBytes_length b0 k, .inr ⟨b0, rfl, rfl⟩, h.symm,
        key _ (padBytes_length b0 k)⟩
    | int i => cases h
    | num m k' => cases h

/-- New reference value (203YYY in definition mode): sign bit and magnitude on `n − 1` bits; the value
    comes back exactly (the encoder never writes "minus zero") and both sides record it for the
    element. -/
theorem C03_element_roundtrip_newrefval (e : Elem) (n : Nat) (se se' : St)
    (h : encNewRefvalU e n se = .ok se') :
    ∃ i : Int,
      se.curVal = some (.int i) ∧ 1 < n ∧ i.natAbs < 2 ^ (n - 1) ∧
      se' = (setNewRefval se e.id i).afterWrite (.plain e) (decide (i < 0) :: toBits (n - 1) i.natAbs) ∧
      ∀ (sd : St) (suf : Bits), sd.bits = (decide (i < 0) :: toBits (n - 1) i.natAbs) ++ suf →
        decNewRefvalU e n sd = .ok ((setNewRefval sd e.id i).afterRead (.plain e) suf (.int i)) := by
  cases hv : se.curVal with
  | none => rw [encNewRefvalU_noval e n se hv] at h; cases h
  | some v =>
    rw [encNewRefvalU_eq e n se v hv] at h
    cases v with
    | int i =>
      simp only [] at h
      cases hf : fieldInt i n with
      | error e' => rw [hf] at h; cases h
      | ok f =>
        rw [hf] at h
        obtain ⟨hn, hi, rfl⟩ := fieldInt_inv hf
        refine ⟨i, rfl, hn, hi, ?_, ?_⟩
        · injection h with h; exact h.symm
        · intro sd suf hb
          have hd := decNewRefvalU_field e n i.natAbs (decide (i < 0)) sd suf hn hi hb
          have hs : (if decide (i < 0) = true then -((i.natAbs : Nat) : Int) else ((i.natAbs : Nat) : Int)) = i := by
            by_cases hneg : i < 0 <;> simp [hneg] <;> omega
          rw [hs] at hd
          exact hd
    | missing => cases h
    | num m k => cases h
    | bytes b => cases h

/-- Fixpoint for new reference values, with its one exception spelled out: the field `sgn, m` decodes
    to `±m`; re-encoding that integer reproduces the field unless it was "minus zero" (`sgn = 1, m = 0`),
    which is re-encoded as plus zero.  (The second round trip is then stable.) -/
theorem C03_newrefval_fixpoint (e : Elem) (n m : Nat) (sgn : Bool) (hn : 1 < n) (hm : m < 2 ^ (n - 1)) :
    let i : Int := if sgn then -(m : Int) else (m : Int)
    (∀ (sd : St) (suf : Bits), sd.bits = (sgn :: toBits (n - 1) m) ++ suf →
      decNewRefvalU e n sd = .ok ((setNewRefval sd e.id i).afterRead (.plain e) suf (.int i))) ∧
    (∀ se : St, se.curVal = some (.int i) →
      encNewRefvalU e n se =
        .ok ((setNewRefval se e.id i).afterWrite (.plain e) ((sgn && m != 0) :: toBits (n - 1) m))) := by
  intro i
  refine ⟨fun sd suf hb => decNewRefvalU_field e n m sgn sd suf hn hm hb, fun se hv => ?_⟩
  rw [encNewRefvalU_eq e n se _ hv]
  have hi : i.natAbs = m := by
    show (if sgn then -(m : Int) else (m : Int)).natAbs = m
    cases sgn <;> simp
  have hd : decide (i < 0) = (sgn && m != 0) := by
    show decide ((if sgn then -(m : Int) else (m : Int)) < 0) = _
    cases sgn
    · simp
    · by_cases h0 : m = 0
      · subst h0; simp
      · have h1 : 0 < m := by omega
        simp [h1, h0]
  simp only []
  rw [fieldInt_ok i n hn (by rw [hi]; exact hm), hi, hd]
  rfl

/-- Element fixpoint for code / flag (associated, skipped) fields: decode, then encode, gives the same bits. -/
theorem C03_element_fixpoint_codeflag (dd : DDesc) (n raw : Nat)
    (h0 : 0 < n) (h64 : n ≤ 64) (hr : raw < 2 ^ n) :
    (∀ (sd : St) (suf : Bits), sd.bits = toBits n raw ++ suf →
      decCodeflagU dd n sd = .ok (sd.afterRead dd suf (uintVal (canonUInt n raw)))) ∧
    (∀ se : St, se.curVal = some (uintVal (canonUInt n raw)) →
      encCodeflagU dd n se = .ok (se.afterWrite dd (toBits n raw))) := by
  refine ⟨fun sd suf hb => ?_, fun se hv => ?_⟩
  · have hd := decCodeflagU_field dd sd (toBits n raw) suf
      (by rw [toBits_length]; exact h0) (by rw [toBits_length]; exact h64) hb
    rw [toBits_length] at hd
    simp only [toBits_all_iff n raw hr, ofBits_toBits, Nat.mod_eq_of_lt hr] at hd
    exact hd
  · rw [encCodeflagU_eq dd n se _ hv]
    unfold canonUInt
    split
    · next hc =>
      have hp : 2 ^ n - 1 < 2 ^ n := by omega
      simp only [uintVal, codeflagField, missingPattern_ok n h64, Except.bind,
        fieldUInt_ofNat n _ h0 hp, Except.map]
      rw [hc.2]
    · simp only [uintVal, codeflagField, fieldUInt_ofNat n raw h0 hr, Except.map]

/-- Element fixpoint for character fields: the `k` bytes come back as they are and are written back as they are. -/
theorem C03_element_fixpoint_string (dd : DDesc) (b : List UInt8) :
    (∀ (sd : St) (suf : Bits), sd.bits = bytesToBits b ++ suf →
      decStringU dd b.length sd = .ok (sd.afterRead dd suf (.bytes b))) ∧
    (∀ se : St, se.curVal = some (.bytes b) →
      encStringU dd b.length se = .ok (se.afterWrite dd (bytesToBits b))) := by
  refine ⟨fun sd suf hb => decStringU_field dd sd b suf hb, fun se hv => ?_⟩
  rw [encStringU_eq dd _ se _ hv]
  simp only [stringField, Except.map, padBytes_of_length b b.length rfl]

/-- non-vacuity + the minus-zero exception on 4 bits: `1000` decodes to 0, which is written as `0000` -/
example :
    (decNewRefvalU default 4 { bits := [true, false, false, false], vals := [[]] }).toOption.map (·.vals)
      = some [[.int 0]] ∧
    (encNewRefvalU default 4 { vals := [[.int 0]] }).toOption.map (·.bits.reverse)
      = some [false, false, false, false] ∧
    (encNewRefvalU default 4 { vals := [[.int (-5)]] }).toOption.map (·.bits.reverse)
      = some [true, true, false, true] := by
  decide

/-- non-vacuity of the round trips: each encoder primitive accepts something -/
example :
    (encNumericU (.oper 0) 12 1 (-1000) { vals := [[.num 2345 2]] }).toOption.map (·.bits.reverse)
      = some (toBits 12 1234) ∧
    (encNumericU (.oper 0) 12 1 (-1000) { vals := [[.missing]] }).toOption.map (·.bits.reverse)
      = some (ones 12) ∧
    (encCodeflagU (.oper 0) 4 { vals := [[.int 9]] }).toOption.map (·.bits.reverse) = some (toBits 4 9) ∧
    (encStringU (.oper 0) 3 { vals := [[.bytes [0x41]]] }).toOption.map (·.bits.reverse)
      = some (bytesToBits [0x41, 0x20, 0x20]) ∧
    (encStringU (.oper 0) 2 { vals := [[.missing]] }).toOption.map (·.bits.reverse) = some (ones 16) := by
  decide

/-- A missing value in a ONE-bit field is not representable: the encoder writes `1` (its "all ones"),
    the decoder returns the number 1 (FM-94: only fields wider than one bit can be missing). The round
    trip theorems above state this precisely through `canonUInt 1 1 = some 1`. -/
example :
    (encCodeflagU (.oper 0) 1 { vals := [[.missing]] }).toOption.map (·.bits) = some [true] ∧
    (decCodeflagU (.oper 0) 1 { bits := [true], vals := [[]] }).toOption.map (·.vals) = some [[.int 1]] := by
  decide


/-! ### 6. compressed columns: entries equal to the all-ones pattern (finding F18, repaired) -/

/-- The documented exception in compressed data.  When every present entry of a (not all-equal) column
    coincides with the all-ones pattern of a field wider than one bit — e.g. such a value next to a
    missing entry — the repaired encoder (`_all_ones_as_missing`) writes the all-missing column:
    minimum all ones and increment width 0, which every subset reads back as missing.  (Before the repair the
    minimum was written as all ones WITH a non-zero width, which the decoder rejects.) -/
theorem C03_compressed_all_ones_column (w : Nat) (h1 : 1 < w) (h64 : w ≤ 64) (raws : List (Option Int))
    (h : ∀ r ∈ raws, r = none ∨ r = some (((2 ^ w - 1 : Nat) : Int))) :
    encIntColumnN false raws w = .ok (ones w ++ toBits 6 0) := by
  have hall : (allOnesAsMissing w raws).all (· == none) = true := by
    unfold allOnesAsMissing
    have : ¬ w ≤ 1 := by omega
    simp only [this, if_false, List.all_map, List.all_eq_true]
    intro r hr
    rcases h r hr with rfl | rfl <;> simp
  have hp : 2 ^ w - 1 < 2 ^ w := by have := Nat.two_pow_pos w; omega
  have h6 : fieldUInt 0 6 = .ok (toBits 6 0) := fieldUInt_ofNat 6 0 (by decide) (by decide)
  simp only [encIntColumnN, Bool.false_eq_true, if_false, hall, if_true, catBits, missingPattern_ok w h64,
    bind, Except.bind, fieldUInt_ofNat w _ (by omega) hp, toBits_max, h6, List.append_nil]

example : encIntColumnN false [some 511, none] 9 = .ok (ones 9 ++ toBits 6 0) :=
  C03_compressed_all_ones_column 9 (by decide) (by decide) _ (by intro r hr; simp at hr; rcases hr with rfl | rfl <;> simp)

end Bufr
