/-
  C09 — the link between the coder and the hierarchical view, beyond `Props/C09.lean`.

  Stage 1, COMPRESSED DATA.  For compressed data the coder walks the template once, `TemplateData.wire` runs once
  on the flat lists of subset 0 and all subsets share that tree (`wireAll t true outs`).  For the template classes
  `C09.quietList a` (Lemmas/WireSim.lean) and EVERY bit string: if `decodeCompressed` succeeds then

  * `C09_decode_compressed_wire_consumes_all_partial` — the wiring pass on subset 0 succeeds and has consumed
    exactly as many indices as EVERY subset has values;
  * `C09_decode_compressed_wire_each_value_once_partial` — hence the shared tree holds every flat index of every
    subset exactly once, in flat order;
  * `C09_decode_compressed_nested_json_to_flat_partial`, `C09_decode_message_compressed_nested_json_to_flat_partial`
    — `wireAll` succeeds with the shared tree, and for every subset whose delayed replication counts are those
    of subset 0 (`Spec.sameCountsList`, decidable, the hypothesis C16 uses too) rendering succeeds and nested
    JSON -> flat returns THAT subset's decoded values.  Subset 0 needs no hypothesis
    (`C09_decode_compressed_first_subset_partial`).
  * The theorems of THIS file carry the hypothesis `Spec.sameCountsList` per subset.  Since the repair of finding F24
    (`decFactorC` strict: a compressed delayed replication factor must be present and identical in every subset) it is
    DERIVED for decoded output - `Lemmas/CompFactorsWire.lean` (quietList), `Lemmas/CompFactorsLinks.lean`
    (wireLinksOK) - and the hypothesis-free statements are `C09_decode_compressed_nested_json_to_flat_all_subsets_partial`
    (Props/C09Factors.lean), `C09_decode_compressed_links_all_subsets_partial` and
    `C09_decode_hierarchical_view_compressed` (Props/C09View.lean).  `C09_compressed_missing_count_breaks` (about the
    coder BEFORE the repair, `decodeCompressedLax`) shows that without the repaired check the hypothesis is needed.
-/
import BufrModel.Props.C09
import BufrModel.Lemmas.WireSimComp
import BufrModel.Lemmas.WireSimLinks
import BufrModel.Lemmas.WireResolve
import BufrModel.Props.C07Walk
import BufrModel.Props.C07Spec
namespace Bufr
open Bufr.C09

/-- `C09_nested_json_to_flat_partial` with the tree wired on the flat lists `o0` and shown with the flat lists `o`
    (compressed data: `o0` = subset 0).  The side conditions are those of `o`. -/
theorem C09_nested_json_to_flat_shared_partial (t : List Desc) (o0 o : SubsetOut) (w : Wired)
    (tree : List Node) (js : List NJ)
    (h : wireRaw t o0 = .ok w) (hs : w.sideOK o = true)
    (htree : w.tree = .ok tree) (hj : renderNested o tree = .ok js) :
    nestedJsonToFlat js = .ok o.vals := by
  unfold Wired.sideOK at hs
  rw [Bool.and_eq_true, Bool.and_eq_true] at hs
  obtain ⟨⟨h1, h2⟩, h3⟩ := hs
  have hn : w.st.next = o.vals.length := by simpa using h3
  obtain ⟨vs, hv, hm⟩ := flatList_tree o w.st.tab w.fuel h2 w.nodes tree js h1 htree hj
  rw [C09_wire_indices_consecutive t o0 w h, hn] at hm
  unfold valsAt at hm
  rw [C09_range_getElem_opt] at hm
  have : vs = o.vals := C09_map_some_inj vs o.vals hm
  unfold nestedJsonToFlat
  rw [hv, this]

/-- COMPRESSED data, classes `C09.quietList a`: whatever bits are decoded, if the compressed decode succeeds then
    the (single) wiring pass, run on the flat lists of subset 0, succeeds and has consumed exactly as many indices
    as every subset has values.
    MISSING for the full statement: as for `C09_decode_wire_consumes_all_partial` (templates outside the classes). -/
theorem C09_decode_compressed_wire_consumes_all_partial (a : Bool) (t : List Desc) (hq : quietList a t = true)
    (n : Nat) (bits rest : Bits) (outs : List SubsetOut) (o0 : SubsetOut)
    (h : decodeCompressed t n bits = .ok (outs, rest)) (h0 : outs.head? = some o0) :
    ∃ w, wireRaw t o0 = .ok w ∧ ∀ o ∈ outs, w.st.next = o.vals.length := by
  obtain ⟨w, hw, hn, _, _, hall⟩ := decodeCompressed_wire hq h h0
  refine ⟨w, hw, fun o ho => ?_⟩
  obtain ⟨hd, _, hl⟩ := hall o ho
  have h00 : o0 ∈ outs := List.mem_of_mem_head? h0
  rw [hn, hl, hd, ← (hall o0 h00).2.2]

/-- hence the tree all subsets share holds every decoded value of every subset exactly once (member, replication
    factor, associated-field attribute of its owner), the tree order being the flat order.
    MISSING: as for `C09_decode_compressed_wire_consumes_all_partial`. -/
theorem C09_decode_compressed_wire_each_value_once_partial (a : Bool) (t : List Desc) (hq : quietList a t = true)
    (n : Nat) (bits rest : Bits) (outs : List SubsetOut) (o0 : SubsetOut)
    (h : decodeCompressed t n bits = .ok (outs, rest)) (h0 : outs.head? = some o0) :
    ∃ w, wireRaw t o0 = .ok w ∧ ∀ o ∈ outs, idxList w.nodes = List.range o.vals.length := by
  obtain ⟨w, hw, hall⟩ := C09_decode_compressed_wire_consumes_all_partial a t hq n bits rest outs o0 h h0
  exact ⟨w, hw, fun o ho => by rw [C09_wire_indices_consecutive t o0 w hw, hall o ho]⟩

/-- and the whole chain: `wireAll` (one pass, shared tree) succeeds, and for every subset that carries the delayed
    replication counts of subset 0 at the factors of the tree, rendering succeeds and nested JSON -> flat returns
    that subset's decoded values.
    MISSING: templates outside the classes; a subset with another (i.e. a missing) count - false there, see
    `C09_compressed_missing_count_breaks`. -/
theorem C09_decode_compressed_nested_json_to_flat_partial (a : Bool) (t : List Desc) (hq : quietList a t = true)
    (n : Nat) (bits rest : Bits) (outs : List SubsetOut) (o0 : SubsetOut)
    (h : decodeCompressed t n bits = .ok (outs, rest)) (h0 : outs.head? = some o0) :
    ∃ tree, wire t o0 = .ok tree ∧ wireAll t true outs = .ok (outs.map fun _ => tree) ∧
      ∀ o ∈ outs, Spec.sameCountsList o0 o tree = true →
        (renderNested o tree >>= nestedJsonToFlat) = .ok o.vals := by
  obtain ⟨w, hw, hn, hp, htab, hall⟩ := decodeCompressed_wire hq h h0
  have h00 : o0 ∈ outs := List.mem_of_mem_head? h0
  have hlen0 := (hall o0 h00).2.2
  have htree : w.tree = .ok w.nodes := by
    unfold Wired.tree Wired.fuel
    rw [htab]
    exact resolveList_plain o0 (2 * w.st.next + 3) ⟨by omega, fun _ => by omega⟩ w.nodes hp
  have hwire : wire t o0 = .ok w.nodes := by unfold wire; rw [hw]; exact htree
  refine ⟨w.nodes, hwire, ?_, fun o ho hsame => ?_⟩
  · unfold wireAll
    simp only [if_true]
    cases outs with
    | nil => cases h0
    | cons o1 os =>
      simp only [List.head?_cons, Option.some.injEq] at h0
      subst h0
      simp only [hwire]
  · obtain ⟨hd, _, hl⟩ := hall o ho
    have hpo : plainList o w.nodes = true := plainList_shared hd w.nodes hp hsame
    have hno : w.st.next = o.vals.length := by rw [hn, hl, hd, ← hlen0]
    have hs : w.sideOK o = true := by
      unfold Wired.sideOK
      rw [plainList_treeOK o w.nodes hpo, htab, hno]
      simp
    obtain ⟨js, hj⟩ := renderNodes_plain o (by omega) w.nodes hpo
    have hflat := C09_nested_json_to_flat_shared_partial t o0 o w w.nodes js hw hs htree hj
    show (renderNested o w.nodes >>= nestedJsonToFlat) = _
    unfold renderNested
    rw [hj]
    exact hflat

mutual
theorem C09_sameCountsList_refl (o : SubsetOut) : ∀ (ns : List Node), Spec.sameCountsList o o ns = true
  | [] => by rw [Spec.sameCountsList]
  | n :: ns => by rw [Spec.sameCountsList, C09_sameCounts1_refl o n, C09_sameCountsList_refl o ns]; rfl

theorem C09_sameCounts1_refl (o : SubsetOut) : ∀ (n : Node), Spec.sameCounts1 o o n = true
  | .value _ _ attrs => by rw [Spec.sameCounts1]; exact C09_sameCountsList_refl o attrs
  | .noval _ => by rw [Spec.sameCounts1]
  | .seq _ ms => by rw [Spec.sameCounts1]; exact C09_sameCountsList_refl o ms
  | .fixedRep _ _ ms => by rw [Spec.sameCounts1]; exact C09_sameCountsList_refl o ms
  | .delayedRep _ _ (.value _ i attrs) ms => by
    rw [Spec.sameCounts1, C09_sameCountsList_refl o attrs, C09_sameCountsList_refl o ms]; simp
  | .delayedRep _ _ (.noval _) ms => by simp [Spec.sameCounts1, C09_sameCountsList_refl o ms]
  | .delayedRep _ _ (.seq _ _) ms => by simp [Spec.sameCounts1, C09_sameCountsList_refl o ms]
  | .delayedRep _ _ (.fixedRep _ _ _) ms => by simp [Spec.sameCounts1, C09_sameCountsList_refl o ms]
  | .delayedRep _ _ (.delayedRep _ _ _ _) ms => by simp [Spec.sameCounts1, C09_sameCountsList_refl o ms]
end

/-- subset 0 (the one the tree was wired from) needs no hypothesis on the counts -/
theorem C09_decode_compressed_first_subset_partial (a : Bool) (t : List Desc) (hq : quietList a t = true)
    (n : Nat) (bits rest : Bits) (outs : List SubsetOut) (o0 : SubsetOut)
    (h : decodeCompressed t n bits = .ok (outs, rest)) (h0 : outs.head? = some o0) :
    ((wire t o0 >>= renderNested o0) >>= nestedJsonToFlat) = .ok o0.vals := by
  obtain ⟨tree, hw, _, hall⟩ := C09_decode_compressed_nested_json_to_flat_partial a t hq n bits rest outs o0 h h0
  rw [hw]
  exact hall o0 (List.mem_of_mem_head? h0) (C09_sameCountsList_refl o0 tree)

/-- the same read off `decodeData` (what `Decoder.process` calls for a compressed message): every subset of the
    message, shown on the tree `wireAll` gives it -/
theorem C09_decode_message_compressed_nested_json_to_flat_partial (a : Bool) (t : List Desc)
    (hq : quietList a t = true) (n : Nat) (bits rest : Bits) (outs : List SubsetOut) (o0 : SubsetOut)
    (h : decodeData t true n bits = .ok (outs, rest)) (h0 : outs.head? = some o0) :
    ∃ trees, wireAll t true outs = .ok trees ∧ trees.length = outs.length ∧
      ∀ (i : Nat) (o : SubsetOut) (tree : List Node), outs[i]? = some o → trees[i]? = some tree → Spec.sameCountsList o0 o tree = true →
        (renderNested o tree >>= nestedJsonToFlat) = .ok o.vals := by
  unfold decodeData at h
  simp only [if_true] at h
  obtain ⟨tree, _, hall, hsub⟩ :=
    C09_decode_compressed_nested_json_to_flat_partial a t hq n bits rest outs o0 h h0
  refine ⟨_, hall, by simp, fun i o tr ho htr hsame => ?_⟩
  have hmem : o ∈ outs := List.mem_of_getElem? ho
  have : tr = tree := by
    rw [List.getElem?_map, ho] at htr
    exact (Option.some.inj htr).symm
  subst this
  exact hsub o hmem hsame

/-! ### non-vacuity: a compressed message of two subsets, delayed replication (count 2) under an associated field -/

/-- a compressed column: minimum `m` in `w` bits, increment width 0 (all subsets equal) -/
def exColEq (w m : Nat) : Bits := toBits w m ++ toBits 6 0

/-- `204004 031021 101000 031001 012001 204000 001001` (`exT` of Props/C09.lean), 2 subsets; every column all-equal
    except the last element: minimum 5, two-bit increments 0 and 1 -/
def exBitsC : Bits :=
  exColEq 6 1 ++ exColEq 8 2 ++ exColEq 4 5 ++ exColEq 12 280 ++ exColEq 4 6 ++ exColEq 12 281 ++
  (toBits 7 5 ++ toBits 6 2 ++ toBits 2 0 ++ toBits 2 1)

example : (decodeCompressed exT 2 exBitsC).toOption.map (fun r => r.1.map (·.vals)) =
    some [[.int 1, .int 2, .int 5, .int 280, .int 6, .int 281, .int 5],
          [.int 1, .int 2, .int 5, .int 280, .int 6, .int 281, .int 6]] := by decide +kernel

/-- every subset carries the counts of subset 0 and the chain returns its values -/
example : ((decodeCompressed exT 2 exBitsC).toOption.map fun r =>
    match r.1.head?, wireAll exT true r.1 with
    | some o0, .ok trees =>
      (r.1.zip trees).all fun p => Spec.sameCountsList o0 p.1 p.2 &&
        ((renderNested p.1 p.2 >>= nestedJsonToFlat).toOption == some p.1.vals)
    | _, _ => false) = some true := by decide +kernel

/-! ### the hypothesis on the counts is needed: a missing count in a later subset -/

/-- `101000 031001 001001`, 2 subsets; the factor column is `1, missing` (minimum 1, one-bit increments 0 and 1:
    a one-bit increment of 1 is the missing value), then the column of 001001 -/
def exTM : List Desc := [.delayedRep 101000 (.elem (exE 31001 8)) [.elem (exE 1001 7)]]

def exBitsM : Bits := toBits 8 1 ++ toBits 6 1 ++ [false, true] ++ exColEq 7 9

example : quietList false exTM = true := by decide +kernel

/-- Finding F24.  The coder BEFORE the repair (`decodeCompressedLax`: `_assert_equal_values_of_index` compared only the
    non-missing counts) accepts it; subset 0 is rendered and converted back; the renderer of subset 1 reads ITS count
    (`range(None)`: TypeError).  The repaired coder (`decodeCompressed`: every count equals the first one, missing
    included) refuses the message with the library error, which is why `Spec.sameCountsList` is now derivable for
    decoded output (Props/C09Factors.lean). -/
theorem C09_compressed_missing_count_breaks :
    ((decodeCompressedLax exTM 2 exBitsM).toOption.map fun r =>
      (r.1.map (·.vals), (wireAll exTM true r.1).toOption.map fun trees =>
        (r.1.zip trees).map fun p => (renderNested p.1 p.2 >>= nestedJsonToFlat).toOption)) =
    some ([[.int 1, .int 9], [.missing, .int 9]], some [some [.int 1, .int 9], none]) ∧
    decodeCompressed exTM 2 exBitsM = .error .lib := by decide +kernel

/-! ## Stage 2: 206YYY and the bitmap machine without associated fields

  `C09.wireLinksOK` (View/WireClass.lean) is the decidable class: an abstract interpretation of the template that
  keeps the wiring pass's own flags, the SET of values the coder's QA status can have, the two stats-meaning flags
  (forgotten at every operator that announces a bit-map) and a pending 206 skip; no 203 / 204 / 221; a class 33
  element only where both walks agree on what it is; replication bodies a fixed point after one round.
  PROVED (Lemmas/WireSimLinks.lean, `walkList_sim2` / `walk1_sim2`: mutual induction over the template, every step of
  the coder followed by the step of the wiring pass; `walk_linked`), for EVERY bit string:

  * `C09_decode_links_wire_partial` — a successful decode is wired successfully, the pass consumes exactly the decoded
    values, the tree holds every flat index once in flat order, the side conditions `Wired.sideOK` hold;
  * `C09_decode_links_owner_partial` — every attribute attached through the bit-map sits under the owner the coder's
    link names (`lookupLink o.links`), the owner lies in front of it, and every link the coder recorded is shown;
  * `C09_decode_links_owner_eq_spec_partial` — on templates that are also `Spec.WFlinks` (and items `markersOk`) the
    owner is the owner `Spec.links` computes from the flat items alone (`C07_links_eq_spec`);
  * `C09_decode_links_nested_json_to_flat_partial`, `C09_decode_links_chain_partial`,
    `C09_decode_message_links_chain_partial` — attachment of the bitmap-linked attributes succeeds (no attribute
    cycle: `Lemmas/WireResolve.lean`, fuel `2 * next + 2`), rendering succeeds, nested JSON -> flat returns the decoded
    values; for a subset and for every subset of an uncompressed message;
  * `C09_decode_compressed_links_wire_partial`, `C09_decode_compressed_links_nested_json_to_flat_partial`,
    `C09_decode_message_compressed_links_nested_json_to_flat_partial` — compressed data, EVERY subset: one pass on
    subset 0, the shared tree holds every subset's values once, owners as the shared links say; nested JSON -> flat
    returns each subset's values under `Spec.sameCountsList`, which Props/C09View.lean discharges for decoded output.
  `C09_decode_hierarchical_view` (end of the file) is the statement over the union of the proved classes. -/

theorem C09_links_of_sound {o : SubsetOut}
    (h : ∀ l ∈ o.links, ∃ e, o.descs[l.2]? = some (.plain e) ∧
      ∃ p id, l.2 < p ∧ p < l.1 ∧ C07.IsBitmapOp id ∧ o.descs[p]? = some (.oper id)) :
    ∀ l ∈ o.links, NotA o l.2 ∧ ∃ p id, l.2 < p ∧ p < l.1 ∧ C07.IsBitmapOp id ∧ o.descs[p]? = some (.oper id) :=
  fun l hl => (h l hl).elim fun e x => ⟨⟨.plain e, x.1, rfl⟩, x.2⟩

/-- the link to the coder for `wireLinksOK` templates, uncompressed -/
theorem C09_decode_links_linked (t : List Desc) (hq : wireLinksOK t = true) (bits rest : Bits) (o : SubsetOut)
    (h : decodeSubset t bits = .ok (o, rest)) : ∃ w, Linked t o w := by
  have hsound := C09_links_of_sound (C07_links_sound_partial t bits o rest h)
  unfold decodeSubset at h
  split at h
  · cases h
  · next s hs =>
    injection h with h
    injection h with ho _
    subst ho
    refine (walk_linked pushOne_decPrimsU hq rfl rfl rfl ⟨[], rfl⟩ ?_ hs rfl rfl ?_ hsound).elim
      (fun w x => ⟨w, x.1⟩)
    · intro l hl
      rw [List.mem_singleton] at hl
      exact hl
    · intro l hl
      show (s.vals.headD []).reverse = _
      rw [List.headD_eq_head?_getD, hl]
      rfl

/-- `wireLinksOK` templates (206YYY, bit-map operators, markers, quality values; no 203 / 204 / 221): whatever bits are
    decoded, a successful decode of a subset is wired successfully, the pass consumes exactly the decoded values, the
    tree holds every decoded value exactly once in flat order and the side conditions of the conversion theorem hold.
    MISSING for the full statement: templates outside `wireLinksOK` and `quietList` (204 over 203 / 206 / markers /
    008023 / class 33, F15, QA across an operator: false there, see the examples below). -/
theorem C09_decode_links_wire_partial (t : List Desc) (hq : wireLinksOK t = true) (bits rest : Bits) (o : SubsetOut)
    (h : decodeSubset t bits = .ok (o, rest)) :
    ∃ w, wireRaw t o = .ok w ∧ w.st.next = o.vals.length ∧ idxList w.nodes = List.range o.vals.length ∧
      w.sideOK o = true := by
  obtain ⟨w, hl⟩ := C09_decode_links_linked t hq bits rest o h
  exact ⟨w, hl.wired, hl.next, C09_wire_consumes_each_index_once_partial t o w hl.wired hl.next, hl.sideOK⟩

/-- attribute values (quality information, substituted / first-order / difference / replaced values) are attributes of
    the element the coder's bit-map link names, which precedes them; and every link the coder recorded is shown -/
theorem C09_decode_links_owner_partial (t : List Desc) (hq : wireLinksOK t = true) (bits rest : Bits) (o : SubsetOut)
    (h : decodeSubset t bits = .ok (o, rest)) :
    ∃ w, wireRaw t o = .ok w ∧
      (∀ p ∈ w.st.tab, ∃ k i own, p.2 = .value k i own ∧ p.1 < i ∧ lookupLink o.links i = some p.1) ∧
      (∀ q ∈ o.links, ∃ p ∈ w.st.tab, p.2.index? = some q.1) := by
  obtain ⟨w, hl⟩ := C09_decode_links_linked t hq bits rest o h
  refine ⟨w, hl.wired, fun p hp => ?_, hl.shown⟩
  obtain ⟨k, i, own, e, h1, _, h3, _, _⟩ := hl.owners p hp
  exact ⟨k, i, own, e, h1, h3⟩

/-- the connection to C07: on templates that are also `Spec.WFlinks` the owner in the tree is the owner `Spec.links`
    computes after the fact from the flat items -/
theorem C09_decode_links_owner_eq_spec_partial (t : List Desc) (hq : wireLinksOK t = true) (hwf : Spec.WFlinks t)
    (bits rest : Bits) (o : SubsetOut) (h : decodeSubset t bits = .ok (o, rest))
    (hok : Spec.markersOk (o.descs.zip o.vals) = true) :
    ∃ w, wireRaw t o = .ok w ∧
      ∀ p ∈ w.st.tab, ∃ k i own, p.2 = .value k i own ∧
        lookupLink (Spec.links (o.descs.zip o.vals) (Spec.cancelsL decPrimsU t { bits := bits, vals := [[]] })) i
          = some p.1 := by
  obtain ⟨w, hw, hown, _⟩ := C09_decode_links_owner_partial t hq bits rest o h
  refine ⟨w, hw, fun p hp => ?_⟩
  obtain ⟨k, i, own, e, _, h3⟩ := hown p hp
  rw [C07_links_eq_spec t bits o rest h hwf hok] at h3
  exact ⟨k, i, own, e, h3⟩

/-- the tree was wired on `o0`, `o` satisfies what `Linked` says: attachment and rendering succeed and nested JSON ->
    flat returns the values of `o` -/
theorem C09_core_chain {t : List Desc} {o0 o : SubsetOut} {w : Wired} (hw : wireRaw t o0 = .ok w)
    (hc : LinkedCore o w) :
    ∃ tree js, w.tree = .ok tree ∧ renderNested o tree = .ok js ∧ nestedJsonToFlat js = .ok o.vals := by
  obtain ⟨tree, js, ht, hj⟩ := hc.tree_renders
  exact ⟨tree, js, ht, hj, C09_nested_json_to_flat_shared_partial t o0 o w tree js hw hc.sideOK ht hj⟩

/-- nested JSON -> flat for the class, NO hypothesis left besides the class and the success of the decode: attachment
    of the bitmap-linked attributes succeeds (no attribute cycle: `Lemmas/WireResolve.lean`), rendering succeeds, and
    the converter returns the decoded values.
    MISSING for the full statement: templates outside `wireLinksOK` / `quietList`. -/
theorem C09_decode_links_nested_json_to_flat_partial (t : List Desc) (hq : wireLinksOK t = true) (bits rest : Bits)
    (o : SubsetOut) (h : decodeSubset t bits = .ok (o, rest)) :
    ∃ w tree js, wireRaw t o = .ok w ∧ w.tree = .ok tree ∧ renderNested o tree = .ok js ∧
      nestedJsonToFlat js = .ok o.vals := by
  obtain ⟨w, hl⟩ := C09_decode_links_linked t hq bits rest o h
  obtain ⟨tree, js, h1, h2, h3⟩ := C09_core_chain hl.wired hl.core
  exact ⟨w, tree, js, hl.wired, h1, h2, h3⟩

/-- the same as one chain: decode -> wire -> nested JSON -> flat returns the decoded values -/
theorem C09_decode_links_chain_partial (t : List Desc) (hq : wireLinksOK t = true) (bits rest : Bits)
    (o : SubsetOut) (h : decodeSubset t bits = .ok (o, rest)) :
    ((wire t o >>= renderNested o) >>= nestedJsonToFlat) = .ok o.vals := by
  obtain ⟨w, tree, js, h0, h1, h2, h3⟩ := C09_decode_links_nested_json_to_flat_partial t hq bits rest o h
  have hwire : wire t o = .ok tree := by unfold wire; rw [h0]; exact h1
  rw [hwire]
  show (renderNested o tree >>= nestedJsonToFlat) = _
  rw [h2]
  exact h3

/-- and for every subset of an uncompressed message -/
theorem C09_decode_message_links_chain_partial (t : List Desc) (hq : wireLinksOK t = true) :
    ∀ (n : Nat) (bits rest : Bits) (outs : List SubsetOut), decodeData t false n bits = .ok (outs, rest) →
      ∀ o ∈ outs, ((wire t o >>= renderNested o) >>= nestedJsonToFlat) = .ok o.vals := by
  intro n
  induction n with
  | zero =>
    intro bits rest outs h o ho
    unfold decodeData at h
    simp only [Bool.false_eq_true, if_false] at h
    rw [decodeSubsets] at h
    injection h with h; injection h with h _; subst h
    cases ho
  | succ n ih =>
    intro bits rest outs h o ho
    unfold decodeData at h
    simp only [Bool.false_eq_true, if_false] at h
    rw [decodeSubsets] at h
    split at h
    · cases h
    · next o1 r1 h1 =>
      split at h
      · cases h
      · next os r2 h2 =>
        injection h with h; injection h with h _; subst h
        cases ho with
        | head => exact C09_decode_links_chain_partial t hq bits r1 o h1
        | tail _ hm =>
          refine ih r1 r2 os ?_ o hm
          unfold decodeData
          simp only [Bool.false_eq_true, if_false]
          exact h2

/-- compressed data: the (single) wiring pass on the flat lists of subset 0; every subset shares labels and links and
    has as many values as labels -/
theorem C09_decode_compressed_links_linked (t : List Desc) (hq : wireLinksOK t = true) (n : Nat)
    (bits rest : Bits) (outs : List SubsetOut) (o0 : SubsetOut)
    (h : decodeCompressed t n bits = .ok (outs, rest)) (h0 : outs.head? = some o0) :
    ∃ w, Linked t o0 w ∧ ∀ o ∈ outs, o.descs = o0.descs ∧ o.links = o0.links ∧ o.vals.length = o.descs.length := by
  have hmem : o0 ∈ outs := List.mem_of_mem_head? h0
  have hsound := C09_links_of_sound
    (C07_links_sound_message_partial t true n bits outs rest (by simp only [decodeData, if_true]; exact h) o0 hmem)
  unfold decodeCompressed at h
  split at h
  · cases h
  · next s hs =>
    injection h with h
    injection h with ho _
    subst ho
    have hv : ∃ l r, s.vals = l :: r ∧ o0 = { descs := s.descs.reverse, vals := l.reverse, links := s.links.reverse } := by
      unfold St.outs at h0
      cases hvv : s.vals with
      | nil => rw [hvv] at h0; cases h0
      | cons l r =>
        rw [hvv] at h0
        simp only [List.map_cons, List.head?_cons, Option.some.injEq] at h0
        exact ⟨l, r, rfl, h0.symm⟩
    obtain ⟨l, r, hvl, ho0⟩ := hv
    cases n with
    | zero =>
      exfalso
      have g := C07.grows_walkList C07.decPrimsC_rec t _ s (by rfl) hs
      have hlen : s.vals.length = 0 := g.2.2.1
      rw [hvl] at hlen
      cases hlen
    | succ n =>
      obtain ⟨w, hl, hal⟩ := walk_linked (o := o0) pushOne_decPrimsC hq rfl rfl rfl ⟨List.replicate n [], rfl⟩
        (fun l hl => (List.mem_replicate.mp hl).2) hs (by rw [ho0]) (by rw [ho0])
        (fun l' hl' => by rw [hvl] at hl'; injection hl' with hl'; rw [ho0, hl']) hsound
      refine ⟨w, hl, fun o ho => ?_⟩
      unfold St.outs at ho
      obtain ⟨l1, h1, rfl⟩ := List.mem_map.mp ho
      rw [ho0]
      exact ⟨rfl, rfl, by simp [hal l1 h1]⟩

/-- compressed data, EVERY subset: the shared tree holds every value of every subset exactly once, the pass consumed
    as many indices as every subset has values, attributes sit under the owner the (shared) link names -/
theorem C09_decode_compressed_links_wire_partial (t : List Desc) (hq : wireLinksOK t = true) (n : Nat)
    (bits rest : Bits) (outs : List SubsetOut) (o0 : SubsetOut)
    (h : decodeCompressed t n bits = .ok (outs, rest)) (h0 : outs.head? = some o0) :
    ∃ w, wireRaw t o0 = .ok w ∧ w.sideOK o0 = true ∧
      (∀ o ∈ outs, w.st.next = o.vals.length ∧ idxList w.nodes = List.range o.vals.length ∧
        (∀ p ∈ w.st.tab, ∃ k i own, p.2 = .value k i own ∧ p.1 < i ∧ lookupLink o.links i = some p.1) ∧
        (∀ q ∈ o.links, ∃ p ∈ w.st.tab, p.2.index? = some q.1)) := by
  obtain ⟨w, hl, hall⟩ := C09_decode_compressed_links_linked t hq n bits rest outs o0 h h0
  refine ⟨w, hl.wired, hl.sideOK, fun o ho => ?_⟩
  obtain ⟨hd, hlk, hlen⟩ := hall o ho
  have hn : w.st.next = o.vals.length := by rw [hl.next, hlen, hd, hl.len]
  refine ⟨hn, by rw [C09_wire_indices_consecutive t o0 w hl.wired, hn], fun p hp => ?_, by rw [hlk]; exact hl.shown⟩
  obtain ⟨k, i, own, e, h1, _, h3, _, _⟩ := hl.owners p hp
  exact ⟨k, i, own, e, h1, by rw [hlk]; exact h3⟩

/-- compressed data, EVERY subset: `wireAll` succeeds with the shared tree, and for every subset that carries the
    delayed replication counts of subset 0 (`Spec.sameCountsList` on the tree every reader sees) rendering succeeds
    and nested JSON -> flat returns THAT subset's values.  The hypothesis is discharged for decoded output in
    Props/C09View.lean (`C09_decode_compressed_links_all_subsets_partial`). -/
theorem C09_decode_compressed_links_nested_json_to_flat_partial (t : List Desc) (hq : wireLinksOK t = true) (n : Nat)
    (bits rest : Bits) (outs : List SubsetOut) (o0 : SubsetOut)
    (h : decodeCompressed t n bits = .ok (outs, rest)) (h0 : outs.head? = some o0) :
    ∃ tree, wire t o0 = .ok tree ∧ wireAll t true outs = .ok (outs.map fun _ => tree) ∧
      ∀ o ∈ outs, Spec.sameCountsList o0 o tree = true →
        (renderNested o tree >>= nestedJsonToFlat) = .ok o.vals := by
  obtain ⟨w, hl, hall⟩ := C09_decode_compressed_links_linked t hq n bits rest outs o0 h h0
  obtain ⟨tree, js0, ht, _⟩ := hl.core.tree_renders
  have hwire : wire t o0 = .ok tree := by unfold wire; rw [hl.wired]; exact ht
  refine ⟨tree, hwire, ?_, fun o ho hsame => ?_⟩
  · unfold wireAll
    simp only [if_true]
    cases outs with
    | nil => cases h0
    | cons o1 os =>
      simp only [List.head?_cons, Option.some.injEq] at h0
      subst h0
      simp only [hwire]
  · obtain ⟨hd, hlk, hlen⟩ := hall o ho
    have hraw : Spec.sameCountsList o0 o w.nodes = true :=
      sameCountsList_raw (N := o0.descs.length) w.nodes tree hl.good.2 (by unfold Wired.tree at ht; exact ht) hsame
    obtain ⟨tree', js, h1, h2, h3⟩ := C09_core_chain hl.wired (hl.core.shared hd hlk hlen hraw)
    rw [ht] at h1
    injection h1 with h1
    subst h1
    show (renderNested o tree >>= nestedJsonToFlat) = _
    rw [h2]
    exact h3

/-- the same read off `decodeData` (a compressed message as `Decoder.process` hands it over) -/
theorem C09_decode_message_compressed_links_nested_json_to_flat_partial (t : List Desc) (hq : wireLinksOK t = true)
    (n : Nat) (bits rest : Bits) (outs : List SubsetOut) (o0 : SubsetOut)
    (h : decodeData t true n bits = .ok (outs, rest)) (h0 : outs.head? = some o0) :
    ∃ trees, wireAll t true outs = .ok trees ∧ trees.length = outs.length ∧
      ∀ (i : Nat) (o : SubsetOut) (tree : List Node), outs[i]? = some o → trees[i]? = some tree →
        Spec.sameCountsList o0 o tree = true → (renderNested o tree >>= nestedJsonToFlat) = .ok o.vals := by
  unfold decodeData at h
  simp only [if_true] at h
  obtain ⟨tree, _, hall, hsub⟩ :=
    C09_decode_compressed_links_nested_json_to_flat_partial t hq n bits rest outs o0 h h0
  refine ⟨_, hall, by simp, fun i o tr ho htr hsame => ?_⟩
  have hmem : o ∈ outs := List.mem_of_getElem? ho
  have : tr = tree := by
    rw [List.getElem?_map, ho] at htr
    exact (Option.some.inj htr).symm
  subst this
  exact hsub o hmem hsame

/-- the statement, evaluated: the decode succeeds, the pass succeeds, consumed everything, side conditions hold, every
    attached attribute sits under the owner the coder's link names and every link is shown -/
def linkStatement (t : List Desc) (bits : Bits) : Bool :=
  match decodeSubset t bits with
  | .error _ => false
  | .ok (o, _) =>
    match wireRaw t o with
    | .error _ => false
    | .ok w => w.sideOK o &&
        w.st.tab.all (fun p => match p.2.index? with
          | some i => lookupLink o.links i == some p.1
          | none => false) &&
        o.links.all (fun q => w.st.tab.any fun p => p.2.index? == some q.1)

def zeros' (n : Nat) : Bits := List.replicate n false
def exQ33 : Elem := { id := 33007, kind := .codeflag, nbits := 7, scale := 0, ref := 0 }
def exB : Elem := { id := 31031, kind := .codeflag, nbits := 1, scale := 0, ref := 0 }
def exM (id : Nat) : Elem := { id := id, kind := .codeflag, nbits := 6, scale := 0, ref := 0 }

/-- inside: `012001 012002 222000 236000 101002 031031 101002 033007  224000 237000 008023 101002 224255
    206008 063250 232000 237000 232255 232255 235000` (all bits 0: every bit-map bit selects) -/
def exIn : List Desc :=
  [.elem (exE 12001 12), .elem (exE 12002 12), .op 222000, .op 236000, .fixedRep 101002 [.elem exB],
   .fixedRep 101002 [.elem exQ33], .op 224000, .op 237000, .elem (exM 8023), .fixedRep 101002 [.op 224255],
   .op 206008, .undefElem 63250, .op 232000, .op 237000, .op 232255, .op 232255, .op 235000]

example : wireLinksOK exIn = true ∧ quietList false exIn = false ∧ quietList true exIn = false := by decide +kernel
example : linkStatement exIn (zeros' 200) = true := by decide +kernel
/-- the hypotheses of `C09_decode_links_*_partial` are satisfiable: `exIn` is in the class and decodes -/
example : wireLinksOK exIn = true ∧ (decodeSubset exIn (zeros' 200)).toOption.isSome = true := by decide +kernel

/-- inside: a delayed definition and a delayed run of quality values: `012001 222000 101000 031001 031031 101000 031001 033007` -/
def exIn2 : List Desc :=
  [.elem (exE 12001 12), .op 222000, .delayedRep 101000 (.elem (exE 31001 8)) [.elem exB],
   .delayedRep 101000 (.elem (exE 31001 8)) [.elem exQ33]]

def exBits2 : Bits := zeros' 12 ++ toBits 8 1 ++ [false] ++ toBits 8 1 ++ zeros' 7

example : wireLinksOK exIn2 = true := by decide +kernel
example : linkStatement exIn2 exBits2 = true := by decide +kernel

/-- EXCLUDED, finding F15: `012001 222000 101001 031031 033007 012002 033007` - the coder left QA mode at 012002, the
    wiring pass did not: the decode succeeds, the pass fails -/
def exF15 : List Desc :=
  [.elem (exE 12001 12), .op 222000, .fixedRep 101001 [.elem exB], .elem exQ33, .elem (exE 12002 12), .elem exQ33]

example : wireLinksOK exF15 = false := by decide +kernel
example : (decodeSubset exF15 (zeros' 60)).toOption.isSome = true ∧ linkStatement exF15 (zeros' 60) = false := by
  decide +kernel

/-- EXCLUDED, finding F-C07-wire-qa-across-operator (222000 followed by another bitmap operator before its quality
    values): `012001 222000 101001 031031 223000 237000 033007` - the coder still links 033007, the wiring pass has
    forgotten 222000: the pass succeeds, the link is not shown in the tree -/
def exAcross : List Desc :=
  [.elem (exE 12001 12), .op 222000, .fixedRep 101001 [.elem exB], .op 223000, .op 237000, .elem exQ33]

example : wireLinksOK exAcross = false := by decide +kernel
example : ((decodeSubset exAcross (zeros' 60)).toOption.map fun r =>
    (r.1.links, (wireRaw exAcross r.1).toOption.map fun w => w.st.tab.length)) = some ([(5, 0)], some 0) ∧
    linkStatement exAcross (zeros' 60) = false := by decide +kernel

/-- EXCLUDED, findings F11c / F11d / F11-C07-wire-*: 204 IN FORCE over a bit-map construct
    (`204004 031021 012001 223000 101001 031031 223255 204000`) -/
def exF11c : List Desc :=
  [.op 204004, .elem (exE 31021 6), .elem (exE 12001 12), .op 223000, .fixedRep 101001 [.elem exB], .op 223255,
   .op 204000]

example : wireLinksOK exF11c = false := by decide +kernel
example : (decodeSubset exF11c (zeros' 80)).toOption.isSome = true ∧ linkStatement exF11c (zeros' 80) = false := by
  decide +kernel

/-- EXCLUDED: a stats marker before its meaning element (`012001 224000 101001 031031 224255`): AttributeError -/
def exNoMeaning : List Desc :=
  [.elem (exE 12001 12), .op 224000, .fixedRep 101001 [.elem exB], .op 224255]

example : wireLinksOK exNoMeaning = false := by decide +kernel
example : (decodeSubset exNoMeaning (zeros' 60)).toOption.isSome = true ∧
    linkStatement exNoMeaning (zeros' 60) = false := by decide +kernel

/-- EXCLUDED: 206YYY in front of something that is not an element (`206008 101002 012001`: the coder reads ONE skipped
    field for the replication descriptor, the wiring pass wires the replication) -/
def exSkipRep : List Desc := [.op 206008, .fixedRep 101002 [.elem (exE 12001 12)]]

example : wireLinksOK exSkipRep = false := by decide +kernel
example : (decodeSubset exSkipRep (zeros' 60)).toOption.isSome = true ∧
    linkStatement exSkipRep (zeros' 60) = false := by decide +kernel

/-- non-vacuity of `C09_decode_links_owner_eq_spec_partial`: a template that is in `wireLinksOK` AND `Spec.WFlinks`, whose
    decoded items are `markersOk` (222000 236000 + quality values, 224000 237000 008023 + two 224255) -/
def exW : List Desc :=
  [.elem (exE 12001 12), .elem (exE 12002 12), .op 222000, .op 236000, .fixedRep 101002 [.elem exB],
   .fixedRep 101002 [.elem exQ33], .op 224000, .op 237000, .elem (exM 8023), .fixedRep 101002 [.op 224255]]

example : wireLinksOK exW = true := by decide +kernel
example : Spec.WFlinks exW := by decide +kernel
example : ((decodeSubset exW (zeros' 200)).toOption.map fun r => Spec.markersOk (r.1.descs.zip r.1.vals)) = some true := by
  decide +kernel
example : linkStatement exW (zeros' 200) = true := by decide +kernel

/-- round 4: an associated field in a stretch of its own next to bit-map constructs is inside the class now:
    `204004 031021 012001 012002 204000 222000 236000 101002 031031 101002 033007 223000 237000 223255` -/
def exA : List Desc :=
  [.op 204004, .elem (exE 31021 6), .elem (exE 12001 12), .elem (exE 12002 12), .op 204000, .op 222000, .op 236000,
   .fixedRep 101002 [.elem exB], .fixedRep 101002 [.elem exQ33], .op 223000, .op 237000, .op 223255]

example : wireLinksOK exA = true ∧ quietList true exA = false ∧ quietList false exA = false := by decide +kernel
example : linkStatement exA (zeros' 200) = true := by decide +kernel
example : ((decodeSubset exA (zeros' 200)).toOption.map fun r =>
    ((wire exA r.1 >>= renderNested r.1) >>= nestedJsonToFlat).toOption == some r.1.vals) = some true := by
  decide +kernel

/-- 206YYY in front of a local descriptor while an associated field is in force is inside (one S item, one node);
    in front of a KNOWN element it is finding F11b and stays outside -/
def exA206 : List Desc := [.op 204004, .elem (exE 31021 6), .op 206008, .undefElem 63250, .elem (exE 12001 12), .op 204000]
def exF11b : List Desc := [.op 204004, .elem (exE 31021 6), .op 206008, .elem (exE 12001 12), .op 204000]

example : wireLinksOK exA206 = true ∧ linkStatement exA206 (zeros' 100) = true := by decide +kernel
example : wireLinksOK exF11b = false ∧ (decodeSubset exF11b (zeros' 100)).toOption.isSome = true ∧
    linkStatement exF11b (zeros' 100) = false := by decide +kernel

/-! ## Stage 3: the property statement over the union of the proved classes -/

/-- the templates on which the link coder -> hierarchical view is proved -/
def C09.viewClass (t : List Desc) : Bool := quietList false t || quietList true t || wireLinksOK t

/-- **C09, hierarchical view** - for every template of `C09.viewClass` and EVERY bit string: if the (uncompressed)
    decode of a subset succeeds, then
    (1) the wiring pass succeeds and has consumed exactly the decoded values;
    (2) the tree holds every decoded value exactly once - as a member, a replication factor or an associated-field
        attribute of its owner - and the tree order is the flat order (`idxList w.nodes = List.range n`);
    (3) every attribute attached through a bit-map (quality information, substituted / first-order / difference /
        replaced value) sits under the element the coder's bit-map link names, which precedes it;
    (4) attachment and rendering succeed and nested JSON -> flat returns the decoded values: the original flat order
        is recovered.
    `C09.viewClass` = `quietList false` (elements of every class, sequences, nested fixed / delayed replication,
    201 202 203 205 207 208 221) ∪ `quietList true` (the same without 203, with 204YYY + 031021 / 204000 over plain
    elements) ∪ `wireLinksOK` (elements, sequences, replications, 201 202 205 206 207 208, the bit-map operators
    222000 223000 224000 225000 232000 235000 236000 237000 237255, bit-map definitions by 031031 runs under fixed or
    delayed replication, marker operators 22X255 / 232255, class 33 values after 222000; round 4: 204YYY + 031021 /
    204000 over plain elements and 206YYY + local descriptor, in stretches in which no bit-map construct, 203 or
    class 33 element occurs while the field is in force).
    OUTSIDE, and why:
    * FALSE there (open findings, proved negations `exO2` in Props/C09.lean, `exF15`, `exAcross`, `exF11c`,
      `exNoMeaning`, `exSkipRep` above): 204 in force over a 203 definition, a 206 skip, a marker operator, 008023 /
      008024 or a class 33 value (F11a-d, F11-C07-wire-*); a class 33 element after other elements following a
      quality run (F15); 222000 followed by another bit-map operator before its quality values
      (F-C07-wire-qa-across-operator); a stats marker without the 008023 / 008024 of its own operator (AttributeError,
      or an attribute cycle when an old meaning node is selected by the new bit-map); 206YYY in front of a
      replication / sequence / operator; 222YYY with YYY ≠ 0;
    * TRUE but not proved: 221 or a 203 definition in a template that also has bit-map operators or 206 (`quietList`
      tracks the 221 count and the 203 mode, `wireLinksOK` the QA flags, links and - since round 4 - the 204 stack);
      204 left open across a replication body (unbalanced use: `quietList true` only); a replication body that is
      not a fixed point of the abstract interpretation after one round although every run of it is harmless.
    Compressed data: `C09_decode_compressed_nested_json_to_flat_partial` (quietList) and
    `C09_decode_compressed_links_nested_json_to_flat_partial` (wireLinksOK), every subset, under `Spec.sameCountsList`;
    WITHOUT that hypothesis: `C09_decode_hierarchical_view_compressed` (Props/C09View.lean). -/
theorem C09_decode_hierarchical_view (t : List Desc) (hq : C09.viewClass t = true) (bits rest : Bits) (o : SubsetOut)
    (h : decodeSubset t bits = .ok (o, rest)) :
    ∃ w, wireRaw t o = .ok w ∧ w.st.next = o.vals.length ∧ idxList w.nodes = List.range o.vals.length ∧
      (∀ p ∈ w.st.tab, ∃ k i own, p.2 = .value k i own ∧ p.1 < i ∧ lookupLink o.links i = some p.1) ∧
      ((wire t o >>= renderNested o) >>= nestedJsonToFlat) = .ok o.vals := by
  unfold C09.viewClass at hq
  rw [Bool.or_eq_true, Bool.or_eq_true] at hq
  have quiet : ∀ a, quietList a t = true →
      ∃ w, wireRaw t o = .ok w ∧ w.st.next = o.vals.length ∧ idxList w.nodes = List.range o.vals.length ∧
        (∀ p ∈ w.st.tab, ∃ k i own, p.2 = .value k i own ∧ p.1 < i ∧ lookupLink o.links i = some p.1) ∧
        ((wire t o >>= renderNested o) >>= nestedJsonToFlat) = .ok o.vals := by
    intro a hqa
    obtain ⟨w, hw, hn, _, _, htab⟩ := decodeSubset_wire hqa h
    exact ⟨w, hw, hn, C09_wire_consumes_each_index_once_partial t o w hw hn,
      (fun p hp => by rw [htab] at hp; cases hp),
      C09_decode_nested_json_to_flat_partial a t hqa bits rest o h⟩
  rcases hq with (hq | hq) | hq
  · exact quiet false hq
  · exact quiet true hq
  · obtain ⟨w, hl⟩ := C09_decode_links_linked t hq bits rest o h
    refine ⟨w, hl.wired, hl.next, C09_wire_consumes_each_index_once_partial t o w hl.wired hl.next, fun p hp => ?_,
      C09_decode_links_chain_partial t hq bits rest o h⟩
    obtain ⟨k, i, own, e, h1, _, h3, _, _⟩ := hl.owners p hp
    exact ⟨k, i, own, e, h1, h3⟩

/-- non-vacuity: one template of each of the three classes is in `viewClass` and decodes -/
example : C09.viewClass exQ = true ∧ C09.viewClass exT = true ∧ C09.viewClass exIn = true ∧
    (decodeSubset exIn (zeros' 200)).toOption.isSome = true := by decide +kernel

end Bufr
