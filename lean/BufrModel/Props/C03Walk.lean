/-
  C03, walk level: the uncompressed ROUND TRIP  encode ; decode  for one subset of a whole template,
  as an instance of the generic simulation theorem (`Lemmas/Sim.lean`).

  The statement is about the CHECKED encoder `encodeSubsetX` (`Lemmas/SimEnc.lean`): the encoder
  instrumented with a ghost register that accumulates the value the decoder will read back for each
  field (`canon`), and that refuses the three situations in which a decoder is NOT in lock-step with
  the encoder (a field wider than 64 bits; a replication factor or a bitmap entry whose field does
  not read back as supplied — the encoder's control flow follows the SUPPLIED structural values, the
  decoder's the DECODED ones).  Whenever it succeeds,
    * the real encoder succeeds with the same descriptors, links and bits      (`C03_walk_erase`);
    * the decoder, run on those bits followed by anything, consumes exactly them and returns the
      same descriptors and links and the canonical values                     (`C03_walk_roundtrip`).
-/
import BufrModel.Lemmas.SimEnc
namespace Bufr

/-- the checked encoder on one subset: what the encoder reports, the canonical values (what every
    field holds, as a decoder returns it), and the bits written (most recent first, on top of `pre`) -/
def encodeSubsetX (tmpl : List Desc) (vals : List Val) (pre : Bits) :
    CM (SubsetOut × List Val × Bits) :=
  match walkList encPrimsUX tmpl { bits := pre, vals := [vals] } with
  | .error e => .error e
  | .ok s => .ok ({ descs := s.descs.reverse, vals := vals, links := s.links.reverse },
                  s.aux.reverse, s.bits)

/-- whatever the checked encoder accepts, the encoder accepts, with the same result -/
theorem C03_walk_erase {t : List Desc} {vals : List Val} {pre : Bits}
    {o : SubsetOut} {canon : List Val} {b : Bits}
    (h : encodeSubsetX t vals pre = .ok (o, canon, b)) :
    encodeSubset t vals pre = .ok (o, b) := by
  unfold encodeSubsetX at h
  unfold encodeSubset
  cases hw : walkList encPrimsUX t { bits := pre, vals := [vals] } with
  | error e => rw [hw] at h; cases h
  | ok s =>
    rw [hw] at h
    cases h
    obtain ⟨t', ht', h1, h2, h3, h4, h5, h6⟩ :=
      walk_sim primSim_erase (s := { bits := pre, vals := [vals] }) (t := { bits := pre, vals := [vals] })
        ⟨rfl, rfl, rfl, rfl, rfl, rfl⟩ hw
    rw [ht']
    simp only [h2, h3, h6]

/-- ROUND TRIP, with bits written before (`pre`) and anything after (`rest`) -/
theorem C03_walk_roundtrip_pre {t : List Desc} {vals : List Val} {pre : Bits}
    {o : SubsetOut} {canon : List Val} {b : Bits}
    (h : encodeSubsetX t vals pre = .ok (o, canon, b)) :
    ∃ out, b = out.reverse ++ pre ∧
      ∀ rest, decodeSubset t (out ++ rest) = .ok ({ o with vals := canon }, rest) := by
  unfold encodeSubsetX at h
  cases hw : walkList encPrimsUX t { bits := pre, vals := [vals] } with
  | error e => rw [hw] at h; cases h
  | ok s =>
    rw [hw] at h
    cases h
    -- for every `rest` there is such an `out`
    have key : ∀ rest, ∃ out, s.bits = out.reverse ++ pre ∧
        decodeSubset t (out ++ rest) =
          .ok ({ descs := s.descs.reverse, vals := s.aux.reverse, links := s.links.reverse }, rest) := by
      intro rest
      obtain ⟨i, ⟨hW, out, hi⟩, hsim⟩ :=
        walk_sim_ix (primSim_enc_dec (s.bits.reverse ++ rest) rest) hw (j := rest) ⟨rfl, [], rfl⟩
      obtain ⟨t', ht', h1, h2, h3, h4, h5⟩ := hsim { bits := i, vals := [[]] } ⟨rfl, rfl, rfl, rfl, rfl⟩
      refine ⟨out, ?_, ?_⟩
      · subst hi
        simp only [← List.append_assoc] at hW
        have := List.append_cancel_right hW
        have h' := congrArg List.reverse this
        simp only [List.reverse_append, List.reverse_reverse] at h'
        exact h'.symm
      · subst hi
        unfold decodeSubset
        rw [ht']
        simp only [h2, h3, h4, h5, List.headD_cons]
    obtain ⟨out0, hb0, _⟩ := key []
    refine ⟨out0, hb0, fun rest => ?_⟩
    obtain ⟨out, hb, hd⟩ := key rest
    have : out = out0 := by
      have := hb.symm.trans hb0
      have := List.append_cancel_right this
      simpa using this
    subst this
    exact hd

/-- ROUND TRIP: what the checked encoder accepts is written by the encoder, and the decoder reads it
    back — same descriptors, same links, canonical values — leaving exactly what followed. -/
theorem C03_walk_roundtrip {t : List Desc} {vals : List Val}
    {o : SubsetOut} {canon : List Val} {b : Bits}
    (h : encodeSubsetX t vals [] = .ok (o, canon, b)) :
    encodeSubset t vals [] = .ok (o, b) ∧
      ∀ rest, decodeSubset t (b.reverse ++ rest) = .ok ({ o with vals := canon }, rest) := by
  refine ⟨C03_walk_erase h, fun rest => ?_⟩
  obtain ⟨out, hb, hd⟩ := C03_walk_roundtrip_pre h
  subst hb
  simpa using hd rest

end Bufr
