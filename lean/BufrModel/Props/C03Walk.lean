/-
  C03, walk level: the uncompressed ROUND TRIP  encode ; decode  for one subset of a whole template,
  as an instance of the generic simulation theorem (`Lemmas/Sim.lean`).

  The statement is about the CHECKED encoder `encodeSubsetX` (`Lemmas/SimEnc.lean`): the encoder
  instrumented with a ghost register that accumulates the value the decoder will read back for each
  field (`canon`), and that refuses the three situations in which a decoder is NOT in lock-step with
  the encoder (a field wider than 64 bits; a replication factor or a bitmap entry whose field does
  not read back as supplied — the encoder's control flow follows the SUPPLIED structural values, the
  decoder's the DECODED ones).  Whenever it succeeds,
    * the real encoder succeeds with the same descriptors, links and bits      (`C03_walk_erase`);
    * the decoder, run on those bits followed by anything, consumes exactly them and returns the
      same descriptors and links and the canonical values                     (`C03_walk_roundtrip`).
-/
import BufrModel.Lemmas.SimEnc
import BufrModel.Lemmas.SimCanon
namespace Bufr

/-- the checked encoder on one subset: what the encoder reports, the canonical values (what every
    field holds, as a decoder returns it), and the bits written (most recent first, on top of `pre`) -/
def encodeSubsetX (tmpl : List Desc) (vals : List Val) (pre : Bits) :
    CM (SubsetOut × List Val × Bits) :=
  match walkList encPrimsUX tmpl { bits := pre, vals := [vals] } with
  | .error e => .error e
  | .ok s => .ok ({ descs := s.descs.reverse, vals := vals, links := s.links.reverse },
                  s.aux.reverse, s.bits)

/-- whatever the checked encoder accepts, the encoder accepts, with the same result -/
theorem C03_walk_erase {t : List Desc} {vals : List Val} {pre : Bits}
    {o : SubsetOut} {canon : List Val} {b : Bits}
    (h : encodeSubsetX t vals pre = .ok (o, canon, b)) :
    encodeSubset t vals pre = .ok (o, b) := by
  unfold encodeSubsetX at h
  unfold encodeSubset
  cases hw : walkList encPrimsUX t { bits := pre, vals := [vals] } with
  | error e => rw [hw] at h; cases h
  | ok s =>
    rw [hw] at h
    cases h
    obtain ⟨t', ht', h1, h2, h3, h4, h5, h6⟩ :=
      walk_sim primSim_erase (s := { bits := pre, vals := [vals] }) (t := { bits := pre, vals := [vals] })
        ⟨rfl, rfl, rfl, rfl, rfl, rfl⟩ hw
    rw [ht']
    simp only [h2, h3, h6]

/-- ROUND TRIP, with bits written before (`pre`) and anything after (`rest`) -/
theorem C03_walk_roundtrip_pre {t : List Desc} {vals : List Val} {pre : Bits}
    {o : SubsetOut} {canon : List Val} {b : Bits}
    (h : encodeSubsetX t vals pre = .ok (o, canon, b)) :
    ∃ out, b = out.reverse ++ pre ∧
      ∀ rest, decodeSubset t (out ++ rest) = .ok ({ o with vals := canon }, rest) := by
  unfold encodeSubsetX at h
  cases hw : walkList encPrimsUX t { bits := pre, vals := [vals] } with
  | error e => rw [hw] at h; cases h
  | ok s =>
    rw [hw] at h
    cases h
    -- for every `rest` there is such an `out`
    have key : ∀ rest, ∃ out, s.bits = out.reverse ++ pre ∧
        decodeSubset t (out ++ rest) =
          .ok ({ descs := s.descs.reverse, vals := s.aux.reverse, links := s.links.reverse }, rest) := by
      intro rest
      obtain ⟨i, ⟨hW, out, hi⟩, hsim⟩ :=
        walk_sim_ix (primSim_enc_dec (s.bits.reverse ++ rest) rest) hw (j := rest) ⟨rfl, [], rfl⟩
      obtain ⟨t', ht', h1, h2, h3, h4, h5⟩ := hsim { bits := i, vals := [[]] } ⟨rfl, rfl, rfl, rfl, rfl⟩
      refine ⟨out, ?_, ?_⟩
      · subst hi
        simp only [← List.append_assoc] at hW
        have := List.append_cancel_right hW
        have h' := congrArg List.reverse this
        simp only [List.reverse_append, List.reverse_reverse] at h'
        exact h'.symm
      · subst hi
        unfold decodeSubset
        rw [ht']
        simp only [h2, h3, h4, h5, List.headD_cons]
    obtain ⟨out0, hb0, _⟩ := key []
    refine ⟨out0, hb0, fun rest => ?_⟩
    obtain ⟨out, hb, hd⟩ := key rest
    have : out = out0 := by
      have := hb.symm.trans hb0
      have := List.append_cancel_right this
      simpa using this
    subst this
    exact hd

/-- ROUND TRIP: what the checked encoder accepts is written by the encoder, and the decoder reads it
    back — same descriptors, same links, canonical values — leaving exactly what followed. -/
theorem C03_walk_roundtrip {t : List Desc} {vals : List Val}
    {o : SubsetOut} {canon : List Val} {b : Bits}
    (h : encodeSubsetX t vals [] = .ok (o, canon, b)) :
    encodeSubset t vals [] = .ok (o, b) ∧
      ∀ rest, decodeSubset t (b.reverse ++ rest) = .ok ({ o with vals := canon }, rest) := by
  refine ⟨C03_walk_erase h, fun rest => ?_⟩
  obtain ⟨out, hb, hd⟩ := C03_walk_roundtrip_pre h
  subst hb
  simpa using hd rest

/-- What the canonical values ARE: the checked encoder consumes a prefix of the supplied values, and
    the `i`-th canonical value is related to the `i`-th supplied value by `CanonOf` (quantised numeric
    that fits its field, all-ones ↦ missing; code/flag likewise; string padded/truncated; new
    reference values and operator constants exactly). -/
theorem C03_walk_canon {t : List Desc} {vals : List Val} {pre : Bits}
    {o : SubsetOut} {canon : List Val} {b : Bits}
    (h : encodeSubsetX t vals pre = .ok (o, canon, b)) :
    canon.length ≤ vals.length ∧
      ∀ (i : Nat) (v c : Val), vals[i]? = some v → canon[i]? = some c → CanonOf v c := by
  unfold encodeSubsetX at h
  cases hw : walkList encPrimsUX t { bits := pre, vals := [vals] } with
  | error e => rw [hw] at h; cases h
  | ok s =>
    rw [hw] at h
    cases h
    obtain ⟨hinv, hV⟩ := walk_canonInv hw (by exact Rel2.nil)
    unfold CanonInv curVals at hinv
    rw [hV] at hinv
    simp only [List.headD_cons] at hinv
    refine ⟨?_, fun i v c hv hc => ?_⟩
    · rw [← hinv.length_eq, List.length_take]; omega
    · have hi : i < s.aux.reverse.length := by
        rcases Nat.lt_or_ge i s.aux.reverse.length with h | h
        · exact h
        · rw [List.getElem?_eq_none h] at hc; cases hc
      rw [← hinv.length_eq, List.length_take] at hi
      refine hinv.get i v c ?_ hc
      rw [List.getElem?_take]
      simp only [show i < s.idx by omega, if_true, hv]

/-! ### several subsets (`process_template_data`, uncompressed) -/

/-- the checked encoder on a list of subsets -/
def encodeSubsetsX (tmpl : List Desc) :
    List (List Val) → Bits → CM (List SubsetOut × List (List Val) × Bits)
  | [], pre => .ok ([], [], pre)
  | v :: vs, pre => match encodeSubsetX tmpl v pre with
    | .error e => .error e
    | .ok (o, c, pre') => match encodeSubsetsX tmpl vs pre' with
      | .error e => .error e
      | .ok (os, cs, pre'') => .ok (o :: os, c :: cs, pre'')

/-- what the decoder reports when the encoder reported `os` and the fields hold `canons` -/
def withCanon (os : List SubsetOut) (canons : List (List Val)) : List SubsetOut :=
  List.zipWith (fun o c => { o with vals := c }) os canons

theorem C03_walk_roundtrip_subsets {t : List Desc} :
    ∀ {valss : List (List Val)} {pre : Bits} {os : List SubsetOut} {canons : List (List Val)} {b : Bits},
    encodeSubsetsX t valss pre = .ok (os, canons, b) →
    encodeSubsets t valss pre = .ok (os, b) ∧
      ∃ out, b = out.reverse ++ pre ∧
        ∀ rest, decodeSubsets t valss.length (out ++ rest) = .ok (withCanon os canons, rest)
  | [], pre, os, canons, b, h => by
    simp only [encodeSubsetsX] at h
    cases h
    exact ⟨rfl, [], rfl, fun rest => rfl⟩
  | v :: vs, pre, os, canons, b, h => by
    simp only [encodeSubsetsX] at h
    cases h1 : encodeSubsetX t v pre with
    | error e => rw [h1] at h; cases h
    | ok r1 =>
      obtain ⟨o, c, pre'⟩ := r1
      rw [h1] at h
      dsimp only at h
      cases h2 : encodeSubsetsX t vs pre' with
      | error e => rw [h2] at h; cases h
      | ok r2 =>
        obtain ⟨os', cs', pre''⟩ := r2
        rw [h2] at h
        dsimp only at h
        cases h
        obtain ⟨he2, out2, hb2, hd2⟩ := C03_walk_roundtrip_subsets h2
        obtain ⟨out1, hb1, hd1⟩ := C03_walk_roundtrip_pre h1
        refine ⟨?_, out1 ++ out2, ?_, fun rest => ?_⟩
        · simp only [encodeSubsets, C03_walk_erase h1, he2]
        · rw [hb2, hb1]; simp [List.reverse_append]
        · simp only [List.length_cons, decodeSubsets, List.append_assoc, hd1 (out2 ++ rest), hd2 rest,
            withCanon, List.zipWith_cons_cons]

/-- the checked encoder on a whole uncompressed data section -/
def encodeDataUX (tmpl : List Desc) (valss : List (List Val)) :
    CM (List SubsetOut × List (List Val) × Bits) :=
  match encodeSubsetsX tmpl valss [] with
  | .error e => .error e
  | .ok (o, c, b) => .ok (o, c, b.reverse)

/-- ROUND TRIP for an uncompressed data section of any number of subsets -/
theorem C03_walk_roundtrip_data {t : List Desc} {valss : List (List Val)}
    {os : List SubsetOut} {canons : List (List Val)} {bits : Bits}
    (h : encodeDataUX t valss = .ok (os, canons, bits)) :
    encodeData t false valss = .ok (os, bits) ∧
      ∀ rest, decodeData t false valss.length (bits ++ rest) = .ok (withCanon os canons, rest) := by
  unfold encodeDataUX at h
  cases h1 : encodeSubsetsX t valss [] with
  | error e => rw [h1] at h; cases h
  | ok r =>
    obtain ⟨o, c, b⟩ := r
    rw [h1] at h
    cases h
    obtain ⟨he, out, hb, hd⟩ := C03_walk_roundtrip_subsets h1
    subst hb
    refine ⟨?_, fun rest => ?_⟩
    · simp [encodeData, he]
    · simpa [decodeData] using hd rest

/-! ### non-vacuity -/

namespace C03WalkEx

/-- a numeric element, a delayed replication of a code-table element, a character element -/
def tmpl : List Desc :=
  [ .elem { id := 12001, kind := .numeric, nbits := 12, scale := 1, ref := -100 },
    .delayedRep 101000 (.elem { id := 31001, kind := .numeric, nbits := 8, scale := 0, ref := 0 })
      [ .elem { id := 20003, kind := .codeflag, nbits := 4, scale := 0, ref := 0 } ],
    .elem { id := 1015, kind := .string, nbits := 16, scale := 0, ref := 0 } ]

/-- 21.5, factor 2, code 3, code missing, "A" -/
def vals : List Val := [ .num 215 1, .int 2, .int 3, .missing, .bytes [65] ]

/-- the checked encoder accepts, and the canonical values are the supplied ones with "A" padded -/
theorem canon_eq : (encodeSubsetX tmpl vals []).map (fun x => x.2.1) =
    .ok [ .num 215 1, .int 2, .int 3, .missing, .bytes [65, 32] ] := by decide +kernel

/-- the hypothesis of `C03_walk_roundtrip` is satisfiable and its conclusion is what one expects -/
example : ∃ o b, encodeSubset tmpl vals [] = .ok (o, b) ∧ b.length = 44 ∧
    ∀ rest, decodeSubset tmpl (b.reverse ++ rest) =
      .ok ({ o with vals := [ .num 215 1, .int 2, .int 3, .missing, .bytes [65, 32] ] }, rest) := by
  cases h : encodeSubsetX tmpl vals [] with
  | error e => have := canon_eq; rw [h] at this; cases this
  | ok r =>
    obtain ⟨o, canon, b⟩ := r
    have hc := canon_eq
    rw [h] at hc
    have hc' : canon = [ .num 215 1, .int 2, .int 3, .missing, .bytes [65, 32] ] := by
      simpa [Except.map] using hc
    subst hc'
    obtain ⟨he, hd⟩ := C03_walk_roundtrip h
    refine ⟨o, b, he, ?_, hd⟩
    have hl : (encodeSubsetX tmpl vals []).map (fun x => x.2.2.length) = .ok 44 := by decide +kernel
    rw [h] at hl
    simpa [Except.map] using hl

/-- The side condition is necessary: with a two-bit replication factor the supplied factor 3 is the
    all-ones pattern of its field.  The encoder accepts (and replicates three times), the checked
    encoder refuses, and the decoder — reading the factor back as missing — fails on the
    encoder's output. -/
def tmpl2 : List Desc :=
  [ .delayedRep 101000 (.elem { id := 31000, kind := .numeric, nbits := 2, scale := 0, ref := 0 })
      [ .elem { id := 20003, kind := .codeflag, nbits := 4, scale := 0, ref := 0 } ] ]

example :
    (encodeSubset tmpl2 [.int 3, .int 1, .int 1, .int 1] []).map (fun x => x.2.reverse) =
        .ok [true, true, false, false, false, true, false, false, false, true, false, false, false, true] ∧
      (encodeSubsetX tmpl2 [.int 3, .int 1, .int 1, .int 1] []).map (fun _ => ()) = .error .other ∧
      decodeSubset tmpl2 [true, true, false, false, false, true, false, false, false, true, false, false, false, true]
        = .error .lib := by decide +kernel

end C03WalkEx

end Bufr
