/-
  C12 — damage is detected, reported as a library error, and isolated to one message.

  WHOLE-MESSAGE PART: the data-level truncation theorems of `Props/C12.lean` lifted through the
  section decoder (`Msg/Sections.lean`: `decodeBits` on a bit stream, `decode` on bytes).

  Quantification: EVERY layout family `L` (no well-formedness needed), EVERY option set `o`
  (metadata-only, ignore expectations), EVERY data reader `dc` that is `R.Trunc` for each registry —
  which the real data decoder `decodeData` is, for every template, compressed or not, any number of
  subsets (`C12_msg_decodeData_trunc`) — and every input.

  * bit level: a successful `decodeBits` consumed exactly `out.nbits` bits; what follows them never
    influences the result; EVERY cut inside them is a `BitReadError`
    (`C12_msg_bits_truncation`, `C12_msg_bits_take`);
  * byte level, for a message `m` that starts with `BUFR` and that `decode` consumed completely:
    bytes appended after `m` change nothing, not even `serialized` (`C12_msg_suffix_irrelevant`);
    EVERY proper byte prefix of `m` fails with a library error: `PyBufrKitError` (no start signature)
    when fewer than 4 octets are left, `BitReadError` otherwise (`C12_msg_no_proper_prefix_decodes`);
    every proper BIT prefix is a `BitReadError` (`C12_msg_no_proper_bit_prefix`).

  The theorems do not look inside `checkExpected` (nor `secLen`, `getCfg`, `isPresent`): each is an
  `R.lift` of a value that does not depend on the unread stream.  On a truncated input the run follows
  the reference run, check by check with the same values, until the bits run out; so the statements
  hold whatever error family a failed expectation has — no such failure is reached before the
  `BitReadError`.

  RELATION TO `Props/C12Stream.lean` (namespace `Bufr.Stream`).  That file states the message-level
  facts the stream theorems need — `C12_suffix_irrelevant`, `C12_no_proper_prefix_decodes` (only
  "fails with SOME error"), `C12_ofSections_frame` — for `decodeAt` (`Decoder.process` without the
  signature search) under the HYPOTHESIS that the data reader is prefix-determined (`Local`), and
  `C12_tableCoder_local` under the hypothesis `hdata` that `decodeData` is.  This file works with the
  stronger invariant `R.Trunc` (which also pins down what happens on a truncated input) and
  * DISCHARGES those hypotheses: `decodeData` is `Local` for every template / flag / count
    (`C12_msg_decodeData_local`), hence the driver's coder `Stream.tableCoder T` is `R.Trunc` and
    `Local` for every table group and every registry (`C12_msg_tableCoder_trunc`,
    `C12_msg_tableCoder_local`), which makes the C12Stream theorems unconditional for it
    (`C12_msg_table_suffix_irrelevant`, `C12_msg_table_no_proper_prefix_decodes`,
    `C12_msg_table_ofSections_frame`);
  * REFINES "fails with some error" to the error itself: every proper byte prefix of a message that
    `decodeAt` consumed completely fails with `BitReadError` — a LIBRARY error, so continue-on-error
    catches it (`C12_msg_decodeAt_no_proper_prefix`, `C12_msg_decodeAt_prefix_error_isLib`, and the
    `tableCoder` instance `C12_msg_table_decodeAt_no_proper_prefix`); with the signature search of
    `decode` the first four cuts are `PyBufrKitError` instead (`C12_msg_no_proper_prefix_decodes`).

  Helper lemmas: `Lemmas/SectionsTrunc.lean`.
-/
import BufrModel.Lemmas.SectionsTrunc
import BufrModel.Lemmas.FrameData
import BufrModel.Gen.Layouts
import BufrModel.Props.C12Stream
namespace Bufr

/-! ## bit level -/

/-- **The consumed part of a message.**  A successful decoding of the sections consumed a prefix `c`
    of the stream, of exactly `out.nbits` bits; the result is the same for ANY continuation `y` of `c`
    (in particular none); and on EVERY proper prefix `q` of `c` decoding fails with `BitReadError`. -/
theorem C12_msg_bits_truncation {α : Type} (L : Layouts) (dc : DataCoder α)
    (hdc : ∀ reg, R.Trunc (dc.dec reg)) (o : DecOpts) (bits : Bits) (out : DecOut α) (rest : Bits)
    (h : decodeBits L dc o bits = .ok (out, rest)) :
    ∃ c, bits = c ++ rest ∧ c.length = out.nbits ∧ (∀ y, decodeBits L dc o (c ++ y) = .ok (out, y)) ∧
      ∀ q, PPrefix q c → decodeBits L dc o q = .error .bitRead := by
  obtain ⟨c, e, l, t⟩ := st_decodeBits L dc hdc o bits out rest h
  refine ⟨c, e, ?_, l, t⟩
  have := st_decodeBits_consumed L dc hdc o bits out rest h
  rw [e, List.length_append] at this
  omega

/-- **Every truncation point.**  Let the sections of `bits` decode, leaving `rest`.  Cutting the
    stream after `k` bits gives `BitReadError` when the cut falls inside the message (`k < out.nbits`)
    and the same result (leaving what remains of `rest`) when it falls at or after its end. -/
theorem C12_msg_bits_take {α : Type} (L : Layouts) (dc : DataCoder α)
    (hdc : ∀ reg, R.Trunc (dc.dec reg)) (o : DecOpts) (bits : Bits) (out : DecOut α) (rest : Bits)
    (h : decodeBits L dc o bits = .ok (out, rest)) (k : Nat) :
    decodeBits L dc o (bits.take k) =
      if k < out.nbits then .error .bitRead else .ok (out, rest.take (k - out.nbits)) := by
  have hc := st_decodeBits_consumed L dc hdc o bits out rest h
  have hn : bits.length - rest.length = out.nbits := by omega
  have := st_take (st_decodeBits L dc hdc o) bits out rest h k
  rw [hn] at this
  exact this

/-- No shorter success: a run on a proper prefix of the consumed part cannot succeed with ANY result. -/
theorem C12_msg_bits_no_shorter_success {α : Type} (L : Layouts) (dc : DataCoder α)
    (hdc : ∀ reg, R.Trunc (dc.dec reg)) (o : DecOpts) (bits : Bits) (out : DecOut α) (rest : Bits)
    (h : decodeBits L dc o bits = .ok (out, rest)) (k : Nat) (hk : k < out.nbits) :
    ∀ r, decodeBits L dc o (bits.take k) ≠ .ok r := by
  intro r hr
  rw [C12_msg_bits_take L dc hdc o bits out rest h k, if_pos hk] at hr
  cases hr

/-! ## byte level -/

/-- a message that `decode` consumed completely: the bit-level run behind it -/
theorem C12_msg_whole {α : Type} (L : Layouts) (dc : DataCoder α)
    (hdc : ∀ reg, R.Trunc (dc.dec reg)) (o : DecOpts) (m : List UInt8) (r : DecMsg α)
    (hsig : startSig.isPrefixOf m = true) (h : decode L dc o m = .ok r) (hn : r.nbits = 8 * m.length) :
    ∃ out : DecOut α, decodeBits L dc o (bytesToBits m) = .ok (out, []) ∧ out.nbits = 8 * m.length ∧
      r = { sections := out.sections, data := out.data, nbits := out.nbits, serialized := m } := by
  unfold decode at h
  rw [st_findFrom_prefix m hsig] at h
  simp only at h
  split at h
  · cases h
  rename_i out rest hd
  cases h
  simp only at hn
  have hc := st_decodeBits_consumed L dc hdc o _ out rest hd
  rw [bytesToBits_length, hn] at hc
  have hrest : rest = [] := List.eq_nil_of_length_eq_zero (by omega)
  subst hrest
  refine ⟨out, hd, hn, ?_⟩
  rw [hn, Nat.mul_div_cancel_left _ (by omega : 0 < 8), List.take_length]

/-- **Bytes after a message are irrelevant.**  Let `m` start with `BUFR` and let `decode` consume it
    completely.  Then `serialized` is `m`, and for every `x` decoding `m ++ x` gives the same
    sections, data, bit count and serialized bytes — the same `DecMsg`. -/
theorem C12_msg_suffix_irrelevant {α : Type} (L : Layouts) (dc : DataCoder α)
    (hdc : ∀ reg, R.Trunc (dc.dec reg)) (o : DecOpts) (m : List UInt8) (r : DecMsg α)
    (hsig : startSig.isPrefixOf m = true) (h : decode L dc o m = .ok r) (hn : r.nbits = 8 * m.length)
    (x : List UInt8) :
    ∃ r', decode L dc o (m ++ x) = .ok r' ∧ r'.sections = r.sections ∧ r'.data = r.data ∧
      r'.nbits = r.nbits ∧ r'.serialized = m ∧ r.serialized = m ∧ r' = r := by
  obtain ⟨out, hd, hnb, rfl⟩ := C12_msg_whole L dc hdc o m r hsig h hn
  have hpre : startSig.isPrefixOf (m ++ x) = true := by
    rw [List.isPrefixOf_iff_prefix] at hsig ⊢
    exact List.IsPrefix.trans hsig (List.prefix_append _ _)
  have hfr := (st_decodeBits L dc hdc o).frame _ _ _ (bytesToBits x) hd
  refine ⟨_, ?_, rfl, rfl, rfl, rfl, rfl, rfl⟩
  simp only [decode, st_findFrom_prefix _ hpre, st_bytesToBits_append, hfr, hnb,
    Nat.mul_div_cancel_left _ (by omega : 0 < 8), List.take_left]

/-- **No proper bit prefix of a message decodes.**  With `m` as above, cutting its bit stream after
    any `k < 8 * |m|` bits (inside an octet or not) gives `BitReadError`. -/
theorem C12_msg_no_proper_bit_prefix {α : Type} (L : Layouts) (dc : DataCoder α)
    (hdc : ∀ reg, R.Trunc (dc.dec reg)) (o : DecOpts) (m : List UInt8) (r : DecMsg α)
    (hsig : startSig.isPrefixOf m = true) (h : decode L dc o m = .ok r) (hn : r.nbits = 8 * m.length)
    (k : Nat) (hk : k < 8 * m.length) :
    decodeBits L dc o ((bytesToBits m).take k) = .error .bitRead := by
  obtain ⟨out, hd, hnb, _⟩ := C12_msg_whole L dc hdc o m r hsig h hn
  rw [C12_msg_bits_take L dc hdc o _ out [] hd k, if_pos (by omega)]

/-- **No proper byte prefix of a message decodes, and the failure is a library error.**  With `m` as
    above and `k < |m|`: the first `k` octets fail with `PyBufrKitError` ("cannot find start
    signature") when `k < 4`, and with `BitReadError` when `4 ≤ k` (the signature is found, the
    sections are read exactly as in the reference run until the bits run out). -/
theorem C12_msg_no_proper_prefix_decodes {α : Type} (L : Layouts) (dc : DataCoder α)
    (hdc : ∀ reg, R.Trunc (dc.dec reg)) (o : DecOpts) (m : List UInt8) (r : DecMsg α)
    (hsig : startSig.isPrefixOf m = true) (h : decode L dc o m = .ok r) (hn : r.nbits = 8 * m.length)
    (k : Nat) (hk : k < m.length) :
    decode L dc o (m.take k) = .error (if k < 4 then .lib else .bitRead) := by
  by_cases h4 : k < 4
  · rw [if_pos h4]
    have : findFrom startSig (m.take k) = none :=
      st_findFrom_short _ (by rw [List.length_take]; omega)
    simp only [decode, this]
  · rw [if_neg h4]
    have hf := st_findFrom_prefix _ (st_startSig_take m hsig k (by omega))
    have hb := C12_msg_no_proper_bit_prefix L dc hdc o m r hsig h hn (8 * k) (by omega)
    simp only [decode, hf, st_bytesToBits_take, hb]

/-- ... in particular the failure is always in the library's own error family, and no proper prefix
    of a message is itself accepted as a message. -/
theorem C12_msg_prefix_error_isLib {α : Type} (L : Layouts) (dc : DataCoder α)
    (hdc : ∀ reg, R.Trunc (dc.dec reg)) (o : DecOpts) (m : List UInt8) (r : DecMsg α)
    (hsig : startSig.isPrefixOf m = true) (h : decode L dc o m = .ok r) (hn : r.nbits = 8 * m.length)
    (k : Nat) (hk : k < m.length) :
    (∃ e, decode L dc o (m.take k) = .error e ∧ e.isLib = true) ∧
      ∀ r', decode L dc o (m.take k) ≠ .ok r' := by
  have := C12_msg_no_proper_prefix_decodes L dc hdc o m r hsig h hn k hk
  refine ⟨⟨_, this, ?_⟩, fun r' hr' => ?_⟩
  · split <;> rfl
  · rw [this] at hr'; cases hr'

/-! ## instantiation: the real data decoder -/

/-- the data section decoded by `decodeData`; template, compression flag and number of subsets are
    whatever function of the registry (unexpanded descriptors, `is_compressed`, `n_subsets`, table
    versions ...) the caller supplies -/
def C12Msg.dataCoder (tmpl : Registry → List Desc × Bool × Nat) : DataCoder (List SubsetOut) :=
  { dec := fun reg => decodeData (tmpl reg).1 (tmpl reg).2.1 (tmpl reg).2.2 }

/-- `decodeData` meets the hypothesis on the data reader, whatever the registry says -/
theorem C12_msg_decodeData_trunc (tmpl : Registry → List Desc × Bool × Nat) :
    ∀ reg, R.Trunc ((C12Msg.dataCoder tmpl).dec reg) :=
  fun _ => decodeData_trunc _ _ _

/-- ... and so does the uninterpreted reader of the driver -/
theorem C12_msg_rawCoder_trunc (n : Nat) : ∀ reg, R.Trunc ((rawCoder n).dec reg) :=
  fun _ => readBits_trunc n

/-- whole messages with the real data decoder: trailing bytes are irrelevant -/
theorem C12_msg_decodeData_suffix_irrelevant (L : Layouts) (tmpl : Registry → List Desc × Bool × Nat)
    (o : DecOpts) (m : List UInt8) (r : DecMsg (List SubsetOut))
    (hsig : startSig.isPrefixOf m = true) (h : decode L (C12Msg.dataCoder tmpl) o m = .ok r)
    (hn : r.nbits = 8 * m.length) (x : List UInt8) :
    decode L (C12Msg.dataCoder tmpl) o (m ++ x) = .ok r ∧ r.serialized = m := by
  obtain ⟨r', h1, _, _, _, _, h2, rfl⟩ :=
    C12_msg_suffix_irrelevant L _ (C12_msg_decodeData_trunc tmpl) o m r hsig h hn x
  exact ⟨h1, h2⟩

/-- whole messages with the real data decoder: every proper byte prefix is a library error -/
theorem C12_msg_decodeData_no_proper_prefix_decodes (L : Layouts) (tmpl : Registry → List Desc × Bool × Nat)
    (o : DecOpts) (m : List UInt8) (r : DecMsg (List SubsetOut))
    (hsig : startSig.isPrefixOf m = true) (h : decode L (C12Msg.dataCoder tmpl) o m = .ok r)
    (hn : r.nbits = 8 * m.length) (k : Nat) (hk : k < m.length) :
    decode L (C12Msg.dataCoder tmpl) o (m.take k) = .error (if k < 4 then .lib else .bitRead) :=
  C12_msg_no_proper_prefix_decodes L _ (C12_msg_decodeData_trunc tmpl) o m r hsig h hn k hk

/-- whole messages with the real data decoder: every proper bit prefix is a `BitReadError` -/
theorem C12_msg_decodeData_no_proper_bit_prefix (L : Layouts) (tmpl : Registry → List Desc × Bool × Nat)
    (o : DecOpts) (m : List UInt8) (r : DecMsg (List SubsetOut))
    (hsig : startSig.isPrefixOf m = true) (h : decode L (C12Msg.dataCoder tmpl) o m = .ok r)
    (hn : r.nbits = 8 * m.length) (k : Nat) (hk : k < 8 * m.length) :
    decodeBits L (C12Msg.dataCoder tmpl) o ((bytesToBits m).take k) = .error .bitRead :=
  C12_msg_no_proper_bit_prefix L _ (C12_msg_decodeData_trunc tmpl) o m r hsig h hn k hk

/-! ## non-vacuity -/

/-- an edition-4 message of 56 octets (sections 0, 1, 3, 4, 5; section 2 absent; five descriptors in
    section 3; one data octet `176`), produced by `encode Gen.layouts {}` -/
def C12Msg.msg : List UInt8 :=
  [66, 85, 70, 82, 0, 0, 56, 4,
   0, 0, 22, 0, 0, 98, 0, 0, 0, 0, 2, 0, 0, 29, 0, 7, 228, 1, 2, 3, 4, 5,
   0, 0, 17, 0, 0, 1, 128, 31, 31, 31, 31, 31, 31, 31, 31, 31, 31,
   0, 0, 5, 0, 176,
   55, 55, 55, 55]

theorem C12_msg_ex_msg_sig : startSig.isPrefixOf C12Msg.msg = true := by decide

/-- the message decodes with the raw data reader (5 data bits): five sections, 448 = 8 * 56 bits -/
theorem C12_msg_ex_msg_decodes_raw :
    (decode Gen.layouts (rawCoder 5) {} C12Msg.msg).map
        (fun r => (r.sections.map (fun s => (s.index, s.nbits)), r.data, r.nbits, r.serialized))
      = .ok ([(0, 64), (1, 176), (3, 136), (4, 40), (5, 32)], some [true, false, true, true, false],
             8 * C12Msg.msg.length, C12Msg.msg) := by
  decide +kernel

private theorem C12Msg.ok_of_map {α β : Type} {x : Except Err α} {f : α → β} {b : β}
    (h : x.map f = .ok b) : ∃ a, x = .ok a ∧ f a = b := by
  cases x with
  | error e => cases h
  | ok a => exact ⟨a, rfl, by cases h; rfl⟩

/-- the hypotheses of the byte-level theorems are met by the concrete message -/
theorem C12_msg_ex_msg_raw_hyp :
    ∃ r, decode Gen.layouts (rawCoder 5) {} C12Msg.msg = .ok r ∧ r.nbits = 8 * C12Msg.msg.length := by
  obtain ⟨r, h, hf⟩ := C12Msg.ok_of_map C12_msg_ex_msg_decodes_raw
  refine ⟨r, h, ?_⟩
  have := congrArg (fun t => t.2.2.1) hf
  exact this

/-- all 56 proper byte prefixes of the concrete message fail with a library error:
    `PyBufrKitError` for 0..3 octets, `BitReadError` for 4..55 -/
example (k : Nat) (hk : k < 56) :
    decode Gen.layouts (rawCoder 5) {} (C12Msg.msg.take k) = .error (if k < 4 then .lib else .bitRead) := by
  obtain ⟨r, h, hn⟩ := C12_msg_ex_msg_raw_hyp
  exact C12_msg_no_proper_prefix_decodes Gen.layouts _ (C12_msg_rawCoder_trunc 5) {} _ r C12_msg_ex_msg_sig h hn k hk

/-- all 448 proper bit prefixes are a `BitReadError` -/
example (k : Nat) (hk : k < 448) :
    decodeBits Gen.layouts (rawCoder 5) {} ((bytesToBits C12Msg.msg).take k) = .error .bitRead := by
  obtain ⟨r, h, hn⟩ := C12_msg_ex_msg_raw_hyp
  exact C12_msg_no_proper_bit_prefix Gen.layouts _ (C12_msg_rawCoder_trunc 5) {} _ r C12_msg_ex_msg_sig h hn k hk

/-- whatever follows the message, the same message is reported -/
example (x : List UInt8) :
    (decode Gen.layouts (rawCoder 5) {} (C12Msg.msg ++ x)).map (fun r => (r.nbits, r.serialized))
      = .ok (448, C12Msg.msg) := by
  obtain ⟨r, h, hn⟩ := C12_msg_ex_msg_raw_hyp
  obtain ⟨r', h1, _, _, h2, h3, _, _⟩ :=
    C12_msg_suffix_irrelevant Gen.layouts _ (C12_msg_rawCoder_trunc 5) {} _ r C12_msg_ex_msg_sig h hn x
  rw [h1]
  show Except.ok (r'.nbits, r'.serialized) = _
  rw [h2, h3, hn]; rfl

/-- direct evaluation agrees with the theorem at three cuts (inside section 0, inside the data
    section, one octet short) and with 2 octets left -/
example : (decode Gen.layouts (rawCoder 5) {} (C12Msg.msg.take 7)).map (·.nbits) = .error .bitRead
    ∧ (decode Gen.layouts (rawCoder 5) {} (C12Msg.msg.take 51)).map (·.nbits) = .error .bitRead
    ∧ (decode Gen.layouts (rawCoder 5) {} (C12Msg.msg.take 55)).map (·.nbits) = .error .bitRead
    ∧ (decode Gen.layouts (rawCoder 5) {} (C12Msg.msg.take 2)).map (·.nbits) = .error .lib := by
  decide +kernel

/-! the same message with the REAL data decoder: one 8-bit element, the number of subsets taken
    from the registry (`n_subsets`), uncompressed -/

def C12Msg.e8 : Elem := { id := 1001, kind := .numeric, nbits := 8, scale := 0, ref := 0 }

def C12Msg.tmpl (reg : Registry) : List Desc × Bool × Nat :=
  ([.elem C12Msg.e8], false,
   match reg.get? "n_subsets" with
   | some e => (match e.val with | .int v => v.toNat | _ => 0)
   | none => 0)

theorem C12_msg_ex_msg_decodes_data :
    (decode Gen.layouts (C12Msg.dataCoder C12Msg.tmpl) {} C12Msg.msg).map
        (fun r => (r.data, r.nbits, r.serialized))
      = .ok (some [{ descs := [.plain C12Msg.e8], vals := [.int 176], links := [] }],
             8 * C12Msg.msg.length, C12Msg.msg) := by
  decide +kernel

theorem C12_msg_ex_msg_data_hyp :
    ∃ r, decode Gen.layouts (C12Msg.dataCoder C12Msg.tmpl) {} C12Msg.msg = .ok r ∧
      r.nbits = 8 * C12Msg.msg.length := by
  obtain ⟨r, h, hf⟩ := C12Msg.ok_of_map C12_msg_ex_msg_decodes_data
  refine ⟨r, h, ?_⟩
  have := congrArg (fun t => t.2.1) hf
  exact this

example (k : Nat) (hk : k < 56) :
    decode Gen.layouts (C12Msg.dataCoder C12Msg.tmpl) {} (C12Msg.msg.take k)
      = .error (if k < 4 then .lib else .bitRead) := by
  obtain ⟨r, h, hn⟩ := C12_msg_ex_msg_data_hyp
  exact C12_msg_decodeData_no_proper_prefix_decodes Gen.layouts _ {} _ r C12_msg_ex_msg_sig h hn k hk

example (x : List UInt8) : ∃ r, decode Gen.layouts (C12Msg.dataCoder C12Msg.tmpl) {} (C12Msg.msg ++ x) = .ok r ∧
    r.serialized = C12Msg.msg := by
  obtain ⟨r, h, hn⟩ := C12_msg_ex_msg_data_hyp
  exact ⟨r, C12_msg_decodeData_suffix_irrelevant Gen.layouts _ {} _ r C12_msg_ex_msg_sig h hn x⟩

/-! ## `decodeAt` (no signature search) and the hypotheses of `Props/C12Stream.lean` -/

/-- **Every cut point of a message is a `BitReadError`** for `Decoder.process(start_signature=None)`:
    if `decodeAt` consumed all of `m`, decoding its first `k < |m|` octets fails with `BitReadError`
    — at EVERY cut, the first four octets included (there is no signature search to fail first). -/
theorem C12_msg_decodeAt_no_proper_prefix {α : Type} (L : Layouts) (dc : DataCoder α)
    (hdc : ∀ reg, R.Trunc (dc.dec reg)) (o : DecOpts) (m : List UInt8) (r : DecMsg α)
    (h : decodeAt L dc o m = .ok r) (hn : r.nbits = 8 * m.length) (k : Nat) (hk : k < m.length) :
    decodeAt L dc o (m.take k) = .error .bitRead := by
  unfold decodeAt at h
  split at h
  · cases h
  rename_i out rest hd
  cases h
  simp only at hn
  have hb := C12_msg_bits_take L dc hdc o _ out rest hd (8 * k)
  rw [if_pos (by omega)] at hb
  simp only [decodeAt, st_bytesToBits_take, hb]

/-- ... so the failure is in the library's error family (what `except PyBufrKitError` catches), and no
    proper prefix of a message is accepted as a message. -/
theorem C12_msg_decodeAt_prefix_error_isLib {α : Type} (L : Layouts) (dc : DataCoder α)
    (hdc : ∀ reg, R.Trunc (dc.dec reg)) (o : DecOpts) (m : List UInt8) (r : DecMsg α)
    (h : decodeAt L dc o m = .ok r) (hn : r.nbits = 8 * m.length) (k : Nat) (hk : k < m.length) :
    (∃ e, decodeAt L dc o (m.take k) = .error e ∧ e.isLib = true) ∧
      ∀ r', decodeAt L dc o (m.take k) ≠ .ok r' := by
  have := C12_msg_decodeAt_no_proper_prefix L dc hdc o m r h hn k hk
  exact ⟨⟨_, this, rfl⟩, fun r' hr' => by rw [this] at hr'; cases hr'⟩

/-- `decodeData` is prefix-determined, for every template, compressed or not, any number of subsets:
    the hypothesis `hdata` of `Stream.C12_tableCoder_local` -/
theorem C12_msg_decodeData_local : ∀ (t : List Desc) (c : Bool) (n : Nat), Local (decodeData t c n) :=
  fun t c n => st_local (decodeData_trunc t c n)

/-- the data reader of the driver (`Decoder.process_template_data` against a table group `T`) meets
    the hypothesis of all the theorems above, whatever the registry holds: missing or ill-typed
    properties and an unbuildable template are failures that do not depend on the stream, a buildable
    one is `decodeData` -/
theorem C12_msg_tableCoder_trunc (T : Tables) : ∀ reg, R.Trunc ((Stream.tableCoder T).dec reg) := by
  intro reg x a r h
  unfold Stream.tableCoder at h ⊢
  simp only at h ⊢
  split at h
  · split at h
    · cases h
    · exact decodeData_trunc _ _ _ x a r h
  · cases h

/-- ... hence it is prefix-determined, unconditionally (`Stream.C12_tableCoder_local` without `hdata`) -/
theorem C12_msg_tableCoder_local (T : Tables) : ∀ reg, Local ((Stream.tableCoder T).dec reg) :=
  fun reg => st_local (C12_msg_tableCoder_trunc T reg)

/-- `Stream.C12_suffix_irrelevant` for the driver's coder, no hypothesis left -/
theorem C12_msg_table_suffix_irrelevant (L : Layouts) (T : Tables) (o : DecOpts) (m x : List UInt8)
    (r : DecMsg (List SubsetOut)) (h : decodeAt L (Stream.tableCoder T) o m = .ok r) :
    decodeAt L (Stream.tableCoder T) o (m ++ x) = .ok r :=
  Stream.C12_suffix_irrelevant L _ (C12_msg_tableCoder_local T) o m x r h

/-- `Stream.C12_no_proper_prefix_decodes` for the driver's coder, no hypothesis left -/
theorem C12_msg_table_no_proper_prefix_decodes (L : Layouts) (T : Tables) (o : DecOpts) (m : List UInt8)
    (r : DecMsg (List SubsetOut)) (h : decodeAt L (Stream.tableCoder T) o m = .ok r)
    (hn : r.nbits = 8 * m.length) (k : Nat) (hk : k < m.length) :
    ∃ e, decodeAt L (Stream.tableCoder T) o (m.take k) = .error e :=
  Stream.C12_no_proper_prefix_decodes L _ (C12_msg_tableCoder_local T) o m r h hn k hk

/-- ... refined: the error is `BitReadError` at every cut point -/
theorem C12_msg_table_decodeAt_no_proper_prefix (L : Layouts) (T : Tables) (o : DecOpts) (m : List UInt8)
    (r : DecMsg (List SubsetOut)) (h : decodeAt L (Stream.tableCoder T) o m = .ok r)
    (hn : r.nbits = 8 * m.length) (k : Nat) (hk : k < m.length) :
    decodeAt L (Stream.tableCoder T) o (m.take k) = .error .bitRead :=
  C12_msg_decodeAt_no_proper_prefix L _ (C12_msg_tableCoder_trunc T) o m r h hn k hk

/-- ... a library error -/
theorem C12_msg_table_decodeAt_prefix_error_isLib (L : Layouts) (T : Tables) (o : DecOpts) (m : List UInt8)
    (r : DecMsg (List SubsetOut)) (h : decodeAt L (Stream.tableCoder T) o m = .ok r)
    (hn : r.nbits = 8 * m.length) (k : Nat) (hk : k < m.length) :
    ∃ e, decodeAt L (Stream.tableCoder T) o (m.take k) = .error e ∧ e.isLib = true :=
  (C12_msg_decodeAt_prefix_error_isLib L _ (C12_msg_tableCoder_trunc T) o m r h hn k hk).1

/-- the per-offset decoder the stream theorems of C12Stream quantify over (`C12_isolation`,
    `C12_without_continue`, ...) has their `Frame` hypothesis when it is the section model with the
    driver's coder: no hypothesis left -/
theorem C12_msg_table_ofSections_frame (L : Layouts) (T : Tables) (ign : Bool) :
    Stream.Frame (Stream.ofSections L (Stream.tableCoder T) ign) :=
  Stream.C12_ofSections_frame L _ (C12_msg_tableCoder_local T) ign

/-- non-vacuity for `decodeAt`: the concrete message is consumed completely, so all 56 cuts
    (the cuts inside `BUFR` too) are `BitReadError` -/
example (k : Nat) (hk : k < 56) :
    decodeAt Gen.layouts (rawCoder 5) {} (C12Msg.msg.take k) = .error .bitRead := by
  have hm : (decodeAt Gen.layouts (rawCoder 5) {} C12Msg.msg).map (·.nbits) = .ok (8 * C12Msg.msg.length) := by
    decide +kernel
  obtain ⟨r, h, hn⟩ := C12Msg.ok_of_map hm
  exact C12_msg_decodeAt_no_proper_prefix Gen.layouts _ (C12_msg_rawCoder_trunc 5) {} _ r h hn k hk

example : (decodeAt Gen.layouts (rawCoder 5) {} (C12Msg.msg.take 2)).map (·.nbits) = .error .bitRead := by
  decide +kernel

end Bufr
