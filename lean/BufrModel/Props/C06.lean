/-
  C06 — subsets of an uncompressed message are decoded (and encoded) independently of each other.
  Property theorems only; the frame / locality lemmas for the template walk are in
  `Lemmas/Frame.lean`, their consequences for `decodeSubset(s)` / `encodeSubset(s)` in
  `Lemmas/FrameData.lean`.  Everything holds for ANY template (any `List Desc`, whatever operators,
  replications, bitmaps it contains), any number of subsets, any bit strings.

  In the model every subset starts from a fresh coder state (`decodeSubset`, `encodeSubset`): that
  is the behaviour of the code after the F4 fix (DESIGN section 7); the correspondence check of C06
  is what ties this to the implementation.
-/
import BufrModel.Lemmas.FrameData
namespace Bufr

/-- Decoding together = decoding alone (pair form).  `ps` lists the subsets as (bits, output)
    pairs; if every subset decodes alone to its output, consuming exactly its bits, then the
    concatenation (followed by anything) decodes, as `ps.length` subsets, to exactly those outputs in
    that order, and hands on what follows untouched. -/
theorem C06_together_eq_alone_pairs (t : List Desc) (ps : List (Bits × SubsetOut))
    (h : ∀ p ∈ ps, decodeSubset t p.1 = .ok (p.2, [])) (rest : Bits) :
    decodeSubsets t ps.length ((ps.map (·.1)).flatten ++ rest) = .ok (ps.map (·.2), rest) :=
  decodeSubsets_of_alone t ps h rest

/-- Decoding together = decoding alone (index form of DESIGN 6): position by position. -/
theorem C06_together_eq_alone (t : List Desc) (bs : List Bits) (outs : List SubsetOut)
    (hlen : bs.length = outs.length)
    (h : ∀ i (h1 : i < bs.length) (h2 : i < outs.length), decodeSubset t bs[i] = .ok (outs[i], []))
    (rest : Bits) :
    decodeSubsets t bs.length (bs.flatten ++ rest) = .ok (outs, rest) := by
  have hp := C06_together_eq_alone_pairs t (bs.zip outs) (fun p hp => by
    obtain ⟨i, hi, rfl⟩ := List.mem_iff_getElem.mp hp
    simp only [List.length_zip] at hi
    simp only [List.getElem_zip]
    exact h i (by omega) (by omega)) rest
  have h1 : (bs.zip outs).map (·.1) = bs := List.map_fst_zip (by omega)
  have h2 : (bs.zip outs).map (·.2) = outs := List.map_snd_zip (by omega)
  have h3 : (bs.zip outs).length = bs.length := by simp only [List.length_zip]; omega
  rw [h1, h2, h3] at hp
  exact hp

/-- The same for `decodeData` with the compression flag off. -/
theorem C06_decodeData_together_eq_alone (t : List Desc) (ps : List (Bits × SubsetOut))
    (h : ∀ p ∈ ps, decodeData t false 1 p.1 = .ok ([p.2], [])) (rest : Bits) :
    decodeData t false ps.length ((ps.map (·.1)).flatten ++ rest) = .ok (ps.map (·.2), rest) := by
  simp only [decodeData, Bool.false_eq_true, if_false]
  refine decodeSubsets_of_alone t ps (fun p hp => ?_) rest
  have := h p hp
  simp only [decodeData, Bool.false_eq_true, if_false, decodeSubsets] at this
  cases h1 : decodeSubset t p.1 with
  | error e => rw [h1] at this; cases this
  | ok q =>
    obtain ⟨o, r⟩ := q
    rw [h1] at this
    simp only at this
    cases this
    rfl

/-- What is obtained for a subset does not depend on which subsets precede (or follow) it: a
    successful run over `n` subsets splits the input into `n` consecutive segments, and the output at
    each position is what `decodeSubset` gives when run ALONE on the segment of that position
    (consuming all of it).  `ps` pairs each consumed segment with the output of its position. -/
theorem C06_subset_independent_of_predecessors (t : List Desc) (n : Nat) (bits : Bits)
    (outs : List SubsetOut) (rest : Bits) (h : decodeSubsets t n bits = .ok (outs, rest)) :
    ∃ ps : List (Bits × SubsetOut), ps.length = n ∧ ps.map (·.2) = outs ∧
      bits = (ps.map (·.1)).flatten ++ rest ∧ ∀ p ∈ ps, decodeSubset t p.1 = .ok (p.2, []) :=
  decodeSubsets_segments t n bits outs rest h

/-- Position by position: the same subset bits give the same output whatever the histories.  If
    two runs (different messages, different numbers of subsets) both succeed and the segment
    consumed at position `i` of the first equals the segment consumed at position `j` of the
    second, the outputs at these positions are equal.  (Segments as delivered by
    `C06_subset_independent_of_predecessors`.) -/
theorem C06_same_segment_same_output (t : List Desc) (ps qs : List (Bits × SubsetOut))
    (hp : ∀ p ∈ ps, decodeSubset t p.1 = .ok (p.2, [])) (hq : ∀ q ∈ qs, decodeSubset t q.1 = .ok (q.2, []))
    (i j : Nat) (hi : i < ps.length) (hj : j < qs.length) (hseg : ps[i].1 = qs[j].1) :
    ps[i].2 = qs[j].2 := by
  have h1 := hp ps[i] (List.getElem_mem hi)
  have h2 := hq qs[j] (List.getElem_mem hj)
  rw [hseg, h2] at h1
  simp only [Except.ok.injEq, Prod.mk.injEq, and_true] at h1
  exact h1.symm

/-- Permuting the subsets permutes the result: if `ps` (subsets as (bits, output) pairs, each
    decoding alone) is rearranged into ANY permutation `qs`, the concatenation of the rearranged
    bits decodes to the outputs rearranged in the same way. -/
theorem C06_permutation (t : List Desc) (ps qs : List (Bits × SubsetOut)) (hperm : qs.Perm ps)
    (h : ∀ p ∈ ps, decodeSubset t p.1 = .ok (p.2, [])) (rest : Bits) :
    decodeSubsets t ps.length ((ps.map (·.1)).flatten ++ rest) = .ok (ps.map (·.2), rest) ∧
    decodeSubsets t qs.length ((qs.map (·.1)).flatten ++ rest) = .ok (qs.map (·.2), rest) :=
  ⟨decodeSubsets_of_alone t ps h rest,
   decodeSubsets_of_alone t qs (fun q hq => h q (hperm.mem_iff.mp hq)) rest⟩

/-- Index form: for ANY list of positions `idx` (in particular any permutation of
    `0 … bs.length-1`), decoding the subsets taken in the order `idx` gives the outputs taken in
    the order `idx`. -/
theorem C06_permutation_index (t : List Desc) (bs : List Bits) (outs : List SubsetOut)
    (hlen : bs.length = outs.length)
    (h : ∀ i (h1 : i < bs.length) (h2 : i < outs.length), decodeSubset t bs[i] = .ok (outs[i], []))
    (idx : List Nat) (hidx : ∀ i ∈ idx, i < bs.length) (rest : Bits) :
    decodeSubsets t idx.length ((idx.map (bs[·]!)).flatten ++ rest) = .ok (idx.map (outs[·]!), rest) := by
  have hp := C06_together_eq_alone_pairs t (idx.map fun i => (bs[i]!, outs[i]!)) (fun p hp => by
    obtain ⟨i, hi, rfl⟩ := List.mem_map.mp hp
    have h1 := hidx i hi
    have h2 : i < outs.length := by omega
    simp only [getElem!_pos bs i h1, getElem!_pos outs i h2]
    exact h i h1 h2) rest
  simpa [List.map_map, Function.comp_def] using hp

/-- Encoding together = encoding alone.  `ts` lists, per subset, (values, report, data bits) such
    that encoding that subset ALONE gives that report (labels, links) and those bits; then encoding
    all of them together gives the same reports in order and the concatenation of the bits. -/
theorem C06_encode_together_eq_alone (t : List Desc) (ts : List (List Val × SubsetOut × Bits))
    (h : ∀ x ∈ ts, encodeData t false [x.1] = .ok ([x.2.1], x.2.2)) :
    encodeData t false (ts.map (·.1)) = .ok (ts.map (·.2.1), (ts.map (·.2.2)).flatten) := by
  have h' : ∀ x ∈ ts.map (fun x => (x.1, x.2.1, x.2.2.reverse)),
      encodeSubset t x.1 [] = .ok (x.2.1, x.2.2) := by
    intro y hy
    obtain ⟨x, hx, rfl⟩ := List.mem_map.mp hy
    have := h x hx
    obtain ⟨v, o', w⟩ := x
    simp only [encodeData, Bool.false_eq_true, if_false, encodeSubsets] at this
    simp only
    cases h1 : encodeSubset t v [] with
    | error e => rw [h1] at this; cases this
    | ok q =>
      obtain ⟨o, b⟩ := q
      rw [h1] at this
      simp only at this
      cases this
      simp
  have := encodeSubsets_of_alone t _ h' []
  simp only [List.map_map, Function.comp_def] at this
  simp only [encodeData, Bool.false_eq_true, if_false, this]
  simp only [List.append_nil, List.reverse_flatten, List.map_reverse, List.reverse_reverse, List.map_map,
    Function.comp_def]

/-- ... and conversely, whenever the subsets encode together, each encodes alone, the reports are
    the per-subset reports and the bits are the concatenation of the per-subset bits: the wire
    image of a subset depends only on the template and on its own values. -/
theorem C06_encode_together_implies_alone (t : List Desc) (vs : List (List Val)) (outs : List SubsetOut)
    (bits : Bits) (h : encodeData t false vs = .ok (outs, bits)) :
    ∃ ts : List (List Val × SubsetOut × Bits), ts.map (·.1) = vs ∧ ts.map (·.2.1) = outs ∧
      bits = (ts.map (·.2.2)).flatten ∧ ∀ x ∈ ts, encodeData t false [x.1] = .ok ([x.2.1], x.2.2) := by
  simp only [encodeData, Bool.false_eq_true, if_false] at h
  cases h1 : encodeSubsets t vs [] with
  | error e => rw [h1] at h; cases h
  | ok q =>
    obtain ⟨o, b⟩ := q
    rw [h1] at h
    simp only at h
    cases h
    obtain ⟨ts, hvs, hos, hb, hf⟩ := encodeSubsets_alone_of t vs [] _ _ h1
    refine ⟨ts.map (fun x => (x.1, x.2.1, x.2.2.reverse)), ?_, ?_, ?_, ?_⟩
    · simpa [List.map_map, Function.comp_def] using hvs
    · simpa [List.map_map, Function.comp_def] using hos
    · rw [hb]
      simp only [List.append_nil, List.reverse_flatten, List.map_reverse, List.reverse_reverse, List.map_map,
        Function.comp_def]
    · intro y hy
      obtain ⟨x, hx, rfl⟩ := List.mem_map.mp hy
      simp only [encodeData, Bool.false_eq_true, if_false, encodeSubsets, hf x hx]

/-- The writer-side frame property used above, as a property of its own: what the encoder reports
    and writes for a subset does not depend on what was written before it. -/
theorem C06_encodeSubset_independent_of_written (t : List Desc) (v : List Val) (pre : Bits) (o : SubsetOut) (b : Bits) :
    encodeSubset t v pre = .ok (o, b) ↔ ∃ b0, encodeSubset t v [] = .ok (o, b0) ∧ b = b0 ++ pre :=
  encodeSubset_pre t v pre o b

/-! ### non-vacuity: a concrete template and concrete subsets

  `001001` (8 bits), delayed replication `101000 031001` of `001001`, `201130` (width + 2),
  `001001` again (now 10 bits), `201000`.  Subset A has 2 repetitions (42 bits), subset B none
  (26 bits): the two subsets differ in structure. -/

def C06ex.e8 : Elem := { id := 1001, kind := .numeric, nbits := 8, scale := 0, ref := 0 }
def C06ex.fac : Elem := { id := 31001, kind := .numeric, nbits := 8, scale := 0, ref := 0 }
def C06ex.tmpl : List Desc :=
  [.elem e8, .delayedRep 101000 (.elem fac) [.elem e8], .op 201130, .elem e8, .op 201000]
def C06ex.bitsA : Bits := toBits 8 5 ++ toBits 8 2 ++ toBits 8 7 ++ toBits 8 9 ++ toBits 10 300
def C06ex.bitsB : Bits := toBits 8 6 ++ toBits 8 0 ++ toBits 10 1000
def C06ex.outA : SubsetOut :=
  { descs := [.plain e8, .plain fac, .plain e8, .plain e8, .plain e8],
    vals := [.int 5, .int 2, .int 7, .int 9, .int 300], links := [] }
def C06ex.outB : SubsetOut :=
  { descs := [.plain e8, .plain fac, .plain e8], vals := [.int 6, .int 0, .int 1000], links := [] }

open C06ex in private theorem C06ex.alone : ∀ p ∈ [(bitsA, outA), (bitsB, outB)], decodeSubset tmpl p.1 = .ok (p.2, []) := by
  intro p hp
  simp only [List.mem_cons, List.not_mem_nil, or_false] at hp
  rcases hp with rfl | rfl <;> decide +kernel

open C06ex in
/-- the hypotheses of `C06_together_eq_alone_pairs` / `C06_permutation` are satisfiable, and the
    conclusion is the expected one (A then B; B then A) -/
example : decodeSubsets tmpl 2 (bitsA ++ bitsB ++ [true]) = .ok ([outA, outB], [true]) ∧
    decodeSubsets tmpl 2 (bitsB ++ bitsA ++ [true]) = .ok ([outB, outA], [true]) := by
  have h := C06_permutation tmpl [(bitsA, outA), (bitsB, outB)] [(bitsB, outB), (bitsA, outA)]
    (List.Perm.swap _ _ _) C06ex.alone [true]
  simpa using h

open C06ex in
example : decodeSubsets tmpl 2 (bitsA ++ bitsB) = .ok ([outA, outB], []) := by
  have := C06_together_eq_alone tmpl [bitsA, bitsB] [outA, outB] rfl (fun i h1 h2 => by
    have : i = 0 ∨ i = 1 := by simp at h1; omega
    rcases this with rfl | rfl <;> simp only [List.getElem_cons_zero, List.getElem_cons_succ] <;> decide +kernel) []
  simpa using this

open C06ex in
/-- encoder: the two subsets alone, and together -/
example : encodeData tmpl false [outA.vals, outB.vals] = .ok ([outA, outB], bitsA ++ bitsB) := by
  have := C06_encode_together_eq_alone tmpl [(outA.vals, outA, bitsA), (outB.vals, outB, bitsB)] (by
    intro x hx
    simp only [List.mem_cons, List.not_mem_nil, or_false] at hx
    rcases hx with rfl | rfl <;> decide +kernel)
  simpa using this

end Bufr
