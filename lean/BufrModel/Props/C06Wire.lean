/-
  C06 — the hierarchical structure of a subset (the wiring pass of `templatedata.py`, model `View/Wire.lean`)
  depends only on the template and on the flat lists of THAT subset, and the encoder treats permuted subsets as
  it treats the subsets in order.

  `wireAll t false outs` (uncompressed) is `outs.mapM (wire t)`: every subset is wired from the empty state
  `{}` (`wireRaw`), which mirrors `_wire_all_subsets` re-creating `index_to_node`, `next_index`, the 204 stack,
  the 221 count, the three waiting flags and (after the fix of finding F4b) forgetting the three meaning nodes for
  every subset.  The tie to the implementation is the oracle of `harness/props/c06.py` (nested JSON of every subset
  together = alone; a failure together iff a failure of some subset alone, same error family).
-/
import BufrModel.Lemmas.WireSubsets
import BufrModel.Lemmas.FrameData
import BufrModel.Props.C06
namespace Bufr

/-! ### wiring -/

/-- Wiring together = wiring alone.  `ps` lists the subsets as (flat lists, node tree) pairs: if every subset is
    wired ALONE to its tree, the message of all of them is wired to exactly these trees, in that order. -/
theorem C06_wire_together_eq_alone (t : List Desc) (ps : List (SubsetOut × List Node))
    (h : ∀ p ∈ ps, wire t p.1 = .ok p.2) :
    wireAll t false (ps.map (·.1)) = .ok (ps.map (·.2)) := by
  simp only [wireAll, Bool.false_eq_true, if_false]
  exact c06_mapM_of_pairs (wire t) ps h

/-- The wire of subset `i` depends only on `(t, outs[i])`: whenever the message is wired, the tree at every position
    is what `wire t` gives for the flat lists of that position ALONE (whatever the other subsets are, however
    many there are, wherever the subset stands). -/
theorem C06_wire_per_subset (t : List Desc) (outs : List SubsetOut) (trees : List (List Node))
    (h : wireAll t false outs = .ok trees) :
    trees.length = outs.length ∧
      ∀ i (h1 : i < outs.length) (h2 : i < trees.length), wire t outs[i] = .ok trees[i] := by
  simp only [wireAll, Bool.false_eq_true, if_false] at h
  obtain ⟨ps, h1, h2, h3⟩ := c06_mapM_pairs (wire t) outs trees h
  subst h1 h2
  refine ⟨by simp, fun i hi1 hi2 => ?_⟩
  simp only [List.length_map] at hi1
  have := h3 ps[i] (List.getElem_mem hi1)
  simpa using this

/-- Failure is per subset as well: the message fails to wire iff some subset fails to wire alone, and the error
    reported is that of the FIRST such subset (the subsets in front of it all wire alone). -/
theorem C06_wire_fails_iff_some_subset_fails (t : List Desc) (outs : List SubsetOut) (e : Err) :
    wireAll t false outs = .error e ↔
      ∃ pre o post, outs = pre ++ o :: post ∧ wire t o = .error e ∧ ∀ a ∈ pre, ∃ ns, wire t a = .ok ns := by
  simp only [wireAll, Bool.false_eq_true, if_false]
  constructor
  · exact c06_mapM_error (wire t) outs e
  · rintro ⟨pre, o, post, rfl, h2, h3⟩
    exact c06_mapM_error_of (wire t) pre o post e h3 h2

/-- Permuting (or selecting, or repeating) the subsets permutes the trees: for ANY list of positions `idx`. -/
theorem C06_wire_permutation_index (t : List Desc) (outs : List SubsetOut) (trees : List (List Node))
    (h : wireAll t false outs = .ok trees) (idx : List Nat) (hidx : ∀ i ∈ idx, i < outs.length) :
    wireAll t false (idx.map (outs[·]!)) = .ok (idx.map (trees[·]!)) := by
  obtain ⟨hlen, hw⟩ := C06_wire_per_subset t outs trees h
  have := C06_wire_together_eq_alone t (idx.map fun i => (outs[i]!, trees[i]!)) (fun p hp => by
    obtain ⟨i, hi, rfl⟩ := List.mem_map.mp hp
    have h1 := hidx i hi
    have h2 : i < trees.length := by omega
    simp only [getElem!_pos outs i h1, getElem!_pos trees i h2]
    exact hw i h1 h2)
  simpa [List.map_map, Function.comp_def] using this

/-- Decoding and wiring in one statement (labels, values, links AND hierarchical structure): if every subset's bits
    decode alone to flat lists that wire alone to a tree, then the concatenation decodes to these flat lists and
    wires to these trees, position by position. -/
theorem C06_hierarchy_together_eq_alone (t : List Desc) (ps : List (Bits × SubsetOut × List Node))
    (hd : ∀ p ∈ ps, decodeSubset t p.1 = .ok (p.2.1, [])) (hw : ∀ p ∈ ps, wire t p.2.1 = .ok p.2.2) (rest : Bits) :
    decodeSubsets t ps.length ((ps.map (·.1)).flatten ++ rest) = .ok (ps.map (·.2.1), rest) ∧
    wireAll t false (ps.map (·.2.1)) = .ok (ps.map (·.2.2)) := by
  constructor
  · have := decodeSubsets_of_alone t (ps.map fun p => (p.1, p.2.1)) (fun q hq => by
      obtain ⟨p, hp, rfl⟩ := List.mem_map.mp hq
      exact hd p hp) rest
    simpa [List.map_map, Function.comp_def] using this
  · have := C06_wire_together_eq_alone t (ps.map fun p => (p.2.1, p.2.2)) (fun q hq => by
      obtain ⟨p, hp, rfl⟩ := List.mem_map.mp hq
      exact hw p hp)
    simpa [List.map_map, Function.comp_def] using this

/-! ### encoder: any order -/

/-- Encoder, permutation (index form): if every subset encodes ALONE to a report (labels, links) and bits, then
    for ANY list of positions `idx` the subsets taken in that order encode to the reports and the bits taken in
    that order — labels and links of a subset do not depend on the subsets around it. -/
theorem C06_encode_permutation_index (t : List Desc) (ts : List (List Val × SubsetOut × Bits))
    (h : ∀ x ∈ ts, encodeData t false [x.1] = .ok ([x.2.1], x.2.2))
    (idx : List Nat) (hidx : ∀ i ∈ idx, i < ts.length) :
    encodeData t false (idx.map fun i => ts[i]!.1) =
      .ok (idx.map (fun i => ts[i]!.2.1), (idx.map fun i => ts[i]!.2.2).flatten) := by
  have := C06_encode_together_eq_alone t (idx.map (ts[·]!)) (fun x hx => by
    obtain ⟨i, hi, rfl⟩ := List.mem_map.mp hx
    have h1 := hidx i hi
    rw [getElem!_pos ts i h1]
    exact h _ (List.getElem_mem h1))
  simpa [List.map_map, Function.comp_def] using this

/-! ### non-vacuity: two subsets whose layouts COMPENSATE each other

  `101000 031001 001001` (10 bits), `101000 031001 012001` (12 bits), `223000`, bitmap `101000 031001 031031`,
  markers `101000 031001 223255`.  Subset A has factors (1, 2), subset B (2, 1): five descriptors below the back
  reference boundary in both, a bitmap `0 1 0` of three bits in both, equal attribute links `11 ↦ 2`, `12 ↦ 4` —
  but the descriptor at position 2 is the factor 031001 (8 bits) in A and 001001 (10 bits) in B, so the first
  marker is `T31001` in A and `T01001` in B.  (The class of inputs seeded/C06-1 needs: anything remembered per
  message under the key (boundary, bitmap length) mixes the two up.) -/

namespace C06wx
def e10 : Elem := { id := 1001, kind := .numeric, nbits := 10, scale := 0, ref := 0 }
def e12 : Elem := { id := 12001, kind := .numeric, nbits := 12, scale := 1, ref := 0 }
def fac : Elem := { id := 31001, kind := .numeric, nbits := 8, scale := 0, ref := 0 }
def dpi : Elem := { id := 31031, kind := .codeflag, nbits := 1, scale := 0, ref := 0 }
def tmpl : List Desc :=
  [.delayedRep 101000 (.elem fac) [.elem e10], .delayedRep 101000 (.elem fac) [.elem e12], .op 223000,
   .delayedRep 101000 (.elem fac) [.elem dpi], .delayedRep 101000 (.elem fac) [.op 223255]]
def valsA : List Val :=
  [.int 1, .int 7, .int 2, .num 2501 1, .num 2602 1, .int 0, .int 3, .int 0, .int 1, .int 0, .int 2, .int 9, .num 2600 1]
def valsB : List Val :=
  [.int 2, .int 7, .int 8, .int 1, .num 2501 1, .int 0, .int 3, .int 0, .int 1, .int 0, .int 2, .int 9, .num 2600 1]
def outA : SubsetOut :=
  { descs := [.plain fac, .plain e10, .plain fac, .plain e12, .plain e12, .oper 223000, .plain fac, .plain dpi, .plain dpi,
              .plain dpi, .plain fac, .marker 223255 fac, .marker 223255 e12],
    vals := valsA, links := [(11, 2), (12, 4)] }
def outB : SubsetOut :=
  { descs := [.plain fac, .plain e10, .plain e10, .plain fac, .plain e12, .oper 223000, .plain fac, .plain dpi, .plain dpi,
              .plain dpi, .plain fac, .marker 223255 e10, .marker 223255 e12],
    vals := valsB, links := [(11, 2), (12, 4)] }
def bitsA : Bits :=
  toBits 8 1 ++ toBits 10 7 ++ toBits 8 2 ++ toBits 12 2501 ++ toBits 12 2602 ++ toBits 8 3 ++ [false, true, false] ++
  toBits 8 2 ++ toBits 8 9 ++ toBits 12 2600
def bitsB : Bits :=
  toBits 8 2 ++ toBits 10 7 ++ toBits 10 8 ++ toBits 8 1 ++ toBits 12 2501 ++ toBits 8 3 ++ [false, true, false] ++
  toBits 8 2 ++ toBits 10 9 ++ toBits 12 2600
/-- B with a missing first replication factor: the wiring pass cannot take `range(None)` -/
def outBad : SubsetOut := { outB with vals := .missing :: valsB.drop 1 }

def isOk {α : Type} : CM α → Bool
  | .ok _ => true
  | .error _ => false
def isOther {α : Type} : CM α → Bool
  | .error .other => true
  | _ => false
theorem ok_of_isOk {α : Type} (x : CM α) (h : isOk x = true) : ∃ a, x = .ok a := by
  cases x with
  | ok a => exact ⟨a, rfl⟩
  | error e => cases h
theorem other_of_isOther {α : Type} (x : CM α) (h : isOther x = true) : x = .error .other := by
  cases x with
  | ok a => cases h
  | error e => cases e <;> first | rfl | cases h

theorem decA : decodeSubset tmpl bitsA = .ok (outA, []) := by decide +kernel
theorem decB : decodeSubset tmpl bitsB = .ok (outB, []) := by decide +kernel
theorem encA : encodeData tmpl false [valsA] = .ok ([outA], bitsA) := by decide +kernel
theorem encB : encodeData tmpl false [valsB] = .ok ([outB], bitsB) := by decide +kernel
theorem wireA : ∃ tA, wire tmpl outA = .ok tA := ok_of_isOk _ (by decide +kernel)
theorem wireB : ∃ tB, wire tmpl outB = .ok tB := ok_of_isOk _ (by decide +kernel)
theorem wireBad : wire tmpl outBad = .error .other := other_of_isOther _ (by decide +kernel)
end C06wx

open C06wx in
/-- the two trees hold the thirteen flat indices each, in order; the trees themselves differ in shape (one and two
    members in the first replication) -/
example : (match wire tmpl outA with | .ok ns => idxList ns | .error _ => []) = List.range 13 ∧
    (match wire tmpl outB with | .ok ns => idxList ns | .error _ => []) = List.range 13 := by decide +kernel

open C06wx in
/-- `C06_wire_together_eq_alone`, `C06_wire_per_subset`, `C06_wire_permutation_index`: hypotheses satisfiable, the
    conclusions are the expected ones (A, B together; B, A, B) -/
example : ∃ tA tB, wire tmpl outA = .ok tA ∧ wire tmpl outB = .ok tB ∧
    wireAll tmpl false [outA, outB] = .ok [tA, tB] ∧ wireAll tmpl false [outB, outA, outB] = .ok [tB, tA, tB] := by
  obtain ⟨tA, hA⟩ := wireA
  obtain ⟨tB, hB⟩ := wireB
  have h := C06_wire_together_eq_alone tmpl [(outA, tA), (outB, tB)] (by
    intro p hp
    simp only [List.mem_cons, List.not_mem_nil, or_false] at hp
    rcases hp with rfl | rfl
    · exact hA
    · exact hB)
  have h' : wireAll tmpl false [outA, outB] = .ok [tA, tB] := by simpa using h
  have hp := C06_wire_permutation_index tmpl _ _ h' [1, 0, 1] (by decide)
  have hs := (C06_wire_per_subset tmpl _ _ h').2 1 (by simp) (by simp)
  exact ⟨tA, tB, hA, by simpa using hs, h', by simpa using hp⟩

open C06wx in
/-- `C06_wire_fails_iff_some_subset_fails`: A wires, the damaged B does not, so A, damaged B, B fails with the error of
    the damaged subset; and from the failure of the whole the failing subset is recovered -/
example : wireAll tmpl false [outA, outBad, outB] = .error .other ∧
    ∃ pre o post, [outA, outBad, outB] = pre ++ o :: post ∧ wire tmpl o = .error .other := by
  obtain ⟨tA, hA⟩ := wireA
  have h : wireAll tmpl false [outA, outBad, outB] = .error .other :=
    (C06_wire_fails_iff_some_subset_fails tmpl _ _).mpr ⟨[outA], outBad, [outB], rfl, wireBad, by
      intro a ha
      simp only [List.mem_cons, List.not_mem_nil, or_false] at ha
      subst ha
      exact ⟨tA, hA⟩⟩
  obtain ⟨pre, o, post, h1, h2, _⟩ := (C06_wire_fails_iff_some_subset_fails tmpl _ _).mp h
  exact ⟨h, pre, o, post, h1, h2⟩

open C06wx in
/-- `C06_hierarchy_together_eq_alone`: bits of B then A decode to (B, A) and wire to (tree of B, tree of A) -/
example : ∃ tA tB, decodeSubsets tmpl 2 (bitsB ++ bitsA ++ [true]) = .ok ([outB, outA], [true]) ∧
    wireAll tmpl false [outB, outA] = .ok [tB, tA] := by
  obtain ⟨tA, hA⟩ := wireA
  obtain ⟨tB, hB⟩ := wireB
  have h := C06_hierarchy_together_eq_alone tmpl [(bitsB, outB, tB), (bitsA, outA, tA)]
    (by
      intro p hp
      simp only [List.mem_cons, List.not_mem_nil, or_false] at hp
      rcases hp with rfl | rfl
      · exact decB
      · exact decA)
    (by
      intro p hp
      simp only [List.mem_cons, List.not_mem_nil, or_false] at hp
      rcases hp with rfl | rfl
      · exact hB
      · exact hA) [true]
  exact ⟨tA, tB, by simpa using h.1, by simpa using h.2⟩

open C06wx in
/-- `C06_encode_permutation_index`: B, A, B encode to the reports and bits of B, A, B -/
example : encodeData tmpl false [valsB, valsA, valsB] = .ok ([outB, outA, outB], bitsB ++ bitsA ++ bitsB) := by
  have := C06_encode_permutation_index tmpl [(valsA, outA, bitsA), (valsB, outB, bitsB)] (by
    intro x hx
    simp only [List.mem_cons, List.not_mem_nil, or_false] at hx
    rcases hx with rfl | rfl
    · exact encA
    · exact encB) [1, 0, 1] (by decide)
  simpa using this

end Bufr
