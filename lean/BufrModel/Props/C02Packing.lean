/-
  C02 — encoding produces the canonical FM-94 bit stream.
  This file: descriptor F/X/Y packing (section 3, `process_unexpanded_descriptors`).
  `packDescriptor` / `unpackDescriptor` are in `Spec/Quant.lean`.
-/
import BufrModel.Spec.Quant
import BufrModel.Lemmas.Quant
namespace Bufr

/-- A descriptor `id = F·100000 + X·1000 + Y` with F < 4, X < 64, Y < 256 is written as F on 2 bits,
    X on 6 bits, Y on 8 bits; the 16 bits are the big-endian number `F·2^14 + X·2^8 + Y`, and reading
    2 / 6 / 8 bits and recombining decimally gives `id` back, leaving the reader just after them. -/
theorem C02_descriptor_packing (F X Y : Nat) (hF : F < 4) (hX : X < 64) (hY : Y < 256)
    (pre suf : Bits) :
    packDescriptor pre (F * 100000 + X * 1000 + Y) = .ok (pre ++ toBits 16 (F * 2 ^ 14 + X * 2 ^ 8 + Y)) ∧
    toBits 16 (F * 2 ^ 14 + X * 2 ^ 8 + Y) = toBits 2 F ++ toBits 6 X ++ toBits 8 Y ∧
    unpackDescriptor (toBits 16 (F * 2 ^ 14 + X * 2 ^ 8 + Y) ++ suf) = .ok (F * 100000 + X * 1000 + Y, suf) := by
  have hf : fOf (F * 100000 + X * 1000 + Y) = F := by unfold fOf; omega
  have hx : xOf (F * 100000 + X * 1000 + Y) = X := by unfold xOf; omega
  have hy : yOf (F * 100000 + X * 1000 + Y) = Y := by unfold yOf; omega
  have hsplit : toBits 16 (F * 2 ^ 14 + X * 2 ^ 8 + Y) = toBits 2 F ++ toBits 6 X ++ toBits 8 Y :=
    toBits_fxy F X Y hF hX hY
  refine ⟨?_, hsplit, ?_⟩
  · simp only [packDescriptor, hf, hx, hy, bind, Except.bind]
    have w1 := writeUInt_ofNat pre 2 F (by decide) (by omega)
    have w2 := writeUInt_ofNat (pre ++ toBits 2 F) 6 X (by decide) (by omega)
    have w3 := writeUInt_ofNat (pre ++ toBits 2 F ++ toBits 6 X) 8 Y (by decide) (by omega)
    simp only [Int.ofNat_eq_natCast] at w1 w2 w3
    rw [w1]; simp only []
    rw [w2]; simp only []
    rw [w3, hsplit]
    simp only [List.append_assoc]
  · rw [hsplit]
    simp only [unpackDescriptor, List.append_assoc, bind, Except.bind, pure, Except.pure,
      readUInt_toBits 2 F _ (by decide) (by omega), readUInt_toBits 6 X _ (by decide) (by omega),
      readUInt_toBits 8 Y _ (by decide) (by omega)]

/-- the same, stated for a descriptor id -/
theorem C02_descriptor_packing_id (id : Nat) (h : LegalFXY id) (pre suf : Bits) :
    ∃ body, packDescriptor pre id = .ok (pre ++ body) ∧ body.length = 16 ∧
      body = toBits 16 (fOf id * 2 ^ 14 + xOf id * 2 ^ 8 + yOf id) ∧
      unpackDescriptor (body ++ suf) = .ok (id, suf) := by
  obtain ⟨hF, hX, hY⟩ := h
  have hid : fOf id * 100000 + xOf id * 1000 + yOf id = id := by
    unfold fOf xOf yOf at *; omega
  obtain ⟨h1, _, h3⟩ := C02_descriptor_packing (fOf id) (xOf id) (yOf id) hF hX hY pre suf
  rw [hid] at h1 h3
  exact ⟨_, h1, toBits_length _ _, rfl, h3⟩

/-- The whole descriptor list of section 3: 16 bits per descriptor, in order, and reading
    `ids.length` descriptors back returns the list and stops exactly after it. -/
theorem C02_descriptor_list_packing (ids : List Nat) (h : ∀ id ∈ ids, LegalFXY id) (pre suf : Bits) :
    ∃ body, packDescriptors pre ids = .ok (pre ++ body) ∧ body.length = 16 * ids.length ∧
      body = (ids.map fun id => toBits 16 (fOf id * 2 ^ 14 + xOf id * 2 ^ 8 + yOf id)).flatten ∧
      unpackDescriptors ids.length (body ++ suf) = .ok (ids, suf) := by
  induction ids generalizing pre with
  | nil => exact ⟨[], by simp [packDescriptors], rfl, rfl, rfl⟩
  | cons id ids ih =>
    obtain ⟨b1, hw1, hl1, he1, _⟩ := C02_descriptor_packing_id id (h id (by simp)) pre suf
    obtain ⟨b2, hw2, hl2, he2, hr2⟩ := ih (fun x hx => h x (by simp [hx])) (pre ++ b1)
    obtain ⟨b1', _, _, he1', hr1⟩ := C02_descriptor_packing_id id (h id (by simp)) pre (b2 ++ suf)
    refine ⟨b1 ++ b2, ?_, ?_, ?_, ?_⟩
    · simp only [packDescriptors, hw1, hw2, List.append_assoc]
    · simp only [List.length_append, List.length_cons, hl1, hl2]; omega
    · simp only [List.map_cons, List.flatten_cons, ← he1, ← he2]
    · have hr1' : unpackDescriptor (b1 ++ (b2 ++ suf)) = .ok (id, b2 ++ suf) := by
        rw [he1, ← he1']; exact hr1
      simp only [List.length_cons, unpackDescriptors, List.append_assoc, hr1', hr2]

/-- A descriptor whose X or Y does not fit (only possible for an id that is not a legal FM-94
    descriptor, e.g. 001300) is refused, not truncated. -/
theorem C02_descriptor_packing_refuses (pre : Bits) (id : Nat)
    (h : 4 ≤ fOf id ∨ 64 ≤ xOf id ∨ 256 ≤ yOf id) : packDescriptor pre id = .error .other := by
  unfold packDescriptor
  by_cases h1 : 4 ≤ fOf id
  · have : writeUInt pre (fOf id) 2 = .error .other :=
      writeUInt_nat_unfit pre (fOf id) 2 (by simpa using h1)
    simp only [this, bind, Except.bind]
  · rw [writeUInt_ofNat' pre 2 (fOf id) (by decide) (by simpa using h1)]
    simp only [bind, Except.bind]
    by_cases h2 : 64 ≤ xOf id
    · have : writeUInt (pre ++ toBits 2 (fOf id)) (xOf id) 6 = .error .other :=
        writeUInt_nat_unfit _ (xOf id) 6 (by simpa using h2)
      simp only [this]
    · rw [writeUInt_ofNat' _ 6 (xOf id) (by decide) (by simpa using h2)]
      simp only []
      have h3 : 256 ≤ yOf id := by omega
      exact writeUInt_nat_unfit _ (yOf id) 8 (by simpa using h3)

/-- non-vacuity: 301011 -> 11 000001 00001011; 001300 is refused -/
example : packDescriptor [] 301011 = .ok (toBits 16 0xC10B) ∧
    unpackDescriptor (toBits 16 0xC10B ++ [true]) = .ok (301011, [true]) ∧
    packDescriptor [] 1300 = .error .other ∧
    (∀ id ∈ [301011, 1001, 101000, 31001, 222000, 63255], LegalFXY id) := by decide

end Bufr
